#!/usr/bin/env python3
"""Write the prompts for a wave of seeding sub-agents.

  tools/mk_seed_prompts.py <dir> [<earlier wave dir> ...]     (e.g. /tmp/seed9 /tmp/seed8)

(earlier wave dirs: titles of deliveries not yet kept under /verif/seeded are
read from <earlier>/<P>/seeded/N.meta.json)

For every claimed property: <dir>/prompt_<P>.txt and a scratch worktree of
/repo at <dir>/<P>. The prompt holds ONLY the property text from
properties.jsonl and the titles of the changes tried in earlier waves (from
/verif/seeded/*/meta.json) - nothing else from /verif.
"""
import glob, json, os, subprocess, sys

VERIF = os.path.dirname(os.path.dirname(os.path.abspath(__file__)))
PROPS = ["C01", "C02", "C03", "C04", "C05", "C06", "C07", "C08", "C09", "C10", "C12", "C14", "C16", "C17", "C18", "C19", "C20"]

HEAD = """You are helping to evaluate a verification effort by playing the adversary. You get ONE semantic property of the Go library c2FmZQ/ech (TLS Encrypted Client Hello, split-mode client-facing server; DoH resolver; dialer; HTTP transport; Cloudflare publisher) and your own scratch git worktree of the library at {wt}. Your task: produce up to THREE different, realistic changes to the library (each a small patch a distracted maintainer could plausibly commit: a refactoring slip, an off-by-one, a dropped check, a wrong operator, a reordered statement, a stale variable, two sites that each look fine alone ...) such that each change

  1. still compiles,
  2. still passes the library's existing test suite, unedited (run it, see below),
  3. BREAKS the property below, and
  4. needs something specific to manifest - a particular interleaving, a fault/cut/stall at a particular point, a multi-step sequence of operations, an unusual input or configuration, or two cooperating sites - NOT something every ordinary use would expose at once. Prefer subtle over blatant; make the three changes exercise different parts of the property. At least one of the three should depend on timing, interleaving of goroutines, a fault (error, cut, stall, cancellation) at a particular point, or state carried across calls/connections rather than on a single unusual input.

For each change also write a demonstration: a Go test file (package ech / dns / publish as appropriate, placed inside the worktree so it can use unexported helpers if useful) or a small program that FAILS with the change applied and PASSES on the unchanged worktree. Confirm both directions yourself.

Rules
- Work ONLY inside {wt} (it is a git worktree; `git diff` shows your change, `git checkout -- .` restores the pristine state). Do not look at or use anything under /verif, and do not touch /repo itself. There is no network.
- The library's tests: `cd {wt} && GOFLAGS=-mod=mod GOPROXY=off go test -vet=off -count=1 ./...` (module root) and the same in {wt}/publish for the publisher. Do NOT set GOSUMDB=off with the default `go` (it breaks the automatic toolchain switch). They take a few seconds. Your demonstration tests can be run the same way with `-run YourTestName`. (If you need testing/synctest or crypto/hpke from a newer toolchain you may instead run `GOTOOLCHAIN=local GOFLAGS=-mod=mod GOPROXY=off GOSUMDB=off go1.26.8 test ...`.)
- Files named verif_*.go and the single line `verifHookClient(client)` in dns/resolve.go are build-tag-guarded test seams; leave them alone.
- Deliverables, all inside {wt}/seeded/: for change N (1..3): `N.patch.diff` (output of `git diff` for the library change ONLY, without the demo file, applicable with `git apply` to the pristine worktree), `N.demo_test.go.txt` (the demonstration source; say in its first comment line where it must be placed and how to run it) and `N.meta.json` with keys: property, title, what_it_breaks, needs_to_manifest (what interleaving/fault/input is required), files_touched, how_confirmed (commands you ran and their outcome with and without the patch). Leave the worktree itself in the pristine state (no uncommitted library changes) when you finish.
- Final reply: a short list of the changes you delivered (one paragraph each) and anything you could not confirm.

THE PROPERTY
Property {id}: {title}

Statement: {statement}

Quantified over: {quant}

Why the existing tests cannot settle it: {why}

Code anchors: files {files}; mechanisms: {mech}

ALREADY TRIED BY OTHERS (do not repeat these ideas or close variants of them; find genuinely different ways to break the property - other code sites, other clauses of the statement, other kinds of trigger):
{tried}Do not use git stash (it is shared between worktrees); use git diff > file, git checkout -- . and git apply. If a demonstration needs testing/synctest or the race detector say so in its first comment line (synctest: run with GOTOOLCHAIN=local GOFLAGS=-mod=mod GOPROXY=off GOSUMDB=off go1.26.8 test ... and put a '//go:build go1.25' line in it).
"""


def main():
    out = sys.argv[1]
    os.makedirs(out, exist_ok=True)
    props = {}
    for l in open(os.path.join(VERIF, "properties.jsonl")):
        d = json.loads(l)
        props[d["id"]] = d
    for P in PROPS:
        d = props[P]
        tried = []
        for m in sorted(glob.glob(os.path.join(VERIF, "seeded", P + "-*", "meta.json")), key=lambda p: int(p.split("-")[-1].split("/")[0])):
            t = json.load(open(m)).get("title")
            if t:
                tried.append("- " + " ".join(str(t).split()) + "\n")
        for extra in sys.argv[2:]:
            for m in sorted(glob.glob(os.path.join(extra, P, "seeded", "*.meta.json"))):
                try:
                    t = json.load(open(m)).get("title")
                except Exception:
                    t = None
                if t and ("- " + " ".join(str(t).split()) + "\n") not in tried:
                    tried.append("- " + " ".join(str(t).split()) + "\n")
        a = d.get("anchors", {})
        mech = "; ".join("%s (%s)" % (m.get("name"), m.get("where")) for m in a.get("mechanism", []))
        wt = os.path.join(out, P)
        text = HEAD.format(wt=wt, id=P, title=d["title"], statement=d["statement"], quant=d.get("quantifier", {}).get("text", ""),
                           why=d.get("why_tests_cant", ""), files=a.get("files", []), mech=mech, tried="".join(tried))
        open(os.path.join(out, "prompt_%s.txt" % P), "w").write(text)
        if not os.path.exists(wt):
            subprocess.run("git -C /repo worktree add -q %s HEAD" % wt, shell=True, check=True)
    print("prompts and worktrees in", out)


if __name__ == "__main__":
    main()
