#!/bin/sh
# Sensitivity experiment: apply a patch to a scratch worktree of /repo (never to
# /repo itself), make sure the library still builds and passes its own tests,
# run the named checks against that worktree, and remove the worktree.
#   tools/try_patch.sh <patch.diff> <tier> <property>...
# Output: one line per property: CAUGHT / MISSED / HARNESS(rc=2)
set -u
PATCH=$(readlink -f "$1"); TIER=$2; shift 2
ROOT=$(dirname "$(dirname "$(readlink -f "$0")")")
WT=$(mktemp -d /var/tmp/verif-wt-XXXXXX)
rmdir "$WT"
git -C /repo worktree add -q "$WT" HEAD || exit 2
cleanup() { git -C /repo worktree remove --force "$WT" >/dev/null 2>&1; rm -rf "$WT" /var/tmp/verif-alt-$$; }
trap cleanup EXIT
if ! git -C "$WT" apply "$PATCH" 2>/dev/null && ! git -C "$WT" apply -3 "$PATCH"; then echo "PATCH-DOES-NOT-APPLY $PATCH"; exit 2; fi
if [ "${SKIP_BASELINE:-0}" != 1 ]; then
  for m in . publish; do
    if ! (cd "$WT/$m" && GOFLAGS=-mod=mod GOPROXY=off go test -vet=off -count=1 -timeout 180s ./... >/var/tmp/verif-wt-test.$$ 2>&1); then
      echo "BASELINE-FAILS with patch (module $m):"; tail -15 /var/tmp/verif-wt-test.$$; rm -f /var/tmp/verif-wt-test.$$; exit 3
    fi
  done
  rm -f /var/tmp/verif-wt-test.$$
fi
for P in "$@"; do
  OUT=$(cd "$ROOT" && VERIF_REPO="$WT" VERIF_EVIDENCE_DIR=/var/tmp/verif-alt-$$/evidence VERIF_ALT_REPLAYS=/var/tmp/verif-alt-$$/replays bin/check "$P" --tier "$TIER" 2>&1)
  RC=$?
  case $RC in
    0) echo "MISSED $P";;
    1) echo "CAUGHT $P: $(echo "$OUT" | grep -B1 '^VIOLATION' | grep -v '^VIOLATION' | grep -v '^--' | head -3 | cut -c1-220 | tr '\n' '|')";;
    *) echo "HARNESS $P rc=$RC: $(echo "$OUT" | tail -5 | cut -c1-300 | tr '\n' '|')";;
  esac
done
