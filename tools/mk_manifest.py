import json
ENGINE={}
for p in ["C01","C02","C03","C04","C05","C06","C07","C08","C09","C10"]: ENGINE[p]="e1front"
for p in ["C12","C14","C16"]: ENGINE[p]="e2res"
for p in ["C17","C18"]: ENGINE[p]="e3dial"
ENGINE["C19"]="e4web"; ENGINE["C20"]="e5pub"
claimed = {
 "C02": ("fault_enumeration", "E1 replay+scripted: for toolbox-built hellos and flights recorded from the real crypto/tls client, a positive control (accepted, forwarded inner == independent reconstruction) and then EVERY single-bit in-flight corruption of the hello record fed to a fresh NewConn holding the right key: never accepted; fall-back must forward the altered outer unchanged. Plus seeded substitutions sealed with the standard library's crypto/hpke and the harness's own AAD builder: wrong key, info from a config differing in one field, wrong config id / suite in the extension, enc and payload truncated, AAD not zeroed.", "6 C02", "exhaustive in-flight bit-flip fault enumeration per hello + seeded substitution, independent HPKE sender as oracle"),
 "C03": ("exploration", "E1 live+scripted: (a) a re-encoding client node between the real crypto/tls client and the front re-compresses (plan-chosen ech_outer_extensions sub-run), re-pads and re-seals every hello incl. the one after HelloRetryRequest: the real handshake must still complete with ECHAccepted (Finished covers the reconstructed inner) and the forwarded record must equal the independent reconstruction; (b) grammar-generated inner/outer pairs (arbitrary extension types/order, marker position, padding 0..2000, session ids 0..32, sizes up to the record limit) through NewConn over a fragmenting transport, compared byte-for-byte with the reference decoder written from the draft.", "6 C03", "seeded simulation with a re-encoding middlebox node and a reference decoder"),
 "C04": ("exploration", "E1 scripted: Byzantine-client fault injection. Authentic payloads (sealed with crypto/hpke to a held key) carrying one or several rule violations at seeded positions - ech_outer_extensions in the outer, ECH type inner/unknown, outer SNI != public name, inner without ECH marker / without TLS 1.3, non-zero padding byte, outer-extension list odd/over-long/empty/out of order/repeated/absent/naming ECH types/twice, truncated and lying length fields - over fragmenting transports. Four observations per case: error class, exactly one fatal alert record with an allowed description on the client link, transport closed, nothing readable from the Conn.", "6 C04", "seeded Byzantine-peer fault injection with wire-level alert oracle"),
 "C05": ("exploration", "E1 live+scripted: real crypto/tls clients without ECH / TLS 1.2-only through the forward topology (byte streams on both links compared, handshake completes with ECHAccepted=false) and grammar-generated hellos (no ECH, no supported_versions, versions without 1.3, GREASE ECH incl. colliding config id, ECH to a key not held, no keys configured; arbitrary extensions, GREASE, sizes to 16 KiB) followed by arbitrary record streams incl. zero-length and 2^14+256 application records, over fragmenting transports: bytes out == bytes in except the first record's legacy version; Conn.ServerName/ALPNProtos == what a crypto/tls server extracts from the forwarded bytes.", "6 C05", "seeded simulation, byte-pipe reference + independent TLS stack as oracle"),
 "C01": ("exploration", "E1 live: real crypto/tls client -> simnet -> ech.NewConn/Conn front (package-doc routing loop, terminate or forward topology) -> simnet -> real crypto/tls backend, under seeded segmentation/latency/short reads; swarm over curves (HRR, X25519MLKEM768), ALPN, names 1..253, resumption, client certs, chain sizes up to 40 KB, key sets incl. id collisions, AEAD suites, stale config -> retry configs -> accepted. Oracles: handshake completion + ECHAccepted (computed by crypto/tls), app data both ways, Conn.ServerName/ALPNProtos vs backend ClientHelloInfo, independent HPKE reconstruction of every forwarded inner hello, byte-equality of all other records.", "6 C01", "seeded real-stack simulation (synctest virtual time + simnet) with end-to-end and reference-reconstruction oracles"),
}
na = {
 "C11": "pure function of its arguments (config encode/parse): no schedule, clock, peer, stream or fault for a simulator to control; exercised only incidentally by every C01 run (random ids, names, suite lists feed crypto/tls on both sides)",
 "C13": "pure encode/decode round-trip and cross-codec agreement over inputs: nothing time-, schedule- or fault-dependent; the E2 traffic monitor covers only the message shapes the resolver itself emits/consumes",
 "C15": "ResolveResult.Targets is a pure function of a value; its only schedule-dependent aspect (concurrent enumeration of shared cached results) is checked under C16, and C17 cross-checks targets incidentally",
}
pending = ["C02","C03","C04","C05","C06","C07","C08","C09","C10","C12","C14","C16","C17","C18","C19","C20"]
m = {
 "version": 1,
 "setup_cmd": "bin/setup",
 "hooks": {"guard": "verif", "enable": "go1.26.8 test -c -tags verif (harness module /verif/sim with replace github.com/c2FmZQ/ech => /repo)",
           "baseline_off_cmd": "for m in . publish quic; do (cd /repo/$m && go test -mod=mod -vet=off -count=1 ./...) || exit 1; done",
           "source_commits": ["e441ca7", "a172031"], "add_only": True},
 "engines": [
  {"name": "e1front", "path": "sim/e1front", "serves_properties": ["C01","C02","C03","C04","C05","C06","C07","C08","C09","C10"], "kind_free_text": "client(s) -> simnet -> ech.Conn front -> simnet -> backend(s); live (real crypto/tls both ends), replay and scripted modes"},
 ],
 "checks": [], "not_applicable": [],
 "notes": "Deterministic simulation with fault injection; see DESIGN.md. Every check honours VERIF_SEED; replay: bin/check <id> --replay <file>. Exit 2 = harness/build/determinism trouble, never a violation.",
}
for pid,(lvl,text,ref,tech) in sorted(claimed.items()):
    m["checks"].append({"property_id": pid, "quick_cmd": "bin/check %s --tier quick" % pid, "thorough_cmd": "bin/check %s --tier thorough" % pid,
      "evidence_file": "/verif/evidence/%s.json" % pid, "replay_cmd_template": "bin/check %s --replay {path}" % pid, "engine": ENGINE[pid],
      "level_claimed": {"category": lvl, "text": text, "design_ref": ref}, "level_note": "sampling, not proof; trusted base: go1.26.8 crypto/tls, crypto/hpke, testing/synctest, testing/cryptotest, the harness's simnet and echbox", "technique": tech})
for pid,reason in sorted(na.items()):
    m["not_applicable"].append({"property_id": pid, "reason": reason})
for pid in pending:
    if pid not in claimed:
        m["not_applicable"].append({"property_id": pid, "reason": "not claimed yet: check under construction (see DESIGN.md section 6 for the planned simulation)"})
json.dump(m, open("/verif/MANIFEST.json","w"), indent=1)
