#!/usr/bin/env python3
"""Confirm a seeded change delivered by a sub-agent and, if it holds up, keep it
under /verif/seeded/<id>/.

  tools/confirm_seed.py <agent seeded dir> <N> <id> [check property ...]

In a scratch worktree of /repo (removed afterwards):
  1. the demonstration passes on the unchanged tree,
  2. with the patch the library still builds and its unedited test suite passes,
  3. with the patch the demonstration fails.
Then the named checks are run against the patched worktree (VERIF_REPO) and the
outcome is recorded in meta.json.
"""
import json, os, re, shutil, subprocess, sys, tempfile

VERIF = os.path.dirname(os.path.dirname(os.path.abspath(__file__)))


def sh(cmd, cwd=None, env=None, timeout=900):
    e = dict(os.environ)
    e.update({"GOFLAGS": "-mod=mod", "GOPROXY": "off"})
    e.pop("GOSUMDB", None)
    e.pop("GOTOOLCHAIN", None)
    if env:
        e.update(env)
    try:
        r = subprocess.run(cmd, cwd=cwd, env=e, shell=True, capture_output=True, text=True, timeout=timeout)
        return r.returncode, (r.stdout + r.stderr)
    except subprocess.TimeoutExpired:
        return 124, "timeout"


def main():
    src, n, sid = sys.argv[1], sys.argv[2], sys.argv[3]
    props = sys.argv[4:]
    patch = os.path.join(src, n + ".patch.diff")
    demo = os.path.join(src, n + ".demo_test.go.txt")
    meta = json.load(open(os.path.join(src, n + ".meta.json")))
    text = open(demo).read()
    m = re.search(r"^package\s+(\w+)", text, re.M)
    pkg = m.group(1) if m else "ech"
    sub = {"ech": ".", "ech_test": ".", "dns": "dns", "dns_test": "dns", "publish": "publish", "publish_test": "publish", "hpke": "internal/hpke"}.get(pkg, ".")
    m = re.search(r"-run\s+'?\"?([A-Za-z0-9_$^|()]+)", text)
    pattern = m.group(1) if m else "."
    wt = tempfile.mkdtemp(prefix="verif-seed-", dir="/var/tmp")
    os.rmdir(wt)
    rc, out = sh("git -C /repo worktree add -q %s HEAD" % wt)
    if rc:
        print("worktree:", out)
        sys.exit(2)
    result = {"demo_pattern": pattern, "demo_package_dir": sub}
    try:
        moddir = os.path.join(wt, "publish") if sub == "publish" else wt
        testdir = os.path.join(wt, sub)
        demofile = os.path.join(testdir, "zz_seeded_demo_test.go")
        relpkg = "." if sub in (".", "publish") else "./" + sub
        run_demo = "go test -vet=off -count=1 -timeout 300s -run '%s' %s" % (pattern, relpkg)
        if "testing/synctest" in text or "go1.25" in text:
            # the demonstration needs the newer toolchain
            run_demo = "GOTOOLCHAIN=local GOSUMDB=off go1.26.8 test -vet=off -count=1 -timeout 300s -run '%s' %s" % (pattern, relpkg)
        if re.search(r"go test[^\n]*-race", text) or "race detector" in json.dumps(meta).lower() and "-race" in text:
            run_demo = run_demo.replace(" test -vet=off", " test -race -vet=off")
        # 1. demo passes on the unchanged tree
        shutil.copy(demo, demofile)
        rc, out = sh(run_demo, cwd=moddir)
        result["demo_on_unchanged_tree"] = "pass" if rc == 0 else "FAIL"
        result["demo_on_unchanged_tree_tail"] = out[-600:]
        os.remove(demofile)
        # 2. patch applies, library builds, its own suite passes
        rc, out = sh("git apply %s || git apply -3 %s" % (patch, patch), cwd=wt)
        if rc:
            result["patch"] = "does not apply: " + out[-300:]
            print(json.dumps(result, indent=1))
            sys.exit(1)
        _, diff = sh("git diff", cwd=wt)
        ok = True
        for mdir in [wt, os.path.join(wt, "publish")]:
            rc, out = sh("go build ./... && go test -vet=off -count=1 -timeout 300s ./...", cwd=mdir)
            if rc:
                ok = False
                result["suite_with_patch_tail"] = out[-800:]
        result["suite_with_patch"] = "pass" if ok else "FAIL"
        # 3. demo fails with the patch
        shutil.copy(demo, demofile)
        rc, out = sh(run_demo, cwd=moddir)
        result["demo_with_patch"] = "fail" if rc != 0 else "PASSES (not a demonstration)"
        result["demo_with_patch_tail"] = out[-600:]
        os.remove(demofile)
        confirmed = result["demo_on_unchanged_tree"] == "pass" and ok and rc != 0
        result["confirmed"] = confirmed
        # 4. run the checks against the patched worktree
        checks = {}
        for p in props:
            alt = tempfile.mkdtemp(prefix="verif-alt-", dir="/var/tmp")
            rc, out = sh("bin/check %s --tier quick" % p, cwd=VERIF, env={"VERIF_REPO": wt, "VERIF_EVIDENCE_DIR": alt + "/evidence", "VERIF_ALT_REPLAYS": alt + "/replays", "GOSUMDB": "off", "GOTOOLCHAIN": "local"}, timeout=3000)
            lines = [l.strip() for l in out.split("\n") if " / " in l and not l.startswith("VIOLATION") and not l.startswith("KNOWN")]
            checks[p] = {"exit": rc, "verdict": {0: "MISSED", 1: "CAUGHT"}.get(rc, "HARNESS"), "violations": [l[:260] for l in lines[:4]]}
            shutil.rmtree(alt, ignore_errors=True)
        result["checks"] = checks
        if confirmed:
            dst = os.path.join(VERIF, "seeded", sid)
            os.makedirs(dst, exist_ok=True)
            open(os.path.join(dst, "patch.diff"), "w").write(diff)
            shutil.copy(demo, os.path.join(dst, "demo_test.go.txt"))
            meta_out = {"id": sid, "breaks_property": meta.get("property"), "title": meta.get("title"), "what_it_breaks": meta.get("what_it_breaks"),
                        "needs_to_manifest": meta.get("needs_to_manifest"), "files_touched": meta.get("files_touched"),
                        "author": "independent sub-agent (given only the property text and a scratch worktree)", "author_confirmation": meta.get("how_confirmed"),
                        "what_i_ran": {"worktree": "scratch worktree of /repo HEAD %s (removed)" % subprocess.run("git -C /repo rev-parse --short HEAD", shell=True, capture_output=True, text=True).stdout.strip(),
                                       "demo": "%s in %s" % (run_demo, sub), "demo_on_unchanged_tree": result["demo_on_unchanged_tree"], "suite_with_patch": result["suite_with_patch"], "demo_with_patch": result["demo_with_patch"]},
                        "checks_against_patched_tree": checks}
            json.dump(meta_out, open(os.path.join(dst, "meta.json"), "w"), indent=1)
    finally:
        sh("git -C /repo worktree remove --force %s" % wt)
        shutil.rmtree(wt, ignore_errors=True)
    short = {k: v for k, v in result.items() if not k.endswith("_tail")}
    print(json.dumps(short, indent=1))


if __name__ == "__main__":
    main()
