package probe

import (
	"context"
	"crypto/ed25519"
	"crypto/rand"
	"crypto/sha256"
	"crypto/tls"
	"crypto/x509"
	"crypto/x509/pkix"
	"fmt"
	"math/big"
	"net"
	"sync"
	"testing"
	"testing/cryptotest"
	"testing/synctest"
	"time"

	"github.com/c2FmZQ/ech"
)

func newCert(t *testing.T, names ...string) (tls.Certificate, *x509.CertPool) {
	pub, priv, err := ed25519.GenerateKey(rand.Reader)
	if err != nil {
		t.Fatal(err)
	}
	now := time.Now()
	templ := &x509.Certificate{
		SerialNumber:          big.NewInt(1),
		Subject:               pkix.Name{CommonName: names[0]},
		NotBefore:             now.Add(-time.Hour),
		NotAfter:              now.Add(24 * time.Hour),
		KeyUsage:              x509.KeyUsageCertSign | x509.KeyUsageDigitalSignature,
		BasicConstraintsValid: true,
		IsCA:                  true,
		DNSNames:              names,
	}
	b, err := x509.CreateCertificate(rand.Reader, templ, templ, pub, priv)
	if err != nil {
		t.Fatal(err)
	}
	leaf, _ := x509.ParseCertificate(b)
	pool := x509.NewCertPool()
	pool.AddCert(leaf)
	return tls.Certificate{Certificate: [][]byte{b}, PrivateKey: priv, Leaf: leaf}, pool
}

type tap struct {
	net.Conn
	mu sync.Mutex
	h  interface{ Write([]byte) (int, error) }
}

func (t *tap) Write(b []byte) (int, error) {
	t.mu.Lock()
	t.h.Write(b)
	t.mu.Unlock()
	return t.Conn.Write(b)
}

func runOnce(t *testing.T, seed uint64, curves []tls.CurveID) string {
	cryptotest.SetGlobalRandom(t, seed)
	var digest string
	synctest.Test(t, func(t *testing.T) {
		start := time.Now()
		priv, cfg, err := ech.NewConfig(7, []byte("public.example.com"))
		if err != nil {
			t.Fatal(err)
		}
		cl, _ := ech.ConfigList([]ech.Config{cfg})
		cert, pool := newCert(t, "private.example.com", "public.example.com")
		cc, fc := bpipe()
		h := sha256.New()
		cc.maxRead = 7; fc.maxRead = 3; tc := &tap{Conn: cc, h: h}
		done := make(chan error, 1)
		go func() {
			c := tls.Client(tc, &tls.Config{ServerName: "private.example.com", RootCAs: pool, NextProtos: []string{"h2", "http/1.1"}, EncryptedClientHelloConfigList: cl, MinVersion: tls.VersionTLS13})
			if err := c.HandshakeContext(context.Background()); err != nil {
				done <- err
				return
			}
			if !c.ConnectionState().ECHAccepted {
				done <- fmt.Errorf("ech not accepted")
				return
			}
			c.Write([]byte("ping"))
			b := make([]byte, 4)
			c.Read(b)
			c.Close()
			done <- nil
		}()
		conn, err := ech.NewConn(context.Background(), fc, ech.WithKeys([]ech.Key{{Config: cfg, PrivateKey: priv.Bytes(), SendAsRetry: true}}))
		if err != nil {
			t.Fatal(err)
		}
		if !conn.ECHAccepted() || conn.ServerName() != "private.example.com" {
			t.Fatalf("accepted=%v sn=%q", conn.ECHAccepted(), conn.ServerName())
		}
		s := tls.Server(conn, &tls.Config{Certificates: []tls.Certificate{cert}, CurvePreferences: curves, NextProtos: []string{"h2"}})
		b := make([]byte, 4)
		if _, err := s.Read(b); err != nil {
			t.Fatal(err)
		}
		s.Write([]byte("pong"))
		if err := <-done; err != nil {
			t.Fatal(err)
		}
		s.Close()
		_ = start
		digest = fmt.Sprintf("%x hrr=%v", h.Sum(nil)[:8], s.ConnectionState().HelloRetryRequest)
	})
	return digest
}

func TestP1(t *testing.T) {
	t0 := time.Now()
	a := runOnce(t, 1, nil)
	b := runOnce(t, 1, nil)
	c := runOnce(t, 2, nil)
	d := runOnce(t, 1, []tls.CurveID{tls.CurveP384})
	e := runOnce(t, 1, []tls.CurveID{tls.CurveP384})
	t.Logf("a=%s b=%s c=%s d=%s e=%s elapsed=%v", a, b, c, d, e, time.Since(t0))
	if a != b || d != e {
		t.Errorf("non-deterministic")
	}
}
