//go:build verif

package probe

import (
	"bytes"
	"context"
	"crypto/tls"
	"fmt"
	"io"
	"net"
	"net/http"
	"strconv"
	"testing"
	"testing/cryptotest"
	"testing/synctest"
	"time"

	"github.com/c2FmZQ/ech"
	"github.com/c2FmZQ/ech/dns"
)

type oneListener struct {
	ch chan net.Conn
}

func (l *oneListener) Accept() (net.Conn, error) {
	c, ok := <-l.ch
	if !ok {
		return nil, net.ErrClosed
	}
	return c, nil
}
func (l *oneListener) Close() error   { return nil }
func (l *oneListener) Addr() net.Addr { return &net.TCPAddr{} }

func TestP8(t *testing.T) {
	cryptotest.SetGlobalRandom(t, 3)
	synctest.Test(t, func(t *testing.T) {
		cert, pool := newCert(t, "www.example.com", "other.example.com")
		dns.VerifRoundTripper = rtFunc(func(r *http.Request) (*http.Response, error) {
			body, _ := io.ReadAll(r.Body)
			q, _ := dns.DecodeMessage(body)
			time.Sleep(20 * time.Millisecond)
			q.QR = 1
			name := q.Question[0].Name
			switch q.Question[0].Type {
			case 1:
				q.Answer = append(q.Answer, dns.RR{Name: name, Type: 1, Class: 1, TTL: 50, Data: net.IP{10, 0, 0, 1}})
			case 65:
				q.Answer = append(q.Answer, dns.RR{Name: name, Type: 65, Class: 1, TTL: 50, Data: dns.HTTPS{Priority: 1, ALPN: []string{"h2"}}})
			}
			b := q.Bytes()
			h := http.Header{}
			h.Set("content-length", strconv.Itoa(len(b)))
			return &http.Response{StatusCode: 200, Body: io.NopCloser(bytes.NewReader(b)), Header: h}, nil
		})
		ln := &oneListener{ch: make(chan net.Conn, 10)}
		srv := &http.Server{Handler: http.HandlerFunc(func(w http.ResponseWriter, r *http.Request) {
			fmt.Fprintf(w, "host=%s sni=%s remote=%p proto=%s", r.Host, r.TLS.ServerName, r.Context().Value(http.LocalAddrContextKey), r.Proto)
		})}
		go srv.Serve(ln)
		dials := 0
		tr := ech.NewTransport()
		tr.Resolver, _ = ech.NewResolver("https://doh.sim/dns-query")
		tr.TLSConfig = &tls.Config{RootCAs: pool}
		tr.Dialer.DialFunc = func(ctx context.Context, network, addr string, tc *tls.Config) (*tls.Conn, error) {
			dials++
			t.Logf("DialFunc %s %s sni=%s", network, addr, tc.ServerName)
			cc, sc := bpipe()
			ln.ch <- tls.Server(sc, &tls.Config{Certificates: []tls.Certificate{cert}})
			c := tls.Client(cc, tc)
			if err := c.HandshakeContext(ctx); err != nil {
				return nil, err
			}
			return c, nil
		}
		client := &http.Client{Transport: tr}
		for _, u := range []string{"https://www.example.com/a", "http://www.example.com/b", "https://other.example.com/c", "https://www.example.com/d"} {
			resp, err := client.Get(u)
			if err != nil {
				t.Logf("GET %s: %v", u, err)
				continue
			}
			b, _ := io.ReadAll(resp.Body)
			resp.Body.Close()
			t.Logf("GET %s: %d %s (req url %s)", u, resp.StatusCode, b, resp.Request.URL)
			synctest.Wait()
		}
		t.Logf("dials=%d virtual now=%v", dials, time.Now())
		tr.HTTPTransport.CloseIdleConnections()
		srv.Close()
		close(ln.ch)
	})
}
