//go:build verif

package probe

import (
	"context"
	"errors"
	"net/http"
	"strings"
	"testing"
	"testing/synctest"

	"github.com/c2FmZQ/ech"
	"github.com/c2FmZQ/ech/dns"
)

func TestP10(t *testing.T) {
	synctest.Test(t, func(t *testing.T) {
		dns.VerifRoundTripper = rtFunc(func(r *http.Request) (*http.Response, error) { return nil, errors.New("down") })
		r, _ := ech.NewResolver("https://doh.sim/dns-query")
		for _, name := range []string{
			strings.Repeat("a", 70) + "://example.com:123",
			strings.Repeat("a", 300) + "://example.com:123",
			"https://" + strings.Repeat("a.", 120) + "example.com:8443",
		} {
			func() {
				defer func() {
					if p := recover(); p != nil {
						t.Logf("PANIC for len %d: %v", len(name), p)
					}
				}()
				_, err := r.Resolve(context.Background(), name)
				t.Logf("len %d err=%v", len(name), err)
			}()
		}
	})
}
