package probe

import (
	"context"
	"crypto/sha256"
	"crypto/tls"
	"fmt"
	"io"
	"math/rand/v2"
	"net"
	"os"
	"runtime"
	"strconv"
	"sync"
	"testing"
	"testing/cryptotest"
	"testing/synctest"
	"time"

	"github.com/c2FmZQ/ech"
)

// delayed link: a -> b with PRNG segmentation and distinct delivery times.
type simWorld struct {
	mu   sync.Mutex
	log  []string
	t0   time.Time
	tick int64
}

func (w *simWorld) ev(f string, a ...any) {
	w.mu.Lock()
	w.log = append(w.log, fmt.Sprintf("%d ", time.Since(w.t0).Nanoseconds())+fmt.Sprintf(f, a...))
	w.mu.Unlock()
}
func (w *simWorld) uniq() time.Duration {
	w.mu.Lock()
	defer w.mu.Unlock()
	w.tick++
	return time.Duration(w.tick)
}

type dlink struct {
	w    *simWorld
	idx  int64
	k    int64
	name string
	rng  *rand.Rand
	dst  *half
	last time.Time
	q    chan []byte
}

func newDlink(w *simWorld, idx int64, name string, seed uint64, dst *half) *dlink {
	l := &dlink{w: w, idx: idx, name: name, rng: rand.New(rand.NewPCG(seed, 99)), dst: dst, q: make(chan []byte, 1024)}
	go l.run()
	return l
}

func (l *dlink) run() {
	for b := range l.q {
		for len(b) > 0 {
			n := 1 + l.rng.IntN(min(len(b), 1+l.rng.IntN(2000)))
			chunk := b[:n]
			b = b[n:]
			l.k++
			// delivery instants of link idx are ≡ idx (mod 16) ns on a 1µs grid: distinct across links
			base := time.Since(l.w.t0).Truncate(time.Microsecond) + time.Duration(1+l.rng.IntN(5000))*time.Microsecond
			at := l.w.t0.Add(base + time.Duration(l.idx))
			if !at.After(l.last) {
				at = l.last.Add(time.Microsecond)
			}
			l.last = at
			time.Sleep(time.Until(at))
			l.dst.mu.Lock()
			l.dst.buf = append(l.dst.buf, chunk...)
			l.dst.mu.Unlock()
			l.dst.signal()
			l.w.ev("deliver %s %d", l.name, n)
		}
	}
	l.dst.mu.Lock()
	l.dst.closed = true
	l.dst.mu.Unlock()
	l.dst.signal()
}

type dconn struct {
	*bconn
	out *dlink
	rng *rand.Rand
}

func (c *dconn) Write(p []byte) (int, error) {
	c.out.q <- append([]byte(nil), p...)
	return len(p), nil
}
func (c *dconn) Read(p []byte) (int, error) {
	if len(p) > 1 {
		p = p[:1+c.rng.IntN(len(p))]
	}
	return c.bconn.Read(p)
}
func (c *dconn) Close() error { close(c.out.q); return nil }

func dpipe(w *simWorld, idx int64, name string, seed uint64) (net.Conn, net.Conn) {
	a, b := bpipe()
	da := &dconn{bconn: a, out: newDlink(w, idx, name+">", seed, b.rd), rng: rand.New(rand.NewPCG(seed, 1))}
	db := &dconn{bconn: b, out: newDlink(w, idx+1, name+"<", seed+1, a.rd), rng: rand.New(rand.NewPCG(seed, 2))}
	return da, db
}

func simRun(t *testing.T, seed uint64) string {
	cryptotest.SetGlobalRandom(t, seed)
	w := &simWorld{}
	synctest.Test(t, func(t *testing.T) {
		w.t0 = time.Now()
		rng := rand.New(rand.NewPCG(seed, 7))
		priv, cfg, _ := ech.NewConfig(byte(rng.IntN(256)), []byte("public.example.com"))
		cl, _ := ech.ConfigList([]ech.Config{cfg})
		cert, pool := newCert(t, "secret.example.com")
		cc, fc := dpipe(w, 1, "cf", seed*10)
		fb, bc := dpipe(w, 3, "fb", seed*10+5)
		prng := rand.New(rand.NewPCG(seed, 8))
		var curves []tls.CurveID
		if rng.IntN(2) == 0 {
			curves = []tls.CurveID{tls.CurveP384}
		}
		done := make(chan error, 2)
		go func() { // client
			c := tls.Client(cc, &tls.Config{ServerName: "secret.example.com", RootCAs: pool, EncryptedClientHelloConfigList: cl, MinVersion: tls.VersionTLS13})
			err := c.HandshakeContext(context.Background())
			if err == nil {
				c.Write([]byte("ping"))
				b := make([]byte, 4)
				_, err = io.ReadFull(c, b)
			}
			w.ev("client done err=%v", err)
			cc.Close()
			done <- err
		}()
		go func() { // backend
			s := tls.Server(bc, &tls.Config{Certificates: []tls.Certificate{cert}, CurvePreferences: curves})
			b := make([]byte, 4)
			_, err := io.ReadFull(s, b)
			if err == nil {
				_, err = s.Write([]byte("pong"))
			}
			w.ev("backend done err=%v hrr=%v", err, s.ConnectionState().HelloRetryRequest)
			done <- err
		}()
		conn, err := ech.NewConn(context.Background(), fc, ech.WithKeys([]ech.Key{{Config: cfg, PrivateKey: priv.Bytes()}}))
		if err != nil {
			t.Fatal(err)
		}
		w.ev("front accepted=%v", conn.ECHAccepted())
		go func() { // pump backend -> client
			b := make([]byte, 4096)
			for {
				n, err := fb.Read(b[:1+prng.IntN(4096)])
				if n > 0 {
					conn.Write(b[:n])
				}
				if err != nil {
					return
				}
			}
		}()
		go func() { // pump client -> backend
			b := make([]byte, 20000)
			for {
				n, err := conn.Read(b)
				if n > 0 {
					fb.Write(b[:n])
				}
				if err != nil {
					fb.Close()
					return
				}
			}
		}()
		e1, e2 := <-done, <-done
		if e1 != nil || e2 != nil {
			t.Errorf("seed %d: %v %v", seed, e1, e2)
		}
		bc.Close()
		fc.Close()
	})
	h := sha256.New()
	for _, l := range w.log {
		io.WriteString(h, l+"\n")
	}
	return fmt.Sprintf("%x/%d", h.Sum(nil)[:6], len(w.log))
}

func TestP13(t *testing.T) {
	if p := os.Getenv("PROCS"); p != "" {
		n, _ := strconv.Atoi(p)
		runtime.GOMAXPROCS(n)
	}
	out := ""
	t0 := time.Now()
	for seed := uint64(1); seed <= 40; seed++ {
		out += simRun(t, seed) + " "
	}
	h := sha256.Sum256([]byte(out))
	fmt.Printf("PROCS=%s digest=%x elapsed=%v\n", os.Getenv("PROCS"), h[:8], time.Since(t0))
}
