package probe

import (
	"bytes"
	"context"
	"crypto/ecdh"
	"crypto/hpke"
	"crypto/tls"
	"encoding/binary"
	"testing"
	"testing/cryptotest"
	"testing/synctest"

	"github.com/c2FmZQ/ech"
)

type ext struct {
	typ  uint16
	data []byte
	off  int // offset of data within hello body
}

// parse ClientHello body (after 4-byte handshake header) into fields
func parseCH(b []byte) (sid []byte, exts []ext, extStart int) {
	p := 2 + 32
	sl := int(b[p])
	sid = b[p+1 : p+1+sl]
	p += 1 + sl
	cl := int(binary.BigEndian.Uint16(b[p:]))
	p += 2 + cl
	ml := int(b[p])
	p += 1 + ml
	el := int(binary.BigEndian.Uint16(b[p:]))
	p += 2
	extStart = p
	end := p + el
	for p < end {
		t := binary.BigEndian.Uint16(b[p:])
		l := int(binary.BigEndian.Uint16(b[p+2:]))
		exts = append(exts, ext{t, b[p+4 : p+4+l], p + 4})
		p += 4 + l
	}
	return
}

func TestP9(t *testing.T) {
	cryptotest.SetGlobalRandom(t, 5)
	synctest.Test(t, func(t *testing.T) {
		priv, cfg, _ := ech.NewConfig(9, []byte("public.example.com"))
		cl, _ := ech.ConfigList([]ech.Config{cfg})
		cc, fc := bpipe()
		go func() {
			c := tls.Client(cc, &tls.Config{ServerName: "secret.example.com", NextProtos: []string{"h2"}, EncryptedClientHelloConfigList: cl, MinVersion: tls.VersionTLS13})
			c.HandshakeContext(context.Background())
		}()
		synctest.Wait()
		fc.rd.mu.Lock()
		rec := append([]byte(nil), fc.rd.buf...)
		fc.rd.mu.Unlock()
		cc.Close()
		body := rec[9:] // record hdr 5 + hs hdr 4
		_, exts, _ := parseCH(body)
		var echExt ext
		for _, e := range exts {
			t.Logf("outer ext %5d len %d", e.typ, len(e.data))
			if e.typ == 0xfe0d {
				echExt = e
			}
		}
		d := echExt.data
		kdf, aead, id := binary.BigEndian.Uint16(d[1:]), binary.BigEndian.Uint16(d[3:]), d[5]
		encLen := int(binary.BigEndian.Uint16(d[6:]))
		enc := d[8 : 8+encLen]
		plLen := int(binary.BigEndian.Uint16(d[8+encLen:]))
		plOff := 8 + encLen + 2
		payload := d[plOff : plOff+plLen]
		t.Logf("kdf=%d aead=%d id=%d enc=%d payload=%d", kdf, aead, id, encLen, plLen)
		aad := append([]byte(nil), body...)
		for i := 0; i < plLen; i++ {
			aad[echExt.off+plOff+i] = 0
		}
		sk, _ := ecdh.X25519().NewPrivateKey(priv.Bytes())
		hk, err := hpke.NewDHKEMPrivateKey(sk)
		if err != nil {
			t.Fatal(err)
		}
		k, _ := hpke.NewKDF(kdf)
		a, _ := hpke.NewAEAD(aead)
		r, err := hpke.NewRecipient(enc, hk, k, a, append([]byte("tls ech\x00"), cfg...))
		if err != nil {
			t.Fatal(err)
		}
		inner, err := r.Open(aad, payload)
		if err != nil {
			t.Fatal(err)
		}
		t.Logf("decrypted inner len=%d", len(inner))
		_, iexts, _ := parseCH(inner)
		outerBy := map[uint16][]byte{}
		for _, e := range exts {
			outerBy[e.typ] = e.data
		}
		for _, e := range iexts {
			same := bytes.Equal(outerBy[e.typ], e.data) && outerBy[e.typ] != nil
			t.Logf("inner ext %5d len %4d identical-in-outer=%v", e.typ, len(e.data), same)
		}
	})
}
