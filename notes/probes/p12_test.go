package probe

import (
	"context"
	"crypto/tls"
	"errors"
	"fmt"
	"sync"
	"testing"
	"testing/synctest"
	"time"

	"github.com/c2FmZQ/ech"
)

type sconn struct {
	id     int
	closed bool
}

func (c *sconn) Close() error { c.closed = true; return nil }

type outcome struct {
	kind string // ok, fail, hang, hangignore
	d    time.Duration
}

func runDial(t *testing.T, outs []outcome, maxc int, delay, timeout time.Duration, cancelAt time.Duration) string {
	var log []string
	var mu sync.Mutex
	synctest.Test(t, func(t *testing.T) {
		t0 := time.Now()
		ev := func(f string, a ...any) {
			mu.Lock()
			log = append(log, fmt.Sprintf("%8v ", time.Since(t0))+fmt.Sprintf(f, a...))
			mu.Unlock()
		}
		release := make(chan struct{})
		var conns []*sconn
		idx := map[string]int{}
		addr := ""
		for i := range outs {
			a := fmt.Sprintf("10.0.0.%d:443", i+1)
			idx[a] = i
			if i > 0 {
				addr += ","
			}
			addr += a
		}
		d := &ech.Dialer[*sconn]{MaxConcurrency: maxc, ConcurrencyDelay: delay, Timeout: timeout,
			DialFunc: func(ctx context.Context, network, a string, tc *tls.Config) (*sconn, error) {
				i := idx[a]
				o := outs[i]
				dl, _ := ctx.Deadline()
				ev("start %d ctxErr=%v deadline=+%v", i, ctx.Err(), dl.Sub(t0))
				defer ev("end %d", i)
				switch o.kind {
				case "ok":
					select {
					case <-time.After(o.d):
					case <-ctx.Done():
						return nil, ctx.Err()
					}
					c := &sconn{id: i}
					mu.Lock()
					conns = append(conns, c)
					mu.Unlock()
					return c, nil
				case "oklate": // ignores ctx, succeeds anyway
					time.Sleep(o.d)
					c := &sconn{id: i}
					mu.Lock()
					conns = append(conns, c)
					mu.Unlock()
					return c, nil
				case "fail":
					select {
					case <-time.After(o.d):
						return nil, fmt.Errorf("fail-%d", i)
					case <-ctx.Done():
						return nil, ctx.Err()
					}
				case "hang":
					<-ctx.Done()
					return nil, ctx.Err()
				default: // hangignore
					<-release
					return nil, errors.New("released")
				}
			}}
		ctx, cancel := context.WithCancel(context.Background())
		if cancelAt > 0 {
			time.AfterFunc(cancelAt, cancel)
		}
		c, err := d.Dial(ctx, "tcp", addr, nil)
		ev("Dial returned conn=%v err=%v", c != nil, err)
		if c != nil {
			ev("winner %d", c.id)
		}
		synctest.Wait()
		ev("quiescent")
		close(release)
		synctest.Wait()
		cancel()
		for _, cn := range conns {
			ev("conn %d closed=%v", cn.id, cn.closed)
		}
	})
	s := ""
	for _, l := range log {
		s += l + "\n"
	}
	return s
}

func TestP12(t *testing.T) {
	ms := time.Millisecond
	a := runDial(t, []outcome{{"fail", 10*ms + 1}, {"hang", 0}, {"oklate", 500*ms + 2}, {"ok", 100*ms + 3}, {"ok", 5*ms + 4}}, 2, 300*ms, 2000*ms, 0)
	b := runDial(t, []outcome{{"fail", 10*ms + 1}, {"hang", 0}, {"oklate", 500*ms + 2}, {"ok", 100*ms + 3}, {"ok", 5*ms + 4}}, 2, 300*ms, 2000*ms, 0)
	t.Logf("run A:\n%s", a)
	if a != b {
		t.Errorf("nondeterministic:\n%s", b)
	}
	c := runDial(t, []outcome{{"hangignore", 0}, {"hangignore", 0}, {"fail", 10 * ms}}, 3, 100*ms, 1000*ms, 250*ms+7)
	t.Logf("run C (cancel at 250ms, attempts ignore ctx):\n%s", c)
	d := runDial(t, []outcome{{"fail", 10 * ms}, {"fail", 20 * ms}}, 1, 100*ms, 1000*ms, 0)
	t.Logf("run D:\n%s", d)
}
