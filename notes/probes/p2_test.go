package probe

import (
	"context"
	"crypto/tls"
	"fmt"
	"testing"
	"testing/cryptotest"
	"testing/synctest"
	"time"

	"github.com/c2FmZQ/ech"
)

// P2a: NewConn on a non-handshake record: is an alert written?
func TestP2Alert(t *testing.T) {
	synctest.Test(t, func(t *testing.T) {
		cc, fc := bpipe()
		cc.Write([]byte{23, 3, 3, 0, 1, 0})
		_, err := ech.NewConn(context.Background(), fc)
		t.Logf("err=%v", err)
		synctest.Wait()
		cc.rd.mu.Lock()
		t.Logf("bytes to client: %x closed=%v", cc.rd.buf, cc.rd.closed)
		cc.rd.mu.Unlock()
	})
}

// P2b: zero-length handshake record after hello -> panic?
func TestP2ZeroLen(t *testing.T) {
	synctest.Test(t, func(t *testing.T) {
		cc, fc := bpipe()
		done := make(chan struct{})
		go func() {
			defer close(done)
			c := tls.Client(cc, &tls.Config{ServerName: "a.example.com", InsecureSkipVerify: true})
			c.HandshakeContext(context.Background())
		}()
		priv, cfg, _ := ech.NewConfig(7, []byte("public.example.com"))
		conn, err := ech.NewConn(context.Background(), fc, ech.WithKeys([]ech.Key{{Config: cfg, PrivateKey: priv.Bytes()}}))
		if err != nil {
			t.Fatal(err)
		}
		t.Logf("accepted=%v passthrough sn=%q", conn.ECHAccepted(), conn.ServerName())
		b := make([]byte, 20000)
		n, err := conn.Read(b)
		t.Logf("read hello n=%d err=%v", n, err)
		// now inject zero-length handshake record from the client side
		cc.wr.mu.Lock()
		cc.wr.buf = append(cc.wr.buf, 22, 3, 3, 0, 0)
		cc.wr.mu.Unlock()
		cc.wr.signal()
		func() {
			defer func() { t.Logf("recover: %v", recover()) }()
			n, err = conn.Read(b)
			t.Logf("read2 n=%d err=%v", n, err)
		}()
		cc.Close()
		<-done
	})
}

// P2c: same with ECH accepted (non-passthrough) and write side zero-length record
func TestP2ZeroLenAccepted(t *testing.T) {
	cryptotest.SetGlobalRandom(t, 1)
	synctest.Test(t, func(t *testing.T) {
		cc, fc := bpipe()
		priv, cfg, _ := ech.NewConfig(7, []byte("public.example.com"))
		cl, _ := ech.ConfigList([]ech.Config{cfg})
		done := make(chan struct{})
		go func() {
			defer close(done)
			c := tls.Client(cc, &tls.Config{ServerName: "a.example.com", InsecureSkipVerify: false, EncryptedClientHelloConfigList: cl, MinVersion: tls.VersionTLS13})
			c.HandshakeContext(context.Background())
		}()
		conn, err := ech.NewConn(context.Background(), fc, ech.WithKeys([]ech.Key{{Config: cfg, PrivateKey: priv.Bytes()}}))
		if err != nil {
			t.Fatal(err)
		}
		t.Logf("accepted=%v sn=%q", conn.ECHAccepted(), conn.ServerName())
		b := make([]byte, 20000)
		n, err := conn.Read(b)
		t.Logf("read hello n=%d err=%v", n, err)
		func() {
			defer func() { t.Logf("write recover: %v", recover()) }()
			n, err := conn.Write([]byte{22, 3, 3, 0, 0})
			t.Logf("write n=%d err=%v", n, err)
		}()
		cc.wr.mu.Lock()
		cc.wr.buf = append(cc.wr.buf, 22, 3, 3, 0, 0)
		cc.wr.mu.Unlock()
		cc.wr.signal()
		func() {
			defer func() { t.Logf("read recover: %v", recover()) }()
			n, err = conn.Read(b)
			t.Logf("read2 n=%d err=%v", n, err)
		}()
		// cut after 5 header bytes
		cc.wr.mu.Lock()
		cc.wr.buf = append(cc.wr.buf, 22, 3, 3, 0, 9)
		cc.wr.mu.Unlock()
		cc.Close()
		func() {
			defer func() { t.Logf("read3 recover: %v", recover()) }()
			n, err = conn.Read(b)
			t.Logf("read3 n=%d err=%v", n, err)
		}()
		<-done
	})
}

// P2d: key id collision
func TestP2Collision(t *testing.T) {
	cryptotest.SetGlobalRandom(t, 1)
	for _, order := range []string{"target-first", "target-second", "alone"} {
		synctest.Test(t, func(t *testing.T) {
			priv, cfg, _ := ech.NewConfig(7, []byte("public.example.com"))
			priv2, cfg2, _ := ech.NewConfig(7, []byte("public.example.com"))
			cl, _ := ech.ConfigList([]ech.Config{cfg})
			k1 := ech.Key{Config: cfg, PrivateKey: priv.Bytes()}
			k2 := ech.Key{Config: cfg2, PrivateKey: priv2.Bytes()}
			var keys []ech.Key
			switch order {
			case "target-first":
				keys = []ech.Key{k1, k2}
			case "target-second":
				keys = []ech.Key{k2, k1}
			default:
				keys = []ech.Key{k1}
			}
			cc, fc := bpipe()
			done := make(chan struct{})
			go func() {
				defer close(done)
				c := tls.Client(cc, &tls.Config{ServerName: "a.example.com", EncryptedClientHelloConfigList: cl, MinVersion: tls.VersionTLS13})
				c.HandshakeContext(context.Background())
			}()
			conn, err := ech.NewConn(context.Background(), fc, ech.WithKeys(keys))
			t.Logf("%s: accepted=%v err=%v sn=%q", order, conn.ECHAccepted(), err, conn.ServerName())
			cc.Close()
			<-done
		})
	}
	_ = fmt.Sprint
	_ = time.Now
}
