package probe

import (
	"bytes"
	"context"
	"crypto/ecdh"
	"crypto/hpke"
	"crypto/tls"
	"encoding/binary"
	"fmt"
	"io"
	"net"
	"testing"
	"testing/cryptotest"
	"testing/synctest"

	"github.com/c2FmZQ/ech"
)

// ---- minimal toolbox ----

type chello struct {
	prefix []byte // legacy_version .. compression methods (everything before extensions length), with session id
	sidOff int
	sid    []byte
	exts   []ext
}

func parseHello(body []byte) chello {
	p := 2 + 32
	sidOff := p
	sl := int(body[p])
	sid := body[p+1 : p+1+sl]
	p += 1 + sl
	cl := int(binary.BigEndian.Uint16(body[p:]))
	p += 2 + cl
	ml := int(body[p])
	p += 1 + ml
	prefix := body[:p]
	el := int(binary.BigEndian.Uint16(body[p:]))
	p += 2
	end := p + el
	var exts []ext
	for p < end {
		t := binary.BigEndian.Uint16(body[p:])
		l := int(binary.BigEndian.Uint16(body[p+2:]))
		exts = append(exts, ext{t, body[p+4 : p+4+l], p + 4})
		p += 4 + l
	}
	return chello{prefix: prefix, sidOff: sidOff, sid: sid, exts: exts}
}

func marshalExts(exts []ext) []byte {
	var b []byte
	for _, e := range exts {
		b = binary.BigEndian.AppendUint16(b, e.typ)
		b = binary.BigEndian.AppendUint16(b, uint16(len(e.data)))
		b = append(b, e.data...)
	}
	return b
}

func (h chello) body(withSid []byte) []byte {
	// prefix with replaced session id
	var b []byte
	b = append(b, h.prefix[:h.sidOff]...)
	b = append(b, byte(len(withSid)))
	b = append(b, withSid...)
	b = append(b, h.prefix[h.sidOff+1+len(h.sid):]...)
	eb := marshalExts(h.exts)
	b = binary.BigEndian.AppendUint16(b, uint16(len(eb)))
	b = append(b, eb...)
	return b
}

func record(body []byte) []byte {
	hs := append([]byte{1, byte(len(body) >> 16), byte(len(body) >> 8), byte(len(body))}, body...)
	return append([]byte{22, 3, 1, byte(len(hs) >> 8), byte(len(hs))}, hs...)
}

type echFields struct {
	kdf, aead uint16
	id        byte
	enc       []byte
	payload   []byte
	plOff     int // offset of payload within body
}

func findECH(h chello) (echFields, int) {
	for i, e := range h.exts {
		if e.typ == 0xfe0d && len(e.data) > 0 && e.data[0] == 0 {
			d := e.data
			f := echFields{kdf: binary.BigEndian.Uint16(d[1:]), aead: binary.BigEndian.Uint16(d[3:]), id: d[5]}
			el := int(binary.BigEndian.Uint16(d[6:]))
			f.enc = d[8 : 8+el]
			pl := int(binary.BigEndian.Uint16(d[8+el:]))
			f.payload = d[10+el : 10+el+pl]
			f.plOff = e.off + 10 + el
			return f, i
		}
	}
	return echFields{}, -1
}

// decodeInner expands ech_outer_extensions against outer and strips padding;
// returns the full inner hello (with empty session id as encoded).
func decodeInner(enc []byte, outer chello) (chello, int) {
	// find end of hello structure to strip padding: parseHello uses ext length
	h := parseHello(enc)
	var out []ext
	for _, e := range h.exts {
		if e.typ != 0xfd00 {
			out = append(out, e)
			continue
		}
		l := int(e.data[0])
		p := 0
		for i := 0; i < l; i += 2 {
			want := binary.BigEndian.Uint16(e.data[1+i:])
			for outer.exts[p].typ != want {
				p++
			}
			out = append(out, outer.exts[p])
			p++
		}
	}
	h.exts = out
	used := len(h.body(h.sid))
	_ = used
	return h, 0
}

// encodeInner compresses inner exts [from,to) (must be identical & ordered in outer) and pads.
func encodeInner(inner chello, from, to, pad int) []byte {
	var exts []ext
	exts = append(exts, inner.exts[:from]...)
	if to > from {
		d := []byte{byte(2 * (to - from))}
		for _, e := range inner.exts[from:to] {
			d = binary.BigEndian.AppendUint16(d, e.typ)
		}
		exts = append(exts, ext{typ: 0xfd00, data: d})
	}
	exts = append(exts, inner.exts[to:]...)
	c := inner
	c.exts = exts
	b := c.body(nil) // empty session id in EncodedClientHelloInner
	return append(b, make([]byte, pad)...)
}

// reencoder sits between client and front.
type reencoder struct {
	t        *testing.T
	priv     []byte
	cfg      []byte
	from, to int
	pad      int
	recip    *hpke.Recipient
	sender   *hpke.Sender
	log      []string
}

func (r *reencoder) rewrite(rec []byte) []byte {
	body := rec[9:]
	outer := parseHello(body)
	f, idx := findECH(outer)
	if idx < 0 {
		return rec
	}
	kdf, _ := hpke.NewKDF(f.kdf)
	aead, _ := hpke.NewAEAD(f.aead)
	info := append([]byte("tls ech\x00"), r.cfg...)
	aad := append([]byte(nil), body...)
	for i := range f.payload {
		aad[f.plOff+i] = 0
	}
	first := r.recip == nil
	if first {
		sk, _ := ecdh.X25519().NewPrivateKey(r.priv)
		hk, _ := hpke.NewDHKEMPrivateKey(sk)
		var err error
		r.recip, err = hpke.NewRecipient(f.enc, hk, kdf, aead, info)
		if err != nil {
			r.t.Fatal(err)
		}
	}
	encInner, err := r.recip.Open(aad, f.payload)
	if err != nil {
		r.t.Fatalf("reencoder open: %v", err)
	}
	inner, _ := decodeInner(encInner, outer)
	// choose compressible run: clamp to extensions identical in outer, in order
	newEnc := encodeInner(inner, r.from, r.to, r.pad)
	// build new outer with placeholder payload
	var enc []byte
	if first {
		sk, _ := ecdh.X25519().NewPrivateKey(r.priv)
		pk, _ := hpke.NewDHKEMPublicKey(sk.PublicKey())
		enc, r.sender, err = hpke.NewSender(pk, kdf, aead, info)
		if err != nil {
			r.t.Fatal(err)
		}
	}
	mk := func(payload []byte) []byte {
		d := []byte{0}
		d = binary.BigEndian.AppendUint16(d, f.kdf)
		d = binary.BigEndian.AppendUint16(d, f.aead)
		d = append(d, f.id)
		d = binary.BigEndian.AppendUint16(d, uint16(len(enc)))
		d = append(d, enc...)
		d = binary.BigEndian.AppendUint16(d, uint16(len(payload)))
		d = append(d, payload...)
		o := outer
		o.exts = append([]ext(nil), outer.exts...)
		o.exts[idx] = ext{typ: 0xfe0d, data: d}
		return o.body(outer.sid)
	}
	zero := mk(make([]byte, len(newEnc)+16))
	ct, err := r.sender.Seal(zero, newEnc)
	if err != nil {
		r.t.Fatal(err)
	}
	r.log = append(r.log, fmt.Sprintf("rewrote hello first=%v innerExts=%d run=[%d,%d) pad=%d enc %d->%d", first, len(inner.exts), r.from, r.to, r.pad, len(encInner), len(newEnc)))
	return record(mk(ct))
}

// pump reads TLS records from src, rewrites ClientHellos, writes to dst.
func (r *reencoder) pump(src, dst net.Conn) {
	for {
		hdr := make([]byte, 5)
		if _, err := io.ReadFull(src, hdr); err != nil {
			dst.Close()
			return
		}
		n := int(binary.BigEndian.Uint16(hdr[3:]))
		rec := append(hdr, make([]byte, n)...)
		if _, err := io.ReadFull(src, rec[5:]); err != nil {
			dst.Close()
			return
		}
		if rec[0] == 22 && rec[5] == 1 {
			rec = r.rewrite(rec)
		}
		dst.Write(rec)
	}
}

func TestP11(t *testing.T) {
	cryptotest.SetGlobalRandom(t, 11)
	type tc struct {
		from, to, pad int
		hrr           bool
	}
	// inner ext layout (go1.26 client): [sni, sct?, ech-inner, <7 compressed>...]: discover dynamically
	for _, c := range []tc{{0, 0, 0, false}, {3, 10, 5, false}, {3, 4, 0, false}, {5, 9, 31, true}, {3, 10, 0, true}, {9, 10, 200, true}} {
		synctest.Test(t, func(t *testing.T) {
			priv, cfg, _ := ech.NewConfig(9, []byte("public.example.com"))
			cl, _ := ech.ConfigList([]ech.Config{cfg})
			cert, pool := newCert(t, "secret.example.com")
			cc, mc := bpipe() // client <-> middlebox
			mf, fc := bpipe() // middlebox <-> front
			re := &reencoder{t: t, priv: priv.Bytes(), cfg: cfg, from: c.from, to: c.to, pad: c.pad}
			go re.pump(mc, mf)
			go func() { io.Copy(mc, mf); mc.Close() }()
			done := make(chan error, 1)
			go func() {
				cl := tls.Client(cc, &tls.Config{ServerName: "secret.example.com", RootCAs: pool, NextProtos: []string{"h2"}, EncryptedClientHelloConfigList: cl, MinVersion: tls.VersionTLS13})
				err := cl.HandshakeContext(context.Background())
				if err == nil && !cl.ConnectionState().ECHAccepted {
					err = fmt.Errorf("not accepted")
				}
				if err == nil {
					cl.Write([]byte("ping"))
					b := make([]byte, 4)
					_, err = io.ReadFull(cl, b)
				}
				cc.Close()
				done <- err
			}()
			conn, err := ech.NewConn(context.Background(), fc, ech.WithKeys([]ech.Key{{Config: cfg, PrivateKey: priv.Bytes()}}))
			if err != nil {
				t.Fatalf("NewConn: %v", err)
			}
			var curves []tls.CurveID
			if c.hrr {
				curves = []tls.CurveID{tls.CurveP384}
			}
			s := tls.Server(conn, &tls.Config{Certificates: []tls.Certificate{cert}, CurvePreferences: curves, NextProtos: []string{"h2"}})
			b := make([]byte, 4)
			_, serr := io.ReadFull(s, b)
			if serr == nil {
				s.Write([]byte("pong"))
			}
			cerr := <-done
			t.Logf("case %+v: accepted=%v sn=%q serverErr=%v clientErr=%v hrr=%v | %v", c, conn.ECHAccepted(), conn.ServerName(), serr, cerr, s.ConnectionState().HelloRetryRequest, re.log)
			fc.Close()
			mf.Close()
			mc.Close()
			_ = bytes.Equal
		})
	}
}
