//go:build verif

package probe

import (
	"bytes"
	"context"
	"fmt"
	"io"
	"net"
	"net/http"
	"strconv"
	"testing"
	"testing/synctest"
	"time"

	"github.com/c2FmZQ/ech"
	"github.com/c2FmZQ/ech/dns"
)

type rtFunc func(*http.Request) (*http.Response, error)

func (f rtFunc) RoundTrip(r *http.Request) (*http.Response, error) { return f(r) }

func TestP6(t *testing.T) {
	synctest.Test(t, func(t *testing.T) {
		queries := 0
		version := byte(1)
		fail := false
		dns.VerifRoundTripper = rtFunc(func(r *http.Request) (*http.Response, error) {
			body, _ := io.ReadAll(r.Body)
			q, err := dns.DecodeMessage(body)
			if err != nil {
				return nil, err
			}
			queries++
			time.Sleep(30 * time.Millisecond)
			if fail {
				return &http.Response{StatusCode: 500, Body: io.NopCloser(bytes.NewReader(nil)), Header: http.Header{}}, nil
			}
			q.QR = 1
			switch q.Question[0].Type {
			case 1:
				q.Answer = append(q.Answer, dns.RR{Name: q.Question[0].Name, Type: 1, Class: 1, TTL: 0, Data: net.IP{10, 0, 0, version}})
				q.Answer = append(q.Answer, dns.RR{Name: q.Question[0].Name, Type: 1, Class: 1, TTL: 50, Data: net.IP{10, 0, 1, version}})
			}
			b := q.Bytes()
			h := http.Header{}
			h.Set("content-length", strconv.Itoa(len(b)))
			return &http.Response{StatusCode: 200, Body: io.NopCloser(bytes.NewReader(b)), Header: h}, nil
		})
		r, _ := ech.NewResolver("https://doh.sim/dns-query")
		t0 := time.Now()
		res, err := r.Resolve(context.Background(), "a.example.com")
		t.Logf("t=%v res=%v err=%v queries=%d", time.Since(t0), res.Address, err, queries)
		version = 2
		time.Sleep(10 * time.Second)
		res, err = r.Resolve(context.Background(), "a.example.com")
		t.Logf("t=%v res=%v err=%v queries=%d (TTL0 record present: should have re-queried A)", time.Since(t0), res.Address, err, queries)
		fail = true
		time.Sleep(400 * time.Second)
		res, err = r.Resolve(context.Background(), "a.example.com")
		t.Logf("t=%v res=%v err=%v queries=%d", time.Since(t0), res.Address, err, queries)
	})
	_ = fmt.Sprint
}
