package probe

import (
	"io"
	"net"
	"os"
	"sync"
	"time"
)

// half is one direction of a buffered in-memory stream.
type half struct {
	mu     sync.Mutex
	buf    []byte
	closed bool
	err    error
	wake   chan struct{}
}

func newHalf() *half { return &half{wake: make(chan struct{}, 1)} }

func (h *half) signal() {
	select {
	case h.wake <- struct{}{}:
	default:
	}
}

type bconn struct {
	rd, wr   *half
	maxRead  int
	dlMu     sync.Mutex
	rdl      time.Time
	dlCh     chan struct{}
	deadlineCalls []time.Time
}

func bpipe() (*bconn, *bconn) {
	a, b := newHalf(), newHalf()
	return &bconn{rd: a, wr: b, dlCh: make(chan struct{}, 1)}, &bconn{rd: b, wr: a, dlCh: make(chan struct{}, 1)}
}

func (c *bconn) Read(p []byte) (int, error) {
	for {
		c.dlMu.Lock()
		dl := c.rdl
		c.dlMu.Unlock()
		c.rd.mu.Lock()
		if len(c.rd.buf) > 0 {
			n := len(p)
			if c.maxRead > 0 && n > c.maxRead {
				n = c.maxRead
			}
			n = copy(p[:n], c.rd.buf)
			c.rd.buf = c.rd.buf[n:]
			c.rd.mu.Unlock()
			return n, nil
		}
		if c.rd.closed {
			err := c.rd.err
			c.rd.mu.Unlock()
			if err == nil {
				err = io.EOF
			}
			return 0, err
		}
		c.rd.mu.Unlock()
		if !dl.IsZero() && !time.Now().Before(dl) {
			return 0, os.ErrDeadlineExceeded
		}
		var tc <-chan time.Time
		var tm *time.Timer
		if !dl.IsZero() {
			tm = time.NewTimer(time.Until(dl))
			tc = tm.C
		}
		select {
		case <-c.rd.wake:
		case <-c.dlCh:
		case <-tc:
		}
		if tm != nil {
			tm.Stop()
		}
	}
}

func (c *bconn) Write(p []byte) (int, error) {
	c.wr.mu.Lock()
	defer c.wr.mu.Unlock()
	if c.wr.closed {
		return 0, io.ErrClosedPipe
	}
	c.wr.buf = append(c.wr.buf, p...)
	c.wr.signal()
	return len(p), nil
}

func (c *bconn) Close() error {
	for _, h := range []*half{c.rd, c.wr} {
		h.mu.Lock()
		h.closed = true
		h.mu.Unlock()
		h.signal()
	}
	return nil
}
func (c *bconn) LocalAddr() net.Addr  { return &net.TCPAddr{} }
func (c *bconn) RemoteAddr() net.Addr { return &net.TCPAddr{} }
func (c *bconn) SetDeadline(t time.Time) error {
	c.dlMu.Lock()
	c.rdl = t
	c.deadlineCalls = append(c.deadlineCalls, t)
	c.dlMu.Unlock()
	select {
	case c.dlCh <- struct{}{}:
	default:
	}
	return nil
}
func (c *bconn) SetReadDeadline(t time.Time) error  { return c.SetDeadline(t) }
func (c *bconn) SetWriteDeadline(t time.Time) error { return nil }
