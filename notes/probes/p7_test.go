//go:build verif

package probe

import (
	"bytes"
	"context"
	"io"
	"net"
	"net/http"
	"strconv"
	"sync"
	"testing"
	"testing/synctest"
	"time"

	"github.com/c2FmZQ/ech"
	"github.com/c2FmZQ/ech/dns"
)

func TestP7(t *testing.T) {
	go func() {
		time.Sleep(5 * time.Second)
		panic("real-time watchdog: hang")
	}()
	synctest.Test(t, func(t *testing.T) {
		dns.VerifRoundTripper = rtFunc(func(r *http.Request) (*http.Response, error) {
			body, _ := io.ReadAll(r.Body)
			q, _ := dns.DecodeMessage(body)
			time.Sleep(30 * time.Millisecond)
			q.QR = 1
			if q.Question[0].Type == 1 {
				q.Answer = append(q.Answer, dns.RR{Name: q.Question[0].Name, Type: 1, Class: 1, TTL: 50, Data: net.IP{10, 0, 0, 1}})
			}
			b := q.Bytes()
			h := http.Header{}
			h.Set("content-length", strconv.Itoa(len(b)))
			return &http.Response{StatusCode: 200, Body: io.NopCloser(bytes.NewReader(b)), Header: h}, nil
		})
		r, _ := ech.NewResolver("https://doh.sim/dns-query")
		var wg sync.WaitGroup
		for i := 0; i < 4; i++ {
			wg.Add(1)
			go func() {
				defer wg.Done()
				res, err := r.Resolve(context.Background(), "a.example.com")
				t.Logf("res=%v err=%v at %v", res.Address, err, time.Now().UnixMilli())
			}()
		}
		wg.Wait()
	})
}
