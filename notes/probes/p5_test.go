package probe

import (
	"context"
	"crypto/ed25519"
	"crypto/rand"
	"crypto/tls"
	"crypto/x509"
	"crypto/x509/pkix"
	"fmt"
	"math/big"
	"testing"
	"testing/cryptotest"
	"testing/synctest"
	"time"

	"github.com/c2FmZQ/ech"
)

func bigCert(t *testing.T, n int) (tls.Certificate, *x509.CertPool) {
	pub, priv, _ := ed25519.GenerateKey(rand.Reader)
	names := []string{"private.example.com"}
	for i := 0; i < n; i++ {
		names = append(names, fmt.Sprintf("padding-name-%06d.example.com", i))
	}
	templ := &x509.Certificate{SerialNumber: big.NewInt(1), Subject: pkix.Name{CommonName: "x"}, NotBefore: time.Now().Add(-time.Hour), NotAfter: time.Now().Add(time.Hour),
		KeyUsage: x509.KeyUsageCertSign | x509.KeyUsageDigitalSignature, BasicConstraintsValid: true, IsCA: true, DNSNames: names}
	b, err := x509.CreateCertificate(rand.Reader, templ, templ, pub, priv)
	if err != nil {
		t.Fatal(err)
	}
	leaf, _ := x509.ParseCertificate(b)
	pool := x509.NewCertPool()
	pool.AddCert(leaf)
	return tls.Certificate{Certificate: [][]byte{b}, PrivateKey: priv, Leaf: leaf}, pool
}

func TestP5(t *testing.T) {
	cryptotest.SetGlobalRandom(t, 1)
	for _, n := range []int{10, 400, 600, 1200} {
		for _, useECH := range []bool{true, false} {
			synctest.Test(t, func(t *testing.T) {
				priv, cfg, _ := ech.NewConfig(7, []byte("public.example.com"))
				cl, _ := ech.ConfigList([]ech.Config{cfg})
				cert, pool := bigCert(t, n)
				cc, fc := bpipe()
				done := make(chan error, 1)
				go func() {
					cfg := &tls.Config{ServerName: "private.example.com", RootCAs: pool, MinVersion: tls.VersionTLS13}
					if useECH {
						cfg.EncryptedClientHelloConfigList = cl
					}
					c := tls.Client(cc, cfg)
					err := c.HandshakeContext(context.Background())
					if err != nil {
						cc.Close()
					}
					done <- err
				}()
				conn, err := ech.NewConn(context.Background(), fc, ech.WithKeys([]ech.Key{{Config: cfg, PrivateKey: priv.Bytes(), SendAsRetry: true}}))
				if err != nil {
					t.Fatal(err)
				}
				s := tls.Server(conn, &tls.Config{Certificates: []tls.Certificate{cert}})
				serr := s.HandshakeContext(context.Background())
				if serr != nil {
					fc.Close()
				}
				cerr := <-done
				t.Logf("certlen=%d ech=%v: server err=%v client err=%v", len(cert.Certificate[0]), useECH, serr, cerr)
			})
		}
	}
}
