package probe

import (
	"context"
	"crypto/tls"
	"runtime"
	"testing"
	"testing/synctest"

	"github.com/c2FmZQ/ech"
)

func TestP3(t *testing.T) {
	// capture a hello
	var hello []byte
	synctest.Test(t, func(t *testing.T) {
		cc, fc := bpipe()
		go func() {
			c := tls.Client(cc, &tls.Config{ServerName: "a.example.com", InsecureSkipVerify: true})
			c.HandshakeContext(context.Background())
		}()
		synctest.Wait()
		fc.rd.mu.Lock()
		hello = append([]byte(nil), fc.rd.buf...)
		fc.rd.mu.Unlock()
		cc.Close()
	})
	for _, procs := range []int{1, 4, 16} {
		runtime.GOMAXPROCS(procs)
		for _, gosched := range []bool{false, true} {
			bad := 0
			const N = 300
			for i := 0; i < N; i++ {
				synctest.Test(t, func(t *testing.T) {
					cc, fc := bpipe()
					cc.Write(hello)
					ctx, cancel := context.WithCancel(context.Background())
					if gosched {
						// let nothing run: NewConn itself spawns the watcher
					}
					conn, err := ech.NewConn(ctx, fc)
					cancel()
					if err != nil {
						t.Fatal(err)
					}
					synctest.Wait()
					fc.dlMu.Lock()
					n := len(fc.deadlineCalls)
					fc.dlMu.Unlock()
					if n > 0 {
						bad++
					}
					_ = conn
				})
			}
			t.Logf("GOMAXPROCS=%d: SetDeadline after successful NewConn in %d/%d runs", procs, bad, N)
		}
	}
}
