package probe

import (
	"context"
	"crypto/ed25519"
	"crypto/rand"
	"crypto/tls"
	"crypto/x509"
	"crypto/x509/pkix"
	"errors"
	"fmt"
	"io"
	"math/big"
	"net"
	"strings"
	"testing"
	"testing/cryptotest"
	"testing/synctest"
	"time"

	"github.com/c2FmZQ/ech"
)

func newCert(t *testing.T, names ...string) (tls.Certificate, *x509.CertPool) {
	pub, priv, _ := ed25519.GenerateKey(rand.Reader)
	templ := &x509.Certificate{SerialNumber: big.NewInt(1), Subject: pkix.Name{CommonName: "c"}, NotBefore: time.Now().Add(-time.Hour), NotAfter: time.Now().Add(24 * time.Hour),
		KeyUsage: x509.KeyUsageCertSign | x509.KeyUsageDigitalSignature, ExtKeyUsage: []x509.ExtKeyUsage{x509.ExtKeyUsageServerAuth, x509.ExtKeyUsageClientAuth}, BasicConstraintsValid: true, IsCA: true, DNSNames: names}
	b, err := x509.CreateCertificate(rand.Reader, templ, templ, pub, priv)
	if err != nil {
		t.Fatal(err)
	}
	leaf, _ := x509.ParseCertificate(b)
	pool := x509.NewCertPool()
	pool.AddCert(leaf)
	return tls.Certificate{Certificate: [][]byte{b}, PrivateKey: priv, Leaf: leaf}, pool
}

// front: NewConn, route on ServerName, serve with given config; returns info
func front(t *testing.T, fc net.Conn, keys []ech.Key, publicName string, pubCfg, beCfg *tls.Config, out chan<- string) {
	conn, err := ech.NewConn(context.Background(), fc, ech.WithKeys(keys))
	if err != nil {
		out <- "newconn err: " + err.Error()
		return
	}
	cfg := beCfg
	route := "backend"
	if conn.ServerName() == publicName {
		cfg = pubCfg
		route = "public"
	}
	s := tls.Server(conn, cfg)
	b := make([]byte, 4)
	_, err = io.ReadFull(s, b)
	if err == nil {
		s.Write([]byte("pong"))
	}
	st := s.ConnectionState()
	out <- fmt.Sprintf("route=%s accepted=%v sn=%q alpn=%v | be: err=%v resumed=%v hrr=%v proto=%q peercerts=%d", route, conn.ECHAccepted(), conn.ServerName(), conn.ALPNProtos(), err, st.DidResume, st.HelloRetryRequest, st.NegotiatedProtocol, len(st.PeerCertificates))
	fc.Close()
}

func client(cc net.Conn, cfg *tls.Config) (string, error) {
	c := tls.Client(cc, cfg)
	err := c.HandshakeContext(context.Background())
	if err != nil {
		cc.Close()
		return "", err
	}
	c.Write([]byte("ping"))
	b := make([]byte, 4)
	_, err = io.ReadFull(c, b)
	// read a bit more to pick up session tickets
	c.SetReadDeadline(time.Now().Add(time.Second))
	c.Read(b[:1])
	st := c.ConnectionState()
	cc.Close()
	return fmt.Sprintf("ech=%v resumed=%v proto=%q", st.ECHAccepted, st.DidResume, st.NegotiatedProtocol), err
}

func TestQ1(t *testing.T) {
	cryptotest.SetGlobalRandom(t, 21)
	synctest.Test(t, func(t *testing.T) {
		long := strings.Repeat("a23456789.", 24) + "example.com" // 251 bytes
		pubName := "public.example.com"
		beCert, bePool := newCert(t, "secret.example.com", long)
		pubCert, pubPool := newCert(t, pubName)
		clCert, clPool := newCert(t, "client")
		pool := x509.NewCertPool()
		pool.AddCert(beCert.Leaf)
		pool.AddCert(pubCert.Leaf)
		_ = bePool
		_ = pubPool

		mk := func(id uint8, suites []ech.CipherSuite) (ech.Key, []byte) {
			priv, cfg, _ := ech.NewConfig(id, []byte(pubName))
			if suites != nil {
				spec, _ := cfg.Spec()
				spec.CipherSuites = suites
				cfg, _ = spec.Bytes()
			}
			cl, _ := ech.ConfigList([]ech.Config{cfg})
			return ech.Key{Config: cfg, PrivateKey: priv.Bytes(), SendAsRetry: true}, cl
		}
		k1, cl1 := mk(1, []ech.CipherSuite{{KDF: 1, AEAD: 1}})
		k2, cl2 := mk(2, []ech.CipherSuite{{KDF: 1, AEAD: 2}})
		kStale, clStale := mk(3, nil)
		_ = kStale
		keys := []ech.Key{k1, k2}
		beCfg := &tls.Config{Certificates: []tls.Certificate{beCert}, NextProtos: []string{"h2", "http/1.1"}, ClientAuth: tls.RequestClientCert, ClientCAs: clPool}
		pubCfg := &tls.Config{Certificates: []tls.Certificate{pubCert}, EncryptedClientHelloKeys: keys}
		cache := tls.NewLRUClientSessionCache(8)

		run := func(label string, ccfg *tls.Config) error {
			cc, fc := bpipe()
			out := make(chan string, 1)
			go front(t, fc, keys, pubName, pubCfg, beCfg, out)
			cs, err := client(cc, ccfg)
			t.Logf("%s: client %s err=%v", label, cs, err)
			t.Logf("%s: front  %s", label, <-out)
			return err
		}
		base := func(cl []byte, sn string) *tls.Config {
			return &tls.Config{ServerName: sn, RootCAs: pool, NextProtos: []string{"h2"}, EncryptedClientHelloConfigList: cl, MinVersion: tls.VersionTLS13, ClientSessionCache: cache}
		}
		run("aes128 cold", base(cl1, "secret.example.com"))
		run("aes128 warm", base(cl1, "secret.example.com"))
		run("aes256 long-sni", base(cl2, long))
		c := base(cl1, "secret.example.com")
		c.Certificates = []tls.Certificate{clCert}
		c.ClientSessionCache = nil
		run("client-cert", c)
		err := run("stale", base(clStale, "secret.example.com"))
		var rej *tls.ECHRejectionError
		if errors.As(err, &rej) {
			t.Logf("stale: got retry configs len=%d", len(rej.RetryConfigList))
			run("stale-retry", base(rej.RetryConfigList, "secret.example.com"))
		}
	})
}
