package probe

import (
	"net"
	"sync"
	"testing"

	"github.com/c2FmZQ/ech"
	"github.com/c2FmZQ/ech/dns"
)

func TestP4(t *testing.T) {
	m := dns.Message{QR: 1, Question: []dns.Question{{Name: "a.example.com", Type: 65, Class: 1}},
		Answer: []dns.RR{{Name: "a.example.com", Type: 65, Class: 1, TTL: 60, Data: dns.HTTPS{Priority: 1, ALPN: []string{"h3", "h2", "foo"}}}}}
	d, err := dns.DecodeMessage(m.Bytes())
	if err != nil {
		t.Fatal(err)
	}
	h := d.Answer[0].Data.(dns.HTTPS)
	t.Logf("alpn len=%d cap=%d", len(h.ALPN), cap(h.ALPN))
	res := ech.ResolveResult{Port: 443, Address: []net.IP{{10, 0, 0, 1}}, HTTPS: []dns.HTTPS{h}}
	var wg sync.WaitGroup
	for i := 0; i < 4; i++ {
		wg.Add(1)
		go func() {
			defer wg.Done()
			for j := 0; j < 100; j++ {
				for range res.Targets("tcp") {
				}
			}
		}()
	}
	wg.Wait()
}
