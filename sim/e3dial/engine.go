// Package e3dial is engine E3 "dialsim": ech.Dialer[*simConn].Dial driven by a
// scripted DialFunc inside a synctest bubble (virtual time). It decides C17
// (Dial never weakens the caller's ECH / server-name requirements) and C18
// (attempts ordered, bounded, leak-free; first success wins).
package e3dial

import (
	"encoding/json"
	"fmt"
	"testing"

	"verifsim/core"
)

// Plan is the plain-data description of one E3 run; exactly one sub-plan is set.
type Plan struct {
	Kind string `json:"kind"` // "race" (C18) | "ech" (C17)
	Seed uint64 `json:"seed"` // pins crypto randomness (PublicName bootstrap config id)

	Race *RacePlan `json:"race,omitempty"`
	Ech  *EchPlan  `json:"ech,omitempty"`
}

func (p *Plan) clone() *Plan {
	b, _ := json.Marshal(p)
	var q Plan
	if err := json.Unmarshal(b, &q); err != nil {
		panic(err)
	}
	return &q
}

type Engine struct{}

func (Engine) Name() string { return "e3dial" }

var runs = map[string][2]int{ // quick, thorough
	"C17": {40000, 4000000},
	"C18": {12000, 1500000},
}

func (Engine) Runs(prop, tier string) int {
	r, ok := runs[prop]
	if !ok {
		return 0
	}
	if tier == "thorough" {
		return r[1]
	}
	return r[0]
}

func (Engine) Generate(prop, tier string, seed uint64, idx int) *Plan {
	s := core.Mix(seed, prop, idx)
	switch prop {
	case "C17":
		return genC17(s, idx)
	case "C18":
		if idx%8 == 7 {
			// the resolver-driven harness: ECH rejections with retry configs (a
			// second DialFunc call within the same attempt)
			return genC17(s, idx)
		}
		return genC18(s, idx, tier)
	}
	panic("e3dial: unknown property " + prop)
}

func (Engine) Execute(t *testing.T, prop string, p *Plan) *core.Result {
	switch {
	case p.Kind == "race" && p.Race != nil:
		return executeRace(t, prop, p.Seed, p.Race)
	case p.Kind == "ech" && p.Ech != nil:
		return executeEch(t, prop, p.Seed, p.Ech)
	}
	return &core.Result{Harness: fmt.Sprintf("unknown plan kind %q", p.Kind)}
}

func (Engine) Shrink(prop string, p *Plan) []*Plan {
	switch p.Kind {
	case "race":
		return shrinkRace(p)
	case "ech":
		return shrinkEch(p)
	}
	return nil
}
