package e3dial

import (
	"os"
	"strconv"
	"testing"
)

// Developer aid: VERIF_DBG_TWIN=from:to go test -tags verif -run TestTwinOnly (runs only the plans with two Dial calls on one Dialer)
func TestTwinOnly(t *testing.T) {
	v := os.Getenv("VERIF_DBG_TWIN")
	if v == "" {
		t.Skip()
	}
	from, _ := strconv.Atoi(v)
	e := Engine{}
	for i := from; i < from+400000; i += 8 {
		p := e.Generate("C17", "quick", 1, i-i%8+3)
		if p.Ech == nil || !p.Ech.Twin {
			continue
		}
		os.WriteFile("/var/tmp/twin_cur_"+v, []byte(strconv.Itoa(i-i%8+3)), 0o644)
		e.Execute(t, "C17", p)
	}
}
