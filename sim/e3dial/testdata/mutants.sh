#!/bin/bash
# Sensitivity catalogue for engine e3dial (C17, C18): each entry is a small edit
# of /repo/dial.go applied to a scratch copy under $SCRATCH (never to /repo),
# built with the e3dial worker and run for RUNS plans of the quick batch.
# "expect" is the violation class that must show up ("-" = the edit is
# behaviour the properties permit: nothing may be reported).
#
#   testdata/mutants.sh            run the whole catalogue
#   testdata/mutants.sh m_noclose  run one entry
export GOFLAGS=-mod=mod GOPROXY=off GOSUMDB=off GOTOOLCHAIN=local
SCRATCH=${SCRATCH:-/var/tmp/e3mut}
RUNS=${RUNS:-3000}
GO=${GO:-go1.26.8}

one() { # prop name expect old=>new
	local prop=$1 name=$2 expect=$3 expr=$4 d=$SCRATCH/$2
	rm -rf "$d"; mkdir -p "$d/sim" "$d/replays"
	cp -r /repo "$d/repo"; rm -rf "$d/repo/.git"
	cp -r /verif/sim/core /verif/sim/e3dial /verif/sim/go.mod /verif/sim/go.sum "$d/sim/"
	sed -i "s#=> /repo#=> $d/repo#g" "$d/sim/go.mod"
	python3 - "$d/repo/dial.go" "$expr" <<'PY' || { echo "$name: PATTERN NOT FOUND"; return; }
import sys
f,expr=sys.argv[1],sys.argv[2]
old,new=expr.split('=>',1)
s=open(f).read()
if old not in s: sys.exit(1)
open(f,'w').write(s.replace(old,new,1))
PY
	(cd "$d/sim" && $GO test -c -tags verif -o "$d/t.test" ./e3dial) || { echo "$name: DOES NOT BUILD"; return; }
	VERIF_PROP=$prop VERIF_TIER=quick VERIF_SEED=1 VERIF_OUT=$d/out.json VERIF_FROM=0 VERIF_TO=$RUNS VERIF_REPLAY_DIR=$d/replays \
		"$d/t.test" -test.run '^TestWorker$' -test.timeout 0 > "$d/log" 2>&1
	python3 - "$d/out.json" "$name" "$prop" "$expect" <<'PY'
import json,sys
out,name,prop,expect=sys.argv[1:5]
try: r=json.load(open(out))
except Exception as e:
    print("%-16s %s  NO REPORT (%s)"%(name,prop,e)); sys.exit()
classes=sorted({v["class"] for v in r["violations"] or []})
ok = (expect=="-" and not classes) or (expect in classes)
print("%-16s %s  expect %-14s got %-60s %s"%(name,prop,expect,",".join(classes) or "-", "OK" if ok and not r.get("harness") else "MISSED/HARNESS %s"%(r.get("harness") or "")[:80]))
PY
}

run() { [ -z "$ONLY" ] || [ "$ONLY" = "$2" ] && one "$@"; }
ONLY=$1

# ---- C18
run C18 m_noclose    loser-open     $'\t\t\tif c, ok := any(conn).(io.Closer); ok {\n\t\t\t\tc.Close()\n\t\t\t}=>\t\t\t_ = io.EOF'
run C18 m_nostagger  stagger        $'case <-time.After(delay):=>case <-time.After(0):'
run C18 m_notimeout  timeout        $'ctx, cancel := context.WithTimeout(ctx, timeout)=>ctx, cancel := context.WithCancel(ctx)'
run C18 m_nowake     -              $'errs = append(errs, err)\n\t\t\twake()=>errs = append(errs, err)\n\t\t\t_ = wake'
run C18 m_join       errors         $'return nilConn, errors.Join(errs...)=>return nilConn, errs[0]'
run C18 m_workers    concurrency    $'for range numWorkers {=>for range numWorkers + 1 {'
run C18 m_nocancel   post-decision  $'ctx, cancel := context.WithCancel(ctx)\n\tdefer cancel()=>ctx, cancel := context.WithCancel(ctx)\n\t_ = cancel'
run C18 m_collector  cancel         $'\t\tcase <-ctx.Done():\n\t\t\treturn nilConn, ctx.Err()\n\t\tcase conn := <-connChan:=>\t\tcase conn := <-connChan:'
run C18 m_sendconn   goroutine-leak $'\t\tcase <-ctx.Done():\n\t\t\tif c, ok := any(conn).(io.Closer); ok {\n\t\t\t\tc.Close()\n\t\t\t}\n\t\tcase connChan <- conn:=>\t\tcase connChan <- conn:'
run C18 m_latewin    first-success  $'\t\tcase conn := <-connChan:\n\t\t\treturn conn, nil=>\t\tcase conn := <-connChan:\n\t\t\ttime.Sleep(time.Millisecond)\n\t\t\treturn conn, nil'
# ---- C17
run C17 n_sn         server-name    $'tc.ServerName = target.host=>tc.ServerName = target.resolved.Address.Addr().String()'
run C17 n_req        require-ech    $'if d.RequireECH && tc.EncryptedClientHelloConfigList == nil {=>if d.RequireECH && tc.EncryptedClientHelloConfigList == nil && tc.ServerName == "never" {'
run C17 n_override   ech-list       $'if needECH && target.resolved.ECH != nil {=>if target.resolved.ECH != nil {'
run C17 n_noclone    caller-config  $'\t} else {\n\t\ttc = tc.Clone()\n\t}=>\t}'
run C17 n_retry2     retry          $'len(echErr.RetryConfigList) > 0 && !retried {=>len(echErr.RetryConfigList) > 0 && (!retried || retried) {'
run C17 n_retrycfg   retry          $'\t\t\ttc.EncryptedClientHelloConfigList = echErr.RetryConfigList\n=>'
run C17 n_noretry    retry          $'\t\t\tretried = true\n\t\t\tgoto retry\n=>\t\t\tretried = true\n\t\t\tif retried {\n\t\t\t\treturn nilConn, err\n\t\t\t}\n\t\t\tgoto retry\n'
run C17 n_shared     ech-list       $'\t\t\t\ttc := tc.Clone()\n=>\t\t\t\ttc := tc\n'
run C17 n_boot       ech-list       $'NewConfig(id[0], []byte(d.PublicName))=>NewConfig(id[0], []byte("x"+d.PublicName))'
