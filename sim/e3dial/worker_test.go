package e3dial

import (
	"testing"

	"verifsim/core"
)

func TestWorker(t *testing.T) { core.RunWorker[Plan](t, Engine{}) }

func TestRuns(t *testing.T) { core.PrintRuns[Plan](t, Engine{}) }
