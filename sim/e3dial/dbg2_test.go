package e3dial

import (
	"encoding/json"
	"os"
	"strconv"
	"testing"
)

func TestDet(t *testing.T) {
	prop := os.Getenv("VERIF_DBG_PROP")
	if prop == "" || os.Getenv("VERIF_DBG_DET") == "" {
		t.Skip()
	}
	i, _ := strconv.Atoi(os.Getenv("VERIF_DBG_FROM"))
	e := Engine{}
	p := e.Generate(prop, "quick", 1, i)
	b, _ := json.Marshal(p)
	t.Logf("plan %s", b)
	debugCanon = func(l []string) { t.Logf("canon:\n%v", l) }
	for k := 0; k < 3; k++ {
		r := e.Execute(t, prop, p)
		t.Logf("hash %s arb=%v", r.LogHash, r.Arbitrated)
	}
}
