package e3dial

import "verifsim/core"

func (Engine) Describe(prop string) core.Description {
	d := core.Description{Components: map[string]string{
		"ech.Dialer[T].Dial / dialOne":                "real code under test (worker pool, feeder, collector, retry)",
		"ech.Resolver.Resolve, ResolveResult.Targets": "real code (IP literals and localhost resolve without DNS; C17 zones go through the real resolver, cache, retryablehttp and dns codec)",
		"context, timers, time.After":                 "real, on the virtual clock of testing/synctest (one bubble per run)",
		"ech.Transport.RoundTrip (C17, 1 plan in 8)":  "real code, with the real net/http.Transport calling DialTLSContext",
		"DialFunc":                               "stub: scripted outcome and latency per target; records arguments, context state and instants",
		"connections":                            "stub: *simConn implementing io.Closer; Close is logged",
		"DoH upstream (C17 only)":                "stub: in-process http.RoundTripper installed through the verif-tagged hook dns.VerifRoundTripper; zero latency",
		"crypto randomness":                      "pinned per plan (testing/cryptotest) -- only the PublicName bootstrap config draws from it",
		"goroutine scheduling inside an instant": "Go runtime (not controlled; see assumptions)",
	}}
	switch prop {
	case "C18":
		d.Rule = "One evaluation = one plan (targets, per-target scripted outcome and duration, MaxConcurrency, ConcurrencyDelay, Timeout, caller cancel/deadline instant) executed against the real Dial in virtual time and judged over its event log; tie-mode plans repeat the same schedule 24 (quick) / 64 (thorough) times inside the evaluation. A run is non-trivial when Dial returned and at least one DialFunc call was made (or the plan has no target). The schedule signature is the time-ordered sequence of (start | end+result | close | return, target index) plus target count, effective MaxConcurrency and cancellation kind -- instants themselves are not part of it."
		d.Assumptions = []string{
			"Unique-timestamp plans give every scripted completion, timer and cancellation its own virtual instant (per-source nanosecond residues); the few plans where two sources still coincide are detected after the run, marked runtime_arbitrated and excluded from the log-hash determinism check.",
			"Goroutines of Dial that become runnable in the same virtual instant are ordered by the Go runtime. The oracle therefore uses only virtual instants and the harness's own sequence counter (a real happens-before order), accepts every order inside one instant, and takes 'the outcome is decided' at min(first success, end of the caller's context, return of Dial).",
			"Tie-mode plans (deliberately coinciding instants) depend on select arbitration in the runtime; every outcome the statement allows is accepted and the scenario is repeated K times per evaluation, so an arbitration-dependent defect with probability q per repetition is missed with probability (1-q)^K.",
			"The stagger rule is a lower bound: attempt k may start later than start(k-1)+ConcurrencyDelay (busy workers) and a failure need not wake the feeder; it may start earlier only if a failure lies in [start(k-1), start(k)].",
			"Attempts that ignore their context are released at a fixed late instant of the run (one microsecond apart), which stands for 'the outstanding attempts have returned'.",
			"Targets come from IP-literal / localhost addresses only (resolution latency and resolver errors are not part of these schedules).",
			"A quarter of the chunks run on a -race build of the same worker.",
		}
		d.RequiredProbes = []string{"loser_closed", "tie_event", "cancel_during_dial", "hang_ignoring_ctx", "start_after_decision", "failure_wakes_feeder", "pool_delays_start", "attempt_timeout", "all_failed_joined", "no_address", "late_success_closed", "retry_under_attempt_deadline"}
	case "C17":
		d.Rule = "One evaluation = one plan (zone with HTTPS/A/AAAA/CNAME records and resolver failures, comma-separated address, RequireECH / PublicName / caller tls.Config, per-address outcome script) executed against the real Dial with the real Resolver in virtual time; every DialFunc invocation is judged. A run is non-trivial when at least one DialFunc call was made or a RequireECH refusal was possible. The signature is the sequence of (call number, provenance of the address, source of the config list, outcome) plus the option flags and whether Dial returned a connection."
		d.Assumptions = []string{
			"The simulated DoH upstream encodes its answers with the repository's own dns.Message.Bytes: C17 is about Dial, not about the codec (C12-C14 use an independent codec).",
			"Zones are generated so that every address belongs to exactly one host of the address list and to at most one HTTPS record, which makes 'the record that produced the address' unambiguous; the oracle derives that ownership from the zone with its own small model (alias chains of length <= 2, CNAMEs inside an answer, targets, hints) and does not predict the target order.",
			"One plan in eight reaches Dial the way an http.Client does: through ech.Transport.RoundTrip (real Transport, real net/http.Transport dial path, Transport.TLSConfig = the caller's config, Transport.Dialer carrying the plan's options and the scripted DialFunc). No attempt of such a plan succeeds (the scripted DialFunc has no *tls.Conn to hand to net/http), and the zone's records are all usable for h2/http1.1 so that Transport's protocol filter (C19's business) removes only AliasMode records. The stock DialFunc of NewDialer (crypto/tls over real sockets) is outside the simulator.",
			"An ECH rejection that comes back after Dial has already returned may or may not be retried (the retry would run under a cancelled context); before that point exactly one retry is required.",
			"A failure that takes no virtual time (a RequireECH refusal, a resolver error for one host) reaches Dial's collector in the same instant in which the feeder goes back to waiting; whether it shortens the stagger delay is decided by the runtime. Such runs are marked runtime_arbitrated (their verdicts do not depend on it; only their instants do).",
			"Caller's tls.Config immutability is checked on the fields the harness sets (ServerName, EncryptedClientHelloConfigList, NextProtos, MinVersion, InsecureSkipVerify) and on pointer identity.",
		}
		d.RequiredProbes = []string{"retry_with_configs", "require_ech_refusal", "bootstrap_used", "dns_ech_used", "caller_ech_kept", "caller_sn_kept", "alias_followed", "retry_rejected_again", "reject_without_retry_configs", "partial_ech_host_dialled", "cname_in_answer", "via_transport"}
	}
	return d
}
