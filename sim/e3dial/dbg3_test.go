package e3dial

import (
	"fmt"
	"os"
	"strconv"
	"testing"
)

func TestHashes(t *testing.T) {
	prop := os.Getenv("VERIF_DBG_PROP")
	if prop == "" || os.Getenv("VERIF_DBG_HASHES") == "" {
		t.Skip()
	}
	from, _ := strconv.Atoi(os.Getenv("VERIF_DBG_FROM"))
	to, _ := strconv.Atoi(os.Getenv("VERIF_DBG_TO"))
	e := Engine{}
	f, _ := os.Create(os.Getenv("VERIF_DBG_HASHES"))
	defer f.Close()
	for i := from; i < to; i++ {
		p := e.Generate(prop, "quick", 1, i)
		r := e.Execute(t, prop, p)
		if !r.Arbitrated {
			fmt.Fprintf(f, "%d %s\n", i, r.LogHash)
		}
	}
}
