package e3dial

import (
	"fmt"
	"math/rand/v2"
	"net"
	"sort"
	"strings"
	"time"

	"verifsim/core"
)

// zoneGen hands out globally unique addresses, so that every address belongs
// to exactly one host of the plan and to at most one HTTPS record.
type zoneGen struct {
	r    *rand.Rand
	z    *Zone
	nIP  int
	ips  []string
	echN int
}

func (g *zoneGen) v4() string {
	g.nIP++
	ip := fmt.Sprintf("10.%d.%d.%d", 1+g.nIP/200, g.nIP%200, 1+g.r.IntN(250))
	g.ips = append(g.ips, ip)
	return ip
}

func (g *zoneGen) v6() string {
	g.nIP++
	ip := fmt.Sprintf("fd00:%x::%x", g.nIP, 1+g.r.IntN(60000))
	g.ips = append(g.ips, canonIP(ip))
	return canonIP(ip)
}

// giveAddrs gives name 1..2 addresses (A, sometimes AAAA), possibly behind a
// CNAME to a name under someone else's control.
func (g *zoneGen) giveAddrs(name string) {
	owner := name
	if core.Chance(g.r, 1, 5) {
		owner = fmt.Sprintf("edge%d.attacker-cdn.test", g.nIP)
		g.z.CNAME[name] = owner
	}
	g.z.A[owner] = append(g.z.A[owner], g.v4())
	if core.Chance(g.r, 1, 3) {
		g.z.AAAA[owner] = append(g.z.AAAA[owner], g.v6())
	}
	if core.Chance(g.r, 1, 5) {
		g.z.A[owner] = append(g.z.A[owner], g.v4())
	}
}

func (g *zoneGen) ech() int {
	g.echN++
	return g.echN
}

// services puts 1..3 ServiceMode records at owner; origin is the name whose
// addresses a record without target uses.
func (g *zoneGen) services(owner, origin string, tag string) {
	n := core.Between(g.r, 1, 3)
	mode := g.r.IntN(4) // 0 all ech, 1 none, 2/3 mixed
	haveNoTarget := false
	// hintsOnly: a name without address records whose ServiceMode records all
	// point at the name itself, each with address hints (and a config) of its own
	hintsOnly := len(g.z.A[origin]) == 0 && len(g.z.AAAA[origin]) == 0 && g.z.CNAME[origin] == "" && core.Chance(g.r, 1, 2)
	if hintsOnly {
		n = core.Between(g.r, 2, 3)
	}
	for i := 0; i < n; i++ {
		rec := SvcRec{Priority: uint16(1 + i*2 + g.r.IntN(2))}
		if hintsOnly {
			if mode != 1 && !(mode >= 2 && i == n-1) {
				rec.ECH = g.ech()
			}
			rec.V4Hint = []string{g.v4()}
			if core.Chance(g.r, 1, 3) {
				rec.V6Hint = []string{g.v6()}
			}
			g.z.HTTPS[owner] = append(g.z.HTTPS[owner], rec)
			continue
		}
		switch mode {
		case 0:
			rec.ECH = g.ech()
		case 1:
		default:
			if core.Chance(g.r, 1, 2) {
				rec.ECH = g.ech()
			} else if core.Chance(g.r, 1, 4) {
				rec.ECH = -1 // an `ech` parameter that is present but empty
			}
		}
		if !haveNoTarget && core.Chance(g.r, 1, 2) {
			haveNoTarget = true
			if core.Chance(g.r, 1, 4) && len(g.z.A[origin]) == 0 && g.z.CNAME[origin] == "" {
				// no address records at all: the hints are what is left
				rec.V4Hint = []string{g.v4()}
				if core.Chance(g.r, 1, 2) {
					rec.V6Hint = []string{g.v6()}
				}
			}
		} else {
			rec.Target = fmt.Sprintf("svc%d-%s.pool.test", i, tag)
			if !core.Chance(g.r, 1, 6) { // (else: a target that has no address records at all)
				g.giveAddrs(rec.Target)
			}
		}
		if core.Chance(g.r, 1, 4) {
			rec.Port = uint16(core.Pick(g.r, []int{443, 8443, 4443}))
		}
		if core.Chance(g.r, 1, 2) {
			rec.ALPN = [][]string{{"h2"}, {"h3", "h2"}, {"h2", "h3", "http/1.1"}}[g.r.IntN(3)]
			rec.NoDefaultALPN = core.Chance(g.r, 1, 4)
		}
		g.z.HTTPS[owner] = append(g.z.HTTPS[owner], rec)
	}
	if core.Chance(g.r, 1, 3) { // records need not arrive sorted
		g.r.Shuffle(len(g.z.HTTPS[owner]), func(a, b int) {
			g.z.HTTPS[owner][a], g.z.HTTPS[owner][b] = g.z.HTTPS[owner][b], g.z.HTTPS[owner][a]
		})
	}
}

func genC17(s uint64, idx int) *Plan {
	r := core.NewRand(s, "plan")
	p := &EchPlan{Network: "tcp", Outcomes: map[string]DialOutcome{}}
	p.Zone = Zone{HTTPS: map[string][]SvcRec{}, A: map[string][]string{}, AAAA: map[string][]string{}, CNAME: map[string]string{}, Fail: map[string]string{}}
	g := &zoneGen{r: r, z: &p.Zone}
	if core.Chance(r, 1, 15) {
		p.Network = core.Pick(r, []string{"tcp4", "tcp6"})
	}
	nHosts := 1
	via := idx%8 == 5
	if core.Chance(r, 1, 3) && !via {
		nHosts = core.Between(r, 2, 3)
	}
	usedLocal := false
	for i := 0; i < nHosts; i++ {
		h := HostSpec{Port: core.Pick(r, []int{0, 443, 443, 8443})}
		tag := fmt.Sprintf("%d", i)
		switch x := r.IntN(100); {
		case x < 6:
			h.Host = g.v4()
		case x < 9:
			h.Host = g.v6()
			if h.Port == 0 {
				h.Port = 443
			}
		case x < 12 && !usedLocal:
			usedLocal = true
			h.Host = "localhost"
			g.ips = append(g.ips, "127.0.0.1", "::1")
		default:
			h.Host = fmt.Sprintf("www%d.example", i)
			if core.Chance(r, 1, 6) {
				h.Host = fmt.Sprintf("a%d.b.c.deep-name.example", i)
			}
			q := h.Host
			if h.Port == 8443 {
				q = fmt.Sprintf("_8443._https.%s", h.Host)
			}
			switch y := r.IntN(100); {
			case y < 15: // no HTTPS records
				g.giveAddrs(h.Host)
			case y < 55: // ServiceMode records at the name itself
				if core.Chance(r, 4, 5) {
					g.giveAddrs(h.Host)
				}
				g.services(q, h.Host, tag)
			case y < 80: // alias chain of length 1..2
				end := fmt.Sprintf("svc-end%d.hosting.test", i)
				if core.Chance(r, 1, 3) {
					mid := fmt.Sprintf("alias-mid%d.hosting.test", i)
					p.Zone.HTTPS[q] = []SvcRec{{Priority: 0, Target: mid}}
					p.Zone.HTTPS[mid] = []SvcRec{{Priority: 0, Target: end}}
				} else {
					p.Zone.HTTPS[q] = []SvcRec{{Priority: 0, Target: end}}
				}
				if core.Chance(r, 1, 2) {
					g.giveAddrs(h.Host) // the aliased name has addresses of its own, too
				}
				if !core.Chance(r, 1, 5) { // (else: the alias target owns no address records)
					g.giveAddrs(end)
				}
				if core.Chance(r, 4, 5) {
					g.services(end, end, tag)
				}
			case y < 86: // alias to ".": the service does not exist
				p.Zone.HTTPS[q] = []SvcRec{{Priority: 0, Target: ""}}
				g.giveAddrs(h.Host)
			default: // HTTPS owner reached through a CNAME
				cn := fmt.Sprintf("cn%d.cdn-alias.test", i)
				p.Zone.CNAME[q] = cn
				if q != h.Host {
					g.giveAddrs(h.Host)
				} else {
					p.Zone.A[cn] = []string{g.v4()}
				}
				g.services(cn, h.Host, tag)
			}
			// resolver failures
			if core.Chance(r, 1, 8) {
				typ := core.Pick(r, []string{"HTTPS", "HTTPS", "A", "AAAA"})
				name := h.Host
				if typ == "HTTPS" {
					name = q
				}
				p.Zone.Fail[name+"/"+typ] = core.Pick(r, []string{"servfail", "nxdomain"})
			}
		}
		h.Space = nHosts > 1 && core.Chance(r, 1, 6)
		p.Hosts = append(p.Hosts, h)
	}

	// dialer options
	p.RequireECH = core.Chance(r, 2, 5)
	if core.Chance(r, 3, 10) {
		p.PublicName = core.Pick(r, []string{"public.example", "bootstrap.front.example", "x.y"})
		if core.Chance(r, 1, 12) {
			// a public name no ECH config can carry (more than 255 octets):
			// Dial has to refuse it - and leave nothing behind
			p.PublicName = strings.Repeat("p", 300) + ".example"
		}
	}
	switch x := r.IntN(100); {
	case x < 10:
		p.CallerNil = true
	default:
		if x < 30 {
			p.CallerECH = 900 + r.IntN(50)
		} else if x < 36 {
			p.CallerECH = -1
		}
		if core.Chance(r, 1, 4) {
			p.CallerServerName = core.Pick(r, []string{"override.example", "inner.secret.example"})
		}
	}
	if !p.CallerNil && idx%16 == 9 {
		p.CallerMaxVersion = core.Pick(r, []uint16{0x0303, 0x0303, 0x0302})
	}
	p.MaxConc = r.IntN(4)
	if d := core.Pick(r, []int64{0, 0, 20, 300}); d > 0 {
		p.DelayNs = d*int64(time.Millisecond) + 177147 // 3^11
	}
	if core.Chance(r, 1, 4) {
		p.TimeoutNs = 5*int64(time.Second) + 531441 // 3^12
	}

	// per-address outcomes; residues 3^i keep completions (incl. one retry) apart
	sort.Strings(g.ips)
	firsts := []string{"ok", "error", "hang", "reject_retry", "reject_noretry"}
	fw := []int{25, 30, 5, 30, 10}
	seconds := []string{"ok", "error", "reject_retry", "reject_noretry", "hang"}
	sw := []int{40, 20, 25, 10, 5}
	res := int64(1)
	for k, ip := range g.ips {
		if k%10 == 0 {
			res = 1 + int64(k/10)*7
		}
		o := DialOutcome{First: wpick(r, firsts, fw), WrapErr: core.Chance(r, 1, 2)}
		if o.First == "reject_retry" {
			o.Second = wpick(r, seconds, sw)
		}
		o.LatNs = core.Pick(r, []int64{1, 5, 40, 250, 1500})*int64(time.Millisecond) + res
		res *= 3
		p.Outcomes[ip] = o
	}
	p.Twin = idx%8 == 3 && !p.CallerNil
	if idx%8 == 7 && len(p.Hosts) >= 2 && net.ParseIP(p.Hosts[len(p.Hosts)-1].Host) == nil && p.Hosts[len(p.Hosts)-1].Host != "localhost" && net.ParseIP(p.Hosts[0].Host) == nil && p.Hosts[0].Host != "localhost" {
		// the lookup for the LAST name never comes back, while every address of
		// the first name connects at once: Dial has its connection long before
		last := p.Hosts[len(p.Hosts)-1]
		q := last.Host
		if last.Port != 0 && last.Port != 443 && last.Port != 80 {
			q = fmt.Sprintf("_%d._https.%s", last.Port, last.Host)
		}
		p.Zone.Fail = map[string]string{q + "/HTTPS": "stall"}
		for ip, o := range p.Outcomes {
			o.First, o.Second, o.LatNs = "ok", "", o.LatNs%int64(50*time.Millisecond)+1
			p.Outcomes[ip] = o
		}
		p.RequireECH, p.PublicName = false, ""
	}
	if via {
		// reached through ech.Transport, as an http.Client does
		p.ViaTransport, p.Network = true, "tcp"
		p.OwnDialer = (idx/8)%2 == 1
		p.Again = (idx/16)%2 == 1 && !p.CallerNil
		p.CallerNoALPN = core.Chance(r, 1, 2)
		for _, ip := range g.ips { // (sorted above)
			o, ok := p.Outcomes[ip]
			if !ok {
				continue
			}
			if o.First == "ok" {
				o.First = core.Pick(r, []string{"error", "reject_noretry", "hang"})
			}
			if o.Second == "ok" {
				o.Second = "error"
			}
			p.Outcomes[ip] = o
		}
		if core.Chance(r, 1, 2) && !p.CallerNil && p.CallerServerName == "" {
			p.CallerServerName = core.Pick(r, []string{"override.example", "inner.secret.example"})
		}
	}
	return &Plan{Kind: "ech", Seed: s, Ech: p}
}

func shrinkEch(p *Plan) []*Plan {
	var out []*Plan
	add := func(f func(q *EchPlan) bool) {
		q := p.clone()
		if f(q.Ech) {
			out = append(out, q)
		}
	}
	ep := p.Ech
	if len(ep.Hosts) > 1 {
		for i := range ep.Hosts {
			add(func(q *EchPlan) bool { q.Hosts = append(q.Hosts[:i:i], q.Hosts[i+1:]...); return true })
		}
	}
	add(func(q *EchPlan) bool { ok := len(q.Zone.Fail) > 0; q.Zone.Fail = nil; return ok })
	add(func(q *EchPlan) bool { ok := q.MaxConc != 0; q.MaxConc = 0; return ok })
	add(func(q *EchPlan) bool { ok := q.DelayNs != 0; q.DelayNs = 0; return ok })
	add(func(q *EchPlan) bool { ok := q.TimeoutNs != 0; q.TimeoutNs = 0; return ok })
	add(func(q *EchPlan) bool { ok := q.Network != "tcp"; q.Network = "tcp"; return ok })
	add(func(q *EchPlan) bool { ok := q.CallerServerName != ""; q.CallerServerName = ""; return ok })
	add(func(q *EchPlan) bool { ok := q.CallerECH != 0; q.CallerECH = 0; return ok })
	add(func(q *EchPlan) bool { ok := q.PublicName != ""; q.PublicName = ""; return ok })
	add(func(q *EchPlan) bool { ok := q.RequireECH; q.RequireECH = false; return ok })
	add(func(q *EchPlan) bool { ok := q.CallerNil; q.CallerNil = false; return ok })
	// zone: drop records / names one at a time
	names := func(m map[string][]SvcRec) []string {
		var ks []string
		for k := range m {
			ks = append(ks, k)
		}
		sort.Strings(ks)
		return ks
	}
	for _, k := range names(ep.Zone.HTTPS) {
		for i := range ep.Zone.HTTPS[k] {
			add(func(q *EchPlan) bool {
				rs := q.Zone.HTTPS[k]
				q.Zone.HTTPS[k] = append(rs[:i:i], rs[i+1:]...)
				if len(q.Zone.HTTPS[k]) == 0 {
					delete(q.Zone.HTTPS, k)
				}
				return true
			})
			add(func(q *EchPlan) bool {
				r := &q.Zone.HTTPS[k][i]
				if r.Port == 0 && len(r.ALPN) == 0 && !r.NoDefaultALPN {
					return false
				}
				r.Port, r.ALPN, r.NoDefaultALPN = 0, nil, false
				return true
			})
		}
	}
	var cn []string
	for k := range ep.Zone.CNAME {
		cn = append(cn, k)
	}
	sort.Strings(cn)
	for _, k := range cn {
		add(func(q *EchPlan) bool {
			// fold the CNAME: its target's addresses move to the name itself
			t := q.Zone.CNAME[k]
			delete(q.Zone.CNAME, k)
			if len(q.Zone.A[t]) > 0 {
				q.Zone.A[k] = append(q.Zone.A[k], q.Zone.A[t]...)
				delete(q.Zone.A, t)
			}
			if len(q.Zone.AAAA[t]) > 0 {
				q.Zone.AAAA[k] = append(q.Zone.AAAA[k], q.Zone.AAAA[t]...)
				delete(q.Zone.AAAA, t)
			}
			if len(q.Zone.HTTPS[t]) > 0 {
				q.Zone.HTTPS[k] = append(q.Zone.HTTPS[k], q.Zone.HTTPS[t]...)
				delete(q.Zone.HTTPS, t)
			}
			return true
		})
	}
	for _, fam := range []string{"A", "AAAA"} {
		m := ep.Zone.A
		if fam == "AAAA" {
			m = ep.Zone.AAAA
		}
		var ks []string
		for k := range m {
			ks = append(ks, k)
		}
		sort.Strings(ks)
		for _, k := range ks {
			if len(m[k]) > 1 || fam == "AAAA" {
				add(func(q *EchPlan) bool {
					mm := q.Zone.A
					if fam == "AAAA" {
						mm = q.Zone.AAAA
					}
					mm[k] = mm[k][:len(mm[k])-1]
					if len(mm[k]) == 0 {
						delete(mm, k)
					}
					return true
				})
			}
		}
	}
	// outcomes: simplest is an immediate plain error
	var ips []string
	for ip := range ep.Outcomes {
		ips = append(ips, ip)
	}
	sort.Strings(ips)
	for _, ip := range ips {
		add(func(q *EchPlan) bool {
			o := q.Outcomes[ip]
			if o.First == "error" && o.Second == "" && !o.WrapErr {
				return false
			}
			o.First, o.Second, o.WrapErr = "error", "", false
			q.Outcomes[ip] = o
			return true
		})
		add(func(q *EchPlan) bool {
			o := q.Outcomes[ip]
			if o.Second == "" || o.Second == "error" {
				return false
			}
			o.Second = "error"
			q.Outcomes[ip] = o
			return true
		})
	}
	return out
}
