package e3dial

// Developer aids; all of them skip unless their environment variables are set.
//
//	VERIF_DBG_PROP=C18 VERIF_DBG_FROM=0 VERIF_DBG_TO=1000 VERIF_DBG_WHAT=viol|harness|unplanned|all  go test -tags verif -run TestDebug -v
//	VERIF_DBG_PROP=C18 VERIF_DBG_FROM=9254 VERIF_DBG_DET=1                      go test -tags verif -run TestDet -v     (plan + canonical log, three executions)
//	VERIF_DBG_PROP=C18 VERIF_DBG_FROM=0 VERIF_DBG_TO=12000 VERIF_DBG_HASHES=f   go test -tags verif -run TestHashes     (idx + log hash per non-arbitrated run; diff across GOMAXPROCS / -race)

import (
	"encoding/json"
	"fmt"
	"os"
	"strconv"
	"testing"
)

func dbgRange() (string, int, int) {
	from, _ := strconv.Atoi(os.Getenv("VERIF_DBG_FROM"))
	to, _ := strconv.Atoi(os.Getenv("VERIF_DBG_TO"))
	return os.Getenv("VERIF_DBG_PROP"), from, to
}

func TestDebug(t *testing.T) {
	prop, from, to := dbgRange()
	what := os.Getenv("VERIF_DBG_WHAT")
	if prop == "" || what == "" {
		t.Skip()
	}
	e := Engine{}
	shown := 0
	for i := from; i < to; i++ {
		p := e.Generate(prop, "quick", 1, i)
		res := e.Execute(t, prop, p)
		show := false
		switch what {
		case "unplanned":
			show = res.Probes["unplanned_tie"] > 0
		case "viol":
			show = len(res.Violations) > 0
		case "harness":
			show = res.Harness != ""
		case "all":
			show = true
		}
		if show && shown < 5 {
			shown++
			b, _ := json.Marshal(p)
			t.Logf("idx %d plan %s\nviol=%v harness=%q probes=%v sample=%v", i, b, res.Violations, res.Harness, res.Probes, res.Sample)
		}
	}
	t.Logf("full goroutine walks asked for by the goroutine count: %d", leakWalks.Load())
}

func TestDet(t *testing.T) {
	prop, from, _ := dbgRange()
	if prop == "" || os.Getenv("VERIF_DBG_DET") == "" {
		t.Skip()
	}
	e := Engine{}
	p := e.Generate(prop, "quick", 1, from)
	b, _ := json.Marshal(p)
	t.Logf("plan %s", b)
	debugCanon = func(l []string) { t.Logf("canon:\n%v", l) }
	defer func() { debugCanon = nil }()
	for k := 0; k < 3; k++ {
		r := e.Execute(t, prop, p)
		t.Logf("hash %s arbitrated=%v violations=%v", r.LogHash, r.Arbitrated, r.Violations)
	}
}

func TestHashes(t *testing.T) {
	prop, from, to := dbgRange()
	if prop == "" || os.Getenv("VERIF_DBG_HASHES") == "" {
		t.Skip()
	}
	e := Engine{}
	f, err := os.Create(os.Getenv("VERIF_DBG_HASHES"))
	if err != nil {
		t.Fatal(err)
	}
	defer f.Close()
	for i := from; i < to; i++ {
		r := e.Execute(t, prop, e.Generate(prop, "quick", 1, i))
		if !r.Arbitrated {
			fmt.Fprintf(f, "%d %s\n", i, r.LogHash)
		}
	}
}
