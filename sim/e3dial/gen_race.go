package e3dial

import (
	"fmt"
	"math/rand/v2"
	"strings"
	"time"

	"verifsim/core"
)

// Residues (ns) that keep the instants of a unique-timestamp schedule
// pairwise distinct: target i contributes bit i to every instant derived from
// its completion, the stagger delay 32, the timeout 256, the caller's
// cancellation 2048 (the release of context-ignoring attempts: 4096).
// Instants are sums of grid values (>= 1us) and these residues; a chain of
// events uses each target's bit at most once, at most 7 delays and 7 timeouts,
// so different chains give different residue words.
const (
	resDelay   = 32
	resTimeout = 256
	resCancel  = 2048
)

func wpick(r *rand.Rand, items []string, weights []int) string {
	t := 0
	for _, w := range weights {
		t += w
	}
	x := r.IntN(t)
	for i, w := range weights {
		if x < w {
			return items[i]
		}
		x -= w
	}
	return items[len(items)-1]
}

func genHosts(r *rand.Rand, n int) (hosts []string, network string) {
	network = "tcp"
	if n == 0 {
		// a literal of the other family resolves, but yields no target
		if core.Chance(r, 1, 2) {
			return []string{"[fd00::1]:443"}, "tcp4"
		}
		return []string{"10.0.0.1:443"}, "tcp6"
	}
	if core.Chance(r, 1, 12) {
		network = core.Pick(r, []string{"tcp4", "tcp6"})
	}
	left := n
	k := 0
	for left > 0 {
		k++
		switch {
		case network == "tcp" && left >= 2 && core.Chance(r, 1, 8) && !contains(hosts, "localhost:443"):
			hosts = append(hosts, "localhost:443")
			left -= 2
		case network == "tcp6" || (network == "tcp" && core.Chance(r, 1, 6)):
			hosts = append(hosts, fmt.Sprintf("[fd00::%d]:8443", k))
			left--
		default:
			hosts = append(hosts, fmt.Sprintf("10.0.0.%d:443", k))
			left--
		}
	}
	// sometimes a literal of the wrong family in between (contributes nothing)
	if network != "tcp" && core.Chance(r, 1, 3) {
		other := "10.9.9.9:443"
		if network == "tcp4" {
			other = "[fd00::99]:443"
		}
		at := r.IntN(len(hosts) + 1)
		hosts = append(hosts[:at:at], append([]string{other}, hosts[at:]...)...)
	}
	return hosts, network
}

// invalidHost is refused by the resolver without any lookup.
var invalidHost = strings.Repeat("x", 64) + ".invalid:443"

func contains(xs []string, s string) bool {
	for _, x := range xs {
		if x == s {
			return true
		}
	}
	return false
}

var outcomeKinds = []string{"ok", "fail", "hang", "okx", "failx", "hangx", "hangxok"}

func genC18(s uint64, idx int, tier string) *Plan {
	pl := genC18base(s, idx, tier)
	if idx%5 == 3 {
		// failures that wrap context.Canceled while the attempt's context is live
		for i := range pl.Race.Outcomes {
			if o := &pl.Race.Outcomes[i]; (o.Kind == "fail" || o.Kind == "failx") && (i+idx/5)%2 == 0 {
				o.GaveUp = true
			}
		}
	}
	return pl
}

func genC18base(s uint64, idx int, tier string) *Plan {
	r := core.NewRand(s, "plan")
	p := &RacePlan{}
	n := core.Between(r, 1, 5)
	if core.Chance(r, 1, 60) {
		n = 0
	}
	p.Hosts, p.Network = genHosts(r, n)
	p.MaxConc = r.IntN(5)
	p.Tie = core.Chance(r, 1, 5)
	if !p.Tie && len(p.Hosts) > 0 && n > 0 && core.Chance(r, 1, 8) {
		// one of the comma-separated addresses cannot be resolved at all (a label
		// of 64 octets is refused before any query is made): a failure that takes
		// no time, after which the remaining addresses are still due
		at := r.IntN(len(p.Hosts) + 1)
		p.Hosts = append(p.Hosts[:at:at], append([]string{invalidHost}, p.Hosts[at:]...)...)
	}

	if idx%4 == 2 {
		// the application keeps its Dialer: the same schedule twice (or, in tie
		// mode, every repetition) through one value
		p.SharedDialer = true
		p.Reps = 2
		p.Retuned = idx%8 == 6
	}
	us := int64(time.Microsecond)
	ms := int64(time.Millisecond)
	if p.Tie {
		p.Reps = 24
		if tier == "thorough" {
			p.Reps = 64
		}
		p.DelayNs = core.Pick(r, []int64{0, 10 * ms, 100 * ms})
		u := int64(p.delay())
		p.TimeoutNs = core.Pick(r, []int64{0, u, 2 * u, 3 * u, 5 * u})
		to := int64(p.timeout())
		weights := []int{30, 30, 10, 8, 6, 10, 6}
		for i := 0; i < n; i++ {
			o := Outcome{Kind: wpick(r, outcomeKinds, weights)}
			switch o.Kind {
			case "ok", "fail", "okx", "failx":
				o.DNs = core.Pick(r, []int64{0, u, u, 2 * u, 3 * u, to, to + u})
			}
			p.Outcomes = append(p.Outcomes, o)
		}
		if core.Chance(r, 1, 2) {
			p.CancelKind = core.Pick(r, []string{"cancel", "deadline"})
			p.CancelNs = core.Pick(r, []int64{u, u, 2 * u, 3 * u, 4 * u, to, to + u})
		}
		return &Plan{Kind: "race", Seed: s, Race: p}
	}

	if d := core.Pick(r, []int64{0, 0, 10 * ms, 100 * ms, 1000 * ms}); d > 0 {
		p.DelayNs = d + resDelay
	}
	if t := core.Pick(r, []int64{0, 0, 50 * ms, 500 * ms, 3000 * ms}); t > 0 {
		p.TimeoutNs = t + resTimeout
	}
	dl, to := int64(p.delay()), int64(p.timeout())
	grid := []int64{us, 10 * us, ms, dl / 2, dl - us, dl, dl + us, 2 * dl, 2*dl + ms, 3 * dl, to - us, to, to + us, to + dl, dl / 3, 5 * ms}
	weights := []int{28, 30, 12, 8, 5, 10, 5}
	for i := 0; i < n; i++ {
		o := Outcome{Kind: wpick(r, outcomeKinds, weights)}
		switch o.Kind {
		case "ok", "fail", "okx", "failx":
			o.DNs = core.Pick(r, grid) + int64(1)<<uint(i)
		}
		p.Outcomes = append(p.Outcomes, o)
	}
	switch x := r.IntN(100); {
	case x < 2:
		p.CancelKind = "pre"
	case x < 40:
		p.CancelKind = core.Pick(r, []string{"cancel", "cancel", "deadline"})
		cgrid := []int64{us, dl / 2, dl - us, dl, dl + us, 2 * dl, 3 * dl, to, to + us, to + dl, 2 * to}
		for _, o := range p.Outcomes {
			if o.DNs > 0 {
				cgrid = append(cgrid, o.DNs-us/2, o.DNs+us/2, dl+o.DNs+us/2)
			}
		}
		p.CancelNs = core.Pick(r, cgrid) + resCancel
	}
	return &Plan{Kind: "race", Seed: s, Race: p}
}

func shrinkRace(p *Plan) []*Plan {
	var out []*Plan
	add := func(f func(q *RacePlan) bool) {
		q := p.clone()
		if f(q.Race) {
			out = append(out, q)
		}
	}
	rp := p.Race
	// drop one host (and the outcomes of its targets)
	if len(rp.Hosts) > 1 {
		for i := len(rp.Hosts) - 1; i >= 0; i-- {
			add(func(q *RacePlan) bool {
				from := 0
				for _, h := range q.Hosts[:i] {
					from += len(expandHost(h, q.Network))
				}
				cnt := len(expandHost(q.Hosts[i], q.Network))
				q.Hosts = append(q.Hosts[:i:i], q.Hosts[i+1:]...)
				if from < len(q.Outcomes) {
					to := min(from+cnt, len(q.Outcomes))
					q.Outcomes = append(q.Outcomes[:from:from], q.Outcomes[to:]...)
				}
				return true
			})
		}
	}
	add(func(q *RacePlan) bool {
		ok := q.CancelKind != ""
		q.CancelKind, q.CancelNs = "", 0
		return ok
	})
	add(func(q *RacePlan) bool { ok := q.MaxConc != 0; q.MaxConc = 0; return ok })
	add(func(q *RacePlan) bool { ok := q.DelayNs != 0; q.DelayNs = 0; return ok })
	add(func(q *RacePlan) bool { ok := q.TimeoutNs != 0; q.TimeoutNs = 0; return ok })
	add(func(q *RacePlan) bool {
		ok := q.Network != "tcp" && len(q.targets()) > 0
		q.Network = "tcp"
		return ok && len(q.targets()) == len(q.Outcomes)
	})
	simpler := map[string]string{"hangxok": "okx", "hangx": "failx", "okx": "ok", "failx": "fail", "hang": "fail"}
	for i := range rp.Outcomes {
		add(func(q *RacePlan) bool {
			o := &q.Outcomes[i]
			if o.Kind == "fail" && o.DNs == int64(time.Millisecond) {
				return false
			}
			*o = Outcome{Kind: "fail", DNs: int64(time.Millisecond)}
			return true
		})
		add(func(q *RacePlan) bool {
			o := &q.Outcomes[i]
			k, ok := simpler[o.Kind]
			if !ok {
				return false
			}
			o.Kind = k
			if o.DNs == 0 {
				o.DNs = int64(time.Millisecond) + int64(1)<<uint(i)
			}
			return true
		})
		add(func(q *RacePlan) bool {
			o := &q.Outcomes[i]
			if o.DNs <= int64(time.Millisecond)+64 {
				return false
			}
			o.DNs = int64(time.Millisecond) + int64(1)<<uint(i)
			return true
		})
	}
	// a failure that does not need the repetitions is easier to read without
	// them (accepted only if a single execution still fails the same way)
	add(func(q *RacePlan) bool {
		ok := q.Reps > 1
		q.Reps = 0
		return ok
	})
	add(func(q *RacePlan) bool {
		ok := q.Reps > 2 && q.SharedDialer
		q.Reps = 2
		return ok
	})
	return out
}
