package e3dial

import (
	"regexp"
	"runtime"
	"sort"
	"strings"

	"verifsim/core"
)

var bubbleRE = regexp.MustCompile(`synctest bubble (\d+)\]`)

// leakedHere lists the goroutines of the *calling* bubble that are still
// alive (call from the bubble's root after synctest.Wait), split into those
// with a frame of the library under test and others. Unlike a walk that only
// looks for "synctest bubble", it matches the caller's own bubble id, so that
// goroutines stranded by an earlier run of the same process (a reported leak
// stays blocked for ever) are not attributed to this run -- otherwise every
// shrink candidate after a leak would "reproduce" it.
func leakedHere() (lib, other []string) {
	buf := make([]byte, 256<<10)
	for {
		n := runtime.Stack(buf, true)
		if n < len(buf) {
			buf = buf[:n]
			break
		}
		buf = make([]byte, 2*len(buf))
	}
	stanzas := strings.Split(string(buf), "\n\n")
	if len(stanzas) == 0 {
		return
	}
	m := bubbleRE.FindStringSubmatch(firstLine(stanzas[0]))
	if m == nil {
		return nil, []string{"leakedHere called outside a bubble"}
	}
	tag := "synctest bubble " + m[1] + "]"
	for _, g := range stanzas[1:] {
		if !strings.Contains(firstLine(g), tag) {
			continue
		}
		if strings.Contains(g, "internal/synctest.Run") || strings.Contains(g, "testing/synctest.testingSynctestTest(") {
			continue
		}
		if f := core.LibFrame(g); f != "unknown" {
			lib = append(lib, f)
			continue
		}
		lines := strings.Split(g, "\n")
		name := "?"
		if len(lines) > 1 {
			name = strings.TrimSpace(lines[1])
			if i := strings.LastIndex(name, "("); i > 0 {
				name = name[:i]
			}
		}
		other = append(other, name)
	}
	sort.Strings(lib)
	sort.Strings(other)
	return
}
