package e3dial

import (
	"encoding/binary"
	"errors"
	"fmt"

	"verifsim/core"
)

// The harness's own ECHConfigList writer/reader (draft-ietf-tls-esni-22 §4),
// independent of ech.ConfigList / ech.ParseConfigList.

type echCfg struct {
	Version    uint16
	ID         byte
	KEM        uint16
	PublicKey  []byte
	Suites     [][2]uint16
	MaxNameLen byte
	PublicName string
}

// echList builds a syntactically valid single-config list that is a pure
// function of (id, publicName).
func echList(id int, publicName string) []byte {
	key := core.Bytes(core.NewRand(uint64(id), "echlist-key"), 32)
	var c []byte
	c = append(c, byte(id))
	c = binary.BigEndian.AppendUint16(c, 0x0020)
	c = binary.BigEndian.AppendUint16(c, uint16(len(key)))
	c = append(c, key...)
	c = binary.BigEndian.AppendUint16(c, 4)
	c = binary.BigEndian.AppendUint16(c, 0x0001)
	c = binary.BigEndian.AppendUint16(c, 0x0001)
	c = append(c, byte(min(255, len(publicName)+8)))
	c = append(c, byte(len(publicName)))
	c = append(c, publicName...)
	c = binary.BigEndian.AppendUint16(c, 0)
	var cfg []byte
	cfg = binary.BigEndian.AppendUint16(cfg, 0xfe0d)
	cfg = binary.BigEndian.AppendUint16(cfg, uint16(len(c)))
	cfg = append(cfg, c...)
	out := binary.BigEndian.AppendUint16(nil, uint16(len(cfg)))
	return append(out, cfg...)
}

type rdr struct {
	b   []byte
	err error
}

func (r *rdr) take(n int) []byte {
	if r.err != nil || n < 0 || n > len(r.b) {
		r.err = errors.New("truncated")
		return nil
	}
	x := r.b[:n]
	r.b = r.b[n:]
	return x
}
func (r *rdr) u8() int {
	x := r.take(1)
	if x == nil {
		return 0
	}
	return int(x[0])
}
func (r *rdr) u16() int {
	x := r.take(2)
	if x == nil {
		return 0
	}
	return int(x[0])<<8 | int(x[1])
}

func parseECHList(b []byte) ([]echCfg, error) {
	r := &rdr{b: b}
	body := &rdr{b: r.take(r.u16())}
	if r.err != nil || len(r.b) != 0 {
		return nil, errors.New("bad list length")
	}
	var out []echCfg
	for len(body.b) > 0 {
		var c echCfg
		c.Version = uint16(body.u16())
		cr := &rdr{b: body.take(body.u16())}
		if body.err != nil {
			return nil, errors.New("bad config length")
		}
		if c.Version != 0xfe0d {
			out = append(out, c)
			continue
		}
		c.ID = byte(cr.u8())
		c.KEM = uint16(cr.u16())
		c.PublicKey = cr.take(cr.u16())
		sr := &rdr{b: cr.take(cr.u16())}
		for len(sr.b) > 0 && sr.err == nil {
			c.Suites = append(c.Suites, [2]uint16{uint16(sr.u16()), uint16(sr.u16())})
		}
		c.MaxNameLen = byte(cr.u8())
		c.PublicName = string(cr.take(cr.u8()))
		cr.take(cr.u16())
		if cr.err != nil || sr.err != nil || len(cr.b) != 0 {
			return nil, fmt.Errorf("bad config contents")
		}
		out = append(out, c)
	}
	if len(out) == 0 {
		return nil, errors.New("empty list")
	}
	return out, nil
}
