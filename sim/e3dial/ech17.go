package e3dial

import (
	"bytes"
	"context"
	"crypto/tls"
	"errors"
	"fmt"
	"io"
	"net"
	"net/http"
	"os"
	"runtime"
	"slices"
	"sort"
	"strconv"
	"strings"
	"sync"
	"sync/atomic"
	"syscall"
	"testing"
	"testing/cryptotest"
	"testing/synctest"
	"time"

	"github.com/c2FmZQ/ech"
	"github.com/c2FmZQ/ech/dns"

	"verifsim/core"
)

// SvcRec is one HTTPS resource record of the simulated zone.
type SvcRec struct {
	Priority      uint16   `json:"priority"`         // 0: AliasMode
	Target        string   `json:"target,omitempty"` // "" is "." on the wire
	ECH           int      `json:"ech,omitempty"`    // 0: no ech parameter; k>0: echList(k, ...)
	Port          uint16   `json:"port,omitempty"`
	ALPN          []string `json:"alpn,omitempty"`
	NoDefaultALPN bool     `json:"no_default_alpn,omitempty"`
	V4Hint        []string `json:"ipv4hint,omitempty"`
	V6Hint        []string `json:"ipv6hint,omitempty"`
}

// Zone is everything the simulated DoH upstream knows.
type Zone struct {
	HTTPS map[string][]SvcRec `json:"https,omitempty"`
	A     map[string][]string `json:"a,omitempty"`
	AAAA  map[string][]string `json:"aaaa,omitempty"`
	CNAME map[string]string   `json:"cname,omitempty"`
	Fail  map[string]string   `json:"fail,omitempty"` // "name/TYPE" -> servfail | nxdomain
}

// HostSpec is one element of the caller's comma-separated address.
type HostSpec struct {
	Host  string `json:"host"`
	Port  int    `json:"port,omitempty"`  // 0: no port written
	Space bool   `json:"space,omitempty"` // blanks around the element ("a:443 , b:443")
}

func (h HostSpec) String() string {
	s := h.Host
	if h.Port != 0 {
		s = net.JoinHostPort(h.Host, strconv.Itoa(h.Port))
	}
	if h.Space {
		s = " " + s + " "
	}
	return s
}

// DialOutcome scripts the DialFunc calls for one IP address.
//
//	ok | error | hang | reject_retry | reject_noretry
type DialOutcome struct {
	First   string `json:"first"`
	Second  string `json:"second,omitempty"` // outcome of a second call (the retry), default error
	LatNs   int64  `json:"lat_ns"`
	WrapErr bool   `json:"wrap_err,omitempty"` // wrap the ECHRejectionError with %w
}

type EchPlan struct {
	Zone    Zone       `json:"zone"`
	Hosts   []HostSpec `json:"hosts"`
	Network string     `json:"network"`

	RequireECH       bool   `json:"require_ech,omitempty"`
	PublicName       string `json:"public_name,omitempty"`
	CallerNil        bool   `json:"caller_nil_config,omitempty"`
	CallerECH        int    `json:"caller_ech,omitempty"` // k>0: caller supplies echList(k,...)
	CallerServerName string `json:"caller_server_name,omitempty"`

	Outcomes  map[string]DialOutcome `json:"outcomes"` // by IP
	MaxConc   int                    `json:"max_concurrency,omitempty"`
	DelayNs   int64                  `json:"concurrency_delay_ns,omitempty"`
	TimeoutNs int64                  `json:"timeout_ns,omitempty"`

	// ViaTransport: the dial is reached the way an http.Client reaches it,
	// through ech.Transport (RoundTrip of https://host[:port]/ with
	// Transport.TLSConfig = the caller's config, Transport.Dialer carrying the
	// options above). One host; no attempt succeeds (the scripted DialFunc has
	// no *tls.Conn to give), so the request fails after the last attempt.
	// Twin: a second Dial runs at the same time on the SAME Dialer value, for the
	// same address, with the complementary caller setting (a config list of its
	// own where this call has none, none where this call has one). Each call is
	// judged by its own expectations.
	Twin bool `json:"twin,omitempty"`
	// OwnDialer (with ViaTransport): the application installs a Dialer value of
	// its own in Transport.Dialer instead of changing the fields of the one
	// NewTransport made.
	OwnDialer bool `json:"own_dialer,omitempty"`
	// Again (with ViaTransport, a caller config): after the first request the
	// application changes Transport.TLSConfig in place (a ServerName pin and a
	// config list of its own) and sends the request once more; the second
	// request's dials are judged by the new settings.
	Again        bool `json:"again,omitempty"`
	ViaTransport bool `json:"via_transport,omitempty"`
	// CallerMaxVersion: the caller pins tls.Config.MaxVersion (a config written
	// for a legacy peer); what crypto/tls makes of that together with an ECH
	// list is the DialFunc's business, not Dial's.
	CallerMaxVersion uint16 `json:"caller_max_version,omitempty"`
	CallerNoALPN     bool   `json:"caller_no_alpn,omitempty"` // caller's config has no NextProtos
}

func recList(id int) []byte    { return echList(id, fmt.Sprintf("front%d.example", id)) }
func callerList(id int) []byte { return echList(id, "caller-front.example") }
func retryList(ip string, call int) []byte {
	l := echList(int(core.Mix(7, ip, call)%200)+20, "retry-front.example")
	if core.Mix(11, ip, call)%3 == 0 {
		// servers in the middle of a protocol transition also list a config of a
		// version this client does not know; clients skip such entries
		unk := []byte{0xfe, 0x0a, 0x00, 0x05, 1, 2, 3, 4, 5}
		body := append(append([]byte(nil), unk...), l[2:]...)
		l = append([]byte{byte(len(body) >> 8), byte(len(body))}, body...)
	}
	return l
}

// ---------------------------------------------------------------------------
// simulated DoH upstream (zero latency; responses encoded with the repo's own
// dns.Message.Bytes -- C17 is about Dial, not about the codec)

type doh struct {
	z       *Zone
	mu      sync.Mutex
	queries []string
	fired   map[string]int
	broken  []string
}

func lname(s string) string { return strings.ToLower(strings.TrimSuffix(s, ".")) }

func (z *Zone) follow(name string) (chain []string, end string) {
	end = lname(name)
	for i := 0; i < 4; i++ {
		t, ok := z.CNAME[end]
		if !ok {
			break
		}
		chain = append(chain, end)
		end = lname(t)
	}
	return
}

func (z *Zone) addrs(name string) []string {
	_, end := z.follow(name)
	return append(append([]string(nil), z.A[end]...), z.AAAA[end]...)
}

func endOf(z *Zone, name string) string {
	_, end := z.follow(name)
	return end
}

// withEmptyECH encodes the answer like Message.Bytes, but gives every HTTPS
// record whose spec says ECH == -1 an `ech` parameter of zero length (key 5,
// length 0) - something the repo's encoder cannot produce but any DNS server can.
func withEmptyECH(out *dns.Message, recs []SvcRec) []byte {
	empty := false
	for _, r := range recs {
		if r.ECH < 0 {
			empty = true
		}
	}
	if !empty || out.RCode != 0 {
		return out.Bytes()
	}
	hdr := *out
	hdr.Answer = nil
	b := hdr.Bytes()
	b[6], b[7] = byte(len(out.Answer)>>8), byte(len(out.Answer))
	k := 0
	for _, rr := range out.Answer {
		rb := rr.Bytes()
		if rr.Type == 65 {
			if k < len(recs) && recs[k].ECH < 0 {
				// RDLENGTH is the 2 octets before the RDATA; find it from the end:
				// name .. type(2) class(2) ttl(4) rdlength(2) rdata
				h := rr.Data.(dns.HTTPS)
				_ = h
				rdlen := len(rb) - rdataOffset(rb)
				off := rdataOffset(rb) - 2
				rdlen += 4
				rb[off], rb[off+1] = byte(rdlen>>8), byte(rdlen)
				rb = append(rb, 0, 5, 0, 0)
			}
			k++
		}
		b = append(b, rb...)
	}
	return b
}

// rdataOffset: offset of RDATA inside an uncompressed RR as written by RR.Bytes.
func rdataOffset(rb []byte) int {
	i := 0
	for rb[i] != 0 {
		i += 1 + int(rb[i])
	}
	return i + 1 + 10
}

func toHTTPS(r SvcRec) dns.HTTPS {
	h := dns.HTTPS{Priority: r.Priority, Target: r.Target, ALPN: r.ALPN, NoDefaultALPN: r.NoDefaultALPN, Port: r.Port}
	if r.ECH > 0 {
		h.ECH = recList(r.ECH)
	}
	for _, a := range r.V4Hint {
		h.IPv4Hint = append(h.IPv4Hint, net.ParseIP(a).To4())
	}
	for _, a := range r.V6Hint {
		h.IPv6Hint = append(h.IPv6Hint, net.ParseIP(a).To16())
	}
	return h
}

func (d *doh) RoundTrip(req *http.Request) (resp *http.Response, err error) {
	panicked, msg, _ := core.Guard(func() {
		body, e := io.ReadAll(req.Body)
		req.Body.Close()
		if e != nil {
			err = e
			return
		}
		q, e := dns.DecodeMessage(body)
		if e != nil || len(q.Question) != 1 {
			err = fmt.Errorf("sim doh: cannot decode query: %v", e)
			d.mu.Lock()
			d.broken = append(d.broken, err.Error())
			d.mu.Unlock()
			return
		}
		qq := q.Question[0]
		name := lname(qq.Name)
		typ := map[uint16]string{1: "A", 28: "AAAA", 65: "HTTPS"}[qq.Type]
		out := &dns.Message{ID: q.ID, QR: 1, RD: 1, RA: 1, Question: q.Question}
		d.mu.Lock()
		d.queries = append(d.queries, name+"/"+typ)
		d.mu.Unlock()
		switch d.z.Fail[name+"/"+typ] {
		case "stall":
			// the upstream never answers: the exchange ends with its context
			d.fire("resolver_stall")
			// (ten virtual minutes at most: a Dial that has nothing else left to do
			// must still come back)
			tm := time.NewTimer(10 * time.Minute)
			select {
			case <-req.Context().Done():
				tm.Stop()
				err = req.Context().Err()
			case <-tm.C:
				err = errors.New("sim doh: upstream timed out")
			}
			return
		case "servfail":
			out.RCode = 2
			d.fire("resolver_servfail")
		case "nxdomain":
			out.RCode = 3
			d.fire("resolver_nxdomain")
		default:
			chain, end := d.z.follow(name)
			for _, c := range chain {
				out.Answer = append(out.Answer, dns.RR{Name: c, Type: 5, Class: 1, TTL: 300, Data: lname(d.z.CNAME[c])})
				d.fire("cname_in_answer")
			}
			switch typ {
			case "A":
				for _, a := range d.z.A[end] {
					out.Answer = append(out.Answer, dns.RR{Name: end, Type: 1, Class: 1, TTL: 300, Data: net.ParseIP(a).To4()})
				}
			case "AAAA":
				for _, a := range d.z.AAAA[end] {
					out.Answer = append(out.Answer, dns.RR{Name: end, Type: 28, Class: 1, TTL: 300, Data: net.ParseIP(a).To16()})
				}
			case "HTTPS":
				for _, r := range d.z.HTTPS[end] {
					out.Answer = append(out.Answer, dns.RR{Name: end, Type: 65, Class: 1, TTL: 300, Data: toHTTPS(r)})
				}
			}
		}
		b := out.Bytes()
		if typ == "HTTPS" {
			b = withEmptyECH(out, d.z.HTTPS[lname(endOf(d.z, name))])
		}
		resp = &http.Response{StatusCode: 200, Status: "200 OK", Proto: "HTTP/1.1", ProtoMajor: 1, ProtoMinor: 1,
			Header:        http.Header{"Content-Type": {"application/dns-message"}, "Content-Length": {strconv.Itoa(len(b))}},
			ContentLength: int64(len(b)), Body: io.NopCloser(bytes.NewReader(b)), Request: req}
	})
	if panicked {
		d.mu.Lock()
		d.broken = append(d.broken, "sim doh panicked: "+msg)
		d.mu.Unlock()
		return nil, errors.New("sim doh: internal error")
	}
	return resp, err
}

func (d *doh) fire(k string) {
	d.mu.Lock()
	if d.fired == nil {
		d.fired = map[string]int{}
	}
	d.fired[k]++
	d.mu.Unlock()
}

// ---------------------------------------------------------------------------
// reference model: which HTTPS record can have produced an address

type hostModel struct {
	spec    HostSpec
	literal bool
	aliased bool
	own     map[string]*SvcRec // ip -> record that provides it (nil: plain address)
	partial bool               // some reachable records carry ech and some do not
}

func modelHost(z *Zone, h HostSpec, network string) *hostModel {
	m := &hostModel{spec: h, own: map[string]*SvcRec{}}
	if h.Host == "localhost" {
		m.literal = true
		m.own["127.0.0.1"], m.own["::1"] = nil, nil
		return m
	}
	if ip := net.ParseIP(h.Host); ip != nil {
		m.literal = true
		m.own[ip.String()] = nil
		return m
	}
	host := lname(h.Host)
	q := host
	if h.Port != 0 && h.Port != 443 && h.Port != 80 {
		q = fmt.Sprintf("_%d._https.%s", h.Port, host)
	}
	cur := q
	var recs []SvcRec
	for step := 0; step < 6; step++ {
		_, end := z.follow(cur)
		recs = z.HTTPS[end]
		if z.Fail[lname(cur)+"/HTTPS"] != "" {
			recs = nil
		}
		if len(recs) > 0 && recs[0].Priority == 0 {
			t := lname(recs[0].Target)
			recs = nil
			if t == "" {
				break
			}
			cur, m.aliased = t, true
			continue
		}
		break
	}
	origin := host
	if m.aliased {
		origin = cur
	}
	var noTarget *SvcRec
	withECH, without := 0, 0
	for i := range recs {
		r := &recs[i]
		if r.Priority == 0 {
			continue
		}
		if r.ECH > 0 {
			withECH++
		} else {
			without++
		}
		if t := lname(r.Target); t == "" {
			noTarget = r
		}
	}
	m.partial = withECH > 0 && without > 0
	for _, ip := range z.addrs(origin) {
		m.own[canonIP(ip)] = noTarget
	}
	if origin != host {
		// the addresses of a name that owns an AliasMode record are produced by no
		// HTTPS record: if anything is dialled there, then without a list from DNS
		for _, ip := range z.addrs(host) {
			if _, dup := m.own[canonIP(ip)]; !dup {
				m.own[canonIP(ip)] = nil
			}
		}
	}
	for i := range recs {
		r := &recs[i]
		if r.Priority == 0 {
			continue
		}
		if t := lname(r.Target); t != "" {
			for _, ip := range z.addrs(t) {
				m.own[canonIP(ip)] = r
			}
		}
		for _, ip := range append(append([]string(nil), r.V4Hint...), r.V6Hint...) {
			if _, dup := m.own[canonIP(ip)]; !dup {
				m.own[canonIP(ip)] = r
			}
		}
	}
	return m
}

func canonIP(s string) string {
	if ip := net.ParseIP(s); ip != nil {
		return ip.String()
	}
	return s
}

// ---------------------------------------------------------------------------

type twinKey struct{}

type echCall struct {
	ip, addr string
	n        int // 0 first call for this address, 1 second ...
	seq      int64
	t        int64
	tc       *tls.Config
	list     []byte
	listNil  bool
	sn       string
	endSeq   int64
	endT     int64
	ended    bool
	outcome  string // what the stub did: ok, error, hang, reject_retry, reject_noretry, cancelled
	retry    []byte
	hasDL    bool
	dl       int64 // deadline of the call's context, relative to t0
}

type echState struct {
	rs    *raceState
	mu    sync.Mutex
	calls []*echCall
	perIP map[string]int
	stub  []string
}

func (es *echState) dialFunc(p *EchPlan) func(context.Context, string, string, *tls.Config) (*simConn, error) {
	return func(ctx context.Context, network, addr string, tc *tls.Config) (conn *simConn, err error) {
		panicked, msg, _ := core.Guard(func() {
			host, _, e := net.SplitHostPort(addr)
			if e != nil {
				host = addr
			}
			ip := canonIP(host)
			c := &echCall{ip: ip, addr: addr, tc: tc}
			c.seq = es.rs.seq.Add(1)
			c.t = int64(time.Since(es.rs.t0))
			if dl, ok := ctx.Deadline(); ok {
				c.hasDL, c.dl = true, int64(dl.Sub(es.rs.t0))
			}
			if tc != nil {
				// a zero-length list is no list (crypto/tls cannot use it either)
				c.listNil = len(tc.EncryptedClientHelloConfigList) == 0
				c.list = slices.Clone(tc.EncryptedClientHelloConfigList)
				c.sn = tc.ServerName
			} else {
				c.listNil = true
			}
			es.mu.Lock()
			c.n = es.perIP[addr]
			es.perIP[addr]++
			id := len(es.calls)
			es.calls = append(es.calls, c)
			es.mu.Unlock()

			o, known := p.Outcomes[ip]
			if !known {
				o = DialOutcome{First: "error", LatNs: int64(time.Millisecond)}
			}
			kind := o.First
			if c.n == 1 {
				kind = o.Second
			}
			if c.n > 1 || kind == "" {
				kind = "error"
			}
			done := "cancelled"
			if kind == "hang" {
				<-ctx.Done()
				err = ctx.Err()
				done = "hang"
			} else {
				tm := time.NewTimer(time.Duration(o.LatNs))
				select {
				case <-tm.C:
					done = kind
					switch kind {
					case "ok":
						conn = &simConn{id: id, attempt: id, rs: es.rs}
					case "reject_retry", "reject_noretry":
						re := &tls.ECHRejectionError{}
						if kind == "reject_retry" {
							re.RetryConfigList = retryList(ip, c.n)
							c.retry = re.RetryConfigList
						}
						err = re
						if o.WrapErr {
							err = fmt.Errorf("handshake with %s: %w", addr, re)
						}
					default:
						// the ways a TLS dial fails without the server having said
						// anything about ECH
						switch core.Mix(3, ip, c.n) % 4 {
						case 0:
							err = fmt.Errorf("connect %s: connection refused (scripted)", addr)
						case 1:
							err = io.EOF
						case 2:
							err = &net.OpError{Op: "read", Net: "tcp", Err: syscall.ECONNRESET}
						default:
							err = fmt.Errorf("handshake with %s: %w", addr, io.ErrUnexpectedEOF)
						}
					}
				case <-ctx.Done():
					tm.Stop()
					err = ctx.Err()
				}
			}
			es.mu.Lock()
			c.outcome = done
			c.endT = int64(time.Since(es.rs.t0))
			c.endSeq = es.rs.seq.Add(1)
			c.ended = true
			es.mu.Unlock()
			if conn != nil {
				// (two call states may share one raceState: its own lock)
				es.rs.mu.Lock()
				es.rs.conns = append(es.rs.conns, conn)
				es.rs.mu.Unlock()
			}
		})
		if panicked {
			es.mu.Lock()
			es.stub = append(es.stub, "scripted DialFunc panicked: "+msg)
			es.mu.Unlock()
			return nil, errors.New("harness: DialFunc panicked")
		}
		return conn, err
	}
}

func executeEch(t *testing.T, prop string, seed uint64, p *EchPlan) *core.Result {
	res := &core.Result{Evals: 1}
	cryptotest.SetGlobalRandom(t, seed)
	up := &doh{z: &p.Zone}
	dns.VerifRoundTripper = up
	defer func() { dns.VerifRoundTripper = nil }()

	var toks []string
	for _, h := range p.Hosts {
		toks = append(toks, h.String())
	}
	addr := strings.Join(toks, ",")
	var maxLat int64
	for _, o := range p.Outcomes {
		maxLat = max(maxLat, o.LatNs)
	}
	delay, timeout := int64(time.Second), int64(30*time.Second)
	if p.DelayNs > 0 {
		delay = p.DelayNs
	}
	if p.TimeoutNs > 0 {
		timeout = p.TimeoutNs
	}
	horizon := time.Duration(int64(len(p.Outcomes)+len(p.Hosts)+3)*(timeout+delay+2*maxLat) + int64(time.Minute))

	var caller, before *tls.Config
	if !p.CallerNil {
		caller = &tls.Config{ServerName: p.CallerServerName, NextProtos: []string{"h2", "http/1.1"}, MinVersion: tls.VersionTLS13}
		if p.CallerNoALPN {
			caller.NextProtos = nil
		}
		if p.CallerMaxVersion != 0 {
			caller.MinVersion, caller.MaxVersion = 0, p.CallerMaxVersion
		}
		if p.CallerECH > 0 {
			caller.EncryptedClientHelloConfigList = callerList(p.CallerECH)
		}
		if p.CallerECH < 0 {
			// a list that is there but holds nothing (an empty setting decoded)
			caller.EncryptedClientHelloConfigList = []byte{}
		}
		before = &tls.Config{ServerName: caller.ServerName, NextProtos: slices.Clone(caller.NextProtos), MinVersion: caller.MinVersion, MaxVersion: caller.MaxVersion,
			EncryptedClientHelloConfigList: slices.Clone(caller.EncryptedClientHelloConfigList)}
	}

	es := &echState{perIP: map[string]int{}}
	// the twin call (see EchPlan.Twin)
	var pB *EchPlan
	var esB *echState
	var callerB, beforeB *tls.Config
	var retConnB *simConn
	var retErrB error
	var retSeqB, retTB int64
	if p.Again && p.ViaTransport && !p.CallerNil {
		q := *p
		q.CallerECH, q.CallerServerName = 988, "pinned.example.net"
		pB, esB = &q, &echState{perIP: map[string]int{}}
	}
	if p.Twin && !p.ViaTransport && !p.CallerNil {
		q := *p
		if p.CallerECH > 0 {
			q.CallerECH = 0
		} else {
			q.CallerECH = 977
		}
		pB, esB = &q, &echState{perIP: map[string]int{}}
		callerB = &tls.Config{ServerName: q.CallerServerName, NextProtos: []string{"h2", "http/1.1"}, MinVersion: tls.VersionTLS13}
		if q.CallerECH > 0 {
			callerB.EncryptedClientHelloConfigList = callerList(q.CallerECH)
		}
		beforeB = &tls.Config{ServerName: callerB.ServerName, NextProtos: slices.Clone(callerB.NextProtos), MinVersion: callerB.MinVersion,
			EncryptedClientHelloConfigList: slices.Clone(callerB.EncryptedClientHelloConfigList)}
	}
	var retConn *simConn
	var retErr error
	var retSeq, retT int64
	var panicS, panicAt string
	var libLeft, other, preLeft []string
	var retNilNil atomic.Bool
	againDone, callerMutEarly := false, false
	msg := core.Bubble(t, func(t *testing.T) {
		g0 := runtime.NumGoroutine()
		es.rs = &raceState{t0: time.Now()}
		resolver, err := ech.NewResolver("https://doh.sim/dns-query")
		if err != nil {
			res.Harness = "NewResolver: " + err.Error()
			return
		}
		d := &ech.Dialer[*simConn]{RequireECH: p.RequireECH, Resolver: resolver, PublicName: p.PublicName,
			MaxConcurrency: p.MaxConc, ConcurrencyDelay: time.Duration(p.DelayNs), Timeout: time.Duration(p.TimeoutNs), DialFunc: es.dialFunc(p)}
		var twinDone chan struct{}
		if esB != nil && !p.ViaTransport {
			esB.rs = es.rs
			fa, fb := es.dialFunc(p), esB.dialFunc(pB)
			d.DialFunc = func(ctx context.Context, network, addr string, tc *tls.Config) (*simConn, error) {
				if ctx.Value(twinKey{}) != nil {
					return fb(ctx, network, addr, tc)
				}
				return fa(ctx, network, addr, tc)
			}
			twinDone = make(chan struct{})
		}
		ctx, cancel := context.WithCancel(context.Background())
		defer cancel()
		if p.ViaTransport {
			inner := es.dialFunc(p)
			if esB != nil {
				esB.rs = es.rs
				fa, fb := inner, esB.dialFunc(pB)
				inner = func(ctx context.Context, network, addr string, tc *tls.Config) (*simConn, error) {
					if ctx.Value(twinKey{}) != nil {
						return fb(ctx, network, addr, tc)
					}
					return fa(ctx, network, addr, tc)
				}
			}
			tr := ech.NewTransport()
			tr.Resolver = resolver
			tr.TLSConfig = caller
			if p.OwnDialer {
				tr.Dialer = &ech.Dialer[*tls.Conn]{}
			}
			tr.Dialer.RequireECH, tr.Dialer.PublicName = p.RequireECH, p.PublicName
			tr.Dialer.MaxConcurrency, tr.Dialer.ConcurrencyDelay, tr.Dialer.Timeout = p.MaxConc, time.Duration(p.DelayNs), time.Duration(p.TimeoutNs)
			tr.Dialer.DialFunc = func(ctx context.Context, network, addr string, tc *tls.Config) (*tls.Conn, error) {
				c, err := inner(ctx, network, addr, tc)
				if c != nil {
					es.mu.Lock()
					es.stub = append(es.stub, "plan error: an attempt of a via-Transport plan succeeds")
					es.mu.Unlock()
					c.Close()
					return nil, errors.New("harness: no *tls.Conn to give")
				}
				return nil, err
			}
			// net/http dereferences what DialTLSContext returns on a goroutine of
			// its own: a (nil, nil) from Dial (C18's business) must not take the
			// worker down with it
			dialTLS := tr.HTTPTransport.DialTLSContext
			tr.HTTPTransport.DialTLSContext = func(ctx context.Context, network, addr string) (net.Conn, error) {
				c, err := dialTLS(ctx, network, addr)
				if tc, ok := c.(*tls.Conn); ok && tc == nil && err == nil {
					retNilNil.Store(true)
					return nil, errors.New("harness: Dial returned (nil, nil)")
				}
				return c, err
			}
			_, panicS, panicAt = core.Guard(func() {
				req, err := http.NewRequestWithContext(ctx, "GET", "https://"+strings.TrimSpace(addr)+"/", nil)
				if err != nil {
					res.Harness = "NewRequest: " + err.Error()
					return
				}
				var resp *http.Response
				resp, retErr = tr.RoundTrip(req)
				if resp != nil {
					es.mu.Lock()
					es.stub = append(es.stub, "a response although no attempt succeeds")
					es.mu.Unlock()
					resp.Body.Close()
				}
			})
			if esB != nil && panicS == "" {
				retSeq = es.rs.seq.Add(1)
				retT = int64(time.Since(es.rs.t0))
				// the application re-pins its config in place and asks again
				callerMutEarly = caller.ServerName != before.ServerName || !bytes.Equal(caller.EncryptedClientHelloConfigList, before.EncryptedClientHelloConfigList) ||
					!slices.Equal(caller.NextProtos, before.NextProtos) || caller.MinVersion != before.MinVersion || caller.MaxVersion != before.MaxVersion || caller.InsecureSkipVerify
				caller.ServerName = pB.CallerServerName
				caller.EncryptedClientHelloConfigList = callerList(pB.CallerECH)
				callerB = caller
				beforeB = &tls.Config{ServerName: caller.ServerName, NextProtos: slices.Clone(caller.NextProtos), MinVersion: caller.MinVersion, MaxVersion: caller.MaxVersion,
					EncryptedClientHelloConfigList: slices.Clone(caller.EncryptedClientHelloConfigList)}
				core.Guard(func() {
					req, err := http.NewRequestWithContext(context.WithValue(ctx, twinKey{}, 2), "GET", "https://"+strings.TrimSpace(addr)+"/", nil)
					if err != nil {
						return
					}
					var resp *http.Response
					resp, retErrB = tr.RoundTrip(req)
					if resp != nil {
						resp.Body.Close()
					}
				})
				retSeqB = es.rs.seq.Add(1)
				retTB = int64(time.Since(es.rs.t0))
				againDone = true
			}
			tr.HTTPTransport.CloseIdleConnections()
		} else {
			if twinDone != nil {
				go func() {
					defer close(twinDone)
					core.Guard(func() {
						retConnB, retErrB = d.Dial(context.WithValue(ctx, twinKey{}, 1), p.Network, addr, callerB)
					})
					retSeqB = es.rs.seq.Add(1)
					retTB = int64(time.Since(es.rs.t0))
				}()
			}
			_, panicS, panicAt = core.Guard(func() {
				retConn, retErr = d.Dial(ctx, p.Network, addr, caller)
			})
		}
		if !againDone {
			retSeq = es.rs.seq.Add(1)
			retT = int64(time.Since(es.rs.t0))
		}
		if twinDone != nil {
			<-twinDone
		}
		if rest := horizon - time.Since(es.rs.t0); rest > 0 {
			time.Sleep(rest)
		}
		synctest.Wait()
		// every attempt has returned: whatever Dial still has alive now only goes
		// away when the caller gives up (looked at before the caller's context ends)
		if runtime.NumGoroutine() != g0 {
			preLeft, _ = leakedHere()
		}
		cancel()
		synctest.Wait()
		if runtime.NumGoroutine() != g0 {
			libLeft, other = leakedHere()
		}
		res.SimNs = int64(time.Since(es.rs.t0))
	})
	if msg != "" {
		if os.Getenv("VERIF_DEBUG") != "" {
			fmt.Fprintln(os.Stderr, msg)
		}
		switch {
		case strings.Contains(msg, "all goroutines in bubble are blocked"):
			res.Fail(prop, "hang", "Dial: all goroutines blocked", "%s", firstLine(msg))
			return res
		case strings.Contains(msg, "blocked goroutines remain") && len(libLeft) > 0 && len(other) == 0:
			// goroutines of Dial that can never finish although every attempt has
			// returned and the caller's context was cancelled: C18's clause. (Under
			// C17 the run is judged as usual; the leak is only noted.)
			if prop == "C18" {
				res.Fail(prop, "goroutine-leak", strings.Join(dedup(libLeft), ","), "%d goroutine(s) of Dial blocked for good after every attempt returned: %v", len(libLeft), libLeft)
				return res
			}
		default:
			res.Harness = "bubble: " + firstLine(msg)
			return res
		}
	}
	if res.Harness != "" {
		return res
	}
	for _, s := range es.stub {
		res.Harness = s
	}
	for _, s := range up.broken {
		res.Harness = s
	}
	if len(other) > 0 {
		res.Harness = "goroutines left at end of run: " + strings.Join(other, ",")
	}
	if len(preLeft) > 0 && len(libLeft) == 0 && !p.ViaTransport {
		res.Probe("lib_goroutines_wait_for_caller_cancel")
		if prop == "C18" {
			res.Fail(prop, "goroutine-leak", strings.Join(dedup(preLeft), ",")+" (until the caller's context ends)", "%d goroutine(s) of Dial still alive after every attempt returned; they only went away when the caller's context was cancelled: %v", len(preLeft), preLeft)
		}
	}
	if len(libLeft) > 0 {
		res.Probe("lib_goroutines_left") // C18's business; not judged under C17
		if prop == "C18" {
			res.Fail(prop, "goroutine-leak", strings.Join(dedup(libLeft), ","), "%d goroutine(s) of Dial alive after every attempt returned and the caller's context ended: %v", len(libLeft), libLeft)
		}
	}
	if panicS != "" {
		res.Fail(prop, "panic", panicAt, "Dial panicked: %s", panicS)
		return res
	}
	for k, v := range up.fired {
		if strings.HasPrefix(k, "resolver_") {
			res.FaultN(k, v)
		} else {
			res.ProbeN(k, v)
		}
	}
	resolverFault := false
	for k := range up.fired {
		if strings.HasPrefix(k, "resolver_") {
			resolverFault = true
		}
	}
	if prop == "C18" {
		// C18 looks at these runs for one thing only: an attempt - the retry
		// after an ECH rejection included - is bounded by Timeout. (The log
		// digest, signature and arbitration are those of the C17 judgement.)
		tmp := &core.Result{}
		judgeEch(tmp, "C17", p, es, caller, before, retConn, retErr, retSeq, retT, len(up.queries), resolverFault || len(p.Zone.Fail) > 0)
		res.LogHash, res.Sig, res.Arbitrated, res.NonTrivial, res.Sample = tmp.LogHash, tmp.Sig, tmp.Arbitrated, tmp.NonTrivial, tmp.Sample
		judgeEchTimeouts(res, prop, es, timeout, retT)
		// ... and for what Dial hands back when attempts end in ECH rejections:
		// a connection some attempt produced, or an error - never neither
		if retConn == nil && retErr == nil && !p.ViaTransport {
			res.Fail(prop, "result", "Dial returned neither a connection nor an error", "address %s: (nil, nil) at %v after %d DialFunc calls", addr, time.Duration(retT), len(es.calls))
		}
		// ... and every connection an attempt established is the one handed back
		// or has been closed
		if !p.ViaTransport && esB == nil {
			es.rs.mu.Lock()
			conns := append([]*simConn(nil), es.rs.conns...)
			es.rs.mu.Unlock()
			for _, cn := range conns {
				if _, n := cn.closedAt(); n == 0 && cn != retConn {
					res.Fail(prop, "loser-open", "established connection neither returned nor closed", "address %s: connection of DialFunc call %d; Dial returned (%v, %s)", addr, cn.id, retConn != nil, errText(retErr))
				}
			}
		}
		return res
	}
	if againDone {
		// (the harness itself changed the caller's config after the first request:
		// what Dial did to it up to then was compared at that point)
		caller, before = nil, nil
		if callerMutEarly {
			res.Fail(prop, "caller-config", "caller's tls.Config mutated (Transport.TLSConfig after the first request)", "")
		}
	}
	judgeEch(res, prop, p, es, caller, before, retConn, retErr, retSeq, retT, len(up.queries), resolverFault || len(p.Zone.Fail) > 0)
	if esB != nil {
		// the twin, by its own expectations (what goes into the canonical log and
		// the signature stays this call's)
		tmp := &core.Result{}
		judgeEch(tmp, prop, pB, esB, callerB, beforeB, retConnB, retErrB, retSeqB, retTB, len(up.queries), true)
		for _, v := range tmp.Violations {
			label := " (second of two calls that share one Dialer)"
			if p.Again {
				label = " (second request, after Transport.TLSConfig was changed in place)"
			}
			res.Fail(prop, v.Class, v.Site+label, "%s", v.Detail)
		}
		if p.Again {
			res.Probe("second_request_after_config_change")
		} else {
			res.Probe("two_dials_on_one_dialer")
		}
		res.Arbitrated = true
	}
	if retNilNil.Load() {
		res.Probe("dial_returned_nil_nil") // C18's clause; the C18 check judges it on its own plans
	}
	return res
}

// judgeEchTimeouts: every DialFunc call of an attempt - the second one after an
// ECH rejection with retry configs too - runs under the deadline
// "start of the attempt + Timeout".
func judgeEchTimeouts(res *core.Result, prop string, es *echState, timeout int64, retT int64) {
	es.mu.Lock()
	calls := append([]*echCall(nil), es.calls...)
	es.mu.Unlock()
	first := map[string]*echCall{}
	for _, c := range calls {
		if c.n == 0 {
			first[c.addr] = c
		}
	}
	for _, c := range calls {
		f := first[c.addr]
		if f == nil {
			continue
		}
		what := "attempt"
		if c.n > 0 {
			what = "retry after ECH rejection"
			res.Probe("retry_under_attempt_deadline")
		}
		switch {
		case !c.hasDL:
			res.Fail(prop, "timeout", "attempt context has no deadline ("+what+")", "address %s call #%d", c.addr, c.n)
		case c.dl > f.t+timeout:
			res.Fail(prop, "timeout", "attempt deadline beyond start+Timeout ("+what+")", "address %s call #%d: attempt started %v, this call %v, deadline %v, Timeout %v", c.addr, c.n, time.Duration(f.t), time.Duration(c.t), time.Duration(c.dl), time.Duration(timeout))
		case c.dl < f.t+timeout:
			res.Fail(prop, "timeout", "attempt deadline earlier than start+Timeout ("+what+")", "address %s call #%d: attempt started %v, deadline %v, Timeout %v", c.addr, c.n, time.Duration(f.t), time.Duration(c.dl), time.Duration(timeout))
		}
		if c.ended && c.outcome == "hang" && c.endT > f.t+timeout {
			res.Fail(prop, "timeout", "attempt context still live after start+Timeout ("+what+")", "address %s call #%d: attempt started %v, context ended %v", c.addr, c.n, time.Duration(f.t), time.Duration(c.endT))
		}
		if c.ended && c.outcome == "hang" && c.endT == f.t+timeout && c.endT <= retT {
			res.Probe("attempt_timeout")
		}
	}
}

var debugCanon func([]string)

func listTag(b []byte, isNil bool) string {
	if isNil {
		return "nil"
	}
	return fmt.Sprintf("%d:%x", len(b), core.SigOf(string(b)))
}

func judgeEch(res *core.Result, prop string, p *EchPlan, es *echState, caller, before *tls.Config, retConn *simConn, retErr error, retSeq, retT int64, nq int, anyResolverFault bool) {
	models := []*hostModel{}
	ipHost := map[string]*hostModel{}
	ambiguous := map[string]bool{}
	for _, h := range p.Hosts {
		m := modelHost(&p.Zone, h, p.Network)
		models = append(models, m)
		for ip := range m.own {
			if _, dup := ipHost[ip]; dup {
				ambiguous[ip] = true
			}
			ipHost[ip] = m
		}
	}
	es.mu.Lock()
	calls := append([]*echCall(nil), es.calls...)
	es.mu.Unlock()
	sort.SliceStable(calls, func(a, b int) bool { return calls[a].seq < calls[b].seq })

	var cl []byte
	if p.CallerECH > 0 && !p.CallerNil {
		cl = callerList(p.CallerECH)
	}
	byAddr := map[string][]*echCall{}
	var addrs []string
	for _, c := range calls {
		if !c.ended {
			res.Harness = "scripted attempt never ended: " + c.addr
			return
		}
		if _, ok := byAddr[c.addr]; !ok {
			addrs = append(addrs, c.addr)
		}
		byAddr[c.addr] = append(byAddr[c.addr], c)
	}
	sort.Strings(addrs)

	sigParts := []string{fmt.Sprintf("req=%v pn=%v cech=%v csn=%v nil=%v hosts=%d tr=%v", p.RequireECH, p.PublicName != "", p.CallerECH > 0, p.CallerServerName != "", p.CallerNil, len(p.Hosts), p.ViaTransport)}
	if p.ViaTransport {
		res.Probe("via_transport")
	}
	var canon []string
	refusalPossible := false

	for _, c := range calls {
		m := ipHost[c.ip]
		if m == nil {
			res.Fail(prop, "unexpected-target", "DialFunc called for an address that no record of the named hosts provides", "address %s (hosts %v)", c.addr, p.Hosts)
			continue
		}
		if ambiguous[c.ip] {
			res.Harness = "plan error: address " + c.ip + " belongs to two hosts"
			return
		}
		if c.tc == nil {
			res.Fail(prop, "config", "DialFunc called with a nil tls.Config", "address %s", c.addr)
			continue
		}
		if caller != nil && c.tc == caller {
			res.Fail(prop, "caller-config", "caller's *tls.Config handed to DialFunc", "address %s", c.addr)
		}
		// --- RequireECH
		if p.RequireECH && c.listNil {
			res.Fail(prop, "require-ech", "attempt made without an ECH config list although RequireECH is set", "address %s (host %s), call %d", c.addr, m.spec, c.n)
		}
		// --- server name
		wantSN := p.CallerServerName
		if p.CallerNil || wantSN == "" {
			wantSN = m.spec.Host
		}
		if c.sn != wantSN {
			site := "ServerName is not the host the caller named"
			if !p.CallerNil && p.CallerServerName != "" {
				site = "caller-supplied ServerName replaced"
			}
			res.Fail(prop, "server-name", site, "address %s (host %s): ServerName %q, want %q", c.addr, m.spec, c.sn, wantSN)
		}
		// --- config list
		owner := m.own[c.ip]
		src := ""
		switch {
		case c.n >= 1 && len(byAddr[c.addr]) > c.n && byAddr[c.addr][c.n-1].retry != nil:
			src = "retry"
			prev := byAddr[c.addr][c.n-1]
			if c.listNil || !bytes.Equal(c.list, prev.retry) {
				res.Fail(prop, "retry", "retry not made with exactly the server's retry configs", "address %s: list %s, retry configs %s", c.addr, listTag(c.list, c.listNil), listTag(prev.retry, false))
			}
		case p.CallerECH < 0 && !p.CallerNil:
			// an empty list from the caller: the statement does not say whether
			// that counts as supplied; only the RequireECH rule above applies
			src = "caller-empty"
			res.Probe("caller_empty_list")
		case cl != nil:
			src = "caller"
			if c.listNil || !bytes.Equal(c.list, cl) {
				res.Fail(prop, "ech-list", "caller-supplied ECH config list replaced", "address %s (host %s): list %s, caller's %s", c.addr, m.spec, listTag(c.list, c.listNil), listTag(cl, false))
			} else {
				res.Probe("caller_ech_kept")
			}
		case owner != nil && owner.ECH > 0:
			src = "dns"
			if want := recList(owner.ECH); c.listNil || !bytes.Equal(c.list, want) {
				res.Fail(prop, "ech-list", "ECH config list is not the one of the HTTPS record that produced the address", "address %s (host %s): list %s, record's %s (ech id %d)", c.addr, m.spec, listTag(c.list, c.listNil), listTag(want, false), owner.ECH)
			} else {
				res.Probe("dns_ech_used")
				if m.aliased {
					res.Probe("dns_ech_via_alias")
				}
			}
		case p.PublicName != "":
			src = "bootstrap"
			cfgs, err := parseECHList(c.list)
			switch {
			case c.listNil:
				res.Fail(prop, "ech-list", "no bootstrap config list although PublicName is set", "address %s (host %s)", c.addr, m.spec)
			case err != nil:
				res.Fail(prop, "ech-list", "bootstrap config list does not parse", "address %s: %v", c.addr, err)
			default:
				for _, cf := range cfgs {
					if cf.Version != 0xfe0d || cf.PublicName != p.PublicName {
						res.Fail(prop, "ech-list", "bootstrap config list does not name PublicName", "address %s: version %#x public_name %q, want %q", c.addr, cf.Version, cf.PublicName, p.PublicName)
					}
				}
				res.Probe("bootstrap_used")
			}
		default:
			src = "none"
			if !c.listNil {
				res.Fail(prop, "ech-list", "ECH config list from nowhere", "address %s (host %s): list %s but neither caller, record nor PublicName provides one", c.addr, m.spec, listTag(c.list, c.listNil))
			}
		}
		if c.sn == wantSN && p.CallerServerName != "" && !p.CallerNil {
			res.Probe("caller_sn_kept")
		}
		if m.aliased {
			res.Probe("alias_followed")
		}
		if m.partial {
			res.Probe("partial_ech_host_dialled")
		}
		switch c.outcome {
		case "error":
			res.Fault("attempt_error")
		case "hang":
			res.Fault("attempt_hang")
		case "reject_retry":
			if c.n == 0 {
				res.Fault("ech_reject_retry")
			} else {
				res.Fault("ech_reject_again")
				res.Probe("retry_rejected_again")
			}
		case "reject_noretry":
			res.Fault("ech_reject_noretry")
		}
		ownKind := "plain"
		switch {
		case m.literal:
			ownKind = "literal"
		case owner != nil && owner.ECH > 0:
			ownKind = "rec+ech"
		case owner != nil:
			ownKind = "rec"
		}
		sigParts = append(sigParts, fmt.Sprintf("%d/%s/%s/%s", c.n, ownKind, src, c.outcome))
		// Calls that begin in or after the instant of Dial's return are not part of
		// the canonical log: in that instant the feeder's resolution of the next
		// host races with the deferred cancel, so whether those hosts still get
		// (cancelled) attempts is the runtime's choice. They are judged all the same.
		if c.t < retT {
			canon = append(canon, fmt.Sprintf("%d call %s #%d list=%s sn=%s -> %d %s", c.t, c.addr, c.n, listTag(c.list, c.listNil), c.sn, c.endT, c.outcome))
		}
	}

	// --- retry discipline, per address
	for _, a := range addrs {
		cs := byAddr[a]
		first := cs[0]
		switch {
		case first.outcome == "reject_retry":
			switch {
			case len(cs) == 1 && first.endSeq < retSeq:
				res.Fail(prop, "retry", "no retry after an ECH rejection carrying retry configs", "address %s", a)
			case len(cs) == 1:
				// the outcome had been decided before the rejection came back
			case len(cs) > 2:
				res.Fail(prop, "retry", "more than one retry after an ECH rejection", "address %s called %d times", a, len(cs))
			default:
				res.Probe("retry_with_configs")
			}
		case len(cs) > 1:
			site := "address dialled again without retry configs"
			if first.outcome == "reject_noretry" {
				site = "retry after an ECH rejection without retry configs"
			}
			res.Fail(prop, "retry", site, "address %s called %d times; first outcome %s", a, len(cs), first.outcome)
		case first.outcome == "reject_noretry":
			res.Probe("reject_without_retry_configs")
		}
	}

	// --- RequireECH refusals: addresses the model says have no list, never dialled
	if p.RequireECH && p.CallerECH < 0 && !p.CallerNil {
		refusalPossible = true
	}
	if p.RequireECH && cl == nil && p.PublicName == "" {
		for _, m := range models {
			for _, owner := range m.own {
				if owner == nil || owner.ECH <= 0 {
					refusalPossible = true
				}
			}
		}
		if refusalPossible && retConn == nil && retErr != nil && strings.Contains(retErr.Error(), "unable to get ECH config list") {
			res.Probe("require_ech_refusal")
		}
	}

	// --- the Dialer the application installed is the one that dials
	if p.ViaTransport && p.OwnDialer && len(calls) == 0 && !refusalPossible && !anyResolverFault && len(p.PublicName) <= 255 && retErr != nil {
		reachable := false
		for _, m := range models {
			for _, owner := range m.own {
				// (the own addresses of a name that owns an AliasMode record are not
				// targets; only count what a record or the name itself provides)
				reachable = reachable || owner != nil || !m.aliased
			}
		}
		if reachable {
			res.Fail(prop, "own-dialer", "the request fails without one call of the DialFunc of the Dialer installed in Transport.Dialer (whatever dialled, it was not bound by that Dialer's RequireECH / PublicName)", "hosts %v: error %s", p.Hosts, errText(retErr))
		}
	}
	// --- caller's config untouched
	if caller != nil {
		switch {
		case caller.ServerName != before.ServerName:
			res.Fail(prop, "caller-config", "caller's tls.Config mutated: ServerName", "%q -> %q", before.ServerName, caller.ServerName)
		case (caller.EncryptedClientHelloConfigList == nil) != (before.EncryptedClientHelloConfigList == nil) || !bytes.Equal(caller.EncryptedClientHelloConfigList, before.EncryptedClientHelloConfigList):
			res.Fail(prop, "caller-config", "caller's tls.Config mutated: EncryptedClientHelloConfigList", "%s -> %s", listTag(before.EncryptedClientHelloConfigList, before.EncryptedClientHelloConfigList == nil), listTag(caller.EncryptedClientHelloConfigList, caller.EncryptedClientHelloConfigList == nil))
		case !slices.Equal(caller.NextProtos, before.NextProtos) || caller.MinVersion != before.MinVersion || caller.MaxVersion != before.MaxVersion || caller.InsecureSkipVerify:
			res.Fail(prop, "caller-config", "caller's tls.Config mutated: other fields", "NextProtos %v MinVersion %#x", caller.NextProtos, caller.MinVersion)
		}
	}

	// --- result sanity (C18 owns the rest)
	if retConn != nil {
		okCall := false
		for _, c := range calls {
			if c.outcome == "ok" && c.endT == retT {
				okCall = true
			}
		}
		if !okCall {
			res.Fail(prop, "result", "Dial returned a connection no successful attempt produced at that instant", "returned at %v", time.Duration(retT))
		}
	}

	// coinciding completions make the order of the joined errors runtime-owned
	seen := map[int64]bool{}
	for _, c := range calls {
		if c.endT <= retT && c.outcome != "cancelled" && !(c.outcome == "hang" && c.endT == retT) {
			if seen[c.endT] {
				res.Arbitrated = true
			}
			seen[c.endT] = true
		}
	}
	// A failure that takes no virtual time (RequireECH refusal, resolver
	// error for one of the hosts) races with the feeder reaching its select:
	// whether it shortens the stagger delay is decided by the runtime, and
	// with it every later instant of the run.
	if refusalPossible || anyResolverFault {
		res.Arbitrated = true
	}
	sort.Strings(canon)
	canon = append(canon, fmt.Sprintf("%d return conn=%v err=%s", retT, retConn != nil, errText(retErr)))
	if debugCanon != nil {
		debugCanon(canon)
	}
	res.LogHash = core.HashLog(canon)
	sigParts = append(sigParts, fmt.Sprintf("ret=%v", retConn != nil))
	res.Sig = core.SigOf(sigParts...)
	res.NonTrivial = len(res.Violations) == 0 && res.Harness == "" && (len(calls) > 0 || refusalPossible)
	res.Sample = map[string]any{"kind": "ech", "address": hostsString(p.Hosts), "require_ech": p.RequireECH, "public_name": p.PublicName, "caller_ech": p.CallerECH > 0,
		"caller_server_name": p.CallerServerName, "calls": len(calls), "doh_queries": nq, "returned_conn": retConn != nil, "error": errText(retErr)}
}

func hostsString(hs []HostSpec) string {
	var t []string
	for _, h := range hs {
		t = append(t, h.String())
	}
	return strings.Join(t, ",")
}
