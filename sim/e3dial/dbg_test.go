package e3dial

import (
	"encoding/json"
	"os"
	"strconv"
	"testing"
)

// TestDebug executes plans idx in [VERIF_DBG_FROM, VERIF_DBG_TO) of VERIF_DBG_PROP and prints what VERIF_DBG_WHAT asks for.
func TestDebug(t *testing.T) {
	prop := os.Getenv("VERIF_DBG_PROP")
	if prop == "" {
		t.Skip()
	}
	from, _ := strconv.Atoi(os.Getenv("VERIF_DBG_FROM"))
	to, _ := strconv.Atoi(os.Getenv("VERIF_DBG_TO"))
	what := os.Getenv("VERIF_DBG_WHAT")
	e := Engine{}
	shown := 0
	for i := from; i < to; i++ {
		p := e.Generate(prop, "quick", 1, i)
		res := e.Execute(t, prop, p)
		show := false
		switch what {
		case "unplanned":
			show = res.Probes["unplanned_tie"] > 0
		case "viol":
			show = len(res.Violations) > 0
		case "harness":
			show = res.Harness != ""
		case "all":
			show = true
		}
		if show && shown < 5 {
			shown++
			b, _ := json.Marshal(p)
			t.Logf("idx %d plan %s\nviol=%v harness=%q probes=%v sample=%v", i, b, res.Violations, res.Harness, res.Probes, res.Sample)
		}
	}
	t.Logf("leak walks: %d", leakWalks.Load())
}
