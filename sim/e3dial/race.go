package e3dial

import (
	"context"
	"crypto/tls"
	"errors"
	"fmt"
	"math"
	"net"
	"os"
	"runtime"
	"sort"
	"strings"
	"sync"
	"sync/atomic"
	"testing"
	"testing/cryptotest"
	"testing/synctest"
	"time"

	"github.com/c2FmZQ/ech"

	"verifsim/core"
)

// Outcome scripts one target's DialFunc call.
//
//	ok      succeed after D unless the attempt's context ends first
//	fail    fail after D unless the attempt's context ends first
//	hang    block until the attempt's context ends, then return its error
//	okx     succeed after D, ignoring the context
//	failx   fail after D, ignoring the context
//	hangx   ignore the context, fail when released at the end of the run
//	hangxok ignore the context, succeed when released at the end of the run
type Outcome struct {
	Kind string `json:"kind"`
	DNs  int64  `json:"d_ns,omitempty"`
	// GaveUp (fail, failx): the failure wraps context.Canceled although the
	// attempt's context is live (something inside the attempt gave up on its own)
	GaveUp bool `json:"gave_up,omitempty"`
}

// RacePlan is one C18 schedule. All durations are final (residues included):
// executing it is a pure function of these numbers.
type RacePlan struct {
	Network  string    `json:"network"`  // tcp | tcp4 | tcp6
	Hosts    []string  `json:"hosts"`    // comma-separated by the harness; IP literals and localhost only
	Outcomes []Outcome `json:"outcomes"` // per expected target, in target order

	MaxConc   int   `json:"max_concurrency"`      // 0 => library default 3
	DelayNs   int64 `json:"concurrency_delay_ns"` // 0 => 1s
	TimeoutNs int64 `json:"timeout_ns"`           // 0 => 30s

	CancelKind string `json:"cancel_kind,omitempty"` // "" | cancel | deadline | pre
	CancelNs   int64  `json:"cancel_ns,omitempty"`

	Tie  bool `json:"runtime_arbitrated,omitempty"` // deliberately coinciding instants
	Reps int  `json:"reps,omitempty"`               // repetitions inside the run (tie mode)
	// SharedDialer: the repetitions go through ONE Dialer value (an application
	// keeps its Dialer), not through a fresh one each.
	SharedDialer bool `json:"shared_dialer,omitempty"`
	// Retuned (with SharedDialer): the Dialer has been used before, with other
	// settings; the application changed them before the calls looked at.
	Retuned bool `json:"retuned,omitempty"`
}

func (p *RacePlan) delay() time.Duration {
	if p.DelayNs <= 0 {
		return time.Second
	}
	return time.Duration(p.DelayNs)
}

func (p *RacePlan) timeout() time.Duration {
	if p.TimeoutNs <= 0 {
		return 30 * time.Second
	}
	return time.Duration(p.TimeoutNs)
}

func (p *RacePlan) maxConc() int {
	if p.MaxConc <= 0 {
		return 3
	}
	return p.MaxConc
}

func (p *RacePlan) outcome(i int) Outcome {
	if i < len(p.Outcomes) {
		return p.Outcomes[i]
	}
	return Outcome{Kind: "fail", DNs: int64(time.Millisecond)}
}

// expandHost is the harness's own statement of what an IP-literal /
// localhost address resolves to (no DNS involved), filtered by family.
func expandHost(tok, network string) []string {
	tok = strings.TrimSpace(tok)
	host, port, err := net.SplitHostPort(tok)
	if err != nil {
		host, port = tok, "443"
	}
	var ips []net.IP
	if host == "localhost" {
		ips = []net.IP{net.IPv4(127, 0, 0, 1), net.IPv6loopback}
	} else if ip := net.ParseIP(host); ip != nil {
		ips = []net.IP{ip}
	}
	var out []string
	for _, ip := range ips {
		v4 := ip.To4() != nil
		if v4 && (network == "tcp6" || network == "udp6") {
			continue
		}
		if !v4 && (network == "tcp4" || network == "udp4") {
			continue
		}
		out = append(out, net.JoinHostPort(ip.String(), port))
	}
	return out
}

// unresolvableBefore counts the hosts of the plan that cannot be resolved and
// are listed before the host that provides target idx.
func unresolvableBefore(p *RacePlan, idx int) int {
	n, k := 0, 0
	for _, h := range p.Hosts {
		t := expandHost(h, p.Network)
		if h == invalidHost {
			n++
			continue
		}
		if k+len(t) > idx {
			break
		}
		k += len(t)
	}
	return n
}

func (p *RacePlan) targets() []string {
	var out []string
	for _, h := range p.Hosts {
		out = append(out, expandHost(h, p.Network)...)
	}
	return out
}

// simConn is the connection type handed out by the scripted DialFunc.
type simConn struct {
	id      int // index of the call that produced it
	attempt int
	rs      *raceState
	mu      sync.Mutex
	closes  []int64 // virtual instants (ns since the rep's start)
}

// ConnectionState: a connection that can be asked and that did not negotiate
// ECH (a DialFunc of the application's own; what it hands out is the
// application's business).
func (c *simConn) ConnectionState() tls.ConnectionState { return tls.ConnectionState{} }

func (c *simConn) Close() error {
	now := int64(time.Since(c.rs.t0))
	c.rs.seq.Add(1)
	c.mu.Lock()
	c.closes = append(c.closes, now)
	c.mu.Unlock()
	return nil
}

func (c *simConn) closedAt() (int64, int) {
	c.mu.Lock()
	defer c.mu.Unlock()
	if len(c.closes) == 0 {
		return -1, 0
	}
	return c.closes[0], len(c.closes)
}

type callRec struct {
	idx      int // target index, -1 unknown address
	addr     string
	startSeq int64
	startT   int64
	entryErr error
	hasDL    bool
	dl       int64
	ended    bool
	endSeq   int64
	endT     int64
	ok       bool
	conn     *simConn
	err      error
}

type raceState struct {
	t0      time.Time
	seq     atomic.Int64
	mu      sync.Mutex
	calls   []*callRec
	conns   []*simConn
	flight  int
	maxFl   int
	relAt   int64 // attempts that ignore their context are released from here on, one per microsecond
	stubErr []string
}

// untilRelease: how long an attempt that ignores its context stays blocked.
// An attempt that only starts after the release instant still takes a
// microsecond: a completion that takes no virtual time at all would race
// with Dial's feeder going back to its select (the wake-up is a non-blocking
// send), and the run would no longer be a function of the plan.
func (rs *raceState) untilRelease(idx int) time.Duration {
	at := rs.t0.Add(time.Duration(rs.relAt + int64(idx+1)*int64(time.Microsecond)))
	d := time.Until(at)
	if min := time.Microsecond + time.Duration(idx+1); d < min {
		d = min
	}
	return d
}

type failErr struct {
	idx   int
	cause error
}

func (e *failErr) Error() string {
	if e.cause != nil {
		return fmt.Sprintf("scripted failure of target %d: %v", e.idx, e.cause)
	}
	return fmt.Sprintf("scripted failure of target %d", e.idx)
}
func (e *failErr) Unwrap() error { return e.cause }

func scriptedFailure(idx int, o Outcome) error {
	if o.GaveUp {
		return &failErr{idx, context.Canceled}
	}
	return &failErr{idx: idx}
}

type releasedErr struct{ idx int }

func (e *releasedErr) Error() string { return fmt.Sprintf("target %d released", e.idx) }

func (rs *raceState) dialFunc(p *RacePlan, index map[string]int) func(context.Context, string, string, *tls.Config) (*simConn, error) {
	return func(ctx context.Context, network, addr string, tc *tls.Config) (conn *simConn, err error) {
		panicked, msg, _ := core.Guard(func() {
			rec := &callRec{addr: addr, idx: -1}
			if i, ok := index[addr]; ok {
				rec.idx = i
			}
			rec.startSeq = rs.seq.Add(1)
			rec.entryErr = ctx.Err()
			rec.startT = int64(time.Since(rs.t0))
			if dl, ok := ctx.Deadline(); ok {
				rec.hasDL, rec.dl = true, int64(dl.Sub(rs.t0))
			}
			rs.mu.Lock()
			id := len(rs.calls)
			rs.calls = append(rs.calls, rec)
			rs.flight++
			rs.maxFl = max(rs.maxFl, rs.flight)
			rs.mu.Unlock()

			o := Outcome{Kind: "fail", DNs: int64(time.Millisecond)}
			if rec.idx >= 0 {
				o = p.outcome(rec.idx)
			}
			mk := func() *simConn {
				c := &simConn{id: id, attempt: rec.idx, rs: rs}
				rs.mu.Lock()
				rs.conns = append(rs.conns, c)
				rs.mu.Unlock()
				return c
			}
			switch o.Kind {
			case "ok", "fail":
				tm := time.NewTimer(time.Duration(o.DNs))
				select {
				case <-tm.C:
					if o.Kind == "ok" {
						conn = mk()
					} else {
						err = scriptedFailure(rec.idx, o)
					}
				case <-ctx.Done():
					tm.Stop()
					err = ctx.Err()
				}
			case "hang":
				<-ctx.Done()
				err = ctx.Err()
			case "okx":
				time.Sleep(time.Duration(o.DNs))
				conn = mk()
			case "failx":
				time.Sleep(time.Duration(o.DNs))
				err = scriptedFailure(rec.idx, o)
			case "hangxok":
				time.Sleep(rs.untilRelease(rec.idx))
				conn = mk()
			default: // hangx
				time.Sleep(rs.untilRelease(rec.idx))
				err = &releasedErr{rec.idx}
			}
			rs.mu.Lock()
			rs.flight--
			rec.endT = int64(time.Since(rs.t0))
			rec.ok, rec.conn, rec.err = conn != nil, conn, err
			rec.ended = true
			rec.endSeq = rs.seq.Add(1)
			rs.mu.Unlock()
		})
		if panicked {
			rs.mu.Lock()
			rs.stubErr = append(rs.stubErr, "scripted DialFunc panicked: "+msg)
			rs.mu.Unlock()
			return nil, errors.New("harness: DialFunc panicked")
		}
		return conn, err
	}
}

type repLog struct {
	rs      *raceState
	retSeq  int64
	retT    int64
	retConn *simConn
	retErr  error
	panicS  string
	panicAt string
	c       int64 // instant the caller's context ends; MaxInt64 if never
	leaked  []string
	other   []string
}

const never = int64(math.MaxInt64)

var leakWalks atomic.Int64 // how often the goroutine count asked for a full stack walk

func executeRace(t *testing.T, prop string, seed uint64, p *RacePlan) *core.Result {
	res := &core.Result{}
	cryptotest.SetGlobalRandom(t, seed)
	reps := max(1, p.Reps)
	res.Evals = 1
	res.Arbitrated = p.Tie
	if unresolvableBefore(p, 1<<30) > 0 {
		// a failure that takes no virtual time races with the feeder going back
		// to wait: the instants of the run depend on the runtime (the verdicts do not)
		res.Arbitrated = true
		res.Probe("unresolvable_address_listed")
	}
	targets := p.targets()
	index := map[string]int{}
	for i, a := range targets {
		if _, dup := index[a]; dup {
			res.Harness = "plan lists the same address twice: " + a
			return res
		}
		index[a] = i
	}
	var maxD int64
	for i := range targets {
		maxD = max(maxD, p.outcome(i).DNs)
	}
	n := int64(len(targets))
	relAt := (n+2)*(int64(p.timeout())+int64(p.delay())+maxD) + int64(time.Second) + 4096
	if p.CancelNs > 0 {
		relAt += p.CancelNs
	}
	// after the release every remaining target may still take a full Timeout
	// (Dial may legitimately still be running: it cannot return while every
	// worker is stuck in an attempt that ignores its context)
	endAt := relAt + (n+2)*(int64(p.timeout())+int64(p.delay())+maxD+int64(time.Millisecond)) + int64(time.Second)

	var logs []*repLog
	var canon []string
	var bubbleMsg string
	msg := core.Bubble(t, func(t *testing.T) {
		bubble0 := time.Now()
		g0 := runtime.NumGoroutine()
		var shared *ech.Dialer[*simConn]
		for r := 0; r < reps; r++ {
			rs := &raceState{t0: time.Now(), relAt: relAt}
			rl := &repLog{rs: rs, c: never}
			logs = append(logs, rl)
			d := &ech.Dialer[*simConn]{
				MaxConcurrency:   p.MaxConc,
				ConcurrencyDelay: time.Duration(p.DelayNs),
				Timeout:          time.Duration(p.TimeoutNs),
			}
			if p.SharedDialer {
				if shared == nil {
					shared = d
					if p.Retuned {
						// an earlier use of this Dialer, with other settings
						d.MaxConcurrency, d.ConcurrencyDelay, d.Timeout = 1+(p.maxConc()%4), 7*p.delay()+time.Millisecond, p.timeout()/3+time.Millisecond
						d.DialFunc = func(ctx context.Context, network, addr string, tc *tls.Config) (*simConn, error) {
							time.Sleep(time.Microsecond)
							return nil, errors.New("warm-up")
						}
						core.Guard(func() { d.Dial(context.Background(), "tcp", "192.0.2.1:443", nil) })
						time.Sleep(time.Second)
						synctest.Wait()
						d.MaxConcurrency, d.ConcurrencyDelay, d.Timeout = p.MaxConc, time.Duration(p.DelayNs), time.Duration(p.TimeoutNs)
						rs.t0 = time.Now()
					}
				}
				d = shared
			}
			d.DialFunc = rs.dialFunc(p, index)
			ctx, cancel := context.WithCancel(context.Background())
			var stop func() bool
			switch p.CancelKind {
			case "cancel":
				tm := time.AfterFunc(time.Duration(p.CancelNs), cancel)
				stop = tm.Stop
				rl.c = p.CancelNs
			case "deadline":
				var c2 context.CancelFunc
				ctx, c2 = context.WithDeadline(ctx, rs.t0.Add(time.Duration(p.CancelNs)))
				defer c2()
				rl.c = p.CancelNs
			case "pre":
				cancel()
				rl.c = 0
			}
			var conn *simConn
			var err error
			panicked, pmsg, site := core.Guard(func() {
				conn, err = d.Dial(ctx, p.Network, strings.Join(p.Hosts, ","), nil)
			})
			rl.retSeq = rs.seq.Add(1)
			rl.retT = int64(time.Since(rs.t0))
			rl.retConn, rl.retErr = conn, err
			if panicked {
				rl.panicS, rl.panicAt = pmsg, site
			}
			// let everything that is still outstanding finish: scripted sleeps,
			// the release of attempts that ignore their context, late closes
			if rest := time.Duration(endAt) - time.Since(rs.t0); rest > 0 {
				time.Sleep(rest)
			}
			synctest.Wait()
			// Every attempt has returned by now. Whatever Dial still has alive is
			// left behind -- looked at *before* the caller's context is cancelled
			// (unless the plan itself ended it): a goroutine that only goes away
			// when the caller cancels counts as left behind.
			if runtime.NumGoroutine() != g0 { // cheap pre-check; the stack walk is authoritative
				rl.leaked, rl.other = leakedHere()
				leakWalks.Add(1)
			}
			if stop != nil {
				stop()
			}
			cancel()
			// should the end of the caller's context set anything in motion again
			// (it must not, after a correct Dial), let that finish too
			time.Sleep(time.Duration(n+1) * (time.Duration(maxD) + p.timeout() + p.delay() + time.Second))
			synctest.Wait()
			if panicked || len(rl.leaked) > 0 || len(rl.other) > 0 {
				break
			}
		}
		res.SimNs = int64(time.Since(bubble0))
	})
	if msg != "" {
		if os.Getenv("VERIF_DEBUG") != "" {
			fmt.Fprintln(os.Stderr, msg)
		}
		bubbleMsg = msg
	}
	sigSet := false
	for r, rl := range logs {
		for _, s := range rl.rs.stubErr {
			res.Harness = s
		}
		j := judgeRace(res, prop, p, targets, rl, r)
		if j == nil {
			continue
		}
		canon = append(canon, fmt.Sprintf("rep %d", r))
		canon = append(canon, j.canon...)
		if !sigSet {
			res.Sig, res.NonTrivial, sigSet = j.sig, j.nontrivial && res.Harness == "", true
		}
		if j.tie && !p.Tie {
			res.Arbitrated = true
			res.Probe("unplanned_tie")
		}
	}
	switch {
	case bubbleMsg == "":
	case strings.Contains(bubbleMsg, "all goroutines in bubble are blocked"):
		res.Fail(prop, "hang", "Dial: all goroutines blocked", "%s", firstLine(bubbleMsg))
	case strings.Contains(bubbleMsg, "blocked goroutines remain") && len(res.Violations) > 0:
		// already reported from the goroutine walk (leak / context that never ended)
	default:
		res.Harness = "bubble: " + firstLine(bubbleMsg)
	}
	if debugCanon != nil {
		debugCanon(canon)
	}
	res.LogHash = core.HashLog(canon)
	if len(res.Violations) > 0 {
		res.NonTrivial = false
	}
	if len(logs) > 0 {
		rl := logs[0]
		kinds := []string{}
		for i := range targets {
			kinds = append(kinds, p.outcome(i).Kind)
		}
		res.Sample = map[string]any{"kind": "race", "targets": len(targets), "outcomes": kinds, "max_concurrency": p.MaxConc,
			"delay_ns": p.DelayNs, "timeout_ns": p.TimeoutNs, "cancel": p.CancelKind, "cancel_ns": p.CancelNs, "tie": p.Tie, "reps": reps,
			"returned_at_ns": rl.retT, "returned_conn": rl.retConn != nil, "calls": len(rl.rs.calls)}
	}
	return res
}

type raceJudgement struct {
	canon      []string
	sig        uint64
	nontrivial bool
	tie        bool
}

func errText(err error) string {
	if err == nil {
		return "<nil>"
	}
	return strings.ReplaceAll(err.Error(), "\n", " | ")
}

// judgeRace evaluates the C18 rules over the event log of one repetition.
// Everything is phrased over virtual instants and the harness's sequence
// counter; where two events share an instant, every order is accepted.
func judgeRace(res *core.Result, prop string, p *RacePlan, targets []string, rl *repLog, rep int) *raceJudgement {
	rs := rl.rs
	rs.mu.Lock()
	calls := append([]*callRec(nil), rs.calls...)
	conns := append([]*simConn(nil), rs.conns...)
	maxFl := rs.maxFl
	rs.mu.Unlock()
	j := &raceJudgement{}
	delay, timeout, maxc := int64(p.delay()), int64(p.timeout()), p.maxConc()
	tr, c := rl.retT, rl.c
	fail := func(class, site, f string, a ...any) {
		res.Fail(prop, class, site, "rep %d: "+f, append([]any{rep}, a...)...)
	}

	if rl.panicS != "" {
		fail("panic", rl.panicAt, "Dial panicked: %s", rl.panicS)
		return nil
	}
	if len(rl.leaked) > 0 {
		fail("goroutine-leak", strings.Join(dedup(rl.leaked), ","), "%d goroutine(s) of the library alive after every attempt returned: %v", len(rl.leaked), rl.leaked)
	}
	if len(rl.other) > 0 {
		res.Harness = "goroutines left at end of rep: " + strings.Join(rl.other, ",")
	}
	unended := false
	for _, cr := range calls {
		if cr.ended {
			continue
		}
		unended = true
		if cr.idx >= 0 && p.outcome(cr.idx).Kind == "hang" {
			// the scripted attempt only waits for its context
			fail("timeout", "attempt context never ended", "target %d started at %v; its context was still live at the end of the run", cr.idx, time.Duration(cr.startT))
		} else {
			res.Harness = fmt.Sprintf("scripted attempt %d never ended", cr.idx)
		}
	}
	if unended {
		return nil
	}

	// ---- order ---------------------------------------------------------
	byIdx := map[int]*callRec{}
	started := []*callRec{}
	for _, cr := range calls {
		if cr.idx < 0 {
			fail("order", "unknown address dialled", "DialFunc called with %q, not a target of %v", cr.addr, p.Hosts)
			continue
		}
		if _, dup := byIdx[cr.idx]; dup {
			fail("order", "target attempted twice", "target %d (%s)", cr.idx, cr.addr)
			continue
		}
		byIdx[cr.idx] = cr
		started = append(started, cr)
	}
	sort.Slice(started, func(a, b int) bool { return started[a].idx < started[b].idx })
	for k := 1; k < len(started); k++ {
		if started[k].startT < started[k-1].startT {
			fail("order", "attempt started before an earlier target", "target %d started at %v, target %d at %v",
				started[k].idx, time.Duration(started[k].startT), started[k-1].idx, time.Duration(started[k-1].startT))
		}
	}
	for k, cr := range started {
		if cr.idx != k {
			fail("order", "target skipped", "target %d was never attempted although target %d was", k, cr.idx)
			break
		}
	}

	// ---- concurrency bound ----------------------------------------------
	if maxFl > maxc {
		fail("concurrency", "more than MaxConcurrency attempts in flight", "%d in flight, MaxConcurrency %d", maxFl, maxc)
	}

	// ---- stagger ----------------------------------------------------------
	// The outcome is decided, at the latest, when Dial returns; it is decided
	// earlier when the caller's context ends or the first attempt succeeds.
	decided := min(tr, c)
	for _, cr := range calls {
		if cr.ok {
			decided = min(decided, cr.endT)
		}
	}
	early := 0
	for k := 1; k < len(started); k++ {
		prev, cur := started[k-1], started[k]
		if cur.startT >= decided { // started at or after the decision: no stagger required
			continue
		}
		if cur.startT >= prev.startT+delay {
			if cur.startT > prev.startT+delay && maxFl >= maxc {
				res.Probe("pool_delays_start")
			}
			continue
		}
		// An attempt may start before ConcurrencyDelay has passed since the
		// previous start only on account of a failure, and every failure
		// accounts for at most one such early start (a failed attempt is no
		// longer concurrent; it does not void the stagger for good): the
		// number of early starts so far must not exceed the number of
		// failures that had returned before this start (harness sequence
		// numbers: a real happens-before).
		early++
		failures := 0
		for _, f := range calls {
			if !f.ok && f != cur && f.ended && f.endSeq < cur.startSeq {
				failures++
			}
		}
		// (an address that cannot be resolved takes its turn like any other - it
		// is handed out after ConcurrencyDelay or an earlier failure and fails at
		// once - so it never makes room for a start earlier than that)
		justified := early <= failures
		if justified {
			res.Probe("failure_wakes_feeder")
			continue
		}
		fail("stagger", "attempt started before ConcurrencyDelay without an intervening failure",
			"target %d started at %v, target %d at %v, ConcurrencyDelay %v, no failure in between", prev.idx, time.Duration(prev.startT), cur.idx, time.Duration(cur.startT), time.Duration(delay))
	}

	// ---- per-attempt timeout ------------------------------------------------
	for _, cr := range started {
		want := cr.startT + timeout
		if p.CancelKind == "deadline" && p.CancelNs < want {
			want = p.CancelNs
		}
		switch {
		case !cr.hasDL:
			fail("timeout", "attempt context has no deadline", "target %d", cr.idx)
		case cr.dl > cr.startT+timeout:
			fail("timeout", "attempt deadline beyond start+Timeout", "target %d: start %v deadline %v Timeout %v", cr.idx, time.Duration(cr.startT), time.Duration(cr.dl), time.Duration(timeout))
		case cr.dl < want:
			fail("timeout", "attempt deadline earlier than start+Timeout", "target %d: start %v deadline %v Timeout %v", cr.idx, time.Duration(cr.startT), time.Duration(cr.dl), time.Duration(timeout))
		}
		if o := p.outcome(cr.idx); o.Kind == "hang" {
			lo := min(cr.startT+timeout, c, tr)
			if cr.endT < lo {
				fail("timeout", "attempt context ended before Timeout, cancellation or decision", "target %d: start %v, context ended %v", cr.idx, time.Duration(cr.startT), time.Duration(cr.endT))
			}
			if cr.endT > cr.startT+timeout {
				fail("timeout", "attempt context still live after start+Timeout", "target %d: start %v, context ended %v", cr.idx, time.Duration(cr.startT), time.Duration(cr.endT))
			}
			if cr.endT == cr.startT+timeout && cr.endT <= tr {
				res.Probe("attempt_timeout")
				res.Fault("attempt_timeout")
			}
		}
	}

	// ---- result ------------------------------------------------------------
	sStar := never
	for _, cr := range calls {
		if cr.ok && cr.endT < sStar {
			sStar = cr.endT
		}
	}
	switch {
	case rl.retConn != nil && rl.retErr != nil:
		fail("result", "Dial returned both a connection and an error", "err=%s", errText(rl.retErr))
	case rl.retConn == nil && rl.retErr == nil:
		fail("result", "Dial returned neither a connection nor an error", "")
	}
	if sStar < tr && sStar <= c {
		fail("first-success", "Dial returned later than the first success", "first success at %v, caller context ends %v, Dial returned at %v", time.Duration(sStar), durOrNever(c), time.Duration(tr))
	}
	if c < tr && c < sStar {
		fail("cancel", "Dial returned later than the end of the caller's context", "context ended at %v, Dial returned at %v", time.Duration(c), time.Duration(tr))
	}
	if w := rl.retConn; w != nil {
		var wc *callRec
		for _, cr := range calls {
			if cr.conn == w {
				wc = cr
			}
		}
		switch {
		case wc == nil:
			fail("result", "returned connection was not produced by DialFunc", "")
		default:
			if wc.endT != sStar {
				fail("first-success", "returned connection is not the earliest success", "returned target %d (success at %v), earliest success at %v", wc.idx, time.Duration(wc.endT), time.Duration(sStar))
			}
			if wc.endT != tr {
				fail("first-success", "Dial did not return at the instant of the winning success", "success at %v, returned at %v", time.Duration(wc.endT), time.Duration(tr))
			}
			if tr > c {
				fail("cancel", "Dial returned a connection after the caller's context ended", "context ended at %v, returned at %v", time.Duration(c), time.Duration(tr))
			}
			if _, n := w.closedAt(); n > 0 {
				fail("winner-closed", "returned connection was closed by Dial", "target %d", wc.idx)
			}
			if wc.idx > 0 {
				res.Probe("win_after_earlier_targets")
			}
		}
	} else if rl.retErr != nil {
		if tr >= c {
			// return because the caller's context ended (any error accepted)
			inflight := 0
			for _, cr := range calls {
				if cr.startT <= tr && cr.endT > tr {
					inflight++
					if k := p.outcome(cr.idx).Kind; strings.HasSuffix(k, "x") || k == "hangxok" {
						res.Probe("cancel_while_attempt_ignores_ctx")
					}
				}
			}
			if inflight > 0 || tr == c {
				res.Probe("cancel_during_dial")
			}
			if p.CancelKind == "deadline" {
				res.Fault("caller_deadline")
			} else {
				res.Fault("caller_cancel")
			}
		} else {
			// "none succeeds": every target attempted, every attempt failed
			if sStar <= tr {
				fail("first-success", "Dial returned an error although an attempt had succeeded", "success at %v, error returned at %v: %s", time.Duration(sStar), time.Duration(tr), errText(rl.retErr))
			}
			if len(started) < len(targets) {
				fail("errors", "Dial gave up before every target was attempted", "%d of %d targets attempted, returned %s at %v", len(started), len(targets), errText(rl.retErr), time.Duration(tr))
			}
			for _, cr := range calls {
				if cr.startT <= tr && cr.endT > tr {
					fail("errors", "Dial returned an error while an attempt was still in flight", "target %d", cr.idx)
				}
			}
			if len(targets) == 0 && unresolvableBefore(p, 1<<30) > 0 {
				res.Probe("only_unresolvable_addresses")
			} else if len(targets) == 0 {
				if rl.retErr.Error() != "no address" {
					fail("errors", "no target but the error is not 'no address'", "%s", errText(rl.retErr))
				}
				res.Probe("no_address")
			} else {
				for _, cr := range calls {
					if cr.endT <= tr && cr.err != nil && !errors.Is(rl.retErr, cr.err) {
						fail("errors", "returned error does not wrap an attempt's error", "target %d failed with %q; Dial returned %q", cr.idx, errText(cr.err), errText(rl.retErr))
					}
				}
				res.Probe("all_failed_joined")
			}
		}
	}

	// ---- connections -------------------------------------------------------
	for _, cn := range conns {
		if cn == rl.retConn {
			continue
		}
		_, n := cn.closedAt()
		if n == 0 {
			fail("loser-open", "established connection neither returned nor closed", "target %d established at %v", cn.attempt, time.Duration(callOf(calls, cn).endT))
			continue
		}
		res.Probe("loser_closed")
		if cr := callOf(calls, cn); cr != nil && cr.endT > tr {
			res.Probe("late_success_closed")
		}
	}

	// ---- attempts begun after the decision ------------------------------------
	for _, cr := range calls {
		if cr.startSeq > rl.retSeq {
			res.Probe("start_after_decision")
			if cr.entryErr == nil {
				fail("post-decision", "attempt begun after Dial returned saw a live context", "target %d entered DialFunc at %v (sequenced after the return at %v) with ctx.Err()==nil", cr.idx, time.Duration(cr.startT), time.Duration(tr))
			}
		}
		if cr.startT <= tr && cr.endT > tr {
			if k := p.outcome(cr.idx).Kind; k == "hangx" || k == "hangxok" {
				res.Probe("hang_ignoring_ctx")
			}
		}
	}

	// ---- faults that fired ------------------------------------------------------
	for _, cr := range calls {
		if cr.idx < 0 {
			continue
		}
		switch k := p.outcome(cr.idx).Kind; k {
		case "fail", "failx":
			if _, ok := cr.err.(*failErr); ok {
				res.Fault("attempt_fail")
			}
		case "hang":
			res.Fault("attempt_hang")
		case "hangx", "hangxok":
			res.Fault("attempt_hang_ignoring_ctx")
		case "okx":
			if cr.endT > min(tr, cr.startT+timeout) {
				res.Fault("attempt_success_after_ctx_done")
			}
		}
	}

	// ---- coinciding instants -------------------------------------------------------
	seen := map[int64]int{}
	for _, cr := range calls {
		if cr.endT > tr || cr.idx < 0 {
			continue
		}
		// only completions that the script (or the attempt's own timeout)
		// caused are schedule events; those caused by the decision are not
		_, scripted := cr.err.(*failErr)
		_, released := cr.err.(*releasedErr)
		if cr.ok || scripted || released || (p.outcome(cr.idx).Kind == "hang" && cr.endT == cr.startT+timeout) {
			seen[cr.endT]++
		}
	}
	if c != never && c <= tr {
		seen[c]++
	}
	for k := 1; k < len(started); k++ {
		if at := started[k-1].startT + delay; at <= tr && seen[at] > 0 {
			seen[at]++
		}
	}
	for _, n := range seen {
		if n > 1 {
			j.tie = true
		}
	}
	if j.tie {
		res.Probe("tie_event")
	}

	// ---- canonical log / signature ------------------------------------------------------
	type ev struct {
		t    int64
		rank int
		idx  int
		s    string
		k    string
	}
	var evs []ev
	for _, cr := range calls {
		s := fmt.Sprintf("start %d dl=%d", cr.idx, cr.dl)
		if cr.startT != tr {
			s += fmt.Sprintf(" ctxerr=%v", cr.entryErr != nil)
		}
		evs = append(evs, ev{cr.startT, 1, cr.idx, s, fmt.Sprintf("s%d", cr.idx)})
		cls := "ok"
		if !cr.ok {
			cls = "err:" + errText(cr.err)
		}
		evs = append(evs, ev{cr.endT, 0, cr.idx, fmt.Sprintf("end %d %s", cr.idx, cls), fmt.Sprintf("e%d%s", cr.idx, cls[:2])})
	}
	for _, cn := range conns {
		if at, n := cn.closedAt(); n > 0 {
			evs = append(evs, ev{at, 3, cn.attempt, fmt.Sprintf("close %d x%d", cn.attempt, n), fmt.Sprintf("c%d", cn.attempt)})
		}
	}
	w := -1
	if rl.retConn != nil {
		w = rl.retConn.attempt
	}
	evs = append(evs, ev{tr, 2, 0, fmt.Sprintf("return conn=%d err=%s", w, errText(rl.retErr)), fmt.Sprintf("r%d", w)})
	sort.SliceStable(evs, func(a, b int) bool {
		if evs[a].t != evs[b].t {
			return evs[a].t < evs[b].t
		}
		if evs[a].rank != evs[b].rank {
			return evs[a].rank < evs[b].rank
		}
		return evs[a].idx < evs[b].idx
	})
	parts := []string{fmt.Sprintf("n%d m%d c%s", len(targets), maxc, p.CancelKind)}
	for _, e := range evs {
		j.canon = append(j.canon, fmt.Sprintf("%d %s", e.t, e.s))
		parts = append(parts, e.k)
	}
	j.sig = core.SigOf(parts...)
	j.nontrivial = len(calls) > 0 || len(targets) == 0
	return j
}

func callOf(calls []*callRec, cn *simConn) *callRec {
	for _, cr := range calls {
		if cr.conn == cn {
			return cr
		}
	}
	return &callRec{}
}

func durOrNever(v int64) string {
	if v == never {
		return "never"
	}
	return time.Duration(v).String()
}

func dedup(xs []string) []string {
	var out []string
	for _, x := range xs {
		if len(out) == 0 || out[len(out)-1] != x {
			out = append(out, x)
		}
	}
	return out
}

func firstLine(s string) string {
	if i := strings.IndexByte(s, '\n'); i >= 0 {
		return s[:i]
	}
	return s
}
