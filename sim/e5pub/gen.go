package e5pub

import (
	"encoding/base64"
	"fmt"
	"math/rand/v2"
	"strings"

	"verifsim/core"
	"verifsim/simcf"
)

const (
	runsQuick    = 24000
	runsThorough = 2400000
)

var zoneNames = []string{"example.com", "example.org", "ex-3.net", "sub.example.com", "xn--bcher-kva.example", "a.b.c.test"}

func hexID(r *rand.Rand) string {
	return fmt.Sprintf("%016x%016x", r.Uint64(), r.Uint64())
}

// nonEchPool: well-formed service parameters other than ech (no blanks inside
// quotes, balanced quotes).
var nonEchPool = []string{
	`alpn="h2,h3"`, `alpn=h2`, `alpn="h3"`, `alpn=h3,h2`, `no-default-alpn`, `port=8443`, `port="443"`,
	`ipv4hint=192.0.2.1,192.0.2.2`, `ipv4hint="198.51.100.7"`, `ipv6hint="2001:db8::1"`, `ipv6hint=2001:db8::1,2001:db8::2`,
	`mandatory=alpn,port`, `key65400=abc`, `key65401="ech=decoy"`, `key65402=ech`, `dohpath="/dns-query{?dns}"`, `key65403="a\"b"`,
	// quoted values with white space inside: a run of spaces, a tab
	`key65404="build  7"`, "key65405=\"a\tb\"", `key65406="x   y z"`,
}

func randB64(r *rand.Rand) string {
	return base64.StdEncoding.EncodeToString(core.Bytes(r, 1+r.IntN(80)))
}

func echToken(r *rand.Rand, b64 string) string {
	if r.IntN(3) == 0 {
		return "ech=" + b64
	}
	return `ech="` + b64 + `"`
}

// genValue draws a SvcParams string. configs are the config lists the plan
// will publish (so that some records already hold one of them).
func genValue(r *rand.Rand, configs [][]byte) string {
	if r.IntN(16) == 0 {
		return ""
	}
	n := r.IntN(5)
	perm := r.Perm(len(nonEchPool))
	var toks []string
	seenKey := map[string]bool{}
	for _, i := range perm {
		if len(toks) >= n {
			break
		}
		k, _, _ := strings.Cut(nonEchPool[i], "=")
		if seenKey[k] {
			continue
		}
		seenKey[k] = true
		toks = append(toks, nonEchPool[i])
	}
	pickEch := func() string {
		switch r.IntN(8) {
		case 0, 1, 2:
			return echToken(r, base64.StdEncoding.EncodeToString(configs[r.IntN(len(configs))]))
		case 3:
			return `ech=""`
		case 4:
			// a near miss of a config that may be published: other unused low
			// bits in the last group, or junk behind valid base64 (a lenient
			// decoder yields the same octets for all of them)
			b := base64.StdEncoding.EncodeToString(configs[r.IntN(len(configs))])
			switch {
			case strings.HasSuffix(b, "==") && r.IntN(2) == 0:
				i := len(b) - 3
				b = b[:i] + string("ABCDEFGHIJKLMNOPQRSTUVWXYZabcdefghijklmnopqrstuvwxyz0123456789+/"[(strings.IndexByte("ABCDEFGHIJKLMNOPQRSTUVWXYZabcdefghijklmnopqrstuvwxyz0123456789+/", b[i])&^15)|(1+r.IntN(15))]) + "=="
			case strings.HasSuffix(b, "=") && !strings.HasSuffix(b, "==") && r.IntN(2) == 0:
				i := len(b) - 2
				b = b[:i] + string("ABCDEFGHIJKLMNOPQRSTUVWXYZabcdefghijklmnopqrstuvwxyz0123456789+/"[(strings.IndexByte("ABCDEFGHIJKLMNOPQRSTUVWXYZabcdefghijklmnopqrstuvwxyz0123456789+/", b[i])&^3)|(1+r.IntN(3))]) + "="
			default:
				b += []string{"$$", "%", "=", "A"}[r.IntN(4)]
			}
			return "ech=" + b
		default:
			return echToken(r, randB64(r))
		}
	}
	insert := func(tok string) {
		var pos int
		switch r.IntN(3) {
		case 0:
			pos = 0
		case 1:
			pos = len(toks)
		default:
			pos = r.IntN(len(toks) + 1)
		}
		toks = append(toks[:pos], append([]string{tok}, toks[pos:]...)...)
	}
	switch x := r.IntN(20); {
	case x < 7: // no ech
	case x < 18:
		insert(pickEch())
	default: // duplicated ech
		cur := echToken(r, base64.StdEncoding.EncodeToString(configs[r.IntN(len(configs))]))
		switch r.IntN(4) {
		case 0:
			insert(pickEch())
			insert(pickEch())
		case 1: // current one first, a stale one after it
			toks = append([]string{cur}, toks...)
			toks = append(toks, echToken(r, randB64(r)))
		case 2: // stale one first, current one last
			toks = append([]string{echToken(r, randB64(r))}, toks...)
			toks = append(toks, cur)
		default:
			toks = append([]string{cur}, toks...)
			toks = append(toks, cur)
		}
	}
	sep := " "
	v := strings.Join(toks, sep)
	switch r.IntN(40) {
	case 0:
		v = strings.Replace(v, " ", "  ", 1)
	case 1:
		v = " " + v
	case 2:
		v = v + " "
	}
	return v
}

func genZone(r *rand.Rand, name string, configs [][]byte, small bool) ZoneSpec {
	z := ZoneSpec{ID: hexID(r), Name: name}
	var n int
	switch x := r.IntN(20); {
	case x == 0:
		n = 0
	case x < 5:
		n = 1 + r.IntN(5)
	case x < 8:
		n = 6 + r.IntN(14)
	case x == 8:
		n = 20
	case x == 9:
		n = 21
	case x < 13:
		n = 22 + r.IntN(18)
	case x == 13:
		n = 40
	case x == 14:
		n = 41
	case x < 18:
		n = 42 + r.IntN(18)
	case x == 18:
		n = 60
	default:
		n = 61 + r.IntN(10)
	}
	if !small && r.IntN(40) == 0 {
		// a big zone: more than ten listing pages
		n = []int{200, 201, 205, 260, 450}[r.IntN(5)]
	}
	if small && n > 45 {
		n = 21 + r.IntN(24)
	}
	labels := []string{"", "www.", "*.", "api.", "_8443._https.api.", "cdn.", "mail.", "a.b."}
	used := map[string]bool{}
	for i := 0; i < n; i++ {
		var nm string
		if i < len(labels) && r.IntN(2) == 0 {
			nm = labels[i] + name
		} else {
			nm = fmt.Sprintf("h%d.%s", i, name)
		}
		if used[nm] {
			nm = fmt.Sprintf("h%d-%d.%s", i, i, name)
		}
		used[nm] = true
		rec := RecSpec{ID: hexID(r), Name: nm, Type: "HTTPS", TTL: []int{1, 60, 300, 3600}[r.IntN(4)], Priority: 1 + r.IntN(3), Target: ".", Value: genValue(r, configs)}
		if r.IntN(12) == 0 {
			// SvcPriority is an unsigned 16-bit number
			rec.Priority = []int{255, 256, 32767, 32768, 40000, 65535}[r.IntN(6)]
		}
		if r.IntN(6) == 0 {
			rec.Target = "svc." + name
		}
		if r.IntN(5) == 0 {
			rec.Comment = fmt.Sprintf("managed by team %d", r.IntN(9))
		}
		z.Records = append(z.Records, rec)
		// other record types interleaved (filtered out by type=HTTPS)
		if r.IntN(7) == 0 {
			typ := []string{"A", "AAAA", "TXT", "SVCB"}[r.IntN(4)]
			o := RecSpec{ID: hexID(r), Name: nm, Type: typ, TTL: 300}
			switch typ {
			case "A":
				o.Content = "192.0.2.10"
			case "AAAA":
				o.Content = "2001:db8::10"
			case "TXT":
				o.Content = `"v=spf1 -all"`
			default:
				o.Priority, o.Target, o.Value = 1, ".", `alpn="h2"`
			}
			z.Records = append(z.Records, o)
		}
	}
	if !small && n >= 20 && r.IntN(25) == 0 {
		// a zone whose records hold long config lists (several configs with
		// hybrid post-quantum keys): a listing page of some 70-90 KiB
		for i := range z.Records {
			if z.Records[i].Type == "HTTPS" {
				z.Records[i].Value = `alpn="h2,h3" ` + echToken(r, base64.StdEncoding.EncodeToString(core.Bytes(r, 2500+r.IntN(700))))
			}
		}
	}
	if r.IntN(6) == 0 { // a name that only has non-HTTPS records
		z.Records = append(z.Records, RecSpec{ID: hexID(r), Name: "onlya." + name, Type: "A", TTL: 300, Content: "192.0.2.99"})
	}
	return z
}

func httpsRecords(z *ZoneSpec) []int {
	var idx []int
	for i := range z.Records {
		if z.Records[i].Type == "HTTPS" {
			idx = append(idx, i)
		}
	}
	return idx
}

func genTargets(r *rand.Rand, zones []ZoneSpec, maxN int) []TargetSpec {
	var n int
	switch x := r.IntN(20); {
	case x == 0:
		n = 0
	case x < 8:
		n = 1 + r.IntN(2)
	case x < 18:
		n = 3 + r.IntN(5)
	default:
		n = 8 + r.IntN(18)
	}
	n = min(n, maxN)
	var ts []TargetSpec
	for len(ts) < n {
		z := &zones[r.IntN(len(zones))]
		hs := httpsRecords(z)
		switch x := r.IntN(100); {
		case x < 68 && len(hs) > 0:
			var i int
			if r.IntN(3) == 0 { // bias towards page boundaries
				i = core.Pick(r, []int{0, 19, 20, 21, 39, 40, 41, 59, 60, len(hs) - 1})
				if i >= len(hs) {
					i = len(hs) - 1
				}
			} else {
				i = r.IntN(len(hs))
			}
			ts = append(ts, TargetSpec{z.Name, z.Records[hs[i]].Name})
		case x < 78:
			ts = append(ts, TargetSpec{z.Name, fmt.Sprintf("missing%d.%s", r.IntN(4), z.Name)})
		case x < 85:
			ts = append(ts, TargetSpec{fmt.Sprintf("unknown%d.example", r.IntN(2)), "www.unknown.example"})
		case x < 88 && len(zones) > 1 && len(hs) > 0: // existing record, wrong zone
			o := &zones[r.IntN(len(zones))]
			if o.Name != z.Name {
				ts = append(ts, TargetSpec{o.Name, z.Records[hs[r.IntN(len(hs))]].Name})
			}
		case x < 90:
			ts = append(ts, TargetSpec{z.Name, "onlya." + z.Name})
		default:
			if len(ts) > 0 { // duplicate of an earlier target
				ts = append(ts, ts[r.IntN(len(ts))])
			}
		}
	}
	return ts
}

func genFault(r *rand.Rand, epoch, est int) simcf.Fault {
	f := simcf.Fault{Epoch: epoch, At: r.IntN(est + 1), Burst: 1}
	retryable := false
	switch x := r.IntN(20); {
	case x < 6:
		f.Kind, f.Status = simcf.KindStatus, core.Pick(r, []int{500, 502, 503, 504, 520})
		retryable = true
		if f.Status == 503 && r.IntN(2) == 0 {
			f.RetryAfter = 1 + r.IntN(40)
		}
	case x < 9:
		f.Kind, f.Status = simcf.KindStatus, 429
		retryable = true
		if r.IntN(3) != 0 {
			f.RetryAfter = 1 + r.IntN(40)
		}
	case x < 12:
		f.Kind, f.Status = simcf.KindStatus, core.Pick(r, []int{403, 401, 400, 404, 501})
	case x < 15:
		f.Kind = simcf.KindSuccessFalse
		f.NErr = 1 + r.IntN(2)
		if r.IntN(8) == 0 {
			f.NErr = 0
		}
	case x < 17:
		f.Kind, f.Variant = simcf.KindBadJSON, r.IntN(6)
	default:
		f.Kind = simcf.KindTransport
		retryable = true
	}
	if retryable {
		f.Burst = core.Pick(r, []int{1, 1, 2, 3, 4, 4, 5, 5, 6, 9})
	} else if r.IntN(4) == 0 {
		f.Burst = 2
	}
	f.Apply = r.IntN(3) == 0
	return f
}

// estAttempts is a rough upper estimate of the requests one publish makes
// (used only to aim fault indices; indices beyond the real count never fire).
func estAttempts(zones []ZoneSpec, p *PubSpec) int {
	seen := map[string]bool{}
	n := 0
	for _, t := range p.Targets {
		if !seen[t.Zone] {
			seen[t.Zone] = true
			n += 2
			for i := range zones {
				if zones[i].Name == t.Zone {
					n += min(len(httpsRecords(&zones[i]))/20, 4) // further listing pages
				}
			}
		}
		n++
	}
	return n
}

func genPlan(seed uint64, idx int) *Plan {
	r := core.NewRand(seed, "plan")
	p := &Plan{Token: "tok-" + hexID(r)[:8]}
	switch x := r.IntN(20); {
	case x < 9:
		p.Mode = "clean"
	case x < 18:
		p.Mode = "faulty"
	default:
		p.Mode = "enum"
	}
	small := p.Mode == "enum"

	// config lists
	nc := 1 + r.IntN(3)
	var configs [][]byte
	sameLen := 0
	if r.IntN(3) == 0 {
		// a key rotation: the lists differ in their octets, not in their length
		sameLen = 1 + r.IntN(90)
	}
	for i := 0; i < nc; i++ {
		n := 1 + r.IntN(90)
		if sameLen > 0 {
			n = sameLen
		}
		configs = append(configs, core.Bytes(r, n))
	}
	if r.IntN(10) == 0 {
		// withdrawing ECH: an empty config list is published like any other
		// (the record then holds ech="")
		configs[r.IntN(nc)] = []byte{}
	}
	p.ReuseBuf = r.IntN(2) == 0

	// zones
	nz := []int{1, 1, 1, 2, 2, 3}[r.IntN(6)]
	perm := r.Perm(len(zoneNames))
	for i := 0; i < nz; i++ {
		p.Zones = append(p.Zones, genZone(r, zoneNames[perm[i]], configs, small))
	}

	// publishes
	np := []int{1, 1, 2, 2, 3, 4}[r.IntN(6)]
	maxT := 26
	if small {
		np = min(np, 2)
		maxT = 6
	}
	for i := 0; i < np; i++ {
		var pub PubSpec
		if i > 0 && r.IntN(5) < 3 {
			pub.Targets = append([]TargetSpec(nil), p.Pubs[i-1].Targets...)
			if r.IntN(3) == 0 {
				r.Shuffle(len(pub.Targets), func(a, b int) { pub.Targets[a], pub.Targets[b] = pub.Targets[b], pub.Targets[a] })
			}
		} else {
			pub.Targets = genTargets(r, p.Zones, maxT)
		}
		if i > 0 && r.IntN(2) == 0 {
			pub.Config = append([]byte(nil), p.Pubs[i-1].Config...)
		} else {
			pub.Config = append([]byte(nil), configs[r.IntN(len(configs))]...)
		}
		pub.Fresh = r.IntN(5) == 0
		if i > 0 && r.IntN(4) == 0 { // somebody else edits the store between publishes
			for k := 0; k < 1+r.IntN(2); k++ {
				z := &p.Zones[r.IntN(len(p.Zones))]
				hs := httpsRecords(z)
				if len(hs) == 0 {
					continue
				}
				rec := &z.Records[hs[r.IntN(len(hs))]]
				if len(p.Pubs[i-1].Targets) > 0 && r.IntN(2) == 0 { // prefer a record that was just published
					t := p.Pubs[i-1].Targets[r.IntN(len(p.Pubs[i-1].Targets))]
					for zi := range p.Zones {
						for ri := range p.Zones[zi].Records {
							if q := &p.Zones[zi].Records[ri]; p.Zones[zi].Name == t.Zone && q.Name == t.Name && q.Type == "HTTPS" {
								rec = q
							}
						}
					}
				}
				if r.IntN(4) == 0 {
					pub.Edits = append(pub.Edits, EditSpec{RecID: rec.ID, Op: "del"})
				} else {
					pub.Edits = append(pub.Edits, EditSpec{RecID: rec.ID, Op: "set", Value: genValue(r, configs)})
				}
			}
		}
		p.Pubs = append(p.Pubs, pub)
	}

	if r.IntN(3) != 0 {
		n := 1 + r.IntN(4)
		for i := 0; i < n; i++ {
			p.LatencyMs = append(p.LatencyMs, []int{0, 1, 5, 20, 150, 900, 2500}[r.IntN(7)])
		}
	}

	if p.Mode == "clean" && idx%5 == 0 {
		p.Pubs[len(p.Pubs)-1].CancelAt = []int{-1, 1, 2, 3, 4, 6, 9}[(idx/5)%7]
	}
	switch p.Mode {
	case "faulty":
		nf := []int{1, 1, 1, 2, 2, 3}[r.IntN(6)]
		for i := 0; i < nf; i++ {
			e := r.IntN(len(p.Pubs))
			p.Faults = append(p.Faults, genFault(r, e, estAttempts(p.Zones, &p.Pubs[e])))
		}
		if r.IntN(5) < 3 { // a final fault-free publish of the same thing must converge
			last := p.Pubs[len(p.Pubs)-1]
			p.Pubs = append(p.Pubs, PubSpec{Targets: append([]TargetSpec(nil), last.Targets...), Config: append([]byte(nil), last.Config...), Fresh: r.IntN(4) == 0})
		}
	case "enum":
		e := r.IntN(len(p.Pubs))
		f := genFault(r, e, 0)
		p.Enum = &EnumSpec{Pub: e, Fault: f}
		if r.IntN(2) == 0 { // converge afterwards
			last := p.Pubs[len(p.Pubs)-1]
			p.Pubs = append(p.Pubs, PubSpec{Targets: append([]TargetSpec(nil), last.Targets...), Config: append([]byte(nil), last.Config...)})
		}
	}
	return p
}
