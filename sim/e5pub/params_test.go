package e5pub

import "testing"

func TestParseParams(t *testing.T) {
	ps, err := parseParams(`  alpn="h2,h3" no-default-alpn ech=AQI=  key65401="ech=decoy" key65403="a\"b" ech="" `)
	if err != nil {
		t.Fatal(err)
	}
	want := []Param{{Key: "alpn", Val: "h2,h3", HasVal: true}, {Key: "no-default-alpn"}, {Key: "ech", Val: "AQI=", HasVal: true}, {Key: "key65401", Val: "ech=decoy", HasVal: true}, {Key: "key65403", Val: `a"b`, HasVal: true}, {Key: "ech", HasVal: true}}
	if !sameParams(ps, want) {
		t.Errorf("got %+v", ps)
	}
	if !isCurrent(`alpn=h2 ech="AQI="`, "AQI=") || !isCurrent(`ech=AQI=`, "AQI=") || isCurrent(`ech=AQI= ech="AQI="`, "AQI=") || isCurrent(`alpn=h2`, "AQI=") {
		t.Error("isCurrent")
	}
	if _, err := parseParams(`alpn="h2`); err == nil {
		t.Error("unterminated quote accepted")
	}
}

// Every generated value must be inside the claimed space: parseable and with balanced quotes.
func TestGeneratedValuesWellFormed(t *testing.T) {
	for idx := 0; idx < 300; idx++ {
		p := Engine{}.Generate("C20", "quick", 7, idx)
		for _, z := range p.Zones {
			for _, r := range z.Records {
				if _, err := parseParams(r.Value); err != nil {
					t.Fatalf("plan %d: %q: %v", idx, r.Value, err)
				}
			}
		}
	}
}
