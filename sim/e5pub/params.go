package e5pub

import (
	"errors"
	"strings"
)

// Param is one service parameter of an HTTPS record value in presentation
// format (RFC 9460 section 2.1): key, or key=value, or key="value".
type Param struct {
	Key    string
	Val    string // unquoted, unescaped
	HasVal bool
	Raw    string
}

// parseParams is the oracle's own SvcParams tokenizer. Parameters are
// separated by whitespace; a value is either a run of non-blank characters
// or a double-quoted string (backslash escapes honoured). It is deliberately
// independent of strings.Split(" ") as used by the code under test.
func parseParams(s string) ([]Param, error) {
	var out []Param
	i := 0
	for {
		for i < len(s) && (s[i] == ' ' || s[i] == '\t') {
			i++
		}
		if i >= len(s) {
			return out, nil
		}
		start := i
		for i < len(s) && s[i] != '=' && s[i] != ' ' && s[i] != '\t' {
			i++
		}
		p := Param{Key: s[start:i]}
		if p.Key == "" {
			return out, errors.New("parameter without a key")
		}
		if i < len(s) && s[i] == '=' {
			p.HasVal = true
			i++
			var v strings.Builder
			if i < len(s) && s[i] == '"' {
				i++
				closed := false
				for i < len(s) {
					c := s[i]
					if c == '\\' && i+1 < len(s) {
						v.WriteByte(s[i+1])
						i += 2
						continue
					}
					if c == '"' {
						closed = true
						i++
						break
					}
					v.WriteByte(c)
					i++
				}
				if !closed {
					return out, errors.New("unterminated quoted value")
				}
				if i < len(s) && s[i] != ' ' && s[i] != '\t' {
					return out, errors.New("characters after closing quote")
				}
			} else {
				for i < len(s) && s[i] != ' ' && s[i] != '\t' {
					c := s[i]
					if c == '"' {
						return out, errors.New("quote inside unquoted value")
					}
					if c == '\\' && i+1 < len(s) {
						v.WriteByte(s[i+1])
						i += 2
						continue
					}
					v.WriteByte(c)
					i++
				}
			}
			p.Val = v.String()
		}
		p.Raw = s[start:i]
		out = append(out, p)
	}
}

// splitEch separates the ech entries from the other parameters.
func splitEch(ps []Param) (ech, other []Param) {
	for _, p := range ps {
		if p.Key == "ech" {
			ech = append(ech, p)
		} else {
			other = append(other, p)
		}
	}
	return
}

// isCurrent: the value holds exactly one ech entry and it equals b64.
func isCurrent(value, b64 string) bool {
	ps, err := parseParams(value)
	if err != nil {
		return false
	}
	ech, _ := splitEch(ps)
	return len(ech) == 1 && ech[0].HasVal && ech[0].Val == b64
}

func sameParams(a, b []Param) bool {
	if len(a) != len(b) {
		return false
	}
	for i := range a {
		if a[i].Key != b[i].Key || a[i].Val != b[i].Val || a[i].HasVal != b[i].HasVal {
			return false
		}
	}
	return true
}
