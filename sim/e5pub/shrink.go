package e5pub

import (
	"strings"

	"verifsim/simcf"
)

// shrink proposes simpler plans (deep copies), simplest first.
func shrink(p *Plan) []*Plan {
	var out []*Plan
	add := func(f func(q *Plan) bool) {
		q := p.clone()
		if f(q) {
			out = append(out, q)
		}
	}

	// enumerated plan -> one concrete fault index
	if p.Mode == "enum" && p.Enum != nil {
		add(func(q *Plan) bool { q.Mode, q.Enum = "clean", nil; return true })
		bound := 4
		if p.Enum.Pub < len(p.Pubs) {
			bound = min(60, estAttempts(p.Zones, &p.Pubs[p.Enum.Pub])+4*len(p.Zones)+2)
		}
		for i := 0; i < bound; i++ {
			add(func(q *Plan) bool {
				f := q.Enum.Fault
				f.Epoch, f.At = q.Enum.Pub, i
				q.Mode, q.Enum, q.Faults = "faulty", nil, []simcf.Fault{f}
				return true
			})
		}
		return out
	}

	// faults
	if len(p.Faults) > 0 {
		add(func(q *Plan) bool { q.Faults, q.Mode = nil, "clean"; return true })
	}
	if len(p.Faults) > 1 {
		for i := range p.Faults {
			add(func(q *Plan) bool { q.Faults = append(q.Faults[:i], q.Faults[i+1:]...); return true })
		}
	}

	// publishes
	if len(p.Pubs) > 1 {
		for i := range p.Pubs {
			add(func(q *Plan) bool {
				// edits of the dropped publish move to the next one so that the store history is kept
				if i+1 < len(q.Pubs) {
					q.Pubs[i+1].Edits = append(append([]EditSpec(nil), q.Pubs[i].Edits...), q.Pubs[i+1].Edits...)
				}
				q.Pubs = append(q.Pubs[:i], q.Pubs[i+1:]...)
				var fs []simcf.Fault
				for _, f := range q.Faults {
					switch {
					case f.Epoch == i:
						continue
					case f.Epoch > i:
						f.Epoch--
					}
					fs = append(fs, f)
				}
				q.Faults = fs
				if len(fs) == 0 {
					q.Mode = "clean"
				}
				return true
			})
		}
	}
	for i := range p.Pubs {
		if len(p.Pubs[i].Edits) > 0 {
			add(func(q *Plan) bool { q.Pubs[i].Edits = nil; return true })
		}
	}

	// targets
	for i := range p.Pubs {
		n := len(p.Pubs[i].Targets)
		if n > 1 {
			for j := 0; j < n; j++ {
				add(func(q *Plan) bool { q.Pubs[i].Targets = []TargetSpec{q.Pubs[i].Targets[j]}; return true })
			}
			if n > 3 {
				add(func(q *Plan) bool { q.Pubs[i].Targets = q.Pubs[i].Targets[:n/2]; return true })
				add(func(q *Plan) bool { q.Pubs[i].Targets = q.Pubs[i].Targets[n/2:]; return true })
			}
			for j := 0; j < n; j++ {
				add(func(q *Plan) bool {
					q.Pubs[i].Targets = append(q.Pubs[i].Targets[:j], q.Pubs[i].Targets[j+1:]...)
					return true
				})
			}
		}
	}

	// zones
	if len(p.Zones) > 1 {
		for i := range p.Zones {
			add(func(q *Plan) bool { q.Zones = append(q.Zones[:i], q.Zones[i+1:]...); return true })
		}
	}

	// records
	named := map[string]bool{}
	for _, pub := range p.Pubs {
		for _, t := range pub.Targets {
			named[t.Zone+"\x00"+t.Name] = true
		}
	}
	for zi := range p.Zones {
		z := &p.Zones[zi]
		n := len(z.Records)
		if n == 0 {
			continue
		}
		filter := func(keep func(i int, r *RecSpec) bool) {
			add(func(q *Plan) bool {
				var rs []RecSpec
				for i := range q.Zones[zi].Records {
					if keep(i, &q.Zones[zi].Records[i]) {
						rs = append(rs, q.Zones[zi].Records[i])
					}
				}
				if len(rs) == len(q.Zones[zi].Records) {
					return false
				}
				q.Zones[zi].Records = rs
				return true
			})
		}
		filter(func(i int, r *RecSpec) bool { return r.Type == "HTTPS" && named[z.Name+"\x00"+r.Name] })
		filter(func(i int, r *RecSpec) bool { return r.Type == "HTTPS" })
		for _, chunk := range []int{n / 2, n / 4, n / 8} {
			if chunk < 2 {
				continue
			}
			for lo := 0; lo < n; lo += chunk {
				filter(func(i int, r *RecSpec) bool { return i < lo || i >= lo+chunk })
			}
		}
		if n <= 48 {
			for j := 0; j < n; j++ {
				filter(func(i int, r *RecSpec) bool { return i != j })
			}
		}
	}

	// simplify
	if len(p.LatencyMs) > 0 {
		add(func(q *Plan) bool { q.LatencyMs = nil; return true })
	}
	for i := range p.Faults {
		if p.Faults[i].Apply {
			add(func(q *Plan) bool { q.Faults[i].Apply = false; return true })
		}
		if p.Faults[i].Burst > 1 {
			add(func(q *Plan) bool { q.Faults[i].Burst = 1; return true })
		}
		if p.Faults[i].Burst > 5 {
			add(func(q *Plan) bool { q.Faults[i].Burst = 5; return true })
		}
		if p.Faults[i].RetryAfter > 0 {
			add(func(q *Plan) bool { q.Faults[i].RetryAfter = 0; return true })
		}
	}
	for i := range p.Pubs {
		if p.Pubs[i].Fresh {
			add(func(q *Plan) bool { q.Pubs[i].Fresh = false; return true })
		}
		if len(p.Pubs[i].Config) > 1 {
			add(func(q *Plan) bool {
				old := string(q.Pubs[i].Config)
				for k := range q.Pubs { // keep equal configs equal
					if string(q.Pubs[k].Config) == old {
						q.Pubs[k].Config = []byte{byte(1 + i)}
					}
				}
				return true
			})
		}
	}
	recs := 0
	for zi := range p.Zones {
		recs += len(p.Zones[zi].Records)
	}
	// all records that no target names: plain values at once
	add(func(q *Plan) bool {
		changed := false
		for zi := range q.Zones {
			for ri := range q.Zones[zi].Records {
				x := &q.Zones[zi].Records[ri]
				if x.Type != "HTTPS" || named[q.Zones[zi].Name+"\x00"+x.Name] {
					continue
				}
				if x.Value != "" || x.Comment != "" || x.TTL != 1 || x.Priority != 1 || x.Target != "." {
					x.Value, x.Comment, x.TTL, x.Priority, x.Target = "", "", 1, 1, "."
					changed = true
				}
			}
		}
		return changed
	})
	for zi := range p.Zones {
		for ri := range p.Zones[zi].Records {
			r := &p.Zones[zi].Records[ri]
			if r.Type != "HTTPS" || (recs > 30 && !named[p.Zones[zi].Name+"\x00"+r.Name]) {
				continue
			}
			if r.Value != "" {
				add(func(q *Plan) bool { q.Zones[zi].Records[ri].Value = ""; return true })
				toks := strings.Fields(r.Value)
				if len(toks) > 1 {
					for ti := range toks {
						add(func(q *Plan) bool {
							t := append(append([]string(nil), toks[:ti]...), toks[ti+1:]...)
							q.Zones[zi].Records[ri].Value = strings.Join(t, " ")
							return true
						})
					}
				}
				if strings.Join(toks, " ") != r.Value {
					add(func(q *Plan) bool { q.Zones[zi].Records[ri].Value = strings.Join(toks, " "); return true })
				}
			}
			if r.Comment != "" || r.TTL != 1 || r.Priority != 1 || r.Target != "." {
				add(func(q *Plan) bool {
					x := &q.Zones[zi].Records[ri]
					x.Comment, x.TTL, x.Priority, x.Target = "", 1, 1, "."
					return true
				})
			}
		}
	}
	return out
}
