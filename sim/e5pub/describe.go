package e5pub

import "verifsim/core"

func (Engine) Describe(prop string) core.Description {
	return core.Description{
		Rule: "One plan = a simulated Cloudflare account (1-3 zones, 0-70 HTTPS records each in listing order plus interleaved records of other types; " +
			"SvcParams values drawn from a grammar: 0-4 non-ech parameters, ech absent / quoted / unquoted / empty / duplicated, first / middle / last, empty value, stray blanks), " +
			"a sequence of 1-5 PublishECH calls (0-26 targets: existing records on any listing page, missing names, unknown zones, wrong zone, non-HTTPS-only names, duplicates; " +
			"config lists changing or repeated; optional edits of the store by a third party between calls; same or fresh publisher), per-request virtual latencies, and a mode: " +
			"clean (no fault configured), faulty (1-3 faults at chosen request indices: 5xx/429 bursts shorter or longer than the retry budget, with or without Retry-After, 4xx/501, " +
			"success:false with 0-2 errors, malformed JSON in 4 variants, transport error; a PATCH may be applied before its response is lost; often followed by a fault-free publish that must converge), " +
			"or enum (the plan is executed fault-free and then once for every request index of one publish with the fault at that index). " +
			"Every execution runs in its own synctest bubble and is judged after each call against the simulated store and request log. " +
			"A run is non-trivial when at least one request reached the API and at least one target named an existing HTTPS record. " +
			"Two runs are distinct when the sequence of (request kind, listing page class, fault that fired, HTTP status, write applied) over all calls, together with the per-call vector of result codes, differs.",
		Components: map[string]string{
			"publish.CloudflarePublisher":         "real code under test (pointed at the simulated endpoint through the verif-tagged VerifSetEndpoint hook)",
			"HTTP client / retries":               "real github.com/hashicorp/go-retryablehttp (RetryMax 4, exponential back-off 1s..30s, Retry-After) and net/http.Client",
			"JSON":                                "real encoding/json on both sides",
			"Cloudflare API":                      "simulated (simcf: http.RoundTripper over in-memory zones/records; real pagination semantics: count = items on this page, total_count, total_pages; PATCH merges only the supplied fields; request log; fault injection by request index)",
			"clock":                               "virtual (testing/synctest): latencies and retry back-off cost no wall time",
			"network / TLS to api.cloudflare.com": "not simulated: the RoundTripper is called directly",
			"oracle":                              "reference record store + own SvcParams tokenizer, written from the property statement",
		},
		Assumptions: []string{
			"SvcParams values are well-formed presentation format without blanks inside quoted values (the real API stores what it validated; values with blanks inside quotes are outside the claimed space)",
			"at most one HTTPS record per (zone, name); the statement does not say which of several records of one name a target denotes",
			"config lists are non-empty byte strings (opaque to the publisher); zone and record names are lower case",
			"zones are not created or deleted during a sequence; between calls a third party may change values or delete records",
			"a target 'met a fault' when any request attempt serving it (zone lookup or listing of its zone, PATCH of its record) received an injected failure in that call; such targets may report error or not-found (or succeed after retries); all other targets are judged as in a fault-free call",
			"the position of the new ech entry inside the value is left open; other parameters are compared as (key, unquoted value) in order",
			"for the second and later occurrences of a duplicate target either updated or no-change is accepted; the extra write is what is flagged",
			"the context passed to PublishECH is never cancelled (the statement does not cover cancellation)",
		},
		Exhaustive:     "in enum plans: the template fault at every request (attempt) index of one publish",
		RequiredProbes: []string{"multi_page_zone", "target_beyond_first_page", "duplicate_target", "unknown_zone_target", "missing_record_target", "retry_backoff_used", "retry_recovered", "fault_exhausted_retries", "status_updated", "status_nochange", "status_notfound", "status_error", "ech_replaced", "ech_added", "dup_ech_record_targeted", "empty_value_targeted", "multi_zone_call", "converged_after_fault", "enumerated_publish"},
	}
}
