package e5pub

import (
	"context"
	"encoding/base64"
	"fmt"
	"net/url"
	"regexp"
	"sort"
	"strings"
	"testing"
	"time"

	"github.com/c2FmZQ/ech/publish"

	"verifsim/core"
	"verifsim/simcf"
)

const basePath = "/client/v4/zones"

// runOut is what one bubble (one execution of the publish sequence under one
// fault list) yields.
type runOut struct {
	prop       string
	viol       []core.Violation
	lines      []string
	sig        []string
	probes     map[string]int
	faults     map[string]int
	simNs      int64
	attempts   []int // RoundTrip calls per publish
	nonTrivial bool
	harness    string
}

func (o *runOut) fail(class, site, format string, a ...any) {
	key := class + "/" + site
	for _, v := range o.viol {
		if v.Class+"/"+v.Site == key {
			return
		}
	}
	o.viol = append(o.viol, core.Violation{Property: o.prop, Class: class, Site: site, Detail: fmt.Sprintf(format, a...)})
}

func (o *runOut) probe(name string) { o.probes[name]++ }

func (o *runOut) logf(format string, a ...any) { o.lines = append(o.lines, fmt.Sprintf(format, a...)) }

func buildZones(zs []ZoneSpec) []*simcf.Zone {
	var out []*simcf.Zone
	for _, z := range zs {
		sz := &simcf.Zone{ID: z.ID, Name: z.Name}
		for _, r := range z.Records {
			rec := &simcf.Record{ID: r.ID, Name: r.Name, Type: r.Type, TTL: r.TTL, Proxied: r.Proxied, Comment: r.Comment, Content: r.Content}
			if r.Type == "HTTPS" || r.Type == "SVCB" {
				rec.Data = &simcf.HTTPSData{Priority: r.Priority, Target: r.Target, Value: r.Value}
			}
			sz.Records = append(sz.Records, rec)
		}
		out = append(out, sz)
	}
	return out
}

func applyEdits(zones []*simcf.Zone, edits []EditSpec) {
	for _, e := range edits {
		for _, z := range zones {
			for i, r := range z.Records {
				if r.ID != e.RecID {
					continue
				}
				switch e.Op {
				case "del":
					z.Records = append(z.Records[:i:i], z.Records[i+1:]...)
				case "set":
					if r.Data != nil {
						r.Data.Value = e.Value
					}
				}
				break
			}
		}
	}
}

var digits = regexp.MustCompile(`\d+`)

func statusName(c publish.StatusCode) string {
	switch c {
	case publish.StatusUnknown:
		return "unknown"
	case publish.StatusUpdated:
		return "updated"
	case publish.StatusNotFound:
		return "not-found"
	case publish.StatusNoChange:
		return "no-change"
	case publish.StatusError:
		return "error"
	}
	return "invalid"
}

func reqKey(e *simcf.Entry) string { return e.Method + " " + e.Path + "?" + e.Query }

func retryableFault(e *simcf.Entry) bool {
	switch e.FaultK {
	case simcf.KindTransport:
		return true
	case simcf.KindStatus:
		return e.Status == 429 || (e.Status >= 500 && e.Status != 501)
	}
	return false
}

// runOnce executes the publish sequence of the plan under the given faults in
// a fresh bubble and judges it.
func runOnce(t *testing.T, prop string, p *Plan, faults []simcf.Fault) *runOut {
	o := &runOut{prop: prop, probes: map[string]int{}, faults: map[string]int{}}
	msg := core.Bubble(t, func(t *testing.T) {
		start := time.Now()
		zones := buildZones(p.Zones)
		srv := simcf.New(basePath, p.Token, zones)
		srv.LatencyMs = p.LatencyMs
		srv.SetFaults(faults)
		base := url.URL{Scheme: "https", Host: "api.cloudflare.test", Path: basePath}
		var pubr *publish.CloudflarePublisher
		// hurt: targets that an earlier publish failed to bring up to date because of a fault
		hurt := map[TargetSpec]bool{}
		callerBuf := make([]byte, 0, 256)
		for k := range p.Pubs {
			pub := &p.Pubs[k]
			applyEdits(zones, pub.Edits)
			if pubr == nil || pub.Fresh {
				pubr = publish.NewCloudflarePublisher(p.Token)
				pubr.VerifSetEndpoint(base, srv)
			}
			srv.SetEpoch(k)
			pre := srv.Snapshot()
			targets := make([]publish.Target, len(pub.Targets))
			for i, tg := range pub.Targets {
				targets[i] = publish.Target{Zone: tg.Zone, Name: tg.Name}
			}
			n0 := len(srv.Log())
			var results []publish.TargetResult
			ctx, cancel := context.WithCancel(context.Background())
			if pub.CancelAt != 0 {
				if pub.CancelAt < 0 {
					cancel()
				}
				seen := 0
				srv.OnRequest = func() {
					if seen++; seen == pub.CancelAt {
						cancel()
					}
				}
			}
			given := pub.Config
			if p.ReuseBuf && len(pub.Config) <= cap(callerBuf) {
				callerBuf = append(callerBuf[:0], pub.Config...)
				given = callerBuf
				o.probe("config_in_reused_buffer")
			}
			panicked, pmsg, psite := core.Guard(func() {
				results = pubr.PublishECH(ctx, targets, given)
			})
			cancel()
			srv.OnRequest = nil
			entries := srv.Log()[n0:]
			o.attempts = append(o.attempts, len(entries))
			post := srv.Snapshot()
			o.logf("publish %d fresh=%t config=%s targets=%v", k, pub.Fresh, base64.StdEncoding.EncodeToString(pub.Config), pub.Targets)
			o.sig = append(o.sig, "P")
			for _, e := range entries {
				o.lines = append(o.lines, e.Line())
				pc := "-"
				if e.Op == "list" {
					pc = fmt.Sprint(min(e.Page, 4))
				}
				o.sig = append(o.sig, fmt.Sprintf("%s/%s/%s/%d/%t", e.Op, pc, e.Fault, e.Status, e.Applied))
			}
			if panicked {
				o.logf("panic %s %s", psite, pmsg)
				o.fail("panic", psite+": "+digits.ReplaceAllString(pmsg, "N"), "publish #%d: PublishECH panicked: %s", k, pmsg)
				continue
			}
			if pub.CancelAt != 0 {
				// the caller gave up in the middle: what is left of the statement
				// is one result per requested record, none of them a success that
				// did not happen
				o.probe("caller_context_ended_mid_call")
				o.sig = append(o.sig, fmt.Sprintf("cancel@%d/%d", pub.CancelAt, len(entries)))
				if len(results) != len(pub.Targets) {
					o.fail("result-count", "number of results differs from the number of targets", "publish #%d (context ended at request %d): %d targets, %d results", k, pub.CancelAt, len(pub.Targets), len(results))
				}
				for i, r := range results {
					if statusName(r.Code) == "invalid" {
						o.fail("result-code", "result with an undefined status code", "publish #%d result %d", k, i)
					}
				}
				continue
			}
			judge(o, k, pub, zones, pre, post, entries, results, hurt)
		}
		o.lines = append(o.lines, srv.Dump()...)
		for name, n := range srv.Fired() {
			o.faults[name] += n
		}
		o.simNs = int64(time.Since(start))
	})
	if msg != "" {
		o.harness = msg
	}
	return o
}

// judge is the oracle for one PublishECH call. It is written from the
// property statement; simcf's store (pre/post) and request log are the ground
// truth.
func judge(o *runOut, k int, pub *PubSpec, zones []*simcf.Zone, pre, post map[string]*simcf.Record, entries []*simcf.Entry, results []publish.TargetResult, hurt map[TargetSpec]bool) {
	b64 := base64.StdEncoding.EncodeToString(pub.Config)

	// ---- what the targets name ----
	type tinfo struct {
		zone *simcf.Zone
		rec  *simcf.Record // pre-state; nil when no HTTPS record of that name exists in that zone
		pos  int           // position among the zone's HTTPS records, in listing order
	}
	zoneByName := map[string]*simcf.Zone{}
	zoneByID := map[string]*simcf.Zone{}
	httpsCount := map[string]int{}
	for _, z := range zones {
		zoneByName[z.Name] = z
		zoneByID[z.ID] = z
	}
	infos := make([]tinfo, len(pub.Targets))
	requested := map[string]int{} // record id -> how many targets name it
	for i, tg := range pub.Targets {
		z := zoneByName[tg.Zone]
		infos[i].zone = z
		if z == nil {
			continue
		}
		pos := 0
		for _, live := range z.Records {
			r := pre[live.ID]
			if r == nil || r.Type != "HTTPS" {
				continue
			}
			if r.Name == tg.Name && infos[i].rec == nil {
				infos[i].rec = r
				infos[i].pos = pos
			}
			pos++
		}
		httpsCount[z.Name] = pos
		if infos[i].rec != nil {
			requested[infos[i].rec.ID]++
		}
	}

	// ---- which requests met an injected fault ----
	perPage := 20
	affZone := map[string]bool{}
	affRec := map[string]bool{}
	allAffected := false
	anyFault := false
	for i, e := range entries {
		if e.Op == "list" && e.PerPage > 0 {
			perPage = e.PerPage
		}
		if e.Op == "list" && e.Page >= 2 {
			o.probe("listing_page_ge2_requested")
		}
		if e.Fault == "" {
			continue
		}
		anyFault = true
		switch e.Op {
		case "zones":
			affZone[e.ZoneName] = true
		case "list":
			if e.ZoneName == "" {
				allAffected = true
			}
			affZone[e.ZoneName] = true
			if e.Page >= 2 {
				o.probe("fault_on_listing_page_ge2")
			}
		case "patch":
			affRec[e.RecordID] = true
		default:
			allAffected = true
		}
		if retryableFault(e) && i+1 < len(entries) && reqKey(entries[i+1]) == reqKey(e) {
			if entries[i+1].T-e.T >= time.Second {
				o.probe("retry_backoff_used")
			}
			if entries[i+1].Fault == "" {
				o.probe("retry_recovered")
			}
		}
	}
	for i := 0; i < len(entries); {
		j := i
		for j < len(entries) && entries[j].Fault != "" && reqKey(entries[j]) == reqKey(entries[i]) {
			j++
		}
		if j-i >= 5 {
			o.probe("fault_exhausted_retries")
		}
		i = max(j, i+1)
	}
	affected := func(i int) bool {
		if allAffected || affZone[pub.Targets[i].Zone] {
			return true
		}
		return infos[i].rec != nil && affRec[infos[i].rec.ID]
	}

	// ---- every request: only GETs and PATCHes of requested records ----
	writes := map[string]int{} // record id -> applied PATCHes
	patchSent := map[string]bool{}
	for _, e := range entries {
		switch e.Op {
		case "zones", "list":
		case "patch":
			patchSent[e.RecordID] = true
			z := zoneByID[e.ZoneID]
			ok := false
			if z != nil {
				for _, r := range z.Records {
					if r.ID == e.RecordID && requested[r.ID] > 0 {
						ok = true
					}
				}
			}
			if !ok {
				o.fail("other-record-touched", "PATCH addressed to a record id that no target of the call names", "publish #%d: %s %s body=%s", k, e.Method, e.Path, e.Body)
			}
		default:
			if e.Method != "GET" && e.Method != "HEAD" {
				o.fail("other-record-touched", "write request to an endpoint other than PATCH of a record", "publish #%d: %s %s body=%s", k, e.Method, e.Path, e.Body)
			}
		}
		if !e.Applied {
			continue
		}
		writes[e.RecordID]++
		bf, af := e.Before, e.After
		// only data.value may differ
		x := af.Clone()
		if x.Data != nil && bf.Data != nil {
			x.Data.Value = bf.Data.Value
		}
		if !x.Equal(bf) {
			o.fail("stored-value", "a field other than data.value of the record was changed by the PATCH", "publish #%d: before=%s after=%s", k, bf, af)
			continue
		}
		if bf.Data == nil {
			continue
		}
		pb, errb := parseParams(bf.Data.Value)
		pa, erra := parseParams(af.Data.Value)
		if errb != nil {
			o.harness = fmt.Sprintf("generated value does not parse: %q: %v", bf.Data.Value, errb)
			continue
		}
		if erra != nil {
			o.fail("stored-value", "stored value is not a well-formed SvcParams string", "publish #%d: before=%q after=%q: %v", k, bf.Data.Value, af.Data.Value, erra)
			continue
		}
		eb, ob := splitEch(pb)
		ea, oa := splitEch(pa)
		if !sameParams(ob, oa) {
			o.fail("stored-value", "service parameters other than ech not preserved in order", "publish #%d: before=%q after=%q", k, bf.Data.Value, af.Data.Value)
		}
		if len(ea) != 1 {
			o.fail("stored-value", "stored value does not hold exactly one ech entry after the PATCH", "publish #%d: before=%q after=%q", k, bf.Data.Value, af.Data.Value)
		} else if !ea[0].HasVal || ea[0].Val != b64 {
			o.fail("stored-value", "ech entry differs from base64(configList) after the PATCH", "publish #%d: want %q, before=%q after=%q", k, b64, bf.Data.Value, af.Data.Value)
		}
		// no write when the published value is already current (a PATCH of this
		// record that met a fault may legitimately be repeated)
		if isCurrent(bf.Data.Value, b64) && !affRec[e.RecordID] && !allAffected {
			if requested[e.RecordID] > 1 && !isCurrent(pre[e.RecordID].Data.Value, b64) {
				o.fail("write-when-current", "duplicate target in one call: record PATCHed again after the first PATCH made it current", "publish #%d: record %s (%s) named by %d targets, %d-th PATCH sent although stored value %q already holds ech=%s", k, e.RecordID, bf.Name, requested[e.RecordID], writes[e.RecordID], bf.Data.Value, b64)
			} else {
				o.fail("write-when-current", "PATCH sent although the stored value already held exactly this ech", "publish #%d: record %s (%s) value %q", k, e.RecordID, bf.Name, bf.Data.Value)
			}
		}
		if len(eb) > 0 {
			o.probe("ech_replaced")
		} else {
			o.probe("ech_added")
		}
	}

	// ---- records: nothing but data.value of requested records may differ ----
	ids := make([]string, 0, len(pre))
	for id := range pre {
		ids = append(ids, id)
	}
	sort.Strings(ids)
	if len(post) != len(pre) {
		o.fail("other-record-touched", "number of records changed", "publish #%d: %d records before, %d after", k, len(pre), len(post))
	}
	for _, id := range ids {
		a, b := pre[id], post[id]
		if b == nil {
			o.fail("other-record-touched", "record disappeared", "publish #%d: %s", k, a)
			continue
		}
		if requested[id] == 0 {
			if !a.Equal(b) {
				o.fail("other-record-touched", "record not named by any target differs after the call", "publish #%d: before=%s after=%s", k, a, b)
			}
			continue
		}
		if writes[id] == 0 && !a.Equal(b) {
			o.harness = "store changed without an applied PATCH"
		}
	}

	// ---- results ----
	o.logf("results %d", len(results))
	codes := make([]string, len(results))
	for i, r := range results {
		es := ""
		if r.Error != nil {
			var s string
			panicked, pmsg, psite := core.Guard(func() { s = r.Error.Error() })
			if panicked {
				o.fail("panic", psite+": "+digits.ReplaceAllString(pmsg, "N"), "publish #%d: calling Error() on the error of result %d (status %s) panicked: %s", k, i, statusName(r.Code), pmsg)
				s = "<panic>"
			}
			es = s
		}
		var str string
		if panicked, pmsg, psite := core.Guard(func() { str = r.String(); _ = r.Err() }); panicked {
			o.fail("panic", psite+": "+digits.ReplaceAllString(pmsg, "N"), "publish #%d: TargetResult.String/Err of result %d panicked: %s", k, i, pmsg)
		}
		_ = str
		codes[i] = statusName(r.Code)
		o.logf(" result %d %s %s", i, codes[i], es)
	}
	o.sig = append(o.sig, "R:"+strings.Join(codes, ","))

	if len(results) != len(pub.Targets) {
		o.fail("result-count", "number of results differs from the number of targets", "publish #%d: %d targets, %d results", k, len(pub.Targets), len(results))
		return
	}

	occ := map[string]int{}     // record id -> occurrences so far
	updated := map[string]int{} // record id -> results reporting updated
	seenZones := map[string]bool{}
	// a failure of the API must show somewhere: existing records that come back
	// not-found because a request failed, with no result of the zone carrying an error
	silentNotFound := map[string][]int{}
	zoneReportsError := map[string]bool{}
	for i, tg := range pub.Targets {
		in := infos[i]
		r := results[i]
		aff := affected(i)
		note := ""
		if aff {
			note = " [target met an injected fault]"
		}
		seenZones[tg.Zone] = true
		if r.Code == publish.StatusError {
			zoneReportsError[tg.Zone] = true
		}
		switch r.Code {
		case publish.StatusUpdated:
			o.probe("status_updated")
		case publish.StatusNoChange:
			o.probe("status_nochange")
		case publish.StatusNotFound:
			o.probe("status_notfound")
		case publish.StatusError:
			o.probe("status_error")
		default:
			o.fail("wrong-status", "status code outside updated/not-found/no-change/error", "publish #%d: target %d %v: code %d", k, i, tg, int(r.Code))
			continue
		}
		ok := r.Code == publish.StatusUpdated || r.Code == publish.StatusNoChange

		if in.rec == nil { // unknown zone or no such HTTPS record
			if in.zone == nil {
				o.probe("unknown_zone_target")
			} else {
				o.probe("missing_record_target")
			}
			if ok {
				o.fail("wrong-status", "nonexistent record reported updated or no-change", "publish #%d: target %d %v: %s%s", k, i, tg, statusName(r.Code), note)
			} else if r.Code == publish.StatusError && !aff {
				o.fail("wrong-status", "nonexistent record reported error although no request of the target met a fault", "publish #%d: target %d %v: %v", k, i, tg, codes[i])
			}
			continue
		}

		id := in.rec.ID
		occ[id]++
		if occ[id] == 2 {
			o.probe("duplicate_target")
		}
		page := in.pos/perPage + 1
		if httpsCount[tg.Zone] > perPage {
			o.probe("multi_page_zone")
		}
		if page > 1 {
			o.probe("target_beyond_first_page")
		}
		if ps, err := parseParams(in.rec.Data.Value); err == nil {
			if e, _ := splitEch(ps); len(e) > 1 {
				o.probe("dup_ech_record_targeted")
			}
		}
		if in.rec.Data.Value == "" {
			o.probe("empty_value_targeted")
		}
		cur := isCurrent(post[id].Data.Value, b64)

		if r.Code == publish.StatusNotFound && occ[id] >= 2 && patchSent[id] {
			// the call itself addressed a PATCH to this record: it had found it
			o.fail("not-found-after-found", "a record the same call has already written to (or tried to) is reported not-found when it is named again", "publish #%d: target %d %v is record %s, named for the %d. time; results %v%s", k, i, tg, id, occ[id], codes, note)
			continue
		}
		if !ok {
			if aff {
				// the statement allows error / not-found for targets hit by a failure
				hurt[tg] = hurt[tg] || !cur
				if r.Code == publish.StatusNotFound {
					silentNotFound[tg.Zone] = append(silentNotFound[tg.Zone], i)
				}
				continue
			}
			if r.Code == publish.StatusNotFound {
				site := "fault-free listing: existing record on the first listing page reported not-found"
				if page > 1 {
					site = "fault-free listing: existing record beyond the first listing page reported not-found"
				}
				o.fail("not-found-existing", site, "publish #%d: target %d %v is HTTPS record %s at position %d of %d (page %d of per_page=%d) in zone %s; %d list request(s) seen", k, i, tg, id, in.pos, httpsCount[tg.Zone], page, perPage, tg.Zone, countLists(entries, in.zone.ID))
			} else {
				o.fail("error-without-fault", "existing record reported error although no request of the target met a fault", "publish #%d: target %d %v: %s", k, i, tg, codes[i])
			}
			continue
		}

		if r.Code == publish.StatusUpdated {
			updated[id]++
		}
		if !cur {
			if r.Code == publish.StatusNoChange {
				site := "no-change reported but the stored value does not hold exactly one ech equal to the config list"
				if ps, err := parseParams(post[id].Data.Value); err == nil {
					if e, _ := splitEch(ps); len(e) > 1 {
						site = "no-change reported for a record holding several ech entries"
					}
				}
				o.fail("nochange-not-current", site, "publish #%d: target %d %v: stored value %q, want exactly one ech=%q%s", k, i, tg, post[id].Data.Value, b64, note)
			} else {
				o.fail("stored-value", "updated reported but the stored value does not hold exactly one ech equal to the config list", "publish #%d: target %d %v: stored value %q, want exactly one ech=%q%s", k, i, tg, post[id].Data.Value, b64, note)
			}
			continue
		}
		if hurt[tg] && !anyFault {
			o.probe("converged_after_fault")
			delete(hurt, tg)
		}
	}
	for zone, idxs := range silentNotFound {
		if !zoneReportsError[zone] {
			o.fail("failure-unreported", "a request of the zone failed, existing records come back not-found and no result of the zone carries an error", "publish #%d: zone %s: targets %v are existing HTTPS records reported not-found; results %v", k, zone, idxs, codes)
		} else {
			o.probe("not_found_next_to_a_reported_error")
		}
	}
	if len(seenZones) > 1 {
		o.probe("multi_zone_call")
	}
	// no-change => no PATCH was sent for it
	affAny := map[string]bool{} // records named by at least one fault-affected target
	for i := range pub.Targets {
		if infos[i].rec != nil && affected(i) {
			affAny[infos[i].rec.ID] = true
		}
	}
	wids := make([]string, 0, len(writes))
	for id := range writes {
		wids = append(wids, id)
	}
	sort.Strings(wids)
	for _, id := range wids {
		n := writes[id]
		if affAny[id] || allAffected {
			continue
		}
		if n > updated[id] {
			o.fail("wrong-status", "record was PATCHed more often than its targets report updated", "publish #%d: record %s: %d PATCH(es) applied, %d result(s) updated, %d target(s)", k, id, n, updated[id], requested[id])
		}
	}
	if len(entries) > 0 && len(requested) > 0 {
		o.nonTrivial = true
	}
}

func countLists(entries []*simcf.Entry, zoneID string) int {
	n := 0
	for _, e := range entries {
		if e.Op == "list" && e.ZoneID == zoneID {
			n++
		}
	}
	return n
}

func execute(t *testing.T, prop string, p *Plan) *core.Result {
	res := &core.Result{}
	if len(p.Pubs) == 0 {
		res.Harness = "plan without publishes"
		return res
	}
	merge := func(o *runOut, tag string) {
		for _, v := range o.viol {
			dup := false
			for _, w := range res.Violations {
				if w.Key() == v.Key() {
					dup = true
				}
			}
			if !dup {
				if tag != "" {
					v.Detail = tag + v.Detail
				}
				res.Violations = append(res.Violations, v)
			}
		}
		for k, n := range o.probes {
			res.ProbeN(k, n)
		}
		for k, n := range o.faults {
			res.FaultN(k, n)
		}
		res.SimNs += o.simNs
		if o.harness != "" && res.Harness == "" {
			res.Harness = tag + o.harness
		}
	}
	sample := map[string]any{"mode": p.Mode, "faults": len(p.Faults)}
	var zs []int
	for i := range p.Zones {
		zs = append(zs, len(httpsRecords(&p.Zones[i])))
	}
	var ts []int
	for i := range p.Pubs {
		ts = append(ts, len(p.Pubs[i].Targets))
	}
	sample["https_records_per_zone"], sample["targets_per_publish"] = zs, ts

	if p.Mode != "enum" || p.Enum == nil {
		o := runOnce(t, prop, p, p.Faults)
		merge(o, "")
		res.Sig = core.SigOf(o.sig...)
		res.NonTrivial = o.nonTrivial
		res.LogHash = core.HashLog(o.lines)
		res.Evals = 1
		res.Sample = sample
		return res
	}

	// enumerated dimension: the template fault at every request index of one publish
	base := runOnce(t, prop, p, nil)
	merge(base, "[no fault] ")
	hashes := []string{core.HashLog(base.lines)}
	res.Sig = core.SigOf(base.sig...)
	res.NonTrivial = base.nonTrivial
	res.Evals = 1
	n := 0
	if p.Enum.Pub < len(base.attempts) {
		n = base.attempts[p.Enum.Pub]
	}
	for i := 0; i < n; i++ {
		f := p.Enum.Fault
		f.Epoch, f.At = p.Enum.Pub, i
		o := runOnce(t, prop, p, []simcf.Fault{f})
		merge(o, fmt.Sprintf("[fault %s burst %d at request %d of publish #%d] ", f.Name(), f.Burst, i, p.Enum.Pub))
		hashes = append(hashes, core.HashLog(o.lines))
		if o.nonTrivial {
			res.Sigs = append(res.Sigs, core.SigOf(o.sig...))
		}
		res.Evals++
	}
	res.Probe("enumerated_publish")
	res.LogHash = core.HashLog(hashes)
	sample["enumerated_requests"] = n
	res.Sample = sample
	return res
}
