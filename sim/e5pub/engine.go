// Package e5pub is engine E5 "pubsim": publish.CloudflarePublisher (real,
// with its real go-retryablehttp client) against simcf, a simulated
// Cloudflare API, on the virtual clock of a synctest bubble. It decides C20.
package e5pub

import (
	"encoding/json"
	"testing"

	"verifsim/core"
	"verifsim/simcf"
)

// RecSpec is one DNS record of the simulated store.
type RecSpec struct {
	ID       string `json:"id"`
	Name     string `json:"name"`
	Type     string `json:"type"`
	TTL      int    `json:"ttl"`
	Proxied  bool   `json:"proxied,omitempty"`
	Comment  string `json:"comment,omitempty"`
	Content  string `json:"content,omitempty"`  // non-HTTPS types
	Priority int    `json:"priority,omitempty"` // HTTPS
	Target   string `json:"target,omitempty"`   // HTTPS
	Value    string `json:"value"`              // HTTPS: the SvcParams string
}

type ZoneSpec struct {
	ID      string    `json:"id"`
	Name    string    `json:"name"`
	Records []RecSpec `json:"records"`
}

type TargetSpec struct {
	Zone string `json:"zone"`
	Name string `json:"name"`
}

// EditSpec is a change made to the store by someone else before a publish.
type EditSpec struct {
	RecID string `json:"rec_id"`
	Op    string `json:"op"` // "set" (value) | "del"
	Value string `json:"value,omitempty"`
}

// PubSpec is one PublishECH call.
type PubSpec struct {
	Targets []TargetSpec `json:"targets"`
	Config  []byte       `json:"config"` // the config list (opaque bytes)
	Edits   []EditSpec   `json:"edits,omitempty"`
	Fresh   bool         `json:"fresh,omitempty"` // use a new publisher (empty zone-id cache)
	// CancelAt (last publish of a plan only): the caller's context ends when the
	// CancelAt-th request of this call arrives at the API (-1: before the call).
	CancelAt int `json:"cancel_at,omitempty"`
}

// EnumSpec: execute the plan once without faults, then once per request
// (attempt) index of publish Pub with Fault installed at that index.
type EnumSpec struct {
	Pub   int         `json:"pub"`
	Fault simcf.Fault `json:"fault"`
}

// Plan is the plain-data description of one E5 run.
type Plan struct {
	// Mode: "clean" (no faults configured), "faulty" (Faults), "enum" (Enum).
	Mode      string        `json:"mode"`
	Token     string        `json:"token"`
	Zones     []ZoneSpec    `json:"zones"`
	Pubs      []PubSpec     `json:"pubs"`
	Faults    []simcf.Fault `json:"faults,omitempty"`
	LatencyMs []int         `json:"latency_ms,omitempty"`
	Enum      *EnumSpec     `json:"enum,omitempty"`
	// ReuseBuf: the caller keeps its config list in one buffer that it rewrites
	// in place before every publish.
	ReuseBuf bool `json:"reuse_buf,omitempty"`
}

func (p *Plan) clone() *Plan {
	b, _ := json.Marshal(p)
	var q Plan
	if err := json.Unmarshal(b, &q); err != nil {
		panic(err)
	}
	return &q
}

type Engine struct{}

func (Engine) Name() string { return "e5pub" }

func (Engine) Runs(prop, tier string) int {
	if prop != "C20" {
		return 0
	}
	if tier == "thorough" {
		return runsThorough
	}
	return runsQuick
}

func (Engine) Generate(prop, tier string, seed uint64, idx int) *Plan {
	if prop != "C20" {
		panic("e5pub: unknown property " + prop)
	}
	return genPlan(core.Mix(seed, prop, idx), idx)
}

func (Engine) Execute(t *testing.T, prop string, p *Plan) *core.Result {
	return execute(t, prop, p)
}

func (Engine) Shrink(prop string, p *Plan) []*Plan { return shrink(p) }
