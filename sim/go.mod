module verifsim

go 1.26.8

require (
	github.com/c2FmZQ/ech v0.3.6
	github.com/c2FmZQ/ech/publish v0.0.0
	golang.org/x/crypto v0.40.0
)

require (
	github.com/hashicorp/go-cleanhttp v0.5.2 // indirect
	github.com/hashicorp/go-retryablehttp v0.7.8 // indirect
	github.com/hashicorp/golang-lru/v2 v2.0.7 // indirect
	golang.org/x/sys v0.34.0 // indirect
)

replace github.com/c2FmZQ/ech => /repo

replace github.com/c2FmZQ/ech/publish => /repo/publish
