package echbox

import (
	"crypto/sha256"
	"encoding/binary"
	"math/rand/v2"
)

func init() {
	h := sha256.Sum256([]byte("HelloRetryRequest"))
	if string(h[:]) != string(HRRRandom) {
		panic("echbox: HRRRandom constant is wrong")
	}
}

// GenOpts steers the grammar-based ClientHello generator.
type GenOpts struct {
	SNI        string
	ALPN       []string
	TLS13      bool // offer TLS 1.3 in supported_versions
	NoVersions bool // no supported_versions extension at all (TLS 1.2 style)
	Extra      int  // number of additional extensions
	MaxData    int  // maximum size of an additional extension's data
	GREASE     bool
	SIDLen     int
	Avoid      map[uint16]bool // extension types not to generate
}

func grease(r *rand.Rand) uint16 {
	b := uint16(r.IntN(16))<<4 | 0x0a
	return b<<8 | b
}

var extraTypes = []uint16{1, 5, 10, 11, 13, 17, 18, 21, 22, 23, 27, 28, 34, 35, 44, 45, 49, 50, 51, 57, 0x0039, 0x3374, 0x4469, 0xff01, 0x1234, 0xabcd}

func rbytes(r *rand.Rand, n int) []byte {
	b := make([]byte, n)
	for i := range b {
		b[i] = byte(r.Uint32())
	}
	return b
}

// GenHello produces a syntactically valid ClientHello with arbitrary extension
// types, order and contents (no duplicate types).
func GenHello(r *rand.Rand, o GenOpts) *Hello {
	h := &Hello{Version: 0x0303, Random: rbytes(r, 32), Compression: []byte{0}}
	h.SessionID = rbytes(r, o.SIDLen)
	ncs := 1 + r.IntN(12)
	for i := 0; i < ncs; i++ {
		cs := []uint16{0x1301, 0x1302, 0x1303, 0xc02b, 0xc02f, 0xc02c, 0xc030, 0xcca9, 0xcca8, 0x009c, 0x002f, 0x00ff}[r.IntN(12)]
		if o.GREASE && i == 0 {
			cs = grease(r)
		}
		h.CipherSuites = binary.BigEndian.AppendUint16(h.CipherSuites, cs)
	}
	used := map[uint16]bool{ExtECH: true, ExtOuterExts: true, ExtPSK: true, ExtSNI: true, ExtALPN: true, ExtVersions: true}
	for k := range o.Avoid {
		used[k] = true
	}
	var exts []Ext
	if o.SNI != "" {
		exts = append(exts, SNIExt(o.SNI))
	}
	if len(o.ALPN) > 0 {
		exts = append(exts, ALPNExt(o.ALPN))
	}
	if !o.NoVersions {
		vs := []uint16{0x0303}
		if o.TLS13 {
			vs = []uint16{0x0304, 0x0303}
			if r.IntN(3) == 0 {
				vs = []uint16{0x0304}
			}
		} else if r.IntN(2) == 0 {
			vs = []uint16{0x0303, 0x0302, 0x0301}
		}
		if o.GREASE {
			vs = append([]uint16{grease(r)}, vs...)
		}
		exts = append(exts, VersionsExt(vs...))
	}
	maxd := o.MaxData
	if maxd <= 0 {
		maxd = 40
	}
	for i := 0; i < o.Extra; i++ {
		t := extraTypes[r.IntN(len(extraTypes))]
		if o.GREASE && r.IntN(4) == 0 {
			t = grease(r)
		}
		if used[t] {
			continue
		}
		used[t] = true
		var d []byte
		switch t {
		case ExtKeyShare:
			ks := binary.BigEndian.AppendUint16(nil, 29)
			ks = binary.BigEndian.AppendUint16(ks, 32)
			ks = append(ks, rbytes(r, 32)...)
			d = append(binary.BigEndian.AppendUint16(nil, uint16(len(ks))), ks...)
		case ExtGroups:
			d = []byte{0, 4, 0, 29, 0, 23}
		case ExtSigAlgs:
			d = []byte{0, 6, 8, 7, 4, 3, 8, 4}
		case ExtPSKModes:
			d = []byte{1, 1}
		default:
			d = rbytes(r, r.IntN(maxd+1))
		}
		exts = append(exts, Ext{t, d})
	}
	r.Shuffle(len(exts), func(i, j int) { exts[i], exts[j] = exts[j], exts[i] })
	h.Exts = exts
	return h
}

// Pair is a ClientHelloInner together with the ClientHelloOuter that will
// carry it. Outer.Exts[EchIdx] is a placeholder for the ECH extension.
type Pair struct {
	Inner  *Hello
	Outer  *Hello
	EchIdx int
	// Run is a legally compressible run [From,To) of Inner.Exts (To==From: none).
	From, To int
}

// GenPair generates an (inner, outer) pair in which the inner extensions
// [From,To) also occur, byte-identical and in the same relative order, in the
// outer hello, so that they may be replaced by an ech_outer_extensions list.
func GenPair(r *rand.Rand, publicName, innerSNI string, innerALPN []string, extraIn, extraOut, maxData, minRun int) *Pair {
	sid := r.IntN(33)
	if r.IntN(3) == 0 {
		sid = 32
	}
	in := GenHello(r, GenOpts{SNI: innerSNI, ALPN: innerALPN, TLS13: true, Extra: extraIn, MaxData: maxData, GREASE: r.IntN(2) == 0, SIDLen: sid})
	// ECH inner marker at a random position
	pos := r.IntN(len(in.Exts) + 1)
	in.Exts = append(in.Exts[:pos:pos], append([]Ext{ECHInnerExt()}, in.Exts[pos:]...)...)
	// choose a run that does not contain the ECH marker
	from, to := 0, 0
	if len(in.Exts) > 1 && (minRun > 0 || r.IntN(5) != 0) {
		for try := 0; try < 64; try++ {
			a := r.IntN(len(in.Exts))
			b := a + 1 + r.IntN(len(in.Exts)-a)
			ok := b-a >= minRun
			for _, e := range in.Exts[a:b] {
				if e.Type == ExtECH || e.Type == ExtSNI {
					ok = false
				}
			}
			if ok {
				from, to = a, b
				break
			}
		}
	}
	avoid := map[uint16]bool{}
	for _, e := range in.Exts[from:to] {
		avoid[e.Type] = true
	}
	// the outer hello must not repeat a shared type; SNI/ALPN/versions are
	// added by GenHello itself unless they are part of the shared run
	oo := GenOpts{TLS13: true, Extra: extraOut, MaxData: maxData, GREASE: r.IntN(2) == 0, SIDLen: 0, Avoid: avoid}
	if !avoid[ExtSNI] {
		oo.SNI = publicName
	}
	if avoid[ExtVersions] {
		oo.NoVersions = true
	}
	if !avoid[ExtALPN] && r.IntN(2) == 0 {
		oo.ALPN = []string{"h2", "http/1.1"}
	}
	out := GenHello(r, oo)
	out.SessionID = append([]byte(nil), in.SessionID...)
	// splice the shared run into the outer list, keeping its order
	shared := in.Exts[from:to]
	merged := make([]Ext, 0, len(out.Exts)+len(shared)+1)
	oi, si := 0, 0
	for oi < len(out.Exts) || si < len(shared) {
		if si < len(shared) && (oi == len(out.Exts) || r.IntN(2) == 0) {
			merged = append(merged, Ext{shared[si].Type, append([]byte(nil), shared[si].Data...)})
			si++
		} else {
			merged = append(merged, out.Exts[oi])
			oi++
		}
	}
	ei := r.IntN(len(merged) + 1)
	merged = append(merged[:ei:ei], append([]Ext{{ExtECH, nil}}, merged[ei:]...)...)
	out.Exts = merged
	return &Pair{Inner: in, Outer: out, EchIdx: ei, From: from, To: to}
}
