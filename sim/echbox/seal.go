package echbox

import (
	"crypto/ecdh"
	"crypto/hpke"
	"encoding/binary"
	"errors"
	"fmt"
)

// Suite is an HpkeSymmetricCipherSuite.
type Suite struct{ KDF, AEAD uint16 }

var AllSuites = []Suite{{1, 1}, {1, 2}, {1, 3}}

// BuildConfig encodes an ECHConfig (draft-ietf-tls-esni section 4) for
// DHKEM(X25519, HKDF-SHA256).
func BuildConfig(id byte, pub []byte, publicName string, suites []Suite, maxNameLen byte) []byte {
	return BuildConfigExt(id, pub, publicName, suites, maxNameLen, nil)
}

// BuildConfigExt is BuildConfig with an explicit extensions block (the
// concatenated extensions, without the outer length).
func BuildConfigExt(id byte, pub []byte, publicName string, suites []Suite, maxNameLen byte, exts []byte) []byte {
	var c []byte
	c = append(c, id)
	c = binary.BigEndian.AppendUint16(c, 0x0020)
	c = binary.BigEndian.AppendUint16(c, uint16(len(pub)))
	c = append(c, pub...)
	c = binary.BigEndian.AppendUint16(c, uint16(4*len(suites)))
	for _, s := range suites {
		c = binary.BigEndian.AppendUint16(c, s.KDF)
		c = binary.BigEndian.AppendUint16(c, s.AEAD)
	}
	c = append(c, maxNameLen)
	c = append(c, byte(len(publicName)))
	c = append(c, publicName...)
	c = binary.BigEndian.AppendUint16(c, uint16(len(exts)))
	c = append(c, exts...)
	out := []byte{0xfe, 0x0d}
	out = binary.BigEndian.AppendUint16(out, uint16(len(c)))
	return append(out, c...)
}

func ConfigListOf(cfgs ...[]byte) []byte {
	var b []byte
	for _, c := range cfgs {
		b = append(b, c...)
	}
	return append(binary.BigEndian.AppendUint16(nil, uint16(len(b))), b...)
}

// KeyFromSeed derives an X25519 key pair from 32 bytes.
func KeyFromSeed(seed []byte) (priv, pub []byte) {
	k, err := ecdh.X25519().NewPrivateKey(seed)
	if err != nil {
		panic(err)
	}
	return k.Bytes(), k.PublicKey().Bytes()
}

func info(config []byte) []byte { return append([]byte("tls ech\x00"), config...) }

// Sealer is the sending side of one ECH HPKE context.
type Sealer struct {
	S     *hpke.Sender
	seal  func(aad, pt []byte) ([]byte, error) // set instead of S by NewForgedSealer
	Enc   []byte
	Suite Suite
	ID    byte
}

// NewSealer sets up an HPKE sender to pub with the info string bound to config.
func NewSealer(pub, config []byte, id byte, s Suite) (*Sealer, error) {
	pk, err := ecdh.X25519().NewPublicKey(pub)
	if err != nil {
		return nil, err
	}
	hp, err := hpke.NewDHKEMPublicKey(pk)
	if err != nil {
		return nil, err
	}
	kdf, err := hpke.NewKDF(s.KDF)
	if err != nil {
		return nil, err
	}
	aead, err := hpke.NewAEAD(s.AEAD)
	if err != nil {
		return nil, err
	}
	enc, snd, err := hpke.NewSender(hp, kdf, aead, info(config))
	if err != nil {
		return nil, err
	}
	return &Sealer{S: snd, Enc: enc, Suite: s, ID: id}, nil
}

// SealInto returns a copy of outer whose ECH extension (at index echIdx, any
// previous content ignored) carries encodedInner sealed under this context with
// the outer hello as associated data. withEnc is true for the first hello and
// false for a hello after HelloRetryRequest (empty enc).
func (s *Sealer) SealInto(outer *Hello, echIdx int, encodedInner []byte, withEnc bool) (*Hello, error) {
	o := outer.Clone()
	e := &ECHOuter{KDF: s.Suite.KDF, AEAD: s.Suite.AEAD, ConfigID: s.ID, Payload: make([]byte, len(encodedInner)+16)}
	if withEnc {
		e.Enc = s.Enc
	}
	o.Exts[echIdx] = Ext{ExtECH, e.Bytes()}
	aad := o.Body()
	ct, err := s.SealRaw(aad, encodedInner)
	if err != nil {
		return nil, err
	}
	if len(ct) != len(e.Payload) {
		return nil, fmt.Errorf("echbox: unexpected ciphertext length %d", len(ct))
	}
	e.Payload = ct
	o.Exts[echIdx] = Ext{ExtECH, e.Bytes()}
	return o, nil
}

// SealRaw seals pt with explicit aad (for deliberately wrong associated data).
func (s *Sealer) SealRaw(aad, pt []byte) ([]byte, error) {
	if s.seal != nil {
		return s.seal(aad, pt)
	}
	return s.S.Seal(aad, pt)
}

// Opener is the receiving side of one ECH HPKE context.
type Opener struct {
	R *hpke.Recipient
}

// OpenOuter decrypts the ECH payload of outer. On the first hello (o.R == nil)
// the context is set up from the extension's enc.
func (o *Opener) OpenOuter(priv, config []byte, outer *Hello) ([]byte, *ECHOuter, error) {
	i := outer.Find(ExtECH)
	if i < 0 {
		return nil, nil, errors.New("echbox: no ECH extension")
	}
	e, err := ParseECHOuter(outer.Exts[i].Data)
	if err != nil {
		return nil, nil, err
	}
	if o.R == nil {
		sk, err := ecdh.X25519().NewPrivateKey(priv)
		if err != nil {
			return nil, nil, err
		}
		hk, err := hpke.NewDHKEMPrivateKey(sk)
		if err != nil {
			return nil, nil, err
		}
		kdf, err := hpke.NewKDF(e.KDF)
		if err != nil {
			return nil, nil, err
		}
		aead, err := hpke.NewAEAD(e.AEAD)
		if err != nil {
			return nil, nil, err
		}
		o.R, err = hpke.NewRecipient(e.Enc, hk, kdf, aead, info(config))
		if err != nil {
			return nil, nil, err
		}
	}
	aad, err := AAD(outer)
	if err != nil {
		return nil, nil, err
	}
	pt, err := o.R.Open(aad, e.Payload)
	if err != nil {
		return nil, e, err
	}
	return pt, e, nil
}

// ServerHello builds a ServerHello / HelloRetryRequest record.
func ServerHello(random, sid []byte, suite uint16, exts []Ext) []byte {
	var b []byte
	b = append(b, 3, 3)
	b = append(b, random...)
	b = append(b, byte(len(sid)))
	b = append(b, sid...)
	b = binary.BigEndian.AppendUint16(b, suite)
	b = append(b, 0)
	eb := MarshalExts(exts)
	b = binary.BigEndian.AppendUint16(b, uint16(len(eb)))
	b = append(b, eb...)
	return Record(22, 0x0303, Handshake(2, b))
}

// HRRRandom is the special ServerHello.random of a HelloRetryRequest
// (RFC 8446 4.1.3: SHA-256 of "HelloRetryRequest").
var HRRRandom = []byte{
	0xCF, 0x21, 0xAD, 0x74, 0xE5, 0x9A, 0x61, 0x11, 0xBE, 0x1D, 0x8C, 0x02, 0x1E, 0x65, 0xB8, 0x91,
	0xC2, 0xA2, 0x11, 0x16, 0x7A, 0xBB, 0x8C, 0x5E, 0x07, 0x9E, 0x09, 0xE2, 0xC8, 0xA8, 0x33, 0x9C,
}
