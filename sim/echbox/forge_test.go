package echbox

import (
	"bytes"
	"crypto/ecdh"
	"crypto/hpke"
	"testing"
)

// The hand-written sender must agree with crypto/hpke when it is given the
// honest Diffie-Hellman value: what it seals, a crypto/hpke recipient opens.
func TestForgedSealerAgreesWithStdlib(t *testing.T) {
	for _, aeadID := range []uint16{1, 2, 3} {
		rpriv, rpub := KeyFromSeed(bytes.Repeat([]byte{7}, 32))
		epriv, epub := KeyFromSeed(bytes.Repeat([]byte{9}, 32))
		ek, _ := ecdh.X25519().NewPrivateKey(epriv)
		rk, _ := ecdh.X25519().NewPublicKey(rpub)
		dh, err := ek.ECDH(rk)
		if err != nil {
			t.Fatal(err)
		}
		cfg := BuildConfig(5, rpub, "public.example", AllSuites, 32)
		s, err := NewForgedSealer(dh, epub, rpub, cfg, 5, Suite{1, aeadID})
		if err != nil {
			t.Fatal(err)
		}
		sk, _ := ecdh.X25519().NewPrivateKey(rpriv)
		hk, _ := hpke.NewDHKEMPrivateKey(sk)
		kdf, _ := hpke.NewKDF(1)
		aead, _ := hpke.NewAEAD(aeadID)
		rcp, err := hpke.NewRecipient(epub, hk, kdf, aead, info(cfg))
		if err != nil {
			t.Fatal(err)
		}
		for i := 0; i < 3; i++ {
			ct, _ := s.SealRaw([]byte("aad"), []byte("plaintext"))
			pt, err := rcp.Open([]byte("aad"), ct)
			if err != nil || string(pt) != "plaintext" {
				t.Fatalf("aead %d message %d: %v %q", aeadID, i, err, pt)
			}
		}
	}
}
