package echbox

import (
	"crypto/aes"
	"crypto/cipher"
	"crypto/hkdf"
	"crypto/sha256"
	"encoding/binary"
	"errors"

	"golang.org/x/crypto/chacha20poly1305"
)

// A second, hand-written HPKE sender (RFC 9180, base mode, DHKEM(X25519,
// HKDF-SHA256), HKDF-SHA256) whose Diffie-Hellman value is an INPUT: it lets
// the harness play a client that encrypts "to nobody" - a ClientHello whose
// encapsulated key is a point of small order, sealed under the key schedule
// that results when the receiver's X25519 computation is all zeros or is
// skipped. No private key is involved: only public data.

func labeledExtract(suiteID, salt []byte, label string, ikm []byte) []byte {
	in := append([]byte("HPKE-v1"), suiteID...)
	in = append(in, label...)
	in = append(in, ikm...)
	prk, err := hkdf.Extract(sha256.New, in, salt)
	if err != nil {
		panic(err)
	}
	return prk
}

func labeledExpand(suiteID, prk []byte, label string, info []byte, n int) []byte {
	in := binary.BigEndian.AppendUint16(nil, uint16(n))
	in = append(in, "HPKE-v1"...)
	in = append(in, suiteID...)
	in = append(in, label...)
	in = append(in, info...)
	out, err := hkdf.Expand(sha256.New, prk, string(in), n)
	if err != nil {
		panic(err)
	}
	return out
}

// NewForgedSealer builds a sender context from the given Diffie-Hellman value
// (e.g. nil, or 32 zero octets) for the encapsulated key enc and the receiver's
// public key pkR, bound to config like NewSealer.
func NewForgedSealer(dh, enc, pkR, config []byte, id byte, s Suite) (*Sealer, error) {
	if s.KDF != 1 {
		return nil, errors.New("echbox: forged sealer supports HKDF-SHA256 only")
	}
	kemID := []byte{'K', 'E', 'M', 0x00, 0x20}
	kemContext := append(append([]byte(nil), enc...), pkR...)
	eaePRK := labeledExtract(kemID, nil, "eae_prk", dh)
	shared := labeledExpand(kemID, eaePRK, "shared_secret", kemContext, 32)

	hpkeID := []byte{'H', 'P', 'K', 'E', 0x00, 0x20, 0x00, 0x01, byte(s.AEAD >> 8), byte(s.AEAD)}
	pskIDHash := labeledExtract(hpkeID, nil, "psk_id_hash", nil)
	infoHash := labeledExtract(hpkeID, nil, "info_hash", info(config))
	ksContext := append(append([]byte{0}, pskIDHash...), infoHash...)
	secret := labeledExtract(hpkeID, shared, "secret", nil)
	nk := map[uint16]int{1: 16, 2: 32, 3: 32}[s.AEAD]
	if nk == 0 {
		return nil, errors.New("echbox: unknown AEAD")
	}
	key := labeledExpand(hpkeID, secret, "key", ksContext, nk)
	baseNonce := labeledExpand(hpkeID, secret, "base_nonce", ksContext, 12)
	var aead cipher.AEAD
	var err error
	if s.AEAD == 3 {
		aead, err = chacha20poly1305.New(key)
	} else {
		var blk cipher.Block
		if blk, err = aes.NewCipher(key); err == nil {
			aead, err = cipher.NewGCM(blk)
		}
	}
	if err != nil {
		return nil, err
	}
	seq := uint64(0)
	seal := func(aad, pt []byte) ([]byte, error) {
		nonce := append([]byte(nil), baseNonce...)
		var ctr [8]byte
		binary.BigEndian.PutUint64(ctr[:], seq)
		for i := range ctr {
			nonce[4+i] ^= ctr[i]
		}
		seq++
		return aead.Seal(nil, nonce, pt, aad), nil
	}
	return &Sealer{seal: seal, Enc: append([]byte(nil), enc...), Suite: s, ID: id}, nil
}
