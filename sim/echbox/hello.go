// Package echbox is the harness's own TLS ClientHello / ECH toolbox, written
// from RFC 8446 and draft-ietf-tls-esni and independent of the code under test:
// parser, marshaller, EncodedClientHelloInner encoder/decoder, AAD builder and
// HPKE sealing/opening on top of the standard library's crypto/hpke.
package echbox

import (
	"encoding/binary"
	"errors"
	"fmt"
)

const (
	ExtSNI        = 0
	ExtALPN       = 16
	ExtVersions   = 43
	ExtKeyShare   = 51
	ExtECH        = 0xfe0d
	ExtOuterExts  = 0xfd00
	ExtPadding    = 21
	ExtPSK        = 41
	ExtGroups     = 10
	ExtSigAlgs    = 13
	ExtPSKModes   = 45
	ExtStatusReq  = 5
	ExtSCT        = 18
	ExtRenegoInfo = 0xff01
)

type Ext struct {
	Type uint16 `json:"t"`
	Data []byte `json:"d"`
}

// Hello is a ClientHello (RFC 8446 4.1.2).
type Hello struct {
	Version      uint16 `json:"v"`
	Random       []byte `json:"r"`
	SessionID    []byte `json:"sid"`
	CipherSuites []byte `json:"cs"`
	Compression  []byte `json:"cm"`
	Exts         []Ext  `json:"x"`
	// NoExtBlock: the hello ends after the compression methods, without an
	// extensions block at all (legal before TLS 1.3: RFC 5246, 7.4.1.2).
	NoExtBlock bool `json:"noext,omitempty"`
}

func (h *Hello) Clone() *Hello {
	c := *h
	c.Random = append([]byte(nil), h.Random...)
	c.SessionID = append([]byte(nil), h.SessionID...)
	c.CipherSuites = append([]byte(nil), h.CipherSuites...)
	c.Compression = append([]byte(nil), h.Compression...)
	c.Exts = make([]Ext, len(h.Exts))
	for i, e := range h.Exts {
		c.Exts[i] = Ext{e.Type, append([]byte(nil), e.Data...)}
	}
	return &c
}

var ErrSyntax = errors.New("echbox: syntax error")

type rd struct {
	b   []byte
	err bool
}

func (r *rd) u8() int {
	if len(r.b) < 1 {
		r.err = true
		return 0
	}
	v := r.b[0]
	r.b = r.b[1:]
	return int(v)
}
func (r *rd) u16() int {
	if len(r.b) < 2 {
		r.err = true
		r.b = nil
		return 0
	}
	v := binary.BigEndian.Uint16(r.b)
	r.b = r.b[2:]
	return int(v)
}
func (r *rd) u24() int {
	if len(r.b) < 3 {
		r.err = true
		r.b = nil
		return 0
	}
	v := int(r.b[0])<<16 | int(r.b[1])<<8 | int(r.b[2])
	r.b = r.b[3:]
	return v
}
func (r *rd) take(n int) []byte {
	if n < 0 || len(r.b) < n {
		r.err = true
		r.b = nil
		return nil
	}
	v := r.b[:n]
	r.b = r.b[n:]
	return v
}

// ParseHelloBody parses a ClientHello structure (what follows the 4-byte
// handshake header) and returns the bytes that follow it.
func ParseHelloBody(body []byte) (*Hello, []byte, error) {
	r := &rd{b: body}
	h := &Hello{}
	h.Version = uint16(r.u16())
	h.Random = append([]byte(nil), r.take(32)...)
	h.SessionID = append([]byte(nil), r.take(r.u8())...)
	h.CipherSuites = append([]byte(nil), r.take(r.u16())...)
	h.Compression = append([]byte(nil), r.take(r.u8())...)
	if r.err {
		return nil, nil, ErrSyntax
	}
	if len(r.b) == 0 {
		h.NoExtBlock = true
		return h, nil, nil
	}
	eb := r.take(r.u16())
	if r.err {
		return nil, nil, ErrSyntax
	}
	er := &rd{b: eb}
	for len(er.b) > 0 {
		t := er.u16()
		d := er.take(er.u16())
		if er.err {
			return nil, nil, ErrSyntax
		}
		h.Exts = append(h.Exts, Ext{uint16(t), append([]byte(nil), d...)})
	}
	return h, r.b, nil
}

// ParseHelloRecord parses a TLS record holding exactly one ClientHello.
func ParseHelloRecord(rec []byte) (*Hello, error) {
	if len(rec) < 9 || rec[0] != 22 || rec[5] != 1 {
		return nil, ErrSyntax
	}
	rl := int(rec[3])<<8 | int(rec[4])
	if rl != len(rec)-5 {
		return nil, ErrSyntax
	}
	ml := int(rec[6])<<16 | int(rec[7])<<8 | int(rec[8])
	if ml != len(rec)-9 {
		return nil, ErrSyntax
	}
	h, rest, err := ParseHelloBody(rec[9:])
	if err != nil {
		return nil, err
	}
	if len(rest) != 0 {
		return nil, ErrSyntax
	}
	return h, nil
}

func MarshalExts(exts []Ext) []byte {
	var b []byte
	for _, e := range exts {
		b = binary.BigEndian.AppendUint16(b, e.Type)
		b = binary.BigEndian.AppendUint16(b, uint16(len(e.Data)))
		b = append(b, e.Data...)
	}
	return b
}

// Body marshals the ClientHello structure.
func (h *Hello) Body() []byte {
	var b []byte
	b = binary.BigEndian.AppendUint16(b, h.Version)
	b = append(b, h.Random...)
	b = append(b, byte(len(h.SessionID)))
	b = append(b, h.SessionID...)
	b = binary.BigEndian.AppendUint16(b, uint16(len(h.CipherSuites)))
	b = append(b, h.CipherSuites...)
	b = append(b, byte(len(h.Compression)))
	b = append(b, h.Compression...)
	if h.NoExtBlock && len(h.Exts) == 0 {
		return b
	}
	eb := MarshalExts(h.Exts)
	b = binary.BigEndian.AppendUint16(b, uint16(len(eb)))
	b = append(b, eb...)
	return b
}

// Handshake frames a handshake message.
func Handshake(typ byte, body []byte) []byte {
	return append([]byte{typ, byte(len(body) >> 16), byte(len(body) >> 8), byte(len(body))}, body...)
}

// Record frames a TLS record.
func Record(ctype byte, ver uint16, payload []byte) []byte {
	return append([]byte{ctype, byte(ver >> 8), byte(ver), byte(len(payload) >> 8), byte(len(payload))}, payload...)
}

// Record returns the hello as a single handshake record.
func (h *Hello) Record(recVer uint16) []byte {
	return Record(22, recVer, Handshake(1, h.Body()))
}

func (h *Hello) Find(t uint16) int {
	for i, e := range h.Exts {
		if e.Type == t {
			return i
		}
	}
	return -1
}

// SNI returns the host_name of the server_name extension ("" if absent).
func (h *Hello) SNI() string {
	i := h.Find(ExtSNI)
	if i < 0 {
		return ""
	}
	r := &rd{b: h.Exts[i].Data}
	l := &rd{b: r.take(r.u16())}
	for len(l.b) > 0 {
		typ := l.u8()
		name := l.take(l.u16())
		if l.err {
			return ""
		}
		if typ == 0 {
			return string(name)
		}
	}
	return ""
}

// ALPN returns the protocol name list.
func (h *Hello) ALPN() []string {
	i := h.Find(ExtALPN)
	if i < 0 {
		return nil
	}
	r := &rd{b: h.Exts[i].Data}
	l := &rd{b: r.take(r.u16())}
	var out []string
	for len(l.b) > 0 {
		p := l.take(l.u8())
		if l.err {
			return out
		}
		out = append(out, string(p))
	}
	return out
}

// Offers13 reports whether supported_versions lists TLS 1.3 or later.
func (h *Hello) Offers13() bool {
	i := h.Find(ExtVersions)
	if i < 0 {
		return false
	}
	r := &rd{b: h.Exts[i].Data}
	l := &rd{b: r.take(r.u8())}
	for len(l.b) >= 2 {
		if l.u16() >= 0x0304 {
			return true
		}
	}
	return false
}

func SNIExt(name string) Ext {
	var d []byte
	d = binary.BigEndian.AppendUint16(d, uint16(len(name)+3))
	d = append(d, 0)
	d = binary.BigEndian.AppendUint16(d, uint16(len(name)))
	d = append(d, name...)
	return Ext{ExtSNI, d}
}

func ALPNExt(protos []string) Ext {
	var l []byte
	for _, p := range protos {
		l = append(l, byte(len(p)))
		l = append(l, p...)
	}
	d := binary.BigEndian.AppendUint16(nil, uint16(len(l)))
	return Ext{ExtALPN, append(d, l...)}
}

func VersionsExt(vs ...uint16) Ext {
	d := []byte{byte(2 * len(vs))}
	for _, v := range vs {
		d = binary.BigEndian.AppendUint16(d, v)
	}
	return Ext{ExtVersions, d}
}

// ECHOuter is ECHClientHello of type outer.
type ECHOuter struct {
	KDF, AEAD uint16
	ConfigID  byte
	Enc       []byte
	Payload   []byte
}

func (e *ECHOuter) Bytes() []byte {
	d := []byte{0}
	d = binary.BigEndian.AppendUint16(d, e.KDF)
	d = binary.BigEndian.AppendUint16(d, e.AEAD)
	d = append(d, e.ConfigID)
	d = binary.BigEndian.AppendUint16(d, uint16(len(e.Enc)))
	d = append(d, e.Enc...)
	d = binary.BigEndian.AppendUint16(d, uint16(len(e.Payload)))
	d = append(d, e.Payload...)
	return d
}

func ParseECHOuter(d []byte) (*ECHOuter, error) {
	r := &rd{b: d}
	if r.u8() != 0 {
		return nil, fmt.Errorf("%w: not type outer", ErrSyntax)
	}
	e := &ECHOuter{}
	e.KDF = uint16(r.u16())
	e.AEAD = uint16(r.u16())
	e.ConfigID = byte(r.u8())
	e.Enc = append([]byte(nil), r.take(r.u16())...)
	e.Payload = append([]byte(nil), r.take(r.u16())...)
	if r.err || len(r.b) != 0 {
		return nil, ErrSyntax
	}
	return e, nil
}

// ECHInnerExt is the inner-type marker extension.
func ECHInnerExt() Ext { return Ext{ExtECH, []byte{1}} }

// OuterExtsExt builds an ech_outer_extensions extension naming types.
func OuterExtsExt(types []uint16) Ext {
	d := []byte{byte(2 * len(types))}
	for _, t := range types {
		d = binary.BigEndian.AppendUint16(d, t)
	}
	return Ext{ExtOuterExts, d}
}

// AAD is ClientHelloOuterAAD: the outer ClientHello structure with the payload
// bytes of its ECH extension replaced by zeros (draft-ietf-tls-esni 5.2).
func AAD(outer *Hello) ([]byte, error) {
	i := outer.Find(ExtECH)
	if i < 0 {
		return nil, errors.New("echbox: outer has no ECH extension")
	}
	e, err := ParseECHOuter(outer.Exts[i].Data)
	if err != nil {
		return nil, err
	}
	c := outer.Clone()
	z := *e
	z.Payload = make([]byte, len(e.Payload))
	c.Exts[i].Data = z.Bytes()
	return c.Body(), nil
}

// DecodeInner implements the decoding of EncodedClientHelloInner (5.1) exactly
// as the draft states it: strip the zero padding, substitute the outer
// legacy_session_id, and replace ech_outer_extensions in place by the
// referenced outer extensions, in order.
func DecodeInner(encoded []byte, outer *Hello) (*Hello, error) {
	in, pad, err := ParseHelloBody(encoded)
	if err != nil {
		return nil, err
	}
	for _, b := range pad {
		if b != 0 {
			return nil, fmt.Errorf("%w: non-zero padding", ErrSyntax)
		}
	}
	in.SessionID = append([]byte(nil), outer.SessionID...)
	var out []Ext
	seen := false
	for _, e := range in.Exts {
		if e.Type != ExtOuterExts {
			out = append(out, e)
			continue
		}
		if seen {
			return nil, fmt.Errorf("%w: two ech_outer_extensions", ErrSyntax)
		}
		seen = true
		r := &rd{b: e.Data}
		l := &rd{b: r.take(r.u8())}
		if r.err || len(r.b) != 0 || len(l.b)%2 != 0 || len(l.b) == 0 {
			return nil, fmt.Errorf("%w: outer extension list", ErrSyntax)
		}
		p := 0
		for len(l.b) > 0 {
			t := uint16(l.u16())
			if t == ExtECH || t == ExtOuterExts {
				return nil, fmt.Errorf("%w: reference to ECH extension", ErrSyntax)
			}
			for p < len(outer.Exts) && outer.Exts[p].Type != t {
				p++
			}
			if p == len(outer.Exts) {
				return nil, fmt.Errorf("%w: reference %d not found in order", ErrSyntax, t)
			}
			out = append(out, outer.Exts[p])
			p++
		}
	}
	in.Exts = out
	return in, nil
}

// EncodeInnerSID is EncodeInner for a non-conforming encoder that leaves sid as
// the encoded inner's legacy_session_id (a conforming one leaves it empty; the
// decoder substitutes the outer hello's value either way).
func EncodeInnerSID(inner *Hello, from, to, pad int, sid []byte) []byte {
	c := inner.Clone()
	c.SessionID = sid
	if to > from {
		var types []uint16
		for _, e := range inner.Exts[from:to] {
			types = append(types, e.Type)
		}
		var exts []Ext
		exts = append(exts, c.Exts[:from]...)
		exts = append(exts, OuterExtsExt(types))
		exts = append(exts, c.Exts[to:]...)
		c.Exts = exts
	}
	return append(c.Body(), make([]byte, pad)...)
}

// EncodeInner builds EncodedClientHelloInner from the true inner hello:
// the extensions inner.Exts[from:to] are replaced by one ech_outer_extensions
// reference list (from==to: no compression), the session id is emptied and pad
// zero bytes are appended.
func EncodeInner(inner *Hello, from, to, pad int) []byte {
	c := inner.Clone()
	c.SessionID = nil
	if to > from {
		var types []uint16
		for _, e := range inner.Exts[from:to] {
			types = append(types, e.Type)
		}
		var exts []Ext
		exts = append(exts, c.Exts[:from]...)
		exts = append(exts, OuterExtsExt(types))
		exts = append(exts, c.Exts[to:]...)
		c.Exts = exts
	}
	return append(c.Body(), make([]byte, pad)...)
}

// CompressibleRuns lists the maximal runs [from,to) of inner extensions that
// can legally be replaced by a reference list: same type and bytes present in
// the outer hello, in the same relative order, none of them an ECH extension.
func CompressibleRuns(inner, outer *Hello) [][2]int {
	var runs [][2]int
	i := 0
	for i < len(inner.Exts) {
		p := 0
		j := i
		for j < len(inner.Exts) {
			e := inner.Exts[j]
			if e.Type == ExtECH || e.Type == ExtOuterExts {
				break
			}
			q := p
			for q < len(outer.Exts) && !(outer.Exts[q].Type == e.Type) {
				q++
			}
			if q == len(outer.Exts) || string(outer.Exts[q].Data) != string(e.Data) {
				break
			}
			// the linear-time algorithm takes the first outer extension of that
			// type at or after p; it must be the identical one
			p = q + 1
			j++
		}
		if j > i {
			runs = append(runs, [2]int{i, j})
			i = j
		} else {
			i++
		}
	}
	return runs
}
