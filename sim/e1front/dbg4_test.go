package e1front

import (
	"os"
	"testing"
)

// Developer aid: VERIF_DBG_HIST=C03 go test -tags verif -run TestHistKinds -v
func TestHistKinds(t *testing.T) {
	prop := os.Getenv("VERIF_DBG_HIST")
	if prop == "" {
		t.Skip()
	}
	for i := 5; i < 700; i += 16 {
		p := Engine{}.Generate(prop, "quick", 1, i)
		if p.History == nil {
			t.Logf("idx %d: kind %s", i, p.Kind)
			continue
		}
		var kinds []string
		for _, st := range p.History.Steps {
			kinds = append(kinds, st.Kind)
		}
		res := Engine{}.Execute(t, prop, p)
		t.Logf("idx %d: alpn=%d conc=%v steps=%v -> fail=%v harness=%q probes=%v", i, len(p.History.Base.InnerALPN), p.History.Concurrent, kinds, len(res.Violations), res.Harness, res.Probes)
	}
}
