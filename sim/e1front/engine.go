// Package e1front is engine E1: client(s) -> simnet -> ech.Conn front ->
// simnet -> backend(s), in live, replay and scripted modes (C01..C10).
package e1front

import (
	"encoding/json"
	"fmt"
	"testing"

	"verifsim/core"
)

// Plan is the plain-data description of one E1 run; exactly one of the
// sub-plans is set.
type Plan struct {
	Kind string `json:"kind"`
	Seed uint64 `json:"seed"` // seeds crypto randomness and every lazily drawn choice

	Live    *LivePlan    `json:"live,omitempty"`
	Flip    *FlipPlan    `json:"flip,omitempty"`
	Script  *ScriptPlan  `json:"script,omitempty"`
	History *HistoryPlan `json:"history,omitempty"`
	Pipe    *PipePlan    `json:"pipe,omitempty"`
	Hostile *HostilePlan `json:"hostile,omitempty"`
	Stall   *StallPlan   `json:"stall,omitempty"`
	Duplex  *DuplexPlan  `json:"duplex,omitempty"`
	KeySet  *KeySetPlan  `json:"keyset,omitempty"`
	Ctx     *CtxPlan     `json:"ctx,omitempty"`
}

func (p *Plan) clone() *Plan {
	b, _ := json.Marshal(p)
	var q Plan
	if err := json.Unmarshal(b, &q); err != nil {
		panic(err)
	}
	return &q
}

type Engine struct{}

func (Engine) Name() string { return "e1front" }

var runs = map[string][2]int{ // quick, thorough (thorough sized for roughly 10-15 min on 16 cores)
	"C01": {600, 90000},
	"C02": {360, 120000},
	"C03": {700, 120000},
	"C04": {1500, 1200000},
	"C05": {1200, 300000},
	"C06": {3000, 900000},
	"C07": {60, 6000},
	"C08": {1500, 1000000},
	"C09": {400, 200000},
	"C10": {160, 150000},
}

func (Engine) Runs(prop, tier string) int {
	r, ok := runs[prop]
	if !ok {
		return 0
	}
	if tier == "thorough" {
		return r[1]
	}
	return r[0]
}

func (Engine) Generate(prop, tier string, seed uint64, idx int) *Plan {
	s := core.Mix(seed, prop, idx)
	switch prop {
	case "C01":
		return genC01(s, idx)
	case "C02":
		return genC02(s, idx, tier)
	case "C03":
		return genC03(s, idx)
	case "C04":
		return genC04(s, idx)
	case "C05":
		return genC05(s, idx)
	case "C06":
		return genC06(s, idx)
	case "C07":
		return genC07(s, idx, tier)
	case "C08":
		return genC08(s, idx)
	case "C09":
		return genC09(s, idx)
	case "C10":
		return genC10(s, idx)
	}
	panic("e1front: unknown property " + prop)
}

func (Engine) Execute(t *testing.T, prop string, p *Plan) *core.Result {
	switch p.Kind {
	case "live":
		return executeLive(t, prop, p.Seed, p.Live)
	case "flip":
		return executeFlip(t, prop, p.Seed, p.Flip)
	case "script":
		return executeScript(t, prop, p.Seed, p.Script)
	case "history":
		return executeHistory(t, prop, p.Seed, p.History)
	case "pipe":
		return executePipe(t, prop, p.Seed, p.Pipe)
	case "hostile":
		return executeHostile(t, prop, p.Seed, p.Hostile)
	case "stall":
		return executeStall(t, prop, p.Seed, p.Stall)
	case "duplex":
		return executeDuplex(t, prop, p.Seed, p.Duplex)
	case "keyset":
		return executeKeySet(t, prop, p.Seed, p.KeySet)
	case "ctx":
		return executeCtx(t, prop, p.Seed, p.Ctx)
	}
	return &core.Result{Harness: fmt.Sprintf("unknown plan kind %q", p.Kind)}
}

func (Engine) Shrink(prop string, p *Plan) []*Plan {
	switch p.Kind {
	case "live":
		return shrinkLive(p)
	case "script":
		return shrinkScript(p)
	case "history":
		return shrinkHistory(p)
	case "pipe":
		return shrinkPipe(p)
	case "hostile":
		return shrinkHostile(p)
	case "duplex":
		return shrinkDuplex(p)
	case "keyset":
		return shrinkKeySet(p)
	case "ctx":
		return shrinkCtx(p)
	case "flip":
		return shrinkFlip(p)
	case "stall":
		return shrinkStall(p)
	}
	return nil
}
