package e1front

import (
	"bytes"
	"context"
	"errors"
	"fmt"
	"io"
	"runtime"
	"slices"
	"strconv"
	"strings"
	"sync/atomic"
	"testing"
	"testing/cryptotest"
	"testing/synctest"
	"time"

	"github.com/c2FmZQ/ech"

	"verifsim/core"
	"verifsim/echbox"
	"verifsim/simnet"
)

// HStep is one record of a history: Side "c" is a client record that the Conn
// meets on its read side, Side "b" a backend record handed to Conn.Write.
type HStep struct {
	Side string `json:"side"`
	Kind string `json:"kind"`
	A    int    `json:"a,omitempty"`
	// RealCtx: a second hello that the model expects NOT to be processed is
	// nevertheless sealed with the connection's real HPKE context (advancing it).
	RealCtx bool `json:"real_ctx,omitempty"`
	// Join (backend records): written in the same Conn.Write call as the next
	// backend record of the history (a backend flushing several records at once).
	Join bool `json:"join,omitempty"`
	// WSplit > 0 (backend records, sequential histories): the Write that ends
	// with this record is made in two calls from ONE buffer that the caller
	// reuses (an io.Copy loop): the second part overwrites the first.
	WSplit int `json:"wsplit,omitempty"`
	// Spill 1..4 (backend records, sequential histories, no WSplit): the Write
	// that ends with this record also carries the first Spill octets of the
	// NEXT backend record of the history (a backend whose flushes do not fall
	// on record boundaries); the rest follows when that record's step comes.
	Spill int `json:"spill,omitempty"`
	// SplitAt > 0 (client records, sequential histories): the record arrives in
	// two parts; between them the caller's read deadline expires (a timeout
	// error from the transport), the caller extends it and reads on.
	SplitAt int `json:"split_at,omitempty"`
	// DebugPark k > 0 (backend records, concurrent histories, Write of one record,
	// next step a client record other than a hello): the Write is held inside
	// the k-th call the library makes to the caller's debug function during it
	// (a logger that blocks), the client's next record is read by the pump
	// meanwhile, then the Write goes on.
	DebugPark int `json:"debug_park,omitempty"`
	// SlowReturn (backend records, concurrent histories, first record of a
	// Write): the transport has delivered the record but its Write only returns
	// after the client's next record has been read by the pump.
	SlowReturn bool `json:"slow_return,omitempty"`
}

// HistoryPlan: an accepted first hello followed by an interleaving of client
// and backend records.
type HistoryPlan struct {
	Base  ScriptPlan `json:"base"`
	Steps []HStep    `json:"steps"`
	// Concurrent: run over a simulated link with the proxy's read pump parked
	// inside Conn.Read while backend records pass through Conn.Write.
	Concurrent bool `json:"concurrent,omitempty"`
	// CtxDeadline (concurrent histories): NewConn is given a context with a
	// deadline five seconds away (and cancelled on return, as callers do); the
	// history goes on long after that instant.
	CtxDeadline bool `json:"ctx_deadline,omitempty"`
}

// histClient builds the client's records, holding the sender HPKE context.
type histClient struct {
	p       *ScriptPlan
	b       *built
	r       *core.Result
	seed    uint64
	n       int
	sendSeq int // sequence number the real context will use for its next seal
}

// hello2 builds a second ClientHello of the given kind. It returns the record,
// whether it was sealed with the real context and at which sequence number.
func (hc *histClient) hello2(kind string, a int, useReal bool) (rec []byte, real bool, seq int, wantInner []byte, err error) {
	rng := core.NewRand(hc.seed, "hello2", hc.n)
	hc.n++
	p, b := hc.p, hc.b
	// the retried inner keeps server name and ALPN but may change other extensions
	inner := b.inner.Clone()
	inner.Random = core.Bytes(rng, 32)
	if i := inner.Find(echbox.ExtKeyShare); i >= 0 {
		inner.Exts[i].Data = append([]byte{0, 36, 0, 29, 0, 32}, core.Bytes(rng, 32)...)
	} else if b.to == b.from || true {
		// add a cookie-like extension outside the compressed run
		pos := len(inner.Exts)
		if b.to > b.from && pos > b.from && pos < b.to {
			pos = b.to
		}
		if inner.Find(44) < 0 {
			inner.Exts = append(inner.Exts, echbox.Ext{Type: 44, Data: append([]byte{0, 8}, core.Bytes(rng, 8)...)})
		}
	}
	outer := b.outer.Clone()
	outer.Random = core.Bytes(rng, 32)
	echIdx := outer.Find(echbox.ExtECH)
	from, to := b.from, b.to
	switch kind {
	case "hello2-sni":
		i := inner.Find(echbox.ExtSNI)
		if i >= 0 {
			inner.Exts[i] = echbox.SNIExt("other." + p.InnerSNI[:min(len(p.InnerSNI), 200)])
		} else {
			inner.Exts = append(inner.Exts, echbox.SNIExt("added.example"))
		}
	case "hello2-sni-case":
		// the same name in another spelling: other octets in the retried hello
		if i := inner.Find(echbox.ExtSNI); i >= 0 {
			inner.Exts[i] = echbox.SNIExt(strings.ToUpper(p.InnerSNI))
		} else {
			inner.Exts = append(inner.Exts, echbox.SNIExt("added.example"))
		}
	case "hello2-alpn":
		i := inner.Find(echbox.ExtALPN)
		// another list: other names, the same names in another order, or the
		// same octets cut into names differently ("h2","http/1.1" -> "h2,http/1.1")
		other := []string{"changed"}
		if cur := inner.ALPN(); len(cur) > 0 {
			switch rng.IntN(3) {
			case 1:
				if len(cur) > 1 {
					other = []string{strings.Join(cur, ",")}
				} else if parts := strings.Split(cur[0], ","); len(parts) > 1 {
					other = parts
				} else {
					other = []string{cur[0], cur[0]}
				}
			case 2:
				if len(cur) > 1 && cur[0] != cur[len(cur)-1] {
					other = slices.Clone(cur)
					slices.Reverse(other)
				}
			}
		}
		switch {
		case i >= 0 && (i < from || i >= to):
			inner.Exts[i] = echbox.ALPNExt(other)
		case i >= 0:
			// ALPN is part of the compressed run: change the outer copy too
			inner.Exts[i] = echbox.ALPNExt(other)
			if o := outer.Find(echbox.ExtALPN); o >= 0 {
				outer.Exts[o] = echbox.ALPNExt(other)
			}
		default:
			inner.Exts = append(inner.Exts, echbox.ALPNExt([]string{"added"}))
		}
	}
	if kind == "hello2-inner-edge" {
		innerEdge(inner, a)
		from, to = 0, 0
	}
	if kind == "hello2-ok" && a%4 == 2 {
		// the second inner hello carries fewer extensions than the first (one the
		// front has no interest in is gone): still the client's business
		for i := len(inner.Exts) - 1; i >= 0; i-- {
			switch inner.Exts[i].Type {
			case echbox.ExtSNI, echbox.ExtALPN, echbox.ExtVersions, echbox.ExtECH, 51, 10, 13:
				continue
			}
			if i >= from && i < to {
				continue
			}
			inner.Exts = slices.Delete(inner.Exts, i, i+1)
			if i < from {
				from, to = from-1, to-1
			}
			break
		}
	}
	if kind == "hello2-ok" && a%3 == 1 && to > from {
		// the same hello, carried differently: nothing is compressed this time
		// (what was referenced in the outer hello before now sits in the inner one)
		from, to = 0, 0
	}
	if kind == "hello2-outersni" {
		if i := outer.Find(echbox.ExtSNI); i >= 0 {
			outer.Exts[i] = echbox.SNIExt("elsewhere.example")
		}
	}
	encoded := echbox.EncodeInner(inner, from, to, p.Pad)
	var s *echbox.Sealer
	real = useReal
	switch kind {
	case "hello2-fresh", "hello2-sibling":
		real = false
	}
	if real {
		s = b.sealer
		seq = hc.sendSeq
		if kind == "hello2-seq" {
			// burn one sequence number: the receiver will be one behind
			s.SealRaw(nil, []byte{0})
			hc.sendSeq++
			seq = hc.sendSeq
		}
		hc.sendSeq++
	} else {
		_, tpub, _ := p.Target.material()
		tcfg := b.tcfg
		if kind == "hello2-sibling" {
			// a context of its own (encapsulated key included) for another key the
			// server holds under the same config id, if there is one
			for _, k := range p.Keys {
				if k.ID == p.Target.ID && k.KeySeed != p.Target.KeySeed && !k.OtherKEM && !k.BadConfig && !k.BadPriv {
					_, tpub, tcfg = k.material()
					break
				}
			}
		}
		suite := p.Target.Suites[p.SuiteIdx%len(p.Target.Suites)]
		s, err = echbox.NewSealer(tpub, tcfg, p.Target.ID, suite)
		if err != nil {
			return
		}
		seq = -1
	}
	if kind == "hello2-suite-pre" {
		// the second hello names another AEAD (consistently: the AAD covers it)
		// while the payload continues the first hello's HPKE context
		relabel := *s
		relabel.Suite.AEAD = uint16(1 + int(s.Suite.AEAD)%3)
		s = &relabel
	}
	// (hello2-enc-same: the encapsulated key of the first hello is sent again,
	// covered by the associated data, and the payload continues the first context)
	o2, err := s.SealInto(outer, echIdx, encoded, kind == "hello2-enc-same" || kind == "hello2-sibling")
	if err != nil {
		return
	}
	e, _ := echbox.ParseECHOuter(o2.Exts[echIdx].Data)
	switch kind {
	case "hello2-noech":
		o2.Exts = slices.Delete(o2.Exts, echIdx, echIdx+1)
	case "hello2-id":
		e.ConfigID += byte(1 + a%255)
		o2.Exts[echIdx].Data = e.Bytes()
	case "hello2-suite":
		e.AEAD = uint16(1 + int(e.AEAD)%3)
		o2.Exts[echIdx].Data = e.Bytes()
	case "hello2-enc":
		e.Enc = core.Bytes(rng, 32)
		o2.Exts[echIdx].Data = e.Bytes()
	case "hello2-innertype":
		o2.Exts[echIdx].Data = []byte{1}
	case "hello2-nover":
		// the retried outer hello no longer offers TLS 1.3 at all
		if i := o2.Find(echbox.ExtVersions); i >= 0 {
			o2.Exts = slices.Delete(o2.Exts, i, i+1)
		}
	}
	rec = o2.Record(0x0303)
	if in, derr := echbox.DecodeInner(encoded, o2); derr == nil {
		wantInner = in.Record(0x0303)
	}
	return
}

func hrrRecord(rng uint64) []byte {
	r := core.NewRand(rng, "hrr")
	exts := []echbox.Ext{{Type: 43, Data: []byte{3, 4}}, {Type: 51, Data: []byte{0, 23}}}
	sid := core.Bytes(r, 32)
	if rng%3 == 1 {
		// a backend that keeps no state between the hellos: its request carries a cookie
		ck := core.Bytes(r, 1+r.IntN(80))
		exts = append(exts, echbox.Ext{Type: 44, Data: append([]byte{byte(len(ck) >> 8), byte(len(ck))}, ck...)})
	}
	return echbox.ServerHello(echbox.HRRRandom, sid, 0x1301, exts)
}

func shRecord(rng uint64, n int) []byte {
	r := core.NewRand(rng, "sh", n)
	ks := append([]byte{0, 29, 0, 32}, core.Bytes(r, 32)...)
	return echbox.ServerHello(core.Bytes(r, 32), core.Bytes(r, 32), 0x1301, []echbox.Ext{{Type: 43, Data: []byte{3, 4}}, {Type: 51, Data: ks}})
}

func plainRecord(rng uint64, kind string, n int) []byte {
	r := core.NewRand(rng, "rec", kind, n)
	switch kind {
	case "ccs":
		return echbox.Record(20, 0x0303, []byte{1})
	case "alert":
		// warning or fatal, every description a TLS stack sends before the keys change
		return echbox.Record(21, 0x0303, []byte{byte(1 + r.IntN(2)), []byte{0, 10, 40, 47, 50, 70, 80, 109, 112, 120}[r.IntN(10)]})
	case "hs-other":
		body := core.Bytes(r, 1+r.IntN(60))
		return echbox.Record(22, 0x0303, echbox.Handshake([]byte{4, 8, 11, 13, 15, 20, 24, 0xff, 0xfe, 0, 5, 0xff}[r.IntN(12)], body))
	case "appdata":
		return echbox.Record(23, 0x0303, core.Bytes(r, 1+r.IntN(300)))
	}
	panic("plainRecord: " + kind)
}

var hello2Alerts = map[string][]int{
	"hello2-noech":     {alMissingExtension},
	"hello2-id":        {alIllegalParameter},
	"hello2-suite":     {alIllegalParameter},
	"hello2-enc":       {alIllegalParameter},
	"hello2-enc-same":  {alIllegalParameter},
	"hello2-sibling":   {alIllegalParameter},
	"hello2-fresh":     {alDecryptError},
	"hello2-seq":       {alDecryptError},
	"hello2-sni":       {alIllegalParameter},
	"hello2-sni-case":  {alIllegalParameter},
	"hello2-alpn":      {alIllegalParameter},
	"hello2-innertype": {alIllegalParameter, alMissingExtension},
	"hello2-nover":     {alIllegalParameter, alDecryptError, alMissingExtension},
	"hello2-outersni":  {alIllegalParameter},
	"hello2-suite-pre": {alIllegalParameter},
}

// histIO is how the history's records reach the Conn: sequentially over a
// scripted transport on one goroutine, or concurrently over a simulated link
// with a reader goroutine parked inside Conn.Read (as in a real proxy, where
// the HelloRetryRequest passes through Write while Read is already blocked).
// errParked: the write is held inside the library (see HStep.DebugPark).
var errParked = errors.New("harness: write parked in a debug call")

// goid is the id of the calling goroutine.
func goid() int64 {
	var b [64]byte
	f := strings.Fields(string(b[:runtime.Stack(b[:], false)]))
	if len(f) < 2 {
		return -1
	}
	n, _ := strconv.ParseInt(f[1], 10, 64)
	return n
}

type histIO struct {
	start  func() (first []byte, accepted bool, err error)
	feed   func(rec []byte) (got []byte, err error)
	write  func(rec []byte) (n int, err error)
	out    func() []byte // every byte the client-side transport has received
	closes func() int
	pk     *string // set to "site: message" when a call into the library panicked
	// view: what the Conn's accessors report right now
	view func() (accepted bool, name string, alpn []string)
	// feedSplit (sequential histories only): the record arrives as rec[:k], a
	// read-deadline timeout, then rec[k:]. It returns what the reads before the
	// timeout delivered, what the reads after it delivered, and the error (if
	// any) the reads after it kept returning.
	feedSplit func(rec []byte, k int) (before, after []byte, err error)
	// slow (concurrent histories only): the next write returns late, see HStep.SlowReturn.
	slow func()
	// parkInDebug (concurrent histories only): the next write is held in its
	// k-th debug call; write then returns errParked if it got that far.
	parkInDebug func(k int)
	// settle waits for a late write and reports its result.
	settle func() (n int, err error, was bool)
}

func seqIO(b *built) *histIO {
	sc := simnet.NewScript(b.outerRec)
	sc.NoEOF = true
	var conn *ech.Conn
	buf := make([]byte, 70000)
	pk := new(string)
	guard := func(f func()) {
		if p, m, s := core.Guard(f); p {
			*pk = s + ": " + normMsg(m)
		}
	}
	return &histIO{pk: pk,
		view: func() (bool, string, []string) { return conn.ECHAccepted(), conn.ServerName(), conn.ALPNProtos() },
		start: func() (first []byte, accepted bool, err error) {
			guard(func() { conn, err = ech.NewConn(context.Background(), sc, keyOptions(b.keys)...) })
			if *pk != "" || err != nil {
				return nil, false, err
			}
			accepted = conn.ECHAccepted()
			scribbleALPN(conn)
			guard(func() {
				var n int
				n, err = conn.Read(buf)
				first = append([]byte(nil), buf[:n]...)
			})
			return
		},
		feed: func(rec []byte) (got []byte, err error) {
			sc.Feed(rec)
			guard(func() {
				var n int
				n, err = conn.Read(buf)
				got = append([]byte(nil), buf[:n]...)
			})
			return
		},
		feedSplit: func(rec []byte, k int) (before, after []byte, err error) {
			sc.BlockErr = errReadTimeout
			defer func() { sc.BlockErr = nil }()
			sc.Feed(rec[:k])
			guard(func() {
				for i := 0; i < 4; i++ {
					n, e := conn.Read(buf)
					before = append(before, buf[:n]...)
					if e != nil {
						break
					}
				}
			})
			// the deadline is extended, the rest arrives
			sc.Feed(rec[k:])
			guard(func() {
				for i := 0; i < 8; i++ {
					n, e := conn.Read(buf)
					after = append(after, buf[:n]...)
					if e != nil {
						err = e
						break
					}
					if n == 0 {
						break
					}
				}
			})
			return
		},
		write:  func(rec []byte) (n int, err error) { guard(func() { n, err = conn.Write(rec) }); return },
		out:    func() []byte { return sc.Out },
		closes: func() int { return sc.Closes },
	}
}

var errReadStuck = errors.New("Conn.Read has not returned ten virtual minutes after the record arrived")

type readResult struct {
	b   []byte
	err error
	pk  string
}

// concIO must be used inside a synctest bubble.
func concIO(w *simnet.World, b *built, ctxDeadline bool) *histIO {
	lat := simnet.LinkCfg{Seg: simnet.SegWhole, LatMinUs: 20, LatMaxUs: 200}
	cc, fc := w.Pipe("c", "f", lat, lat)
	var conn *ech.Conn
	reads := make(chan readResult, 256)
	pk := new(string)
	var got []byte // what the client has received
	drain := func() {
		// collect whatever has arrived at the client within a second of virtual time
		cc.SetReadDeadline(time.Now().Add(time.Second))
		buf := make([]byte, 70000)
		for {
			n, err := cc.Read(buf)
			got = append(got, buf[:n]...)
			if err != nil {
				break
			}
		}
		cc.SetReadDeadline(time.Time{})
	}
	slowNext := false
	var late chan struct{} // closed when the late write has returned
	var lateN int
	var lateErr error
	var release chan struct{}
	dbgAt, parkedLen := 0, 0
	var dbgG atomic.Int64
	var dbgReached chan struct{}
	dbgCnt := 0
	dbgHook := func(format string, a ...any) {
		_ = fmt.Sprintf(format, a...)
		if g := dbgG.Load(); g != 0 && goid() == g {
			if dbgCnt++; dbgCnt == dbgAt {
				close(dbgReached)
				<-release
			}
		}
	}
	settle := func() (int, error, bool) {
		if late == nil {
			return 0, nil, false
		}
		close(release)
		<-late
		late = nil
		fc.WriteHook = nil
		if parkedLen > 0 && lateErr == nil {
			buf := make([]byte, parkedLen)
			cc.SetReadDeadline(time.Now().Add(time.Second))
			k, _ := io.ReadFull(cc, buf)
			cc.SetReadDeadline(time.Time{})
			got = append(got, buf[:k]...)
		}
		parkedLen = 0
		return lateN, lateErr, true
	}
	return &histIO{pk: pk,
		slow:        func() { slowNext = true },
		parkInDebug: func(k int) { dbgAt = k },
		settle:      settle,
		start: func() (first []byte, accepted bool, err error) {
			cc.Write(b.outerRec)
			ctx, cancel := context.Background(), context.CancelFunc(func() {})
			if ctxDeadline {
				ctx, cancel = context.WithTimeout(ctx, 5*time.Second)
			}
			if p, m, s := core.Guard(func() {
				conn, err = ech.NewConn(ctx, fc, append(keyOptions(b.keys), ech.WithDebug(dbgHook))...)
			}); p {
				*pk = s + ": " + normMsg(m)
			}
			cancel()
			if ctxDeadline {
				time.Sleep(time.Minute) // the handshake goes on long after that deadline
			}
			if *pk != "" || err != nil {
				return nil, false, err
			}
			accepted = conn.ECHAccepted()
			scribbleALPN(conn)
			go func() { // the proxy's client->backend pump: always parked in Conn.Read
				buf := make([]byte, 70000)
				for {
					var n int
					var rerr error
					p, m, s := core.Guard(func() { n, rerr = conn.Read(buf) })
					r := readResult{b: append([]byte(nil), buf[:n]...), err: rerr}
					if p {
						r.pk = s + ": " + normMsg(m)
					}
					reads <- r
					if p || rerr != nil {
						return
					}
				}
			}()
			r := <-reads
			if r.pk != "" {
				*pk = r.pk
			}
			return r.b, accepted, r.err
		},
		feed: func(rec []byte) ([]byte, error) {
			cc.Write(rec)
			var r readResult
			select {
			case r = <-reads:
			case <-time.After(10 * time.Minute):
				// the client is still connected and silent: the record has long
				// arrived, and Read has neither data nor an error to show for it
				return nil, errReadStuck
			}
			if r.pk != "" {
				*pk = r.pk
			}
			if r.err != nil {
				drain()
			}
			return r.b, r.err
		},
		write: func(rec []byte) (n int, err error) {
			if dbgAt > 0 {
				dbgReached, dbgCnt = make(chan struct{}), 0
				release = make(chan struct{})
				late = make(chan struct{})
				go func(done chan struct{}) {
					defer close(done)
					dbgG.Store(goid())
					defer dbgG.Store(0)
					if p, m, s := core.Guard(func() { lateN, lateErr = conn.Write(rec) }); p {
						*pk = s + ": " + normMsg(m)
					}
				}(late)
				select {
				case <-dbgReached:
					// held inside the library's debug call: nothing is with the client yet
					// (one Write is held per request: later ones go straight through)
					parkedLen, dbgAt = len(rec), 0
					return len(rec), errParked
				case <-late: // the Write made fewer debug calls than that
					late, dbgAt = nil, 0
					n, err = lateN, lateErr
					if err == nil {
						buf := make([]byte, len(rec))
						cc.SetReadDeadline(time.Now().Add(time.Second))
						k, _ := io.ReadFull(cc, buf)
						cc.SetReadDeadline(time.Time{})
						got = append(got, buf[:k]...)
					}
					return n, err
				}
			}
			if slowNext {
				slowNext = false
				reached := make(chan struct{})
				release = make(chan struct{})
				late = make(chan struct{})
				first := true
				fc.WriteHook = func(int) {
					if first {
						first = false
						close(reached)
						<-release
					}
				}
				go func(done chan struct{}) {
					defer close(done)
					if p, m, s := core.Guard(func() { lateN, lateErr = conn.Write(rec) }); p {
						*pk = s + ": " + normMsg(m)
					}
				}(late)
				select {
				case <-reached:
				case <-late: // failed before anything was written
					late = nil
					fc.WriteHook = nil
					return lateN, lateErr
				}
				// the first record is with the client, the Write has not returned
				sz := 5 + (int(rec[3])<<8 | int(rec[4]))
				buf := make([]byte, sz)
				cc.SetReadDeadline(time.Now().Add(time.Second))
				k, _ := io.ReadFull(cc, buf)
				cc.SetReadDeadline(time.Time{})
				got = append(got, buf[:k]...)
				if sz < len(rec) {
					// the rest of this Write only follows once it is released
					n, err, _ = settle()
					if err == nil {
						buf = make([]byte, len(rec)-sz)
						cc.SetReadDeadline(time.Now().Add(time.Second))
						k, _ = io.ReadFull(cc, buf)
						cc.SetReadDeadline(time.Time{})
						got = append(got, buf[:k]...)
					}
					return n, err
				}
				return len(rec), nil
			}
			if p, m, s := core.Guard(func() { n, err = conn.Write(rec) }); p {
				*pk = s + ": " + normMsg(m)
			}
			if err == nil {
				buf := make([]byte, len(rec))
				cc.SetReadDeadline(time.Now().Add(time.Second))
				k, _ := io.ReadFull(cc, buf)
				cc.SetReadDeadline(time.Time{})
				got = append(got, buf[:k]...)
			}
			return
		},
		out:    func() []byte { return got },
		closes: func() int { return fc.Closes },
	}
}

func executeHistory(t *testing.T, prop string, seed uint64, p *HistoryPlan) *core.Result {
	res := &core.Result{}
	cryptotest.SetGlobalRandom(t, seed)
	b, err := buildScript(seed, &p.Base)
	if err == errSkip {
		res.Probe("scenario_skipped")
		return res
	}
	if err != nil {
		res.Harness = "buildScript: " + err.Error()
		return res
	}
	if !p.Concurrent {
		runHistory(prop, seed, p, b, seqIO(b), res)
		return res
	}
	res.Probe("concurrent_history")
	msg := core.Bubble(t, func(t *testing.T) {
		w := simnet.NewWorld(seed)
		if p.CtxDeadline {
			res.Probe("newconn_context_deadline_long_past")
		}
		runHistory(prop, seed, p, b, concIO(w, b, p.CtxDeadline), res)
		res.SimNs = w.Now()
		for _, c := range w.Conns() {
			c.Close()
		}
		w.Shutdown()
		synctest.Wait()
		lib, other := core.Leaked()
		if len(lib) > 0 && len(res.Violations) == 0 {
			res.Fail(prop, "goroutine-leak", strings.Join(lib, ","), "after the history ended and both transports were closed")
		}
		if len(other) > 0 && len(res.Violations) == 0 {
			res.Harness = "goroutines left: " + strings.Join(other, ",")
		}
	})
	if msg != "" && res.Harness == "" && len(res.Violations) == 0 {
		res.Harness = "bubble: " + firstLine(msg)
	}
	return res
}

func runHistory(prop string, seed uint64, p *HistoryPlan, b *built, io_ *histIO, res *core.Result) {
	var log []string
	fail := func(class, site, f string, a ...any) {
		if prop == "C03" && class != "accessors" && class != "panic" {
			// C03 looks at these histories for what the accessors report; the
			// retry rules themselves are C06's (and C04's) to judge
			res.Probe("history_ended_early_other_property")
			return
		}
		if prop != "C03" && class == "accessors" {
			res.Probe("accessor_mismatch_left_to_C03")
			return
		}
		res.Fail(prop, class, site, f, a...)
	}
	first, accepted, err := io_.start()
	if *io_.pk != "" {
		fail("panic", *io_.pk, "NewConn / first Read")
		return
	}
	if err != nil || !accepted {
		fail("rejected-valid", "first hello of the history not accepted", "err=%v", err)
		return
	}
	want := append([]byte(nil), b.wantInner...)
	if len(first) >= 3 {
		want[1], want[2] = first[1], first[2]
	}
	if !bytes.Equal(first, want) {
		fail("reconstruction", "first hello not forwarded as the reference inner", "got %d bytes want %d", len(first), len(want))
		return
	}

	// the model (DESIGN Appendix A.1), written from the property statement
	rInspect, wInspect := true, true
	armed, retried := false, false
	hrrCount := 0
	recvSeq := 1
	hc := &histClient{p: &p.Base, b: b, r: res, seed: seed, sendSeq: 1}
	outLen := 0
	var sigParts []string
	// what the Conn says about the hello it accepted does not change with what
	// comes later (a retried hello keeps name and protocols; a refused one is
	// not what the backend was given)
	checkView := func(when string) {
		if io_.view == nil || *io_.pk != "" {
			return
		}
		var acc bool
		var name string
		var alpn []string
		if pk, m, s := core.Guard(func() { acc, name, alpn = io_.view() }); pk {
			fail("panic", s+": "+normMsg(m), "accessors %s", when)
			return
		}
		if !acc || name != b.inner.SNI() || !slices.Equal(alpn, b.inner.ALPN()) {
			fail("accessors", "ECHAccepted/ServerName/ALPNProtos no longer describe the accepted hello", "%s: accepted=%v name=%q alpn=%q, the hello given to the backend has name=%q alpn=%q", when, acc, name, alpn, b.inner.SNI(), b.inner.ALPN())
		}
	}
	var pendingW []byte
	slowFirst := false
	// spill: octets of a later backend record already handed to Write
	spillFor, spillLen := -1, 0
	var expectPrefix []byte
	spillOut := 0
	var parkedW []byte // a backend Write that is held inside the library
	backendRec := func(i int, kind string) []byte {
		switch kind {
		case "hrr":
			return hrrRecord(core.Mix(seed, "hrr", i))
		case "sh":
			return shRecord(seed, i)
		}
		return plainRecord(seed, kind, i)
	}
	defer func() {
		if io_.settle != nil {
			io_.settle()
		}
	}()
	for i, st := range p.Steps {
		sigParts = append(sigParts, st.Side+":"+st.Kind+fmt.Sprint(st.Join))
		if st.Side == "b" {
			rec := backendRec(i, st.Kind)
			if len(pendingW) == 0 {
				slowFirst = st.SlowReturn
			}
			if spillFor == i {
				// its first octets went out with an earlier Write
				expectPrefix = append([]byte(nil), rec[:spillLen]...)
				rec = rec[spillLen:]
				spillFor = -1
			}
			pendingW = append(pendingW, rec...)
			flush := !(st.Join && i+1 < len(p.Steps) && p.Steps[i+1].Side == "b")
			if flush {
				if len(pendingW) > len(rec) {
					res.Probe("several_records_per_write")
				}
				if io_.settle != nil {
					if n, err, was := io_.settle(); was && err != nil {
						fail("history", "Conn.Write of a backend record failed (late return)", "step %d: n=%d err=%v", i, n, err)
						break
					}
				}
				if slowFirst && io_.slow != nil {
					io_.slow()
					res.Probe("write_returns_after_next_read")
				}
				slowFirst = false
				if st.WSplit > 0 && !p.Concurrent && len(pendingW) > 1 && !slowFirst && len(expectPrefix) == 0 && st.Spill == 0 {
					// the forwarder's buffer is reused between the two calls
					k := 1 + st.WSplit%(len(pendingW)-1)
					if st.WSplit%3 == 0 {
						// ... preferably so that the second call starts with an octet
						// that looks like a record type
						for j := 1; j < len(pendingW); j++ {
							if x := (k + j) % len(pendingW); x > 0 && pendingW[x] >= 20 && pendingW[x] <= 23 {
								k = x
								break
							}
						}
					}
					scratch := make([]byte, len(pendingW))
					copy(scratch, pendingW[:k])
					n1, e1 := io_.write(scratch[:k])
					if *io_.pk == "" && e1 == nil && n1 == k {
						copy(scratch, pendingW[k:])
						n2, e2 := io_.write(scratch[:len(pendingW)-k])
						res.Probe("backend_write_in_two_calls_one_buffer")
						if *io_.pk == "" && (e2 != nil || n2 != len(pendingW)-k) {
							fail("history", "Conn.Write of the rest of a backend "+st.Kind+" record failed", "step %d: split at %d of %d: n=%d err=%v", i, k, len(pendingW), n2, e2)
							break
						}
					} else if *io_.pk == "" {
						fail("history", "Conn.Write of the first part of a backend "+st.Kind+" record failed", "step %d: split at %d of %d: n=%d err=%v", i, k, len(pendingW), n1, e1)
						break
					}
					if *io_.pk != "" {
						fail("panic", *io_.pk, "step %d: Write %s in two calls", i, st.Kind)
						break
					}
					if got := io_.out()[outLen:]; !bytes.Equal(got, pendingW) {
						fail("history", "backend "+st.Kind+" record not forwarded unchanged", "step %d: written in two calls from one buffer (split at %d): client received %d bytes, records have %d", i, k, len(got), len(pendingW))
						break
					}
					pendingW = nil
					goto flushed
				}
				if st.DebugPark > 0 && p.Concurrent && io_.parkInDebug != nil && len(pendingW) == len(rec) && !slowFirst &&
					i+1 < len(p.Steps) && p.Steps[i+1].Side == "c" && !strings.HasPrefix(p.Steps[i+1].Kind, "hello2") {
					io_.parkInDebug(st.DebugPark)
				}
				var spill []byte
				if st.Spill > 0 && !p.Concurrent {
					for j := i + 1; j < len(p.Steps); j++ {
						if p.Steps[j].Side == "b" {
							nx := backendRec(j, p.Steps[j].Kind)
							spillFor, spillLen = j, min(st.Spill, 4, len(nx)-1)
							spill = nx[:spillLen]
							res.Probe("backend_write_ends_inside_next_record")
							break
						}
					}
				}
				wn, werr := io_.write(append(append([]byte(nil), pendingW...), spill...))
				if werr == errParked {
					parkedW = append([]byte(nil), pendingW...)
					res.Probe("backend_write_held_in_debug_call")
					pendingW = nil
					goto flushed
				}
				if *io_.pk != "" {
					fail("panic", *io_.pk, "step %d: Write %s", i, st.Kind)
					break
				}
				if werr != nil || wn != len(pendingW)+len(spill) {
					fail("history", "Conn.Write of a backend "+st.Kind+" record failed", "step %d: n=%d err=%v", i, wn, werr)
					break
				}
				// everything handed over so far has been passed on, except possibly
				// the octets of a record that is not complete yet
				all := append(append(append([]byte(nil), expectPrefix...), pendingW...), spill...)
				got := io_.out()[outLen-spillOut:]
				least := len(all) - len(spill)
				if len(got) < least || len(got) > len(all) || !bytes.Equal(got, all[:len(got)]) {
					fail("history", "backend "+st.Kind+" record not forwarded unchanged", "step %d: client has %d octets of the %d handed over in this call and the one before (%d of them belong to a record that is not complete yet)", i, len(got), len(all), len(spill))
					break
				}
				spillOut = len(got) - least // octets of the incomplete record already passed on
				expectPrefix = nil
				pendingW = nil
			}
		flushed:
			if flush {
				outLen = len(io_.out())
			}
			if wInspect {
				switch st.Kind {
				case "appdata":
					wInspect = false
				case "hrr":
					hrrCount++
					if !armed {
						res.Probe("hrr_armed")
					}
					armed = true
				}
			}
			log = append(log, fmt.Sprintf("b %s ok", st.Kind))
			continue
		}
		// client record
		var rec, wantFwd []byte
		expectAbort := []int(nil)
		isHello := len(st.Kind) > 6 && st.Kind[:6] == "hello2"
		processed := false
		if isHello {
			processed = rInspect && armed && !retried
			useReal := processed || st.RealCtx
			var real bool
			var seq int
			var wi []byte
			var herr error
			rec, real, seq, wi, herr = hc.hello2(st.Kind, st.A, useReal)
			if herr != nil {
				res.Harness = "hello2: " + herr.Error()
				break
			}
			wantFwd = rec
			if processed {
				retried, rInspect = true, false
				res.Probe("retry_processed")
				if al, bad := hello2Alerts[st.Kind]; bad && !((st.Kind == "hello2-sni" || st.Kind == "hello2-sni-case" || st.Kind == "hello2-alpn" || st.Kind == "hello2-outersni") && (!real || seq != recvSeq)) {
					// (a changed inner name / ALPN can only be noticed once the payload opened)
					expectAbort = al
				} else if !real || seq != recvSeq {
					expectAbort = []int{alDecryptError}
				} else {
					wantFwd = wi
					recvSeq++
				}
			} else {
				res.Probe("hello_without_hrr_or_late")
			}
		} else {
			rec = plainRecord(seed, st.Kind, i)
			wantFwd = rec
			if rInspect && st.Kind == "appdata" {
				rInspect = false
			}
		}
		if st.SplitAt > 0 && io_.feedSplit != nil && len(rec) > 6 {
			k := 1 + st.SplitAt%(len(rec)-1)
			before, after, lerr := io_.feedSplit(rec, k)
			res.Probe("read_timeout_inside_record")
			if *io_.pk != "" {
				fail("panic", *io_.pk, "step %d: Read %s split at %d by a read timeout", i, st.Kind, k)
				break
			}
			// What arrived before the timeout may be handed over as it is; after
			// it the Conn either stays failed (nothing more is delivered) or
			// carries on as if nothing had happened - never a third thing.
			all := append(append([]byte(nil), before...), after...)
			w2 := append([]byte(nil), wantFwd...)
			if processed && len(all) >= 3 {
				w2[1], w2[2] = all[1], all[2]
			}
			switch {
			case len(after) == 0 && lerr != nil && bytes.HasPrefix(rec, before):
				log = append(log, fmt.Sprintf("c %s split %d: failed for good after the timeout", st.Kind, k))
			case expectAbort == nil && bytes.Equal(all, w2):
				log = append(log, fmt.Sprintf("c %s split %d: resumed", st.Kind, k))
				continue
			case expectAbort != nil && lerr != nil && len(after) == 0:
				log = append(log, fmt.Sprintf("c %s split %d: aborted", st.Kind, k))
			default:
				fail("history", "after a read timeout inside a "+st.Kind+" record the stream is neither failed nor continued correctly", "step %d, split at %d of %d: %d bytes before, %d bytes after (err=%v); expected the record as forwarded (%d bytes, processed=%v) or no more data", i, k, len(rec), len(before), len(after), lerr, len(w2), processed)
			}
			break
		}
		got, rerr := io_.feed(rec)
		if io_.settle != nil {
			n, err, was := io_.settle()
			if was && err != nil && rerr == nil {
				fail("history", "Conn.Write of a backend record failed (late return)", "step %d: n=%d err=%v", i, n, err)
				break
			}
			if was && parkedW != nil {
				if fwd := io_.out()[outLen:]; err == nil && !bytes.Equal(fwd, parkedW) {
					fail("history", "backend record not forwarded unchanged", "step %d: the Write that was held in a debug call delivered %d octets, the record has %d", i, len(fwd), len(parkedW))
					break
				}
				outLen = len(io_.out())
				parkedW = nil
			}
		}
		if *io_.pk != "" {
			fail("panic", *io_.pk, "step %d: Read %s", i, st.Kind)
			break
		}
		if expectAbort != nil {
			checkAbort(res, prop, "retried hello ("+st.Kind+")", rerr, io_.out()[outLen:], io_.closes(), got, expectAbort)
			log = append(log, fmt.Sprintf("c %s abort %v", st.Kind, rerr))
			checkView("after the refused retried hello")
			break
		}
		if rerr != nil {
			what := "record"
			if isHello && processed {
				what = "well-formed retried hello"
			} else if isHello {
				what = "second hello that must not be interpreted"
			}
			fail("history", what+" ("+st.Kind+") not forwarded: "+normErr(rerr), "step %d: processed=%v armed=%v", i, processed, armed)
			break
		}
		w2 := append([]byte(nil), wantFwd...)
		if processed && len(got) >= 3 {
			w2[1], w2[2] = got[1], got[2]
		}
		if !bytes.Equal(got, w2) {
			what := "record altered"
			if isHello && processed {
				what = "retried hello not replaced by the reference reconstruction"
			} else if isHello {
				what = "second hello altered although no retry was due"
			}
			fail("history", what+" ("+st.Kind+")", "step %d: got %d bytes want %d, first diff %d", i, len(got), len(w2), firstDiff(got, w2))
			break
		}
		if len(io_.out()) != outLen {
			fail("history", "bytes written to the client while reading a "+st.Kind+" record", "step %d", i)
			break
		}
		log = append(log, fmt.Sprintf("c %s ok processed=%v", st.Kind, processed))
		checkView(fmt.Sprintf("after client record %d (%s)", i, st.Kind))
	}
	res.NonTrivial = res.Harness == ""
	res.Sig = core.SigOf(append([]string{"history", fmt.Sprint(p.Concurrent)}, sigParts...)...)
	res.LogHash = core.HashLog(log)
	res.FaultN("history_steps", len(p.Steps))
	res.Sample = map[string]any{"kind": "history", "concurrent": p.Concurrent, "steps": p.Steps}
}

var cKinds = []string{"hello2-ok", "hello2-ok", "hello2-ok", "hello2-noech", "hello2-id", "hello2-suite", "hello2-enc", "hello2-enc-same", "hello2-sibling", "hello2-fresh", "hello2-seq", "hello2-sni", "hello2-sni-case", "hello2-alpn", "hello2-innertype", "hello2-nover", "hello2-outersni", "hello2-suite-pre", "ccs", "ccs", "hs-other", "alert", "appdata"}
var bKinds = []string{"hrr", "hrr", "sh", "ccs", "appdata", "hs-other", "alert"}

func genC06(seed uint64, idx int) *Plan {
	r := core.NewRand(seed, "plan")
	base := genScriptBase(r)
	base.Chunks, base.ReadBuf, base.Trailer = nil, 0, nil
	base.ExtraIn = max(base.ExtraIn, 2)
	if idx%7 == 3 {
		// merged key files: the key the hello is sealed to is listed twice
		base.Keys = append(base.Keys, base.Target)
	}
	if idx%7 == 5 {
		// a rotation that kept the config id: another key pair under the same id
		// and suites, listed in front of the one the hello is sealed to
		sib := base.Target
		sib.KeySeed += 9999
		base.Keys = append([]KeySpec{sib}, base.Keys...)
	}
	h := &HistoryPlan{Base: *base, Concurrent: r.IntN(3) == 0}
	h.CtxDeadline = h.Concurrent && idx%2 == 1
	if idx%16 == 11 {
		// a long row of records a peer must ignore between the retry request and
		// the second hello (however many: the hello that follows is still the
		// retried one)
		h.Concurrent = false
		h.Steps = []HStep{{Side: "b", Kind: "hrr"}}
		for i := 15 + r.IntN(30); i > 0; i-- {
			h.Steps = append(h.Steps, HStep{Side: "c", Kind: "ccs"})
		}
		a := r.IntN(1 << 20)
		h.Steps = append(h.Steps, HStep{Side: "c", Kind: cKinds[r.IntN(len(cKinds))], A: a, RealCtx: a%2 == 0}, HStep{Side: "c", Kind: "appdata", A: a})
		return &Plan{Kind: "history", Seed: seed, History: h}
	}
	n := 1 + r.IntN(12)
	// bias: most histories contain the HRR / second hello pair somewhere
	for i := 0; i < n; i++ {
		var st HStep
		if r.IntN(2) == 0 {
			st = HStep{Side: "b", Kind: bKinds[r.IntN(len(bKinds))], Join: r.IntN(3) == 0}
			if i == 0 && r.IntN(2) == 0 {
				st.Kind = "hrr"
			}
			st.SlowReturn = h.Concurrent && r.IntN(2) == 0
			if h.Concurrent && !st.SlowReturn && r.IntN(2) == 0 {
				st.Join, st.DebugPark = false, 1+r.IntN(3)
			}
			if !h.Concurrent && r.IntN(4) == 0 {
				st.WSplit = 1 + r.IntN(1<<16)
			} else if !h.Concurrent && r.IntN(5) == 0 {
				st.Spill = 1 + r.IntN(4)
			}
		} else {
			st = HStep{Side: "c", Kind: cKinds[r.IntN(len(cKinds))], A: r.IntN(1 << 20), RealCtx: r.IntN(2) == 0}
			if !h.Concurrent && r.IntN(6) == 0 {
				st.SplitAt = 1 + r.IntN(1<<16)
			}
		}
		h.Steps = append(h.Steps, st)
		if st.Side == "b" && st.DebugPark > 0 && st.Kind == "hrr" {
			// what the pump reads while that Write is held: the client's
			// change_cipher_spec (it may come at any time)
			h.Steps = append(h.Steps, HStep{Side: "c", Kind: "ccs"})
		}
	}
	return &Plan{Kind: "history", Seed: seed, History: h}
}

func shrinkHistory(p *Plan) []*Plan {
	var out []*Plan
	for i := range p.History.Steps {
		q := p.clone()
		q.History.Steps = slices.Delete(q.History.Steps, i, i+1)
		out = append(out, q)
	}
	for i, st := range p.History.Steps {
		if st.RealCtx {
			q := p.clone()
			q.History.Steps[i].RealCtx = false
			out = append(out, q)
		}
	}
	q := p.clone()
	if q.History.Base.ExtraIn > 2 || q.History.Base.ExtraOut > 0 || q.History.Base.Pad > 0 {
		q.History.Base.ExtraIn, q.History.Base.ExtraOut, q.History.Base.Pad = 2, 0, 0
		out = append(out, q)
	}
	if len(p.History.Base.Keys) > 1 {
		q := p.clone()
		for _, k := range q.History.Base.Keys {
			if k.KeySeed == q.History.Base.Target.KeySeed {
				q.History.Base.Keys = []KeySpec{k}
			}
		}
		out = append(out, q)
	}
	return out
}

// scribbleALPN plays an application that edits the list it was handed (sorting,
// filtering in place): the Conn's own copy must not be affected.
func scribbleALPN(conn *ech.Conn) {
	a := conn.ALPNProtos()
	for i := range a {
		a[i] = "edited-by-the-caller"
	}
}
