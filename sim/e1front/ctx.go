package e1front

import (
	"bytes"
	"context"
	"errors"
	"fmt"
	"io"
	"net"
	"os"
	"runtime"
	"strings"
	"sync"
	"sync/atomic"
	"testing"
	"testing/cryptotest"
	"testing/synctest"
	"time"

	"github.com/c2FmZQ/ech"

	"verifsim/core"
	"verifsim/echbox"
	"verifsim/simnet"
)

// CtxPlan (C10): schedules over {hello available, NewConn returns, context
// ends, watcher goroutine runs}. The control points are the simulated
// transport (actions inside Read) and the caller (actions after the return).
type CtxPlan struct {
	Base     ScriptPlan `json:"base"`
	Buffered bool       `json:"buffered"` // hello fully readable before NewConn starts
	Frags    int        `json:"frags"`
	LatUs    int        `json:"lat_us"`
	// Blocked: only the first BlockedBytes bytes ever arrive and the context
	// ends after EndUs microseconds (scenario a).
	Blocked      bool   `json:"blocked,omitempty"`
	BlockedBytes int    `json:"blocked_bytes,omitempty"`
	EndUs        int    `json:"end_us,omitempty"`
	EndKind      string `json:"end_kind,omitempty"` // cancel | timeout
	InRead       string `json:"in_read"`            // none | cancel | cancel-gosched (inside the transport's last Read)
	// NoDeadlines (scenarios in which the hello arrives): the transport's
	// Set*Deadline calls fail with ErrUnsupported and have no effect.
	NoDeadlines bool `json:"no_deadlines,omitempty"`
	// HalfDeadlines: only the read half of the transport supports deadlines;
	// SetDeadline arms it and returns an error for the write half.
	HalfDeadlines bool `json:"half_deadlines,omitempty"`
	// Parked: that many other connections of the process sit in NewConn with
	// silent clients while the repetitions run (more than there are processors).
	Parked int `json:"parked,omitempty"`
	// SecondConn: while this connection's context ends another connection of the
	// process is parked in its own NewConn.
	SecondConn bool `json:"second_conn,omitempty"`
	// Siblings > 0: another kind of plan - that many connections share ONE
	// context (see executeSiblings); only Base, EndKind and Reps apply.
	Siblings int `json:"siblings,omitempty"`
	// Replay (scenarios in which the hello arrives): the context is over before
	// the call, and the transport hands out the hello from memory whatever its
	// deadlines say (bytes a sniffing layer peeked and now replays); reads past
	// them reach the real connection.
	Replay bool `json:"replay,omitempty"`
	// HRRLater: after the return (and the end of the context) the backend
	// answers with a HelloRetryRequest before the later I/O.
	HRRLater bool   `json:"hrr_later,omitempty"`
	After    string `json:"after"` // none | cancel | gosched-cancel | cancel-gosched | delay-cancel | timeout-after
	DelayUs  int    `json:"delay_us,omitempty"`
	Procs    int    `json:"procs"`
	Reps     int    `json:"reps"`
	// SlowDeadline: the transport's SetDeadline yields the processor this many
	// times before it takes effect (a watcher that is slow to act).
	SlowDeadline int `json:"slow_deadline,omitempty"`
	// StallOne (siblings): the transport of one silent connection stalls inside
	// SetDeadline for an hour.
	StallOne bool `json:"stall_one,omitempty"`
	// ZeroWindow: the client does not read (blocked scenario): the alert write blocks.
	ZeroWindow bool `json:"zero_window,omitempty"`
	// Malformed (blocked scenario): the client sends a complete record that
	// NewConn must refuse, and does not read: the alert write is what blocks.
	Malformed bool `json:"malformed,omitempty"`
	// Spin (InRead == "cancel-async"): the context is cancelled by another
	// goroutine that spins this many times after the hello was handed over.
	Spin int `json:"spin,omitempty"`
}

// replayConn hands out buf before it reads from the connection, whatever the
// deadlines are.
type replayConn struct {
	net.Conn
	buf []byte
}

func (c *replayConn) Read(p []byte) (int, error) {
	if len(c.buf) > 0 {
		n := copy(p, c.buf)
		c.buf = c.buf[n:]
		return n, nil
	}
	return c.Conn.Read(p)
}

// hookCtx is a context whose methods are control points: the simulator may
// act (cancel, yield) at the moment the code under test consults its context.
type hookCtx struct {
	context.Context
	onCall func(method string)
}

func (h *hookCtx) Err() error {
	e := h.Context.Err()
	h.onCall("Err")
	return e
}

func (h *hookCtx) Done() <-chan struct{} {
	d := h.Context.Done()
	h.onCall("Done")
	return d
}

func (h *hookCtx) Deadline() (time.Time, bool) {
	d, ok := h.Context.Deadline()
	h.onCall("Deadline")
	return d, ok
}

func executeCtx(t *testing.T, prop string, seed uint64, p *CtxPlan) *core.Result {
	if p.Siblings > 0 {
		return executeSiblings(t, prop, seed, p)
	}
	res := &core.Result{Arbitrated: true}
	cryptotest.SetGlobalRandom(t, seed)
	b, err := buildScript(seed, &p.Base)
	if err != nil {
		if err == errSkip {
			res.Probe("scenario_skipped")
			return res
		}
		res.Harness = "buildScript: " + err.Error()
		return res
	}
	rec := b.outerRec
	old := runtime.GOMAXPROCS(0)
	if p.Procs > 0 {
		runtime.GOMAXPROCS(p.Procs)
		defer runtime.GOMAXPROCS(old)
	}
	var log []string
	stage := "start"
	msg := core.Bubble(t, func(t *testing.T) {
		w := simnet.NewWorld(seed)
		var parkedCancel []context.CancelFunc
		var parkedDone []chan struct{}
		for i := 0; i < p.Parked; i++ {
			_, pf := w.Pipe(fmt.Sprintf("pc%d", i), fmt.Sprintf("pf%d", i), simnet.LinkCfg{Seg: simnet.SegWhole}, simnet.LinkCfg{Seg: simnet.SegWhole})
			pctx, pcancel := context.WithCancel(context.Background())
			d := make(chan struct{})
			parkedCancel, parkedDone = append(parkedCancel, pcancel), append(parkedDone, d)
			go func() {
				defer close(d)
				core.Guard(func() { ech.NewConn(pctx, pf, keyOptions(b.keys)...) })
			}()
		}
		if p.Parked > 0 {
			synctest.Wait()
			res.Probe("other_connections_parked_in_newconn")
		}
		reps := max(1, p.Reps)
		for rep := 0; rep < reps; rep++ {
			core.Beat()
			res.Evals++
			stage = fmt.Sprintf("rep %d", rep)
			name := fmt.Sprintf("%d", rep)
			cfg := simnet.LinkCfg{Seg: simnet.SegWhole, LatMinUs: p.LatUs, LatMaxUs: p.LatUs}
			if p.Frags > 1 {
				cfg = simnet.LinkCfg{Seg: simnet.SegRandom, MaxSeg: max(1, len(rec)/p.Frags), LatMinUs: p.LatUs, LatMaxUs: p.LatUs + 50}
			}
			back := simnet.LinkCfg{Seg: simnet.SegWhole}
			if p.ZeroWindow && p.Blocked {
				back.Window = -1
			}
			cc, fc := w.Pipe("c"+name, "f"+name, cfg, back)
			if p.SlowDeadline > 0 {
				fc.DeadlineHook = func(t time.Time) {
					if !t.IsZero() {
						for i := 0; i < p.SlowDeadline; i++ {
							runtime.Gosched()
						}
					}
				}
			}

			if p.Blocked {
				// (a) the context ends while NewConn is blocked on an incomplete hello
				if p.Malformed {
					bad := append([]byte(nil), rec...)
					bad[0] = 23
					cc.Write(bad)
				} else {
					cc.Write(rec[:min(p.BlockedBytes, len(rec)-1)])
				}
				end := time.Duration(p.EndUs) * time.Microsecond
				var ctx context.Context
				var cancel context.CancelFunc
				switch p.EndKind {
				case "timeout":
					ctx, cancel = context.WithTimeout(context.Background(), end)
				case "cancel-under-deadline":
					// a deadline far away and a cancellation long before it (a child of
					// a context with a deadline, a request that is given up)
					ctx, cancel = context.WithTimeout(context.Background(), end+time.Hour)
					time.AfterFunc(end, cancel)
				case "pre":
					// the context is over before the call
					end = 0
					ctx, cancel = context.WithCancel(context.Background())
					cancel()
					if p.SlowDeadline > 0 {
						// ... and whoever touches the deadlines is slow to take effect
						var lifting sync.Mutex
						fc.DeadlineHook = func(t time.Time) {
							if t.IsZero() && lifting.TryLock() {
								// a lift takes effect once everybody else has had their turn
								// (whoever arms a deadline for the ended context goes first)
								synctest.Wait()
								lifting.Unlock()
								return
							}
							for i := 0; i < p.SlowDeadline; i++ {
								runtime.Gosched()
							}
						}
					}
				default:
					ctx, cancel = context.WithCancel(context.Background())
					time.AfterFunc(end, cancel)
				}
				start := time.Now()
				var nerr error
				pk, m, s := core.Guard(func() { _, nerr = ech.NewConn(ctx, fc, keyOptions(b.keys)...) })
				el := time.Since(start)
				cancel()
				switch {
				case pk:
					res.Fail(prop, "panic", s+": "+normMsg(m), "blocked NewConn")
				case nerr == nil:
					res.Fail(prop, "ctx", "NewConn succeeded on an incomplete hello", "")
				case p.Malformed && el > end:
					res.Fail(prop, "ctx", "NewConn still blocked after its context ended (peer does not read the alert)", "context ended (%s) after %v, NewConn returned after %v", p.EndKind, end, el)
				case p.Malformed:
				case el != end:
					res.Fail(prop, "ctx", "blocked NewConn did not fail promptly when its context ended", "context ended (%s) after %v, NewConn returned after %v", p.EndKind, end, el)
				}
				res.Probe("ctx_end_while_blocked")
				fc.Close()
				cc.Close()
				log = append(log, fmt.Sprintf("blocked %v %v", nerr != nil, el))
				continue
			}

			ctx, cancel := context.WithCancel(context.Background())
			if p.NoDeadlines {
				fc.DeadlineErr = errors.ErrUnsupported
				res.Probe("transport_without_deadlines")
			} else if p.HalfDeadlines {
				fc.DeadlineWriteErr = fmt.Errorf("write half: %w", os.ErrNoDeadline)
				res.Probe("transport_with_read_deadlines_only")
			}
			cc.Write(rec)
			if p.Buffered || p.After == "timeout-after" {
				// let the whole hello reach the front's receive buffer first
				for int(fc.In().Delivered()) < len(rec) {
					time.Sleep(100 * time.Microsecond)
				}
				synctest.Wait()
			}
			if p.After == "timeout-after" {
				// the hello is already buffered: NewConn returns in this very
				// instant, the context expires strictly later
				cancel()
				ctx, cancel = context.WithTimeout(context.Background(), time.Duration(p.DelayUs+1)*time.Microsecond)
			}
			endedDuring := false
			var asyncDone chan struct{}
			var releaseAsync func()
			if p.InRead == "cancel-async" {
				var fired atomic.Bool
				firedCh := make(chan struct{})
				asyncDone = make(chan struct{})
				go func() {
					defer close(asyncDone)
					<-firedCh // parked (durably) until the hello is being handed over
					// the cancel sweeps the time NewConn needs to finish, repetition by repetition
					n := p.Spin * (rep + 1) / reps
					for i := 0; i < n; i++ {
						if fired.Load() && i < 0 {
							return
						}
					}
					cancel()
				}()
				releaseAsync = func() {
					if !fired.Swap(true) {
						close(firedCh)
					}
				}
				fc.ReadHook = func(avail int) {
					if int(fc.In().Delivered()) >= len(rec) && !fired.Load() {
						endedDuring = true
						releaseAsync()
					}
				}
			} else if p.InRead == "cancel-on-ctx-call" {
				// once the hello has been handed over, the context ends at the very
				// moment NewConn next consults it (right after that call's answer)
				var armed, fired atomic.Bool
				inner, innerCancel := ctx, cancel
				ctx = &hookCtx{Context: inner, onCall: func(string) {
					if armed.Load() && !fired.Swap(true) {
						endedDuring = true
						innerCancel()
						for i := 0; i < 50; i++ {
							runtime.Gosched()
						}
					}
				}}
				fc.ReadHook = func(avail int) {
					if int(fc.In().Delivered()) >= len(rec) {
						armed.Store(true)
					}
				}
			} else if p.InRead != "none" {
				fc.ReadHook = func(avail int) {
					// fire when the last bytes of the hello are about to be handed over
					if int(fc.In().Delivered()) >= len(rec) && !endedDuring {
						endedDuring = true
						cancel()
						if p.InRead == "cancel-gosched" {
							runtime.Gosched()
						}
					}
				}
			}
			var tr net.Conn = fc
			if p.Replay {
				for int(fc.In().Delivered()) < len(rec) {
					time.Sleep(100 * time.Microsecond)
				}
				synctest.Wait()
				peeked := make([]byte, len(rec))
				if _, err := io.ReadFull(fc, peeked); err != nil {
					res.Harness = "peeking the hello: " + err.Error()
					cancel()
					return
				}
				tr = &replayConn{Conn: fc, buf: peeked}
				cancel() // over before the call
				endedDuring = true
				res.Probe("context_over_before_the_call_hello_replayed")
			}
			var conn *ech.Conn
			var nerr error
			pk, m, s := core.Guard(func() { conn, nerr = ech.NewConn(ctx, tr, keyOptions(b.keys)...) })
			retSeq := w.Seq()
			fc.ReadHook = nil
			if asyncDone != nil {
				releaseAsync() // in case NewConn never reached the hello
				<-asyncDone
			}
			if pk {
				res.Fail(prop, "panic", s+": "+normMsg(m), "NewConn")
				cancel()
				continue
			}
			// another client of the same process is still waiting in its own NewConn
			// while this connection's context ends
			var second func()
			if p.SecondConn && nerr == nil {
				cc2, fc2 := w.Pipe("c"+name+"b", "f"+name+"b", simnet.LinkCfg{Seg: simnet.SegWhole}, simnet.LinkCfg{Seg: simnet.SegWhole})
				ctx2, cancel2 := context.WithCancel(context.Background())
				done2 := make(chan struct{})
				var conn2 *ech.Conn
				var err2 error
				var pk2 string
				go func() {
					defer close(done2)
					if p, m, s := core.Guard(func() { conn2, err2 = ech.NewConn(ctx2, fc2, keyOptions(b.keys)...) }); p {
						pk2 = s + ": " + normMsg(m)
					}
				}()
				synctest.Wait() // parked in its read
				res.Probe("second_connection_waiting_in_newconn")
				second = func() {
					cc2.Write(rec)
					<-done2
					cancel2()
					switch {
					case pk2 != "":
						res.Fail(prop, "panic", pk2, "NewConn of a second connection")
					case err2 != nil:
						res.Fail(prop, "ctx", "NewConn of a second connection fails although its own context is alive: "+normErr(err2), "the first connection's context ended meanwhile (%s)", p.After)
					default:
						for _, d := range fc2.DeadlineCalls() {
							if !d.T.IsZero() {
								res.Fail(prop, "ctx", "deadline set on a connection whose context never ended", "%s(%v) on the second connection", d.Kind, d.T.Sub(w.T0))
								break
							}
						}
						_ = conn2
					}
					fc2.Close()
					cc2.Close()
				}
			}
			switch p.After {
			case "cancel":
				cancel()
			case "gosched-cancel":
				runtime.Gosched()
				cancel()
			case "cancel-gosched":
				cancel()
				runtime.Gosched()
			case "delay-cancel":
				time.Sleep(time.Duration(p.DelayUs) * time.Microsecond)
				cancel()
			case "timeout-after":
				// expires on its own, strictly after the return
			}
			if nerr != nil {
				if !endedDuring {
					res.Fail(prop, "ctx", "NewConn failed although its context was alive: "+normErr(nerr), "")
				}
				res.Probe("ctx_end_during_newconn_failed")
				fc.Close()
				cc.Close()
				cancel()
				continue
			}
			// the connection handed out is the one the hello asks for, whenever the
			// context ended: it bounds the reading, not what is made of what was read
			if p.Base.Expect != "passthrough" && !p.Base.NoECH {
				if !conn.ECHAccepted() || conn.ServerName() != b.inner.SNI() {
					when := "context alive throughout"
					if endedDuring {
						when = "context ended while NewConn was finishing (" + p.InRead + ")"
					}
					res.Fail(prop, "ctx", "NewConn succeeds with a connection that is not what the hello it read asks for", "accepted=%v name=%q, the hello is sealed to a configured key for %q; %s", conn.ECHAccepted(), conn.ServerName(), b.inner.SNI(), when)
				}
			}
			// long after: the connection must be unaffected
			time.Sleep(time.Hour)
			synctest.Wait()
			// whenever the context ended: once NewConn has returned successfully
			// nothing may touch the connection's deadlines any more
			deadlinesUntouched := func(phase string) {
				for _, d := range fc.DeadlineCalls() {
					if d.Seq > retSeq {
						when := "after the return (" + p.After + ")"
						if endedDuring {
							when = "while NewConn was finishing (" + p.InRead + ")"
						}
						res.Fail(prop, "ctx", "deadline set on the connection after NewConn returned successfully", "%s(%v) at virtual +%v; context ended %s; seen %s", d.Kind, d.T.Sub(w.T0), time.Duration(d.At), when, phase)
						break
					}
				}
			}
			deadlinesUntouched("an hour after the return")
			if endedDuring {
				res.Probe("ctx_end_during_newconn_ok")
			} else {
				res.Probe("ctx_end_after_return")
			}
			{
				// the context bounds ONLY the reading of the first hello: a
				// connection NewConn handed out successfully must work, whenever
				// its context ended
				// later I/O works
				extra := echbox.Record(23, 0x0303, []byte("later"))
				if p.HRRLater && conn.ECHAccepted() {
					// the backend asks for a retry long after the context ended: the
					// Conn waits for the second hello with no context to go by
					if _, werr := conn.Write(hrrRecord(seed)); werr != nil {
						res.Fail(prop, "ctx", "Conn.Write(HelloRetryRequest) fails after the NewConn context ended: "+normErr(werr), "")
					}
					res.Probe("hrr_after_ctx_end")
					cc.Write(echbox.Record(20, 0x0303, []byte{1}))
				}
				cc.Write(extra)
				buf := make([]byte, 70000)
				var got []byte
				var rerr error
				core.Guard(func() {
					for !bytes.HasSuffix(got, extra) {
						n, err := conn.Read(buf)
						got = append(got, buf[:n]...)
						if err != nil {
							rerr = err
							break
						}
					}
				})
				when := "after " + p.After
				if endedDuring {
					when = "context ended while NewConn was finishing (" + p.InRead + ")"
				}
				if rerr != nil {
					res.Fail(prop, "ctx", "Conn.Read fails after the NewConn context ended: "+normErr(rerr), "%s", when)
				}
				if _, werr := conn.Write(extra); werr != nil {
					res.Fail(prop, "ctx", "Conn.Write fails after the NewConn context ended: "+normErr(werr), "%s", when)
				}
			}
			time.Sleep(time.Hour)
			synctest.Wait()
			deadlinesUntouched("after the later I/O")
			if second != nil {
				second()
			}
			// a deadline of the owner's own, long after the context ended: it
			// expires like any read deadline (a timeout, nothing else)
			if !p.NoDeadlines {
				conn.SetReadDeadline(time.Now().Add(time.Second))
				var derr error
				core.Guard(func() { _, derr = conn.Read(make([]byte, 16)) })
				// (crypto/tls and net/http test the error with a plain type assertion)
				ne, isNet := derr.(net.Error)
				if derr == nil || !errors.Is(derr, os.ErrDeadlineExceeded) || !isNet || !ne.Timeout() || errors.Is(derr, context.Canceled) || errors.Is(derr, context.DeadlineExceeded) {
					res.Fail(prop, "ctx", "a read deadline set by the owner after the context ended is not reported as a timeout", "Read returned %v", derr)
				}
				conn.SetReadDeadline(time.Time{})
			}
			cancel()
			fc.Close()
			cc.Close()
			log = append(log, fmt.Sprintf("rep %v", nerr != nil))
		}
		for i := range parkedCancel {
			parkedCancel[i]()
			<-parkedDone[i]
		}
		stage = "teardown"
		res.SimNs = w.Now()
		w.Shutdown()
		synctest.Wait()
		lib, other := core.Leaked()
		if len(lib) > 0 {
			res.Fail(prop, "goroutine-leak", strings.Join(lib, ","), "goroutine of NewConn left after quiescence")
		}
		if len(other) > 0 {
			res.Harness = "goroutines left: " + strings.Join(other, ",")
		}
	})
	if msg != "" {
		if strings.Contains(msg, "deadlock: all goroutines") {
			res.Fail(prop, "ctx", "NewConn (or later I/O) blocks forever", "%s: %s", stage, firstLine(msg))
		} else {
			res.Harness = "bubble: " + firstLine(msg)
		}
	}
	res.NonTrivial = res.Harness == ""
	res.Sig = core.SigOf("ctx", fmt.Sprint(p.Buffered), fmt.Sprint(p.Frags), fmt.Sprint(p.Blocked), p.EndKind, p.InRead, p.After, fmt.Sprint(p.Procs), core.SizeClass(p.DelayUs), core.SizeClass(p.BlockedBytes))
	res.LogHash = core.HashLog(log)
	res.FaultN("ctx_end", res.Evals)
	res.Sample = map[string]any{"kind": "ctx", "buffered": p.Buffered, "blocked": p.Blocked, "in_read": p.InRead, "after": p.After, "procs": p.Procs, "reps": p.Reps}
	return res
}

func genC10(seed uint64, idx int) *Plan {
	r := core.NewRand(seed, "plan")
	b := genScriptBase(r)
	b.Chunks, b.ReadBuf, b.Trailer = nil, 0, nil
	b.ExtraIn, b.ExtraOut, b.MaxData, b.Pad = min(b.ExtraIn, 3), min(b.ExtraOut, 3), 8, min(b.Pad, 16)
	if r.IntN(4) == 0 {
		b.NoECH, b.Expect = true, "passthrough"
	}
	c := &CtxPlan{Base: *b, InRead: "none", After: "none"}
	if idx%16 == 11 {
		c.Siblings = 3 + r.IntN(4)
		c.EndKind = []string{"cancel", "timeout"}[r.IntN(2)]
		c.Reps = 8
		c.StallOne = idx%32 == 11
		return &Plan{Kind: "ctx", Seed: seed, Ctx: c}
	}
	c.Procs = []int{1, 2, 4, 16}[idx%4]
	c.Reps = 24
	c.Buffered = r.IntN(2) == 0
	c.Frags = 1 + r.IntN(6)
	c.LatUs = []int{0, 10, 1000, 50000}[r.IntN(4)]
	c.HRRLater = (idx/32)%2 == 1
	c.Replay = idx%9 == 4 && (idx/4)%8 < 5
	c.SecondConn = idx%3 == 1 && (idx/4)%8 < 6
	if idx%5 == 2 {
		c.Parked = 20
	}
	c.NoDeadlines = (idx/64)%2 == 1 && (idx/4)%8 < 6
	c.HalfDeadlines = !c.NoDeadlines && (idx%7 == 3 && (idx/4)%8 < 5 || idx%2 == 1 && (idx/4)%8 == 5)
	// the action grid
	switch (idx / 4) % 8 {
	case 0:
		c.After = "cancel"
	case 1:
		c.After = "gosched-cancel"
	case 2:
		c.After = "cancel-gosched"
	case 3:
		c.After = "delay-cancel"
		c.DelayUs = []int{1, 100, 100000}[r.IntN(3)]
	case 4:
		c.After = "timeout-after"
		c.DelayUs = r.IntN(1000)
	case 5:
		c.InRead = []string{"cancel", "cancel-gosched", "cancel-async", "cancel-on-ctx-call", "cancel-on-ctx-call"}[r.IntN(5)]
		c.After = []string{"none", "cancel"}[r.IntN(2)]
		c.SlowDeadline = []int{0, 10, 200}[r.IntN(3)]
		if c.InRead == "cancel-async" {
			c.Spin = []int{1000, 100000, 400000, 1000000}[r.IntN(4)]
			c.Reps = 48
			if c.Procs == 1 {
				c.Procs = 4
			}
			if (idx/32)%2 == 0 {
				// many quick repetitions: the cancellation sweeps the return path of
				// NewConn (a window of a few instructions on another processor)
				c.Reps = 2400
				c.Buffered, c.Frags, c.LatUs = true, 1, 0
				c.Spin = []int{2000, 20000, 60000, 150000}[r.IntN(4)]
			}
		}
	case 6, 7:
		c.Blocked = true
		c.BlockedBytes = r.IntN(400)
		c.EndUs = 1 + r.IntN(5000000)
		c.EndKind = []string{"cancel", "timeout", "cancel-under-deadline", "pre"}[r.IntN(4)]
		if c.EndKind == "pre" {
			c.SlowDeadline = []int{0, 3, 50}[r.IntN(3)]
			c.Reps = 12
		}
		c.ZeroWindow = r.IntN(2) == 0
		c.Malformed = c.ZeroWindow && r.IntN(2) == 0
		if c.EndKind != "pre" {
			c.Reps = 4
		}
	}
	return &Plan{Kind: "ctx", Seed: seed, Ctx: c}
}

func shrinkCtx(p *Plan) []*Plan {
	var out []*Plan
	c := p.Ctx
	if c.Reps > 24 {
		q := p.clone()
		q.Ctx.Reps = 24
		out = append(out, q)
	}
	if c.Frags > 1 || c.LatUs > 0 {
		q := p.clone()
		q.Ctx.Frags, q.Ctx.LatUs = 1, 0
		out = append(out, q)
	}
	if !c.Buffered && !c.Blocked {
		q := p.clone()
		q.Ctx.Buffered = true
		out = append(out, q)
	}
	if c.Base.ExtraIn > 0 || c.Base.ExtraOut > 0 {
		q := p.clone()
		q.Ctx.Base.ExtraIn, q.Ctx.Base.ExtraOut = 0, 0
		out = append(out, q)
	}
	return out
}
