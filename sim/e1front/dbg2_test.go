package e1front

import (
	"encoding/json"
	"os"
	"strconv"
	"testing"
)

func TestShowPlan(t *testing.T) {
	prop := os.Getenv("VERIF_DBG_PROP")
	if prop == "" || os.Getenv("VERIF_DBG_SHOW") == "" {
		t.Skip()
	}
	i, _ := strconv.Atoi(os.Getenv("VERIF_DBG_FROM"))
	p := Engine{}.Generate(prop, "quick", 1, i)
	b, _ := json.Marshal(p)
	t.Logf("%s", b)
}
