package e1front

import (
	"context"
	"encoding/binary"
	"fmt"
	"math/rand/v2"
	"runtime"
	"slices"
	"strings"
	"sync/atomic"
	"testing"
	"testing/cryptotest"
	"testing/synctest"
	"time"

	"github.com/c2FmZQ/ech"

	"verifsim/core"
	"verifsim/echbox"
	"verifsim/simnet"
)

// StallPlan (C08, enumerated): the client delivers the first k bytes of its
// first record and then nothing, for every k, under a context deadline on the
// virtual clock.
type StallPlan struct {
	Base      ScriptPlan `json:"base"`
	TimeoutMs int        `json:"timeout_ms"`
	LateMs    int        `json:"late_ms"` // >0: the rest of the record arrives this long after the deadline
	Seg       string     `json:"seg"`
	// ZeroWindow: the client never reads and its receive window is closed, so
	// anything the front writes to it (the alert) blocks like on a full TCP
	// send buffer.
	ZeroWindow bool `json:"zero_window,omitempty"`
	// Malformed: the bytes are those of a record NewConn must refuse (the
	// stall is then the client not reading the alert).
	Malformed bool `json:"malformed,omitempty"`
	Only      *int `json:"only,omitempty"`
	Hint      *int `json:"hint,omitempty"`
}

func executeStall(t *testing.T, prop string, seed uint64, p *StallPlan) *core.Result {
	res := &core.Result{}
	cryptotest.SetGlobalRandom(t, seed)
	b, err := buildScript(seed, &p.Base)
	if err != nil {
		if err == errSkip {
			res.Probe("scenario_skipped")
			return res
		}
		res.Harness = "buildScript: " + err.Error()
		return res
	}
	rec := b.outerRec
	if p.Malformed {
		rec = append([]byte(nil), rec...)
		rec[0] = 23 // not a handshake record: unexpected_message
	}
	T := time.Duration(p.TimeoutMs) * time.Millisecond
	curK := -1
	var log []string
	msg := core.Bubble(t, func(t *testing.T) {
		w := simnet.NewWorld(seed)
		lo, hi := 0, len(rec)
		if p.Only != nil {
			lo, hi = *p.Only, *p.Only
		}
		back := simnet.LinkCfg{Seg: simnet.SegWhole}
		if p.ZeroWindow {
			back.Window = -1
		}
		for k := lo; k <= hi; k++ {
			curK = k
			core.Beat()
			res.Evals++
			cc, fc := w.Pipe(fmt.Sprintf("c%d", k), fmt.Sprintf("f%d", k), simnet.LinkCfg{Seg: p.Seg, MaxSeg: 50, LatMinUs: 10, LatMaxUs: 300}, back)
			cc.Write(rec[:k])
			if p.LateMs > 0 && k < len(rec) {
				go func() {
					time.Sleep(T + time.Duration(p.LateMs)*time.Millisecond)
					cc.Write(rec[k:])
				}()
			}
			ctx, cancel := context.WithTimeout(context.Background(), T)
			start := time.Now()
			var conn *ech.Conn
			var nerr error
			pk, m, s := core.Guard(func() { conn, nerr = ech.NewConn(ctx, fc, keyOptions(b.keys)...) })
			el := time.Since(start)
			cancel()
			hint := func() {
				if p.Hint == nil {
					kk := k
					p.Hint = &kk
				}
			}
			switch {
			case pk:
				hint()
				res.Fail(prop, "panic", s+": "+normMsg(m), "stall after %d of %d bytes", k, len(rec))
			case p.Malformed && k == len(rec) && (nerr == nil || el > T+time.Millisecond):
				hint()
				res.Fail(prop, "stall", "NewConn does not return by its deadline when the client does not read the alert", "malformed record, err=%v after %v (deadline %v)", nerr, el, T)
			case p.Malformed && k == len(rec):
			case k < len(rec) && nerr == nil:
				hint()
				res.Fail(prop, "stall", "NewConn succeeded on an incomplete record", "stall after %d of %d bytes", k, len(rec))
			case k < len(rec) && el > T+time.Millisecond:
				hint()
				res.Fail(prop, "stall", "NewConn returned later than its context deadline", "stall after %d of %d bytes: returned after %v, deadline %v", k, len(rec), el, T)
			case k == len(rec) && nerr != nil && el < T:
				hint()
				res.Fail(prop, "stall", "NewConn failed on a complete record", "err=%v after %v", nerr, el)
			}
			if k < len(rec) {
				res.Fault(simnet.Stall)
			}
			_ = conn
			fc.Close()
			cc.Close()
			log = append(log, fmt.Sprintf("%d %v %v", k, nerr != nil, el))
			for _, l := range []*simnet.Link{fc.Out()} {
				res.FaultN("write_blocked_by_zero_window", l.FiredCounts()["write_blocked"])
			}
			res.Sigs = append(res.Sigs, core.SigOf("stall", fmt.Sprint(p.ZeroWindow, p.Malformed), region(rec, k), fmt.Sprint(min(k, 10)), fmt.Sprint(p.LateMs > 0), p.Seg, fmt.Sprint(seed)))
		}
		curK = -2
		res.SimNs = w.Now()
		w.Shutdown()
		// late writers may still be asleep
		time.Sleep(T + time.Duration(p.LateMs+10)*time.Millisecond)
		synctest.Wait()
		lib, other := core.Leaked()
		if len(lib) > 0 {
			res.Fail(prop, "goroutine-leak", strings.Join(lib, ","), "after all stalled NewConn calls returned")
		}
		if len(other) > 0 {
			res.Harness = "goroutines left: " + strings.Join(other, ",")
		}
	})
	if msg != "" {
		if strings.Contains(msg, "deadlock: all goroutines") && curK >= 0 {
			k := curK
			p.Hint = &k
			res.Fail(prop, "stall", "NewConn never returns although its context has a deadline", "stall after %d of %d bytes", curK, len(rec))
		} else {
			res.Harness = "bubble: " + firstLine(msg)
		}
	}
	res.NonTrivial = res.Harness == ""
	res.Sig = core.SigOf("stallplan", fmt.Sprint(len(rec)), p.Seg, fmt.Sprint(p.LateMs))
	res.LogHash = core.HashLog(log)
	res.Sample = map[string]any{"kind": "stall", "record_bytes": len(rec), "timeout_ms": p.TimeoutMs, "late_ms": p.LateMs, "offsets": res.Evals}
	return res
}

func shrinkStall(p *Plan) []*Plan {
	if p.Stall.Only == nil && p.Stall.Hint != nil {
		q := p.clone()
		q.Stall.Only = q.Stall.Hint
		return []*Plan{q}
	}
	return nil
}

// HostilePlan (C08): hostile byte strings on both sides of a Conn.
type HostilePlan struct {
	Base      ScriptPlan `json:"base"`
	Muts      []HMut     `json:"muts"`           // mutations of the first record
	Tail      []HRec     `json:"tail,omitempty"` // what follows on the client side
	Back      []HRec     `json:"back,omitempty"` // what the backend writes
	BackFirst bool       `json:"back_first"`     // write the backend bytes before reading on
	Chunks    []int      `json:"chunks,omitempty"`
	WSplit    []int      `json:"wsplit,omitempty"`
	NoKeys    bool       `json:"no_keys,omitempty"`
	RawFirst  []byte     `json:"raw_first,omitempty"` // replace the first record by these bytes entirely
	// Churn > 0: another kind of run - that many well-behaved connections, one
	// after the other, under one long-lived context (see executeChurn).
	Churn int `json:"churn,omitempty"`
	// WriteOn > 0: the backend side keeps calling Write after Write has returned
	// an error - that many further calls of 8 KiB each - and what the Conn holds
	// afterwards is measured.
	WriteOn int `json:"write_on,omitempty"`
}

type HMut struct {
	Kind string `json:"kind"`
	A    int    `json:"a"`
	B    int    `json:"b"`
}

// HRec is one hostile record-ish item.
type HRec struct {
	Kind string `json:"kind"` // rec (type/len as given, random payload) | raw | sh | hrr | hello2 | shmut | hellomut
	Type byte   `json:"type,omitempty"`
	Len  int    `json:"len,omitempty"`
	Lie  int    `json:"lie,omitempty"` // added to the length field without adding payload
	Raw  []byte `json:"raw,omitempty"`
	A    int    `json:"a,omitempty"`
}

func mutateRecord(r *rand.Rand, rec []byte, muts []HMut) []byte {
	out := append([]byte(nil), rec...)
	for _, m := range muts {
		if len(out) == 0 {
			break
		}
		switch m.Kind {
		case "flip":
			out[m.A%len(out)] ^= byte(1 << (m.B % 8))
		case "set":
			out[m.A%len(out)] = byte(m.B)
		case "trunc":
			out = out[:m.A%len(out)]
		case "trunc-fix": // truncate and repair the record length
			out = out[:max(5, m.A%len(out))]
			binary.BigEndian.PutUint16(out[3:], uint16(len(out)-5))
		case "append":
			extra := core.Bytes(r, 1+m.A%64)
			out = append(out, extra...)
			if m.B%2 == 0 && len(out) >= 5 && len(out)-5 < 65536 {
				binary.BigEndian.PutUint16(out[3:], uint16(len(out)-5))
			}
		case "reclen":
			if len(out) >= 5 {
				binary.BigEndian.PutUint16(out[3:], uint16(m.A))
			}
		case "hslen":
			if len(out) >= 9 {
				out[6], out[7], out[8] = byte(m.A>>16), byte(m.A>>8), byte(m.A)
			}
		case "u16at": // overwrite a 16-bit field somewhere (lengths live everywhere)
			if len(out) >= 12 {
				binary.BigEndian.PutUint16(out[9+m.A%(len(out)-11):], uint16(m.B))
			}
		case "dup-ext", "drop-ext", "swap-ext", "dup-ech", "ext-edge", "field-edge", "ech-ids":
			h, err := echbox.ParseHelloRecord(out)
			if err != nil || len(h.Exts) == 0 {
				continue
			}
			i := m.A % len(h.Exts)
			switch m.Kind {
			case "ech-ids":
				// the ECH extension names a KDF / AEAD / config id combination from
				// the edges of the registries; everything else stays as it is
				if e := h.Find(echbox.ExtECH); e >= 0 {
					if o, perr := echbox.ParseECHOuter(h.Exts[e].Data); perr == nil {
						ids := []uint16{0, 1, 2, 3, 4, 5, 0x7fff, 0xffff}
						switch m.A % 3 {
						case 0:
							o.AEAD = ids[m.B%len(ids)]
						case 1:
							o.KDF = ids[m.B%len(ids)]
						case 2:
							o.KDF, o.AEAD = ids[m.B%len(ids)], ids[(m.B/8)%len(ids)]
						}
						h.Exts[e].Data = o.Bytes()
					}
				}
			case "ext-edge":
				// the body of one extension (preferring the ones the Conn parses)
				// replaced by a degenerate but length-consistent body
				for _, t := range []uint16{echbox.ExtSNI, 16, echbox.ExtVersions} {
					if k := h.Find(t); k >= 0 && (m.A/8)%4 != 3 && int(t)%3 == (m.A/32)%3 {
						i = k
					}
				}
				h.Exts[i].Data = [][]byte{{}, {0}, {0, 0}, {0, 1, 0}, {0, 3, 0, 0, 0}, {0, 2, 1, 0}, {1, 0}, {0, 4, 0, 0, 1, 0x41}, {0xff, 0xff}, {0, 2, 0, 0}}[m.B%10]
			case "field-edge":
				// degenerate fixed fields: no cipher suites, no compression methods,
				// an over-long session id
				switch m.B % 4 {
				case 0:
					h.CipherSuites = nil
				case 1:
					h.Compression = nil
				case 2:
					h.SessionID = make([]byte, 33+m.A%200)
				case 3:
					h.Compression = []byte{1, 0, 64}
				}
			case "dup-ext":
				h.Exts = slices.Insert(h.Exts, m.B%(len(h.Exts)+1), h.Exts[i])
			case "drop-ext":
				h.Exts = slices.Delete(h.Exts, i, i+1)
			case "swap-ext":
				j := m.B % len(h.Exts)
				h.Exts[i], h.Exts[j] = h.Exts[j], h.Exts[i]
			case "dup-ech":
				if e := h.Find(echbox.ExtECH); e >= 0 {
					d := append([]byte(nil), h.Exts[e].Data...)
					switch (m.B / 7) % 4 {
					case 0: // cut short anywhere
						if len(d) > 1 {
							d = d[:1+m.B%len(d)]
						}
					case 1: // a well-formed extension of type inner
						d = []byte{1}
					case 2: // a well-formed, much shorter extension of type outer
						if eo, err := echbox.ParseECHOuter(d); err == nil {
							eo.Payload = eo.Payload[:min(len(eo.Payload), 1+m.B%24)]
							if m.B%2 == 0 {
								eo.Enc = nil
							}
							d = eo.Bytes()
						}
					case 3: // an exact copy
					}
					pos := e // before the real one
					if m.A%2 == 1 {
						pos = e + 1
					}
					h.Exts = slices.Insert(h.Exts, pos, echbox.Ext{Type: echbox.ExtECH, Data: d})
				}
			}
			if b := h.Record(0x0301); len(b) <= 5+65535 {
				out = b
			}
		}
	}
	return out
}

func hostileBytes(seed uint64, side string, items []HRec, b *built, p *ScriptPlan) []byte {
	r := core.NewRand(seed, "hostile", side)
	var out []byte
	for i, it := range items {
		switch it.Kind {
		case "rec":
			pl := core.Bytes(r, it.Len)
			if it.A > 0 && len(pl) > 0 {
				pl[0] = byte(it.A - 1) // a chosen message type instead of a random one
			}
			rec := echbox.Record(it.Type, 0x0303, pl)
			if it.Lie != 0 {
				binary.BigEndian.PutUint16(rec[3:], uint16(it.Len+it.Lie))
			}
			out = append(out, rec...)
		case "raw":
			out = append(out, it.Raw...)
		case "sh":
			out = append(out, shRecord(seed, i)...)
		case "hrr":
			out = append(out, hrrRecord(core.Mix(seed, "hrr", i))...)
		case "shedge":
			// a well-framed ServerHello (or HelloRetryRequest) whose extensions
			// have degenerate bodies
			rr := core.NewRand(seed, "shedge", i)
			random := core.Bytes(rr, 32)
			if it.A%3 == 0 {
				random = echbox.HRRRandom
			}
			edge := [][]byte{nil, {3}, {3, 4, 0}, {0}, {0, 29}, {0, 29, 0}, {0, 29, 0, 32}, {255, 255}}
			exts := []echbox.Ext{{Type: 43, Data: edge[it.A%3]}, {Type: 51, Data: edge[3+(it.A/3)%5]}}
			switch (it.A / 15) % 4 {
			case 1:
				exts = exts[:1]
			case 2:
				exts = exts[1:]
			case 3:
				exts = append(exts, echbox.Ext{Type: 44, Data: nil}, echbox.Ext{Type: 0xfe0d, Data: []byte{1, 2, 3}})
			}
			out = append(out, echbox.ServerHello(random, core.Bytes(rr, []int{0, 32, 1}[(it.A/60)%3]), 0x1301, exts)...)
		case "shmut":
			base := shRecord(seed, i)
			if it.A%2 == 0 {
				base = hrrRecord(core.Mix(seed, "hrr", i))
			}
			out = append(out, mutateRecord(r, base, []HMut{{Kind: []string{"flip", "trunc", "trunc-fix", "u16at", "hslen", "reclen", "append"}[it.A%7], A: r.IntN(1 << 16), B: r.IntN(1 << 16)}})...)
		case "hello2", "hellomut", "hello2less":
			if b == nil || b.sealer == nil {
				continue
			}
			hc := &histClient{p: p, b: b, seed: seed, n: i, sendSeq: 1}
			if it.Kind == "hello2less" {
				// a retried hello whose inner hello has one extension fewer
				if rec, _, _, _, err := hc.hello2("hello2-ok", 2+4*it.A, true); err == nil {
					out = append(out, rec...)
				}
				continue
			}
			kind := "hello2-ok"
			if it.Kind == "hello2" && it.A%3 == 2 {
				kind = "hello2-nover"
			}
			if it.Kind == "hello2" && it.A%5 == 4 {
				kind = "hello2-inner-edge"
			}
			rec, _, _, _, err := hc.hello2(kind, it.A/5, it.A%2 == 0 || kind == "hello2-inner-edge")
			if err != nil {
				continue
			}
			if it.Kind == "hellomut" {
				rec = mutateRecord(r, rec, []HMut{{Kind: []string{"flip", "trunc", "trunc-fix", "u16at", "hslen", "reclen", "dup-ech", "drop-ext", "dup-ext"}[it.A%9], A: r.IntN(1 << 16), B: r.IntN(1 << 16)}})
			}
			out = append(out, rec...)
		}
	}
	return out
}

// executeChurn: many connections come and go under ONE long-lived context (a
// server's base context). What a finished connection leaves behind must not
// grow with the number of connections served: after they are closed and
// dropped, their transports are collectable.
func executeChurn(t *testing.T, prop string, seed uint64, p *HostilePlan) *core.Result {
	res := &core.Result{Evals: 1}
	cryptotest.SetGlobalRandom(t, seed)
	b, err := buildScript(seed, &p.Base)
	if err != nil {
		if err == errSkip {
			res.Probe("scenario_skipped")
			return res
		}
		res.Harness = "buildScript: " + err.Error()
		return res
	}
	ctx, cancel := context.WithCancel(context.Background())
	defer cancel()
	var released atomic.Int64
	n := p.Churn
	pk, msg, site := core.Guard(func() {
		for i := 0; i < n; i++ {
			sc := simnet.NewScript(append(append([]byte(nil), b.outerRec...), echbox.Record(23, 0x0303, []byte("data"))...))
			runtime.SetFinalizer(sc, func(*simnet.ScriptConn) { released.Add(1) })
			conn, err := ech.NewConn(ctx, sc, keyOptions(b.keys)...)
			if err != nil {
				continue
			}
			buf := make([]byte, 4096)
			for {
				if _, err := conn.Read(buf); err != nil {
					break
				}
			}
			conn.Close()
		}
	})
	if pk {
		res.Fail(prop, "panic", site+": "+normMsg(msg), "%d connections under one context", n)
		return res
	}
	for i := 0; i < 20 && released.Load() < int64(n)/2; i++ {
		runtime.GC()
		time.Sleep(2 * time.Millisecond)
	}
	if got := released.Load(); got < int64(n)/4 {
		res.Fail(prop, "balloon", "finished connections stay reachable while the context they were accepted under lives", "%d connections accepted, read to the end and closed under one long-lived context: the transports of only %d of them could be collected afterwards", n, got)
	}
	res.Probe("connections_churned_under_one_context")
	res.NonTrivial = true
	res.Arbitrated = true
	res.Sig = core.SigOf("churn", fmt.Sprint(p.Base.NoECH), fmt.Sprint(p.Base.Grease), fmt.Sprint(n))
	res.Sample = map[string]any{"kind": "churn", "connections": n}
	return res
}

func executeHostile(t *testing.T, prop string, seed uint64, p *HostilePlan) *core.Result {
	if p.Churn > 0 {
		return executeChurn(t, prop, seed, p)
	}
	res := &core.Result{}
	cryptotest.SetGlobalRandom(t, seed)
	var b *built
	first := p.RawFirst
	var keys []ech.Key
	if first == nil {
		var err error
		b, err = buildScript(seed, &p.Base)
		if err != nil {
			if err == errSkip {
				res.Probe("scenario_skipped")
				return res
			}
			res.Harness = "buildScript: " + err.Error()
			return res
		}
		keys = b.keys
		first = mutateRecord(core.NewRand(seed, "mut"), b.outerRec, p.Muts)
	} else {
		keys = echKeys(p.Base.Keys)
	}
	if p.NoKeys {
		keys = nil
	}
	in := append(append([]byte(nil), first...), hostileBytes(seed, "c", p.Tail, b, &p.Base)...)
	back := hostileBytes(seed, "b", p.Back, b, &p.Base)
	sc := simnet.NewScript(in)
	sc.Chunks = p.Chunks
	// how deep the library's own calls nest when it reaches for more input: a
	// constant, whatever the input was so far
	deepest, reads := 0, 0
	sc.OnRead = func() {
		if reads++; reads%16 == 0 {
			var pcs [192]uintptr
			deepest = max(deepest, runtime.Callers(0, pcs[:]))
		}
	}
	calls := 0
	var ms0, ms1 runtime.MemStats
	runtime.ReadMemStats(&ms0)
	var outcome string
	zero, consumedAtZero := 0, -1
	pk, msg, site := core.Guard(func() {
		conn, err := ech.NewConn(context.Background(), sc, keyOptions(keys)...)
		calls++
		// whatever NewConn does with a hello that spans records, it decides
		// having taken in a small multiple of the largest record - not as much
		// as a length field announces
		if took := sc.Pos(); took > newConnInputBound {
			res.Fail(prop, "balloon", "NewConn takes in far more than a small multiple of the largest record before it returns", "%d bytes consumed from the client (bound %d = 8 records of the largest size), returned err=%v", took, newConnInputBound, err)
		}
		if err != nil {
			outcome = "newconn-error"
			return
		}
		outcome = "newconn-ok"
		buf := make([]byte, 4096)
		writeBack := func() {
			k, pos := 0, 0
			for pos < len(back) {
				n := len(back) - pos
				if len(p.WSplit) > 0 {
					n = min(n, max(1, p.WSplit[k%len(p.WSplit)]))
					k++
				}
				calls++
				wn, werr := conn.Write(back[pos : pos+n])
				if wn < 0 || wn > n || (wn < n && werr == nil) {
					res.Fail(prop, "io-contract", "Write return values violate io.Writer", "n=%d of %d err=%v", wn, n, werr)
				}
				if werr != nil {
					if p.WriteOn > 0 {
						// a caller that does not stop at the first error
						junk := make([]byte, 8192)
						for i := range junk {
							junk[i] = byte(i)
						}
						runtime.GC()
						var m0, m1 runtime.MemStats
						runtime.ReadMemStats(&m0)
						for k := 0; k < p.WriteOn; k++ {
							calls++
							if _, e := conn.Write(junk); e == nil {
								break // accepted after all: the ordinary rules apply again
							}
						}
						runtime.GC()
						runtime.ReadMemStats(&m1)
						if grew := int64(m1.HeapAlloc) - int64(m0.HeapAlloc); grew > 8*(5+16384+2048) {
							res.Fail(prop, "balloon", "Write keeps what it refuses: memory held grows with every further call after an error", "%d further Write calls of 8 KiB after the first error: live heap grew by %d bytes", p.WriteOn, grew)
						}
						runtime.KeepAlive(conn)
						res.Probe("writes_after_a_write_error")
					}
					return
				}
				pos += n
				// whatever Write accepted without an error is either with the
				// client or part of ONE record still being assembled: never more
				// than the largest record the Conn lets through
				if held := pos - len(sc.Out); held > 5+16384+2048 {
					res.Fail(prop, "balloon", "Write holds back more than one maximum-size record", "%d bytes accepted from the backend and not forwarded (largest permitted record: %d)", held, 5+16384+2048)
					return
				}
			}
		}
		if p.BackFirst {
			writeBack()
		}
		for i := 0; i < 1<<16; i++ {
			calls++
			n, err := conn.Read(buf)
			if n < 0 || n > len(buf) {
				res.Fail(prop, "io-contract", "Read returned an impossible count", "n=%d", n)
				return
			}
			if err != nil {
				break
			}
			if n == 0 {
				if consumedAtZero == sc.Pos() {
					zero++
				} else {
					zero, consumedAtZero = 1, sc.Pos()
				}
				if zero > 100 {
					res.Fail(prop, "spin", "Read keeps returning (0, nil) without consuming input", "at input offset %d of %d", sc.Pos(), len(in))
					return
				}
			}
		}
		if !p.BackFirst {
			writeBack()
		}
	})
	runtime.ReadMemStats(&ms1)
	if pk {
		res.Fail(prop, "panic", site+": "+normMsg(msg), "hostile input (%d client bytes, %d backend bytes)", len(in), len(back))
	}
	if deepest >= 192 {
		res.Fail(prop, "balloon", "the call stack of Read grows with the number of records taken in", "%d or more frames deep when the transport was read (%d transport reads, %d client bytes)", deepest, reads, len(in))
	}
	alloc := ms1.TotalAlloc - ms0.TotalAlloc
	bound := uint64(1<<20) + uint64(calls)*40*1024 + 16*uint64(len(in)+len(back))
	if alloc > bound {
		res.Fail(prop, "balloon", "allocation far beyond a small multiple of the record size per call", "%d bytes allocated in %d calls for %d input bytes (bound %d)", alloc, calls, len(in)+len(back), bound)
	}
	var kinds []string
	for _, m := range p.Muts {
		kinds = append(kinds, m.Kind)
		res.Fault("mut:" + m.Kind)
	}
	for _, it := range append(append([]HRec(nil), p.Tail...), p.Back...) {
		kinds = append(kinds, it.Kind+fmt.Sprint(it.Type)+core.SizeClass(it.Len)+fmt.Sprint(it.Lie != 0))
		res.Fault("hostile:" + it.Kind)
	}
	res.NonTrivial = res.Harness == ""
	res.Sig = core.SigOf(append([]string{"hostile", outcome, fmt.Sprint(p.BackFirst), fmt.Sprint(p.NoKeys)}, kinds...)...)
	res.LogHash = core.HashLog([]string{outcome, fmt.Sprint(calls), fmt.Sprint(sc.Pos()), fmt.Sprint(len(sc.Out))})
	if outcome == "newconn-ok" {
		res.Probe("hostile_past_newconn")
	}
	res.Sample = map[string]any{"kind": "hostile", "muts": p.Muts, "tail": len(p.Tail), "back": len(p.Back), "outcome": outcome}
	return res
}

const newConnInputBound = 8 * (5 + 16384 + 2048)

var hmutKinds = []string{"flip", "flip", "set", "trunc", "trunc-fix", "append", "reclen", "hslen", "u16at", "u16at", "dup-ext", "drop-ext", "swap-ext", "dup-ech", "ext-edge", "ext-edge", "field-edge", "ech-ids"}

func genHRecs(r *rand.Rand, side string) []HRec {
	n := r.IntN(6)
	var out []HRec
	for i := 0; i < n; i++ {
		switch r.IntN(8) {
		case 0:
			out = append(out, HRec{Kind: "raw", Raw: core.Bytes(r, r.IntN(40))})
		case 1:
			if side == "b" {
				out = append(out, HRec{Kind: []string{"sh", "hrr", "shmut", "shedge", "shedge"}[r.IntN(5)], A: r.IntN(1000)})
			} else {
				out = append(out, HRec{Kind: []string{"hello2", "hellomut"}[r.IntN(2)], A: r.IntN(1000)})
			}
		case 2:
			if side == "b" {
				out = append(out, HRec{Kind: "shmut", A: r.IntN(1000)})
			} else {
				out = append(out, HRec{Kind: "hellomut", A: r.IntN(1000)})
			}
		default:
			it := HRec{Kind: "rec", Type: []byte{20, 21, 22, 22, 23, 0, 24, 255}[r.IntN(8)], Len: []int{0, 0, 1, 2, 3, 4, 5, 40, 300, 16384, 16640, 18432}[r.IntN(12)]}
			if it.Type == 22 && r.IntN(2) == 0 {
				// the edges of the message-type byte, and the types the Conn looks at
				it.A = 1 + []int{0, 1, 2, 3, 4, 5, 6, 8, 11, 13, 15, 20, 24, 25, 127, 128, 253, 254, 255}[r.IntN(19)]
			}
			if r.IntN(4) == 0 {
				it.Lie = []int{1, 5, 100, 18433, 40000, 65000}[r.IntN(6)]
				if it.Len+it.Lie > 65535 {
					it.Lie = 65535 - it.Len
				}
			}
			out = append(out, it)
		}
	}
	return out
}

func genC08(seed uint64, idx int) *Plan {
	r := core.NewRand(seed, "plan")
	if idx%10 == 9 {
		return genDuplex(seed, idx)
	}
	if idx%25 == 0 {
		b := genScriptBase(r)
		b.Chunks, b.ReadBuf, b.Trailer = nil, 0, nil
		b.ExtraIn, b.ExtraOut, b.MaxData, b.Pad = min(b.ExtraIn, 3), min(b.ExtraOut, 3), 8, min(b.Pad, 16)
		if len(b.InnerSNI) > 40 {
			b.InnerSNI = b.InnerSNI[:20] + ".example"
		}
		s := &StallPlan{Base: *b, TimeoutMs: []int{1, 50, 5000, 30000}[r.IntN(4)], Seg: []string{simnet.SegWhole, simnet.SegRandom, simnet.SegByte}[r.IntN(3)]}
		if r.IntN(3) == 0 {
			s.LateMs = 1 + r.IntN(100)
		}
		s.ZeroWindow = r.IntN(2) == 0
		s.Malformed = s.ZeroWindow && r.IntN(3) == 0
		return &Plan{Kind: "stall", Seed: seed, Stall: s}
	}
	b := genScriptBase(r)
	b.Chunks, b.ReadBuf, b.Trailer = nil, 0, nil
	switch r.IntN(4) {
	case 0:
		b.NoECH, b.Expect = true, "passthrough"
	case 1:
		b.Grease, b.Expect = true, "passthrough"
	}
	h := &HostilePlan{Base: *b, BackFirst: r.IntN(2) == 0, NoKeys: r.IntN(5) == 0, Chunks: genChunks(r)}
	if idx%10 == 3 && !b.NoECH && !b.Grease {
		// an authentic payload whose inner hello has one degenerate field (on the
		// first hello, or - every other time - also on the hello after a retry request)
		h.Base.Compress = false
		h.Base.Mutations = []Mutation{{Kind: "inner-edge", A: idx / 10}}
		h.NoKeys = false
		// (should the front let it through: the backend answers all the same)
		h.Back = []HRec{{Kind: "sh"}}
		if (idx/10)%2 == 1 {
			h.Base.Mutations = nil
			h.BackFirst = true
			h.Back = []HRec{{Kind: "hrr"}}
			h.Tail = []HRec{{Kind: "hello2", A: 4 + 5*(idx/20)}}
		}
		return &Plan{Kind: "hostile", Seed: seed, Hostile: h}
	}
	if idx%10 == 6 {
		// a key list whose first entry has a private key that does not parse, and
		// a hello (GREASE is enough) that names its config id and suite
		h.Base.NoECH, h.Base.Grease, h.Base.Expect, h.Base.GreaseNamesBadKey = false, true, "passthrough", true
		bad := h.Base.Target
		bad.KeySeed += 9001
		bad.BadPriv = true
		if (idx/10)%3 == 2 {
			// ... or is a zero Key altogether
			bad.BadPriv, bad.BadConfig, bad.Empty = false, true, true
		}
		h.Base.Keys = append([]KeySpec{bad}, h.Base.Keys...)
		h.NoKeys, h.Muts, h.RawFirst = false, nil, nil
		return &Plan{Kind: "hostile", Seed: seed, Hostile: h}
	}
	if idx%25 == 7 && !b.NoECH && !b.Grease {
		// decompression bomb: an authentic hello naming one big outer extension 127 times
		h.Base.Compress, h.Base.ExtraIn = true, max(h.Base.ExtraIn, 4)
		h.Base.Mutations = []Mutation{{Kind: "oe-bomb", A: r.IntN(1 << 16)}}
		h.Base.Expect = "abort"
		h.NoKeys = false
		return &Plan{Kind: "hostile", Seed: seed, Hostile: h}
	}
	if idx%25 == 19 && !b.NoECH && !b.Grease {
		// a first hello that names a held config and suite but carries no encapsulated key
		h.Base.Mutations = []Mutation{{Kind: "ech-empty-enc"}}
		h.Base.Expect = "abort"
		h.NoKeys = false
		return &Plan{Kind: "hostile", Seed: seed, Hostile: h}
	}
	if idx%25 == 11 {
		// a first record whose handshake header announces a message far longer than
		// the record, followed by a flood of full-size handshake records
		h.Muts = []HMut{{Kind: "hslen", A: []int{0xffffff, 1 << 20, 300000, 70000}[r.IntN(4)]}}
		for n := 12 + r.IntN(36); n > 0; n-- {
			h.Tail = append(h.Tail, HRec{Kind: "rec", Type: 22, Len: 16384})
		}
		h.Back, h.Chunks = nil, nil
		return &Plan{Kind: "hostile", Seed: seed, Hostile: h}
	}
	if idx%50 == 47 && !b.NoECH && !b.Grease {
		// accepted hello; the backend's first record has an impossible length (or
		// is a ServerHello that does not parse), and the backend side does not stop
		// at the error
		h.NoKeys, h.Muts, h.Tail, h.Chunks, h.BackFirst = false, nil, nil, nil, true
		h.Back = []HRec{{Kind: "rec", Type: 22, Len: 40, Lie: 40000}}
		if r.IntN(2) == 0 {
			h.Back = []HRec{{Kind: "shmut", A: 7*(1+r.IntN(50)) + 2}} // truncated ServerHello, lengths fixed
		}
		h.WriteOn = 600
		return &Plan{Kind: "hostile", Seed: seed, Hostile: h}
	}
	if idx%50 == 21 {
		h.Churn = []int{200, 400}[r.IntN(2)]
		h.Base.Mutations, h.Muts, h.Tail, h.Back = nil, nil, nil, nil
		return &Plan{Kind: "hostile", Seed: seed, Hostile: h}
	}
	if idx%25 == 17 && !b.NoECH && !b.Grease {
		// accepted hello, then a long run of records without payload
		h.NoKeys, h.Muts, h.Back, h.Chunks = false, nil, nil, nil
		for n := 2000 + r.IntN(3000); n > 0; n-- {
			h.Tail = append(h.Tail, HRec{Kind: "rec", Type: []byte{22, 20, 22, 21}[r.IntN(4)], Len: 0})
		}
		return &Plan{Kind: "hostile", Seed: seed, Hostile: h}
	}
	if idx%25 == 2 && !b.NoECH && !b.Grease {
		// accepted hello, HelloRetryRequest, then a retried hello with fewer extensions
		h.NoKeys, h.BackFirst = false, true
		h.Base.ExtraIn = max(h.Base.ExtraIn, 3)
		h.Back = []HRec{{Kind: "hrr"}}
		h.Tail = []HRec{{Kind: "hello2less", A: idx / 25}, {Kind: "rec", Type: 23, Len: 10}}
		return &Plan{Kind: "hostile", Seed: seed, Hostile: h}
	}
	if idx%25 == 13 && !b.NoECH && !b.Grease {
		// accepted hello, HelloRetryRequest, then a retried hello that dropped supported_versions
		h.NoKeys, h.BackFirst = false, true
		h.Back = []HRec{{Kind: "hrr"}}
		h.Tail = []HRec{{Kind: "hello2", A: 2 + 3*r.IntN(100)}}
		return &Plan{Kind: "hostile", Seed: seed, Hostile: h}
	}
	nm := r.IntN(4)
	if r.IntN(4) == 0 {
		nm = 0 // intact first record: the hostile part comes later
	}
	for i := 0; i < nm; i++ {
		h.Muts = append(h.Muts, HMut{Kind: hmutKinds[r.IntN(len(hmutKinds))], A: r.IntN(1 << 20), B: r.IntN(1 << 16)})
	}
	if r.IntN(12) == 0 {
		h.RawFirst = core.Bytes(r, r.IntN(64))
		if r.IntN(2) == 0 && len(h.RawFirst) >= 5 {
			h.RawFirst[0], h.RawFirst[1], h.RawFirst[2] = 22, 3, 1
			binary.BigEndian.PutUint16(h.RawFirst[3:], uint16(len(h.RawFirst)-5))
		}
	}
	h.Tail = genHRecs(r, "c")
	h.Back = genHRecs(r, "b")
	if r.IntN(2) == 0 {
		h.WSplit = []int{1 + r.IntN(7), 1 + r.IntN(20000)}
	}
	return &Plan{Kind: "hostile", Seed: seed, Hostile: h}
}

func shrinkHostile(p *Plan) []*Plan {
	var out []*Plan
	h := p.Hostile
	for i := range h.Muts {
		q := p.clone()
		q.Hostile.Muts = slices.Delete(q.Hostile.Muts, i, i+1)
		out = append(out, q)
	}
	for i := range h.Tail {
		q := p.clone()
		q.Hostile.Tail = slices.Delete(q.Hostile.Tail, i, i+1)
		out = append(out, q)
	}
	for i := range h.Back {
		q := p.clone()
		q.Hostile.Back = slices.Delete(q.Hostile.Back, i, i+1)
		out = append(out, q)
	}
	if len(h.Chunks) > 0 {
		q := p.clone()
		q.Hostile.Chunks = nil
		out = append(out, q)
	}
	if len(h.WSplit) > 0 {
		q := p.clone()
		q.Hostile.WSplit = nil
		out = append(out, q)
	}
	if h.Base.ExtraIn > 0 || h.Base.ExtraOut > 0 {
		q := p.clone()
		q.Hostile.Base.ExtraIn, q.Hostile.Base.ExtraOut = 0, 0
		out = append(out, q)
	}
	return out
}
