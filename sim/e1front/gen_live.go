package e1front

import (
	"fmt"
	"math/rand/v2"
	"strings"

	"verifsim/core"
	"verifsim/echbox"
	"verifsim/simnet"
)

const (
	cX25519 = 29
	cP256   = 23
	cP384   = 24
	cP521   = 25
	cMLKEM  = 4588
)

func genName(r *rand.Rand, total int) string {
	const al = "abcdefghijklmnopqrstuvwxyz0123456789"
	var labels []string
	left := total
	for left > 0 {
		l := min(left, 1+r.IntN(63))
		if left-l == 1 { // avoid a dangling separator
			if l > 1 {
				l--
			} else {
				l++
			}
		}
		if l > left {
			l = left
		}
		b := make([]byte, l)
		for i := range b {
			b[i] = al[r.IntN(26)]
		}
		labels = append(labels, string(b))
		left -= l + 1
	}
	return strings.Join(labels, ".")
}

// genPublicName: crypto/tls clients only use configs whose public name has at
// least two labels.
func genPublicName(r *rand.Rand) string {
	for {
		n := genName(r, max(3, genNameLen(r)))
		if strings.Contains(n, ".") {
			return n
		}
		if len(n) < 250 {
			return n + ".pn"
		}
	}
}

func genNameLen(r *rand.Rand) int {
	switch r.IntN(8) {
	case 0:
		return 1 + r.IntN(3)
	case 1:
		return 240 + r.IntN(14)
	default:
		return 5 + r.IntN(56)
	}
}

func genLink(r *rand.Rand) simnet.LinkCfg {
	c := simnet.LinkCfg{}
	switch r.IntN(10) {
	case 0:
		c.Seg = simnet.SegByte
	case 1, 2:
		c.Seg = simnet.SegRecord
	case 3, 4:
		c.Seg = simnet.SegHdrSplit
	case 5:
		c.Seg = simnet.SegWhole
	default:
		c.Seg = simnet.SegRandom
		c.MaxSeg = []int{2, 7, 64, 600, 2000, 20000}[r.IntN(6)]
	}
	c.LatMinUs = r.IntN(200)
	c.LatMaxUs = c.LatMinUs + []int{0, 10, 1000, 5000}[r.IntN(4)]
	c.ShortRead = r.IntN(2) == 0
	return c
}

func plainLink() simnet.LinkCfg { return simnet.LinkCfg{Seg: simnet.SegWhole} }

var alpnPool = []string{"h2", "http/1.1", "h3", "acme-tls/1", "x", strings.Repeat("p", 200)}

func genSuites(r *rand.Rand) []echbox.Suite {
	s := append([]echbox.Suite(nil), echbox.AllSuites...)
	r.Shuffle(len(s), func(i, j int) { s[i], s[j] = s[j], s[i] })
	return s[:1+r.IntN(3)]
}

// genKeys builds the key set of the client-facing server. collide is the
// chance (out of 8) that a key reuses another key's config id.
func genKeys(r *rand.Rand, n int, publicName string, collide int) []KeySpec {
	var ks []KeySpec
	for i := 0; i < n; i++ {
		k := KeySpec{ID: byte(r.IntN(256)), PublicName: publicName, Suites: genSuites(r), KeySeed: int(r.Uint32()), Retry: r.IntN(3) != 0, OwnEncoder: r.IntN(4) == 0}
		if i > 0 && r.IntN(8) < collide {
			k.ID = ks[r.IntN(i)].ID
		}
		if i > 0 && r.IntN(4) == 0 {
			// a front serving several public names (ids may still collide)
			k.PublicName = fmt.Sprintf("pub%d.%s", i, publicName)
			if len(k.PublicName) > 250 {
				k.PublicName = fmt.Sprintf("pub%d.example.net", i)
			}
		}
		ks = append(ks, k)
	}
	return ks
}

func genLiveBase(r *rand.Rand) *LivePlan {
	p := &LivePlan{}
	pub := "public.example.com"
	if r.IntN(4) == 0 {
		pub = genPublicName(r)
	}
	p.Keys = genKeys(r, 1+r.IntN(4), pub, 2)
	p.ClientKey = r.IntN(len(p.Keys))
	p.ServerName = genName(r, genNameLen(r))
	for p.ServerName == pub {
		p.ServerName = genName(r, genNameLen(r))
	}
	// ALPN
	n := r.IntN(5)
	perm := r.Perm(len(alpnPool))
	for i := 0; i < n; i++ {
		p.ClientALPN = append(p.ClientALPN, alpnPool[perm[i]])
	}
	if n > 0 && r.IntN(4) != 0 {
		p.BackendALPN = []string{p.ClientALPN[r.IntN(n)]}
		if r.IntN(2) == 0 {
			p.BackendALPN = append([]string{alpnPool[perm[len(perm)-1]]}, p.BackendALPN...)
		}
	}
	// curves: the backend picks one curve the client supports
	switch r.IntN(6) {
	case 0:
		p.ClientCurves = []uint16{cX25519}
	case 1:
		p.ClientCurves = []uint16{cP256, cX25519, cP384}
	case 2:
		p.ClientCurves = []uint16{cMLKEM, cX25519}
	case 3:
		p.ClientCurves = []uint16{cP521, cP384, cP256}
	}
	eff := p.ClientCurves
	if eff == nil {
		eff = []uint16{cMLKEM, cX25519, cP256, cP384, cP521}
	}
	if r.IntN(2) == 0 {
		p.BackendCurves = []uint16{eff[r.IntN(len(eff))]}
	}
	p.Resume = r.IntN(4) == 0
	p.ClientCert = r.IntN(5) == 0
	if p.ClientCert && r.IntN(3) == 0 {
		p.ClientChainPad = 1000 + r.IntN(20000)
	}
	if r.IntN(5) == 0 {
		p.ChainPad = 500 + r.IntN(40000)
	}
	p.Forward = r.IntN(3) != 0
	p.CF, p.FC, p.FB, p.BF = genLink(r), genLink(r), genLink(r), genLink(r)
	p.ReadBuf = []int{1, 5, 17, 100, 1500, 4096, 16384, 32768, 70000}[r.IntN(9)]
	if r.IntN(2) == 0 {
		k := 1 + r.IntN(4)
		for i := 0; i < k; i++ {
			p.WriteSplit = append(p.WriteSplit, []int{1, 2, 4, 5, 6, 100, 1000, 16389, 20000}[r.IntN(9)])
		}
	}
	p.UpBytes = 1 + r.IntN(300)
	p.DownBytes = 1 + r.IntN(300)
	if r.IntN(4) == 0 {
		p.UpBytes = 1 + r.IntN(40000)
	}
	if r.IntN(4) == 0 {
		p.DownBytes = 1 + r.IntN(40000)
	}
	return p
}

func genC01(seed uint64, idx int) *Plan {
	r := core.NewRand(seed, "plan")
	p := genLiveBase(r)
	if r.IntN(16) == 0 {
		// a client that connects to an IP literal encrypts no server name at all
		p.ServerName = []string{"10.1.2.3", "192.0.2.77", "2001:db8::7"}[r.IntN(3)]
	}
	if r.IntN(6) == 0 { // stale client config: same public name, a key the server does not hold
		p.ClientKey = -1
		p.Stale = KeySpec{ID: byte(r.IntN(256)), PublicName: p.Keys[0].PublicName, Suites: genSuites(r), KeySeed: int(r.Uint32())}
		if r.IntN(2) == 0 {
			p.Stale.ID = p.Keys[r.IntN(len(p.Keys))].ID
		}
		if r.IntN(3) == 0 {
			// an old config for another public name of the same front, id possibly reused
			p.Stale.PublicName = "old." + p.Keys[0].PublicName
			if len(p.Stale.PublicName) > 250 {
				p.Stale.PublicName = "old.example.net"
			}
		}
		p.Resume = false
	}
	if idx%9 == 4 {
		// public names with a label of digits, or one that looks like a hex
		// number, in front (a year, a shard number); only the LAST label of a
		// name decides whether it could be taken for an address
		old := p.Keys[0].PublicName
		if i := strings.Index(old, "."); strings.HasPrefix(old, "pub") && i > 0 {
			old = old[i+1:]
		}
		nw := []string{"2024.cdn.example.com", "cdn.0xcafe.example.net", "7.shard.example.org", "0x1f.12.example.com"}[(idx/9)%4]
		for i := range p.Keys {
			if strings.HasSuffix(p.Keys[i].PublicName, old) {
				p.Keys[i].PublicName = strings.TrimSuffix(p.Keys[i].PublicName, old) + nw
			}
		}
		if strings.HasSuffix(p.Stale.PublicName, old) {
			p.Stale.PublicName = strings.TrimSuffix(p.Stale.PublicName, old) + nw
		}
	}
	p.NoCCS = idx%4 == 1
	p.CopyUp = idx%3 == 2 && p.Forward
	if idx%4 == 3 && p.Forward {
		p.SlowWriteReturnMs = []int{1, 20, 300}[(idx/4)%3]
	}
	return &Plan{Kind: "live", Seed: seed, Live: p}
}

func shrinkLive(p *Plan) []*Plan {
	var out []*Plan
	add := func(f func(l *LivePlan) bool) {
		q := p.clone()
		if f(q.Live) {
			out = append(out, q)
		}
	}
	isPlain := func(c simnet.LinkCfg) bool { return c.Seg == simnet.SegWhole && c.LatMaxUs == 0 && !c.ShortRead }
	add(func(l *LivePlan) bool {
		if isPlain(l.CF) && isPlain(l.FC) && isPlain(l.FB) && isPlain(l.BF) {
			return false
		}
		l.CF, l.FC, l.FB, l.BF = plainLink(), plainLink(), plainLink(), plainLink()
		return true
	})
	for _, which := range []int{0, 1, 2, 3} {
		add(func(l *LivePlan) bool {
			c := []*simnet.LinkCfg{&l.CF, &l.FC, &l.FB, &l.BF}[which]
			if isPlain(*c) {
				return false
			}
			*c = plainLink()
			return true
		})
	}
	add(func(l *LivePlan) bool { ok := l.Reenc != nil; l.Reenc = nil; return ok })
	add(func(l *LivePlan) bool { ok := l.Resume; l.Resume = false; return ok })
	add(func(l *LivePlan) bool {
		ok := l.ClientCert
		l.ClientCert, l.ClientChainPad = false, 0
		return ok
	})
	add(func(l *LivePlan) bool { ok := l.ChainPad != 0; l.ChainPad = 0; return ok })
	add(func(l *LivePlan) bool { ok := l.ChainPad > 1000; l.ChainPad /= 2; return ok })
	add(func(l *LivePlan) bool { ok := l.ClientChainPad != 0; l.ClientChainPad = 0; return ok })
	add(func(l *LivePlan) bool {
		if l.ClientKey < 0 || len(l.Keys) == 1 {
			return false
		}
		l.Keys = []KeySpec{l.Keys[l.ClientKey]}
		l.ClientKey = 0
		return true
	})
	for i := range p.Live.Keys {
		add(func(l *LivePlan) bool {
			if len(l.Keys) < 2 || i == l.ClientKey {
				return false
			}
			l.Keys = append(l.Keys[:i:i], l.Keys[i+1:]...)
			if l.ClientKey > i {
				l.ClientKey--
			}
			return true
		})
	}
	add(func(l *LivePlan) bool { ok := l.Forward; l.Forward = false; return ok })
	add(func(l *LivePlan) bool { ok := len(l.WriteSplit) > 0; l.WriteSplit = nil; return ok })
	add(func(l *LivePlan) bool { ok := l.ReadBuf != 32768; l.ReadBuf = 32768; return ok })
	add(func(l *LivePlan) bool {
		ok := l.UpBytes != 1 || l.DownBytes != 1
		l.UpBytes, l.DownBytes = 1, 1
		return ok
	})
	add(func(l *LivePlan) bool {
		ok := len(l.ClientALPN) > 0
		l.ClientALPN, l.BackendALPN = nil, nil
		return ok
	})
	add(func(l *LivePlan) bool {
		ok := l.ClientCurves != nil || l.BackendCurves != nil
		l.ClientCurves, l.BackendCurves = nil, nil
		return ok
	})
	add(func(l *LivePlan) bool { ok := l.BackendCurves != nil; l.BackendCurves = nil; return ok })
	add(func(l *LivePlan) bool {
		ok := l.ServerName != "a.example"
		l.ServerName = "a.example"
		return ok
	})
	add(func(l *LivePlan) bool {
		ok := false
		for i := range l.Keys {
			if l.Keys[i].PublicName != "public.example.com" {
				l.Keys[i].PublicName = "public.example.com"
				ok = true
			}
		}
		if l.Stale.PublicName != "" {
			l.Stale.PublicName = "public.example.com"
		}
		return ok
	})
	return out
}
