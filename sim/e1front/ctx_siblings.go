package e1front

import (
	"bytes"
	"context"
	"fmt"
	"strings"
	"testing"
	"testing/cryptotest"
	"testing/synctest"
	"time"

	"github.com/c2FmZQ/ech"

	"verifsim/core"
	"verifsim/echbox"
	"verifsim/simnet"
)

// executeSiblings (C10): several connections are accepted under ONE context
// (a listener's accept loop handing its own context to every NewConn). Their
// hellos arrive in a PRNG-chosen order, some never; then the shared context
// ends. Every connection whose NewConn had returned by then must be untouched
// (no deadline set on it, later I/O works), every one still waiting must fail
// at that instant.
func executeSiblings(t *testing.T, prop string, seed uint64, p *CtxPlan) *core.Result {
	res := &core.Result{Arbitrated: true}
	cryptotest.SetGlobalRandom(t, seed)
	b, err := buildScript(seed, &p.Base)
	if err != nil {
		if err == errSkip {
			res.Probe("scenario_skipped")
			return res
		}
		res.Harness = "buildScript: " + err.Error()
		return res
	}
	rec := b.outerRec
	var log []string
	stage := "start"
	msg := core.Bubble(t, func(t *testing.T) {
		w := simnet.NewWorld(seed)
		for rep := 0; rep < max(1, p.Reps); rep++ {
			core.Beat()
			res.Evals++
			stage = fmt.Sprintf("rep %d", rep)
			r := core.NewRand(seed, "siblings", rep)
			k := p.Siblings
			var ctx context.Context
			var cancel context.CancelFunc
			end := time.Duration(0)
			if p.EndKind == "timeout" {
				end = time.Duration(1+r.IntN(5000)) * time.Millisecond
				ctx, cancel = context.WithTimeout(context.Background(), end)
			} else {
				ctx, cancel = context.WithCancel(context.Background())
			}
			type sib struct {
				cc, fc *simnet.Conn
				conn   *ech.Conn
				err    error
				pk     string
				done   chan struct{}
				retSeq uint64
				retAt  time.Duration
				given  bool
			}
			t0 := time.Now()
			sibs := make([]*sib, k)
			for i := range sibs {
				s := &sib{done: make(chan struct{})}
				s.cc, s.fc = w.Pipe(fmt.Sprintf("c%d_%d", rep, i), fmt.Sprintf("f%d_%d", rep, i), simnet.LinkCfg{Seg: simnet.SegWhole}, simnet.LinkCfg{Seg: simnet.SegWhole})
				sibs[i] = s
				go func() {
					defer close(s.done)
					if pk, m, site := core.Guard(func() { s.conn, s.err = ech.NewConn(ctx, s.fc, keyOptions(b.keys)...) }); pk {
						s.pk = site + ": " + normMsg(m)
					}
					s.retSeq, s.retAt = w.Seq(), time.Since(t0)
				}()
				synctest.Wait() // registered (parked in its read) before the next one starts
			}
			// hellos arrive in some order; some clients stay silent
			order := r.Perm(k)
			silent := r.IntN(k) // that many of the last in the order never speak
			if r.IntN(3) == 0 {
				silent = 0
			}
			for n, i := range order {
				if n >= k-silent {
					break
				}
				s := sibs[i]
				s.given = true
				s.cc.Write(rec)
				<-s.done
				synctest.Wait()
			}
			// one of the silent connections sits on a transport whose SetDeadline
			// stalls (for an hour): that is this connection's trouble alone
			stalled := -1
			release := make(chan struct{})
			if p.StallOne && silent > 0 {
				stalled = order[k-1]
				sibs[stalled].fc.DeadlineHook = func(t time.Time) {
					if !t.IsZero() {
						<-release
					}
				}
				res.Probe("sibling_transport_stalls_in_setdeadline")
			}
			// the shared context ends
			var endAt time.Duration
			if p.EndKind == "timeout" {
				if rest := end - time.Since(t0); rest > 0 {
					time.Sleep(rest)
				}
				endAt = end
			} else {
				time.Sleep(time.Duration(r.IntN(1000)) * time.Microsecond)
				endAt = time.Since(t0)
				cancel()
			}
			synctest.Wait()
			time.Sleep(time.Hour)
			synctest.Wait()
			var stalledRet time.Duration
			if stalled >= 0 {
				stalledRet = time.Since(t0)
				close(release)
				synctest.Wait()
			}
			for i, s := range sibs {
				if i == stalled {
					// (returns when its transport lets it)
					select {
					case <-s.done:
						if s.err == nil {
							res.Fail(prop, "ctx", "NewConn succeeded without a hello", "connection %d", i)
						} else if s.retAt != stalledRet {
							res.Fail(prop, "ctx", "blocked NewConn did not fail when its transport's SetDeadline returned", "connection %d of %d: returned at %v, SetDeadline released at %v", i, k, s.retAt, stalledRet)
						}
					default:
						res.Fail(prop, "ctx", "NewConn still waiting after its context ended and its transport's SetDeadline returned", "connection %d of %d", i, k)
						s.fc.Close()
						<-s.done
					}
					continue
				}
				select {
				case <-s.done:
				default:
					res.Fail(prop, "ctx", "NewConn still waiting an hour after its context ended", "connection %d of %d under one context (hellos given in order %v, %d silent)", i, k, order, silent)
					s.fc.Close()
					<-s.done
				}
				switch {
				case s.pk != "":
					res.Fail(prop, "panic", s.pk, "NewConn of connection %d of %d under one context", i, k)
				case !s.given && s.err == nil:
					res.Fail(prop, "ctx", "NewConn succeeded without a hello", "connection %d", i)
				case !s.given:
					if s.retAt != endAt {
						res.Fail(prop, "ctx", "blocked NewConn did not fail promptly when the shared context ended", "connection %d of %d: context ended (%s) at %v, NewConn returned at %v", i, k, p.EndKind, endAt, s.retAt)
					}
					res.Probe("sibling_failed_with_shared_ctx")
				case s.err != nil:
					res.Fail(prop, "ctx", "NewConn failed although its context was alive: "+normErr(s.err), "connection %d of %d under one context, returned at %v, context ended at %v", i, k, s.retAt, endAt)
				default:
					for _, d := range s.fc.DeadlineCalls() {
						if d.Seq > s.retSeq {
							res.Fail(prop, "ctx", "deadline set on the connection after NewConn returned successfully", "%s(%v) at virtual +%v on connection %d of %d sharing one context (hellos given in order %v, %d silent); the context ended (%s) after this connection's NewConn had returned", d.Kind, d.T.Sub(w.T0), time.Duration(d.At), i, k, order, silent, p.EndKind)
							break
						}
					}
					extra := echbox.Record(23, 0x0303, []byte(fmt.Sprintf("later %d", i)))
					s.cc.Write(extra)
					buf := make([]byte, 70000)
					var got []byte
					var rerr error
					core.Guard(func() {
						for !bytes.HasSuffix(got, extra) {
							n, err := s.conn.Read(buf)
							got = append(got, buf[:n]...)
							if err != nil {
								rerr = err
								break
							}
						}
					})
					if rerr != nil {
						res.Fail(prop, "ctx", "Conn.Read fails after the NewConn context ended: "+normErr(rerr), "connection %d of %d sharing one context (hellos given in order %v, %d silent)", i, k, order, silent)
					}
					if _, werr := s.conn.Write(extra); werr != nil {
						res.Fail(prop, "ctx", "Conn.Write fails after the NewConn context ended: "+normErr(werr), "connection %d of %d sharing one context", i, k)
					}
					res.Probe("sibling_untouched_by_shared_ctx_end")
				}
				s.fc.Close()
				s.cc.Close()
			}
			cancel()
			log = append(log, fmt.Sprintf("rep %d order %v silent %d", rep, order, silent))
		}
		stage = "teardown"
		res.SimNs = w.Now()
		w.Shutdown()
		synctest.Wait()
		lib, other := core.Leaked()
		if len(lib) > 0 {
			res.Fail(prop, "goroutine-leak", strings.Join(lib, ","), "goroutine of NewConn left after quiescence")
		}
		if len(other) > 0 {
			res.Harness = "goroutines left: " + strings.Join(other, ",")
		}
	})
	if msg != "" {
		if strings.Contains(msg, "deadlock: all goroutines") {
			res.Fail(prop, "ctx", "NewConn (or later I/O) blocks forever", "%s: %s", stage, firstLine(msg))
		} else {
			res.Harness = "bubble: " + firstLine(msg)
		}
	}
	res.NonTrivial = res.Harness == ""
	res.Sig = core.SigOf("ctx-siblings", fmt.Sprint(p.Siblings), p.EndKind, fmt.Sprint(p.Base.NoECH))
	res.LogHash = core.HashLog(log)
	res.FaultN("ctx_end", res.Evals)
	res.Sample = map[string]any{"kind": "ctx-siblings", "siblings": p.Siblings, "end": p.EndKind, "reps": p.Reps}
	return res
}
