package e1front

import (
	"bytes"
	"context"
	"errors"
	"fmt"
	"io"
	"os"
	"testing"
	"testing/cryptotest"

	"github.com/c2FmZQ/ech"

	"verifsim/core"
	"verifsim/echbox"
	"verifsim/simnet"
)

// PipePlan (C07): a full bidirectional byte stream - recorded from a live
// handshake or synthesised - replayed through a fresh Conn under enumerated
// cuts, chunkings, buffer sizes and write split points.
type PipePlan struct {
	Source    string       `json:"source"` // live | synthetic
	Live      *LivePlan    `json:"live,omitempty"`
	Base      *ScriptPlan  `json:"base,omitempty"`
	Recs      []TrailerRec `json:"recs,omitempty"`      // synthetic client records after the hello
	BackRecs  []TrailerRec `json:"back_recs,omitempty"` // synthetic backend records
	Mode      string       `json:"mode"`                // cuts | chunks | wsplit | wcuts
	Chunkings [][]int      `json:"chunkings,omitempty"`
	ReadBufs  []int        `json:"read_bufs,omitempty"`
	Stride    int          `json:"stride,omitempty"` // enumerate every Stride-th offset (1 = all)
	Only      *int         `json:"only,omitempty"`
	Hint      *int         `json:"hint,omitempty"`
	// ViaCopy: the consumer of the client's bytes is io.Copy(dst, conn) - what
	// forwarding code mostly is - instead of a Read loop of its own.
	ViaCopy bool `json:"via_copy,omitempty"`
}

type pipeStreams struct {
	keys  []ech.Key
	c     []byte   // client -> front
	b     []byte   // backend -> front
	crecs [][]byte // c split into records
	img   [][]byte // image of each client record (what the backend must receive)
	hello []bool   // record is replaced (a rewritten hello)
	// writeFirst: number of bytes of b that must be written before the record
	// with index gate is read (HelloRetryRequest flight before the second hello)
	writeFirst int
	gate       int
	viaCopy    bool
	// wTimeoutAt >= 0: the transport's write deadline expires once, at that
	// offset of the backend stream; the caller extends it and writes the rest
	// of its buffer (what Write's count says was not taken).
	wTimeoutAt int
}

// copySink is a writer without ReadFrom: io.Copy either loops over Read or
// uses a WriteTo of the source, should it have one.
type copySink struct{ b *[]byte }

func (s copySink) Write(p []byte) (int, error) {
	*s.b = append(*s.b, p...)
	return len(p), nil
}

var lastLive *liveWorld
var lastObs []*connObs

// errReadTimeout is what a transport returns when a read deadline set by the
// caller expires.
var errReadTimeout error = &timeoutErr{}

type timeoutErr struct{}

func (*timeoutErr) Error() string   { return "i/o timeout (read deadline)" }
func (*timeoutErr) Timeout() bool   { return true }
func (*timeoutErr) Temporary() bool { return true }
func (*timeoutErr) Unwrap() error   { return os.ErrDeadlineExceeded }

func isHRR(rec []byte) bool {
	return len(rec) >= 5+4+2+32 && rec[0] == 22 && rec[5] == 2 && bytes.Equal(rec[11:43], echbox.HRRRandom)
}

func (ps *pipeStreams) index(fb []byte) error {
	crecs, rest := splitRecords(ps.c)
	if len(rest) != 0 {
		return fmt.Errorf("client stream does not end on a record boundary")
	}
	frecs, rest := splitRecords(fb)
	if len(rest) != 0 || len(frecs) != len(crecs) {
		return fmt.Errorf("forwarded stream has %d records, client stream %d", len(frecs), len(crecs))
	}
	ps.crecs = crecs
	ps.gate = -1
	for i := range crecs {
		ps.img = append(ps.img, frecs[i])
		same := bytes.Equal(crecs[i][5:], frecs[i][5:]) && crecs[i][0] == frecs[i][0]
		ps.hello = append(ps.hello, !same)
	}
	// a HelloRetryRequest at the start of the backend stream gates the second hello
	brecs, _ := splitRecords(ps.b)
	if len(brecs) > 0 && isHRR(brecs[0]) {
		ps.writeFirst = len(brecs[0])
		if len(brecs) > 1 && brecs[1][0] == 20 {
			ps.writeFirst += len(brecs[1])
		}
		for i := 1; i < len(crecs); i++ {
			if crecs[i][0] == 22 && len(crecs[i]) > 5 && crecs[i][5] == 1 {
				ps.gate = i
				break
			}
		}
	}
	return nil
}

type pipeRun struct {
	retried    int // writes repeated after a write timeout
	newConnErr error
	read       []byte
	readErr    error
	out        []byte
	panicMsg   string
	panicSite  string
	writeErr   error
	writeBad   string
	zeroSpins  int
	closes     int // Close calls on the transport made by the Conn
	// after a read-timeout cut the caller extends its deadline and reads on
	resumed  []byte
	resumErr error
}

// inspectedEnd is the offset in the client stream after which the Conn merely
// passes bytes through: the end of the first record when the hello is not
// replaced (no ECH accepted), otherwise the end of the first application-data
// record.
func (ps *pipeStreams) inspectedEnd() int {
	off := 0
	for i, r := range ps.crecs {
		off += len(r)
		if i == 0 && !ps.hello[0] {
			return off
		}
		if i > 0 && r[0] == 23 {
			return off
		}
	}
	return off
}

// replay drives one fresh Conn over the streams.
func (ps *pipeStreams) replay(chunks []int, readBuf int, cutAt int, cutErr error, wsplit []int, wErrAt int) *pipeRun {
	return ps.replayX(chunks, readBuf, cutAt, cutErr, wsplit, wErrAt, false)
}

// replayTwin reads the same client stream through two Conns at once,
// alternating one Read on each (two connections of one server process).
func (ps *pipeStreams) replayTwin(chunks []int, readBuf int) (a, b *pipeRun) {
	core.Beat()
	a, b = &pipeRun{}, &pipeRun{}
	if readBuf <= 0 {
		readBuf = 32768
	}
	pk, msg, site := core.Guard(func() {
		var conns [2]*ech.Conn
		runs := [2]*pipeRun{a, b}
		for i := range conns {
			in := ps.c
			if i == 1 {
				in = ps.twinStream(ps.crecs)
			}
			sc := simnet.NewScript(in)
			sc.Chunks = chunks
			c, err := ech.NewConn(context.Background(), sc, keyOptions(ps.keys)...)
			if err != nil {
				runs[i].newConnErr = err
				return
			}
			conns[i] = c
		}
		bufs := [2][]byte{make([]byte, readBuf), make([]byte, readBuf)}
		done := [2]bool{}
		for !done[0] || !done[1] {
			for i := range conns {
				if done[i] {
					continue
				}
				n, err := conns[i].Read(bufs[i])
				runs[i].read = append(runs[i].read, bufs[i][:n]...)
				if err != nil {
					runs[i].readErr = err
					done[i] = true
				}
			}
		}
	})
	if pk {
		a.panicMsg, a.panicSite = msg, site
	}
	return
}

// twinStream is the client stream of the second of two interleaved
// connections: same records, but every byte of the payload of the records that
// pass unchanged is different, so that bytes leaking from one connection into
// the other show.
func (ps *pipeStreams) twinStream(recs [][]byte) []byte {
	var out []byte
	for i, r := range recs {
		c := append([]byte(nil), r...)
		if !ps.hello[i] && i > 0 {
			for j := 5; j < len(c); j++ {
				c[j] ^= 0x5a
			}
		}
		out = append(out, c...)
	}
	return out
}

func (ps *pipeStreams) replayX(chunks []int, readBuf int, cutAt int, cutErr error, wsplit []int, wErrAt int, errWithData bool) *pipeRun {
	core.Beat()
	pr := &pipeRun{}
	sc := simnet.NewScript(ps.c)
	sc.ErrWithData = errWithData
	sc.Chunks = chunks
	sc.CutAt = cutAt
	sc.CutErr = cutErr
	sc.WriteErrAt = wErrAt
	if ps.wTimeoutAt > 0 {
		sc.WriteTimeoutAt = ps.wTimeoutAt
	}
	if readBuf <= 0 {
		readBuf = 32768
	}
	buf := make([]byte, readBuf)
	// image offsets at which the gate opens
	gateImg := -1
	if ps.gate >= 0 {
		gateImg = 0
		for i := 0; i < ps.gate; i++ {
			gateImg += len(ps.img[i])
		}
	}
	pk, msg, site := core.Guard(func() {
		conn, err := ech.NewConn(context.Background(), sc, keyOptions(ps.keys)...)
		if err != nil {
			pr.newConnErr = err
			return
		}
		wpos, k := 0, 0
		write := func(upto int) bool {
			for wpos < upto {
				n := upto - wpos
				if len(wsplit) > 0 {
					n = min(n, max(1, wsplit[k%len(wsplit)]))
					k++
				}
				before := len(sc.Out)
				// the caller owns its buffer again as soon as Write returns (io.Writer:
				// "Write must not retain p"): hand over a scratch copy and scribble on it
				scratch := append([]byte(nil), ps.b[wpos:wpos+n]...)
				wn, werr := conn.Write(scratch)
				if werr != nil && ps.wTimeoutAt > 0 && errors.Is(werr, os.ErrDeadlineExceeded) && wn >= 0 && wn <= n {
					// the deadline is extended and the rest of the buffer written
					pr.retried++
					rest := append([]byte(nil), scratch[wn:]...)
					wn2, werr2 := conn.Write(rest)
					for i := range rest {
						rest[i] = 0xAA
					}
					wn, werr = wn+wn2, werr2
				}
				for i := range scratch {
					scratch[i] = 0xAA
				}
				if wn < 0 || wn > n {
					pr.writeBad = fmt.Sprintf("Write returned n=%d for %d bytes", wn, n)
				}
				if wn < n && werr == nil {
					pr.writeBad = fmt.Sprintf("Write returned n=%d < %d with a nil error", wn, n)
				}
				if werr != nil {
					pr.writeErr = werr
					return false
				}
				wpos += n
				// at most one incomplete record may be withheld
				pending := wpos - len(sc.Out)
				if pending < 0 || len(sc.Out) < before {
					pr.writeBad = "more bytes written to the transport than accepted"
				}
				if pending >= 5 {
					rest := ps.b[len(sc.Out):]
					if sz := 5 + (int(rest[3])<<8 | int(rest[4])); pending >= sz {
						pr.writeBad = fmt.Sprintf("%d bytes withheld although the next record is complete (%d bytes)", pending, sz)
					}
				}
			}
			return true
		}
		gated := gateImg >= 0
		if ps.viaCopy && !gated && cutErr != errReadTimeout {
			_, err := io.Copy(copySink{&pr.read}, conn)
			if err == nil {
				err = io.EOF // io.Copy's way of saying the source ended
			}
			pr.readErr = err
			write(len(ps.b))
			return
		}
		for {
			if gated && len(pr.read) >= gateImg {
				gated = false
				if !write(ps.writeFirst) {
					return
				}
			}
			n, err := conn.Read(buf)
			pr.read = append(pr.read, buf[:n]...)
			if n == 0 && err == nil {
				pr.zeroSpins++
				if pr.zeroSpins > 1000 {
					return
				}
			}
			if err != nil {
				pr.readErr = err
				break
			}
		}
		if cutErr == errReadTimeout && cutAt >= 0 && cutAt < len(ps.c) && pr.readErr != nil {
			// the transport has not failed: the caller's deadline expired. It
			// is extended and the rest of the stream arrives.
			sc.CutAt = -1
			// (bounded by the input, not by a count of calls: with one-octet
			// buffers a stream takes as many reads as it has octets)
			for i := 0; i < 64+4*len(ps.c); i++ {
				n, err := conn.Read(buf)
				pr.resumed = append(pr.resumed, buf[:n]...)
				if err != nil {
					pr.resumErr = err
					break
				}
			}
		}
		write(len(ps.b))
	})
	if pk {
		pr.panicMsg, pr.panicSite = msg, site
	}
	pr.out = sc.Out
	pr.closes = sc.Closes
	return pr
}

// imageOfPrefix computes what must be delivered before the error when the
// client stream is cut after k bytes: accepted answers are lo (nothing of an
// incomplete rewritten hello) and hi (its raw partial bytes).
func (ps *pipeStreams) imageOfPrefix(k int) (hi, lo []byte) {
	pos := 0
	for i, r := range ps.crecs {
		if pos+len(r) <= k {
			hi = append(hi, ps.img[i]...)
			lo = append(lo, ps.img[i]...)
			pos += len(r)
			continue
		}
		part := r[:k-pos]
		if ps.hello[i] {
			hi = append(hi, part...)
		} else {
			hi = append(hi, part...)
			lo = append(lo, part...)
		}
		break
	}
	return
}

// cutSig classifies a cut position: which record (index, type, rewritten or
// not) and where in it (boundary, inside the header, first body byte, body).
func (ps *pipeStreams) cutSig(k, kind int, seed uint64) uint64 {
	pos := 0
	for i, r := range ps.crecs {
		if k < pos+len(r) || i == len(ps.crecs)-1 {
			off := k - pos
			where := "body"
			switch {
			case off == 0:
				where = "boundary"
			case off < 5:
				where = fmt.Sprintf("hdr%d", off)
			case off == 5:
				where = "after-header"
			case off >= len(r):
				where = "end"
			}
			return core.SigOf("cut", fmt.Sprint(kind), fmt.Sprint(i), fmt.Sprint(r[0]), fmt.Sprint(ps.hello[i]), where, core.SizeClass(len(r)), fmt.Sprint(seed))
		}
		pos += len(r)
	}
	return core.SigOf("cut", "empty")
}

func (ps *pipeStreams) fullImage() []byte {
	var b []byte
	for _, r := range ps.img {
		b = append(b, r...)
	}
	return b
}

func executePipe(t *testing.T, prop string, seed uint64, p *PipePlan) *core.Result {
	res := &core.Result{}
	ps := &pipeStreams{viaCopy: p.ViaCopy, wTimeoutAt: -1}
	switch p.Source {
	case "live":
		lr := executeLive(t, prop, seed, p.Live)
		if len(lr.Violations) > 0 || lr.Harness != "" {
			// the live recording itself failed: report that (it is a C07-relevant failure too)
			lr.Sample = map[string]any{"kind": "pipe", "stage": "live recording failed"}
			return lr
		}
		o := lastObs[0]
		ps.keys = lastLive.keys
		ps.c, ps.b = o.cf, o.bf
		if err := ps.index(o.fb); err != nil {
			res.Harness = "pipe: " + err.Error()
			return res
		}
		res.SimNs = lr.SimNs
		for k, v := range lr.Probes {
			res.ProbeN(k, v)
		}
	case "synthetic":
		cryptotest.SetGlobalRandom(t, seed)
		b, err := buildScript(seed, p.Base)
		if err == errSkip {
			res.Probe("scenario_skipped")
			return res
		}
		if err != nil {
			res.Harness = "buildScript: " + err.Error()
			return res
		}
		ps.keys = b.keys
		tr := trailerBytes(seed, p.Recs)
		ps.c = append(append([]byte(nil), b.outerRec...), tr...)
		first := b.outerRec
		if p.Base.Expect == "accept" {
			first = b.wantInner
		}
		fb := append(append([]byte(nil), first...), tr...)
		ps.b = trailerBytes(seed+1, p.BackRecs)
		if err := ps.index(fb); err != nil {
			res.Harness = "pipe: " + err.Error()
			return res
		}
	default:
		res.Harness = "unknown pipe source"
		return res
	}
	full := ps.fullImage()
	normVer := func(got []byte, want []byte) []byte {
		w := append([]byte(nil), want...)
		if len(got) >= 3 && len(w) >= 3 {
			w[1], w[2] = got[1], got[2]
		}
		return w
	}
	hint := func(k int) {
		if p.Hint == nil {
			p.Hint = &k
		}
	}
	var log []string
	stride := max(1, p.Stride)
	switch p.Mode {
	case "chunks":
		for ci, ch := range p.Chunkings {
			for _, rb := range p.ReadBufs {
				pr := ps.replay(ch, rb, -1, nil, []int{1, 3, 5, 7, 4096}[ci%5:ci%5+1], -1)
				res.Evals++
				res.Fault("fragmented_input")
				what := fmt.Sprintf("chunking %v read buffer %d", ch, rb)
				if pr.panicMsg != "" {
					res.Fail(prop, "panic", pr.panicSite+": "+normMsg(pr.panicMsg), "%s", what)
					continue
				}
				if pr.newConnErr != nil {
					res.Fail(prop, "pipe", "NewConn fails on a fragmented but complete stream: "+normErr(pr.newConnErr), "%s", what)
					continue
				}
				if !bytes.Equal(pr.read, normVer(pr.read, full)) {
					res.Fail(prop, "pipe", "client->backend bytes lost, duplicated or altered under fragmentation", "%s: got %d want %d first diff %d", what, len(pr.read), len(full), firstDiff(pr.read, normVer(pr.read, full)))
				}
				if pr.readErr != io.EOF {
					res.Fail(prop, "pipe", "end of stream not reported as io.EOF: "+normErr(pr.readErr), "%s", what)
				}
				if pr.writeErr != nil || pr.writeBad != "" || !bytes.Equal(pr.out, ps.b) {
					res.Fail(prop, "pipe", "backend->client bytes lost, duplicated or altered under split writes", "%s: err=%v %s out %d want %d", what, pr.writeErr, pr.writeBad, len(pr.out), len(ps.b))
				}
				if pr.zeroSpins > 0 {
					res.Fail(prop, "spin", "Read returned (0, nil)", "%s: %d times", what, pr.zeroSpins)
				}
				log = append(log, fmt.Sprintf("chunks %d %d %d", ci, rb, len(pr.read)))
				if ps.gate < 0 && rb < 4096 {
					ta, tb := ps.replayTwin(ch, rb)
					res.Evals++
					res.Probe("two_connections_interleaved")
					for ti, tr := range []*pipeRun{ta, tb} {
						if tr.panicMsg != "" {
							res.Fail(prop, "panic", tr.panicSite+": "+normMsg(tr.panicMsg), "%s (two connections)", what)
						} else if want := [][]byte{full, ps.twinStream(ps.img)}[ti]; tr.newConnErr == nil && !bytes.Equal(tr.read, normVer(tr.read, want)) {
							res.Fail(prop, "pipe", "bytes of one connection altered while another connection of the process is being read", "%s: connection %d got %d bytes want %d, first diff %d", what, ti, len(tr.read), len(full), firstDiff(tr.read, normVer(tr.read, full)))
						}
					}
				}
			}
		}
	case "cuts":
		for k := 0; k <= len(ps.c); k += stride {
			if p.Only != nil {
				k = *p.Only
			}
			for ei, cerr := range []error{nil, simnet.ErrReset, errReadTimeout} {
				// the caller's buffer size rotates with the offset (a small buffer
				// drains a pending partial record in several calls)
				// ... and the transport reports the error either on a Read of its own
				// or together with the last bytes (io.Reader allows both)
				pr := ps.replayX(nil, []int{0, 1, 7, 300}[(k+ei)%4], k, cerr, nil, -1, (k/4)%2 == 1)
				res.Evals++
				res.Fault([]string{simnet.CutEOF, simnet.CutRST, "read-timeout"}[ei])
				what := fmt.Sprintf("transport %s after %d of %d bytes", []string{"EOF", "error", "read timeout"}[ei], k, len(ps.c))
				res.Sigs = append(res.Sigs, ps.cutSig(k, ei, seed))
				if pr.panicMsg != "" {
					hint(k)
					res.Fail(prop, "panic", pr.panicSite+": "+normMsg(pr.panicMsg), "%s", what)
					continue
				}
				if k < len(ps.crecs[0]) {
					res.Probe("cut_in_first_record")
					if pr.newConnErr == nil {
						hint(k)
						res.Fail(prop, "cut", "NewConn succeeds on an incomplete first record", "%s", what)
					}
					continue
				}
				if pr.newConnErr != nil {
					hint(k)
					res.Fail(prop, "cut", "NewConn fails although the first record arrived completely: "+normErr(pr.newConnErr), "%s", what)
					continue
				}
				hi, lo := ps.imageOfPrefix(k)
				if !bytes.Equal(pr.read, normVer(pr.read, hi)) && !bytes.Equal(pr.read, normVer(pr.read, lo)) {
					hint(k)
					res.Fail(prop, "cut", "bytes received before the cut were not all delivered (or extra bytes were)", "%s: delivered %d bytes, want %d (first diff %d)", what, len(pr.read), len(hi), firstDiff(pr.read, normVer(pr.read, hi)))
				}
				wantErr := error(io.EOF)
				if cerr != nil {
					wantErr = cerr
				}
				if !errors.Is(pr.readErr, wantErr) {
					hint(k)
					res.Fail(prop, "cut", "wrong error after the cut: want "+wantErr.Error()+" got "+normErr(pr.readErr), "%s", what)
				} else if cerr == nil && pr.readErr != io.EOF {
					// io.Reader: the end of the stream is io.EOF itself - io.Copy,
					// io.ReadAll and bufio compare with ==, an error that merely wraps
					// it is a failure to them
					hint(k)
					res.Fail(prop, "cut", "the end of the client's stream is not reported as io.EOF itself", "%s: got %q (%T)", what, pr.readErr.Error(), pr.readErr)
				}
				if k < len(ps.c) && k > 0 {
					res.Probe("cut_mid_stream")
				}
				if cerr == errReadTimeout && k < len(ps.c) {
					// After an expired read deadline the stream goes on. While records
					// are still inspected the Conn may stay failed for good; once it
					// only passes bytes through it has no business remembering the
					// timeout. In no case may it deliver anything but the image.
					all := append(append([]byte(nil), pr.read...), pr.resumed...)
					wantAll := normVer(all, full)
					switch {
					case bytes.Equal(all, wantAll) && pr.resumErr == io.EOF:
						res.Probe("resumed_after_read_timeout")
					case len(pr.resumed) == 0 && pr.resumErr != nil && k < ps.inspectedEnd():
						// failed for good inside the inspected phase
					default:
						hint(k)
						res.Fail(prop, "cut", "after a read timeout the rest of the stream is neither delivered correctly nor (inspected phase only) refused for good", "%s: %d bytes before, %d bytes after (err=%v), whole image %d bytes, inspection ends at %d", what, len(pr.read), len(pr.resumed), pr.resumErr, len(full), ps.inspectedEnd())
					}
				}
				// the other direction is none of the failed read's business: the
				// backend's bytes (written after the cut) reach the client, and
				// nothing else does
				if pr.writeErr != nil || pr.writeBad != "" || !bytes.Equal(pr.out, ps.b) || pr.closes > 0 {
					hint(k)
					res.Fail(prop, "cut", "backend->client direction disturbed by the end / failure of the client->backend direction", "%s: write err=%v %s, client received %d bytes (backend wrote %d), transport closed %d times by the Conn", what, pr.writeErr, pr.writeBad, len(pr.out), len(ps.b), pr.closes)
				}
			}
			if p.Only != nil {
				break
			}
		}
		log = append(log, fmt.Sprintf("cuts %d", len(ps.c)))
	case "wsplit":
		// every single split point of the backend stream
		for k := 0; k <= len(ps.b); k += stride {
			if p.Only != nil {
				k = *p.Only
			}
			pr := ps.replay(nil, 0, -1, nil, []int{max(1, k), 1 << 30}, -1)
			res.Evals++
			res.Fault("write_split")
			what := fmt.Sprintf("backend stream of %d bytes written as [:%d] and [%d:]", len(ps.b), k, k)
			if pr.panicMsg != "" {
				hint(k)
				res.Fail(prop, "panic", pr.panicSite+": "+normMsg(pr.panicMsg), "%s", what)
			} else if pr.writeErr != nil || pr.writeBad != "" || !bytes.Equal(pr.out, ps.b) {
				hint(k)
				res.Fail(prop, "pipe", "backend->client bytes lost, duplicated or altered under split writes", "%s: err=%v %s out %d", what, pr.writeErr, pr.writeBad, len(pr.out))
			}
			if p.Only != nil {
				break
			}
		}
		log = append(log, fmt.Sprintf("wsplit %d", len(ps.b)))
	case "wretry":
		for k := 1; k < len(ps.b); k += stride {
			if p.Only != nil {
				k = *p.Only
			}
			ps.wTimeoutAt = k
			pr := ps.replay(nil, 0, -1, nil, []int{1 + k%7, 4096}, -1)
			ps.wTimeoutAt = -1
			res.Evals++
			res.Fault("write-timeout")
			what := fmt.Sprintf("transport write deadline expires once after %d of %d bytes; the caller extends it and writes what Write said it had not taken", k, len(ps.b))
			switch {
			case pr.panicMsg != "":
				hint(k)
				res.Fail(prop, "panic", pr.panicSite+": "+normMsg(pr.panicMsg), "%s", what)
			case pr.retried == 0:
				// the timeout fell where no Write of the replay crossed it
			case pr.writeErr != nil:
				res.Probe("write_timeout_latched")
			case !bytes.Equal(pr.out, ps.b):
				hint(k)
				res.Fail(prop, "cut", "after a write timeout and the caller's retry the client's stream is not the backend's", "%s: client has %d bytes, the backend wrote %d, first difference at %d", what, len(pr.out), len(ps.b), firstDiff(pr.out, ps.b))
			default:
				res.Probe("resumed_after_write_timeout")
			}
			if p.Only != nil {
				break
			}
		}
		log = append(log, fmt.Sprintf("wretry %d", len(ps.b)))
	case "wcuts":
		for k := 0; k < len(ps.b); k += stride {
			if p.Only != nil {
				k = *p.Only
			}
			pr := ps.replay(nil, 0, -1, nil, []int{1 + k%7, 4096}, k)
			res.Evals++
			res.Fault(simnet.WriteEr)
			what := fmt.Sprintf("transport write error after %d of %d bytes", k, len(ps.b))
			if pr.panicMsg != "" {
				hint(k)
				res.Fail(prop, "panic", pr.panicSite+": "+normMsg(pr.panicMsg), "%s", what)
			} else {
				if pr.writeErr == nil {
					hint(k)
					res.Fail(prop, "cut", "transport write error not reported by Write", "%s", what)
				}
				if pr.writeBad != "" {
					hint(k)
					res.Fail(prop, "cut", "Write return values violate io.Writer", "%s: %s", what, pr.writeBad)
				}
				if !bytes.Equal(pr.out, ps.b[:k]) {
					hint(k)
					res.Fail(prop, "cut", "bytes written before the transport failed are not a prefix of the backend's bytes", "%s: out %d", what, len(pr.out))
				}
			}
			if p.Only != nil {
				break
			}
		}
		log = append(log, fmt.Sprintf("wcuts %d", len(ps.b)))
	}
	nh := 0
	for _, h := range ps.hello {
		if h {
			nh++
		}
	}
	if ps.gate >= 0 {
		res.Probe("hrr_stream")
	}
	res.NonTrivial = res.Harness == ""
	res.Sig = core.SigOf("pipe", p.Source, p.Mode, core.SizeClass(len(ps.c)), core.SizeClass(len(ps.b)), fmt.Sprint(len(ps.crecs)), fmt.Sprint(nh), fmt.Sprint(seed%1024))
	res.LogHash = core.HashLog(log)
	res.Sample = map[string]any{"kind": "pipe", "source": p.Source, "mode": p.Mode, "client_bytes": len(ps.c), "backend_bytes": len(ps.b), "records": len(ps.crecs), "rewritten_hellos": nh, "executions": res.Evals}
	return res
}

func genC07(seed uint64, idx int, tier string) *Plan {
	r := core.NewRand(seed, "plan")
	p := &PipePlan{Stride: 1}
	p.Mode = []string{"cuts", "chunks", "wsplit", "wcuts", "cuts", "chunks"}[idx%6]
	if idx%12 == 9 {
		p.Mode = "wretry"
	}
	p.ViaCopy = idx%5 == 3
	if r.IntN(2) == 0 {
		p.Source = "live"
		lp := genLiveBase(r)
		lp.Forward, lp.Resume, lp.Reenc = true, false, nil
		lp.CF, lp.FC, lp.FB, lp.BF = plainLink(), plainLink(), plainLink(), plainLink()
		lp.ReadBuf, lp.WriteSplit = 32768, nil
		if r.IntN(4) == 0 {
			lp.ClientKey = -2
		}
		lp.UpBytes, lp.DownBytes = 1+r.IntN(600), 1+r.IntN(600)
		if idx%3 == 0 {
			lp.SlowWriteReturnMs = []int{1, 20, 300}[(idx/3)%3]
		}
		lp.NoCCS = idx%4 == 2
		if lp.ChainPad > 0 && (p.Mode == "cuts" || p.Mode == "wcuts" || p.Mode == "wsplit") {
			p.Stride = 7 // long streams: every 7th offset, plus all offsets of the short ones
		}
		p.Live = lp
	} else {
		p.Source = "synthetic"
		b := genScriptBase(r)
		b.Chunks, b.ReadBuf, b.Trailer = nil, 0, nil
		if r.IntN(3) == 0 {
			b.NoECH, b.Expect = true, "passthrough"
		}
		p.Base = b
		lens := []int{0, 1, 2, 5, 16384, 16385, 16640, 100, 1400}
		// the first application-data record of either direction is still read
		// (resp. written) record-wise: its length is drawn from the edges of what
		// TLS permits (empty; 2^14+256 for TLS 1.3; 2^14+2048 for TLS 1.2)
		edge := []int{0, 0, 16640, 16639, 16636, 16641, 18432, 18431}
		n := 1 + r.IntN(6)
		first23 := true
		for i := 0; i < n; i++ {
			typ := []byte{20, 22, 23, 23, 23, 21}[r.IntN(6)]
			l := lens[r.IntN(len(lens))]
			if typ != 23 {
				l = 1 + r.IntN(200)
			} else if first23 {
				first23 = false
				if idx%2 == 0 {
					l = edge[r.IntN(len(edge))]
				}
			}
			p.Recs = append(p.Recs, TrailerRec{Type: typ, Len: l})
		}
		n = 1 + r.IntN(6)
		first23 = true
		for i := 0; i < n; i++ {
			typ := []byte{20, 23, 23, 23, 21}[r.IntN(5)]
			l := lens[r.IntN(len(lens))]
			if typ != 23 {
				l = 1 + r.IntN(200)
			} else if first23 {
				first23 = false
				if idx%2 == 0 {
					l = edge[r.IntN(len(edge))]
				}
			}
			p.BackRecs = append(p.BackRecs, TrailerRec{Type: typ, Len: l})
		}
		big := 0
		for _, t := range append(append([]TrailerRec(nil), p.Recs...), p.BackRecs...) {
			if t.Len > 16000 {
				big++
			}
		}
		if big > 0 && p.Mode != "chunks" {
			p.Stride = 11
		}
	}
	if p.Mode == "chunks" {
		p.Chunkings = [][]int{{1}, {5, 0}, {4, 1, 0}, {2, 3, 7, 1}, {6}, {16389}, {100}}
		for i := 0; i < 3; i++ {
			p.Chunkings = append(p.Chunkings, genChunks(r))
		}
		p.ReadBufs = []int{1, 5, 6, 17, 1500, 16384, 32768}
	}
	return &Plan{Kind: "pipe", Seed: seed, Pipe: p}
}

func shrinkPipe(p *Plan) []*Plan {
	var out []*Plan
	if p.Pipe.Only == nil && p.Pipe.Hint != nil {
		q := p.clone()
		q.Pipe.Only = q.Pipe.Hint
		out = append(out, q)
	}
	if p.Pipe.Source == "synthetic" {
		for i := range p.Pipe.Recs {
			q := p.clone()
			q.Pipe.Recs = append(q.Pipe.Recs[:i:i], q.Pipe.Recs[i+1:]...)
			q.Pipe.Only, q.Pipe.Hint = nil, nil
			out = append(out, q)
		}
		for i := range p.Pipe.BackRecs {
			q := p.clone()
			q.Pipe.BackRecs = append(q.Pipe.BackRecs[:i:i], q.Pipe.BackRecs[i+1:]...)
			q.Pipe.Only, q.Pipe.Hint = nil, nil
			out = append(out, q)
		}
	}
	if p.Pipe.Mode == "chunks" && len(p.Pipe.Chunkings) > 1 {
		for i := range p.Pipe.Chunkings {
			q := p.clone()
			q.Pipe.Chunkings = [][]int{p.Pipe.Chunkings[i]}
			out = append(out, q)
		}
	}
	if p.Pipe.Mode == "chunks" && len(p.Pipe.ReadBufs) > 1 {
		for i := range p.Pipe.ReadBufs {
			q := p.clone()
			q.Pipe.ReadBufs = []int{p.Pipe.ReadBufs[i]}
			out = append(out, q)
		}
	}
	return out
}
