package e1front

import (
	"bytes"
	"context"
	"crypto/ecdh"
	"crypto/tls"
	"encoding/binary"
	"errors"
	"fmt"
	"io"
	"runtime"
	"slices"
	"strings"
	"testing"
	"testing/cryptotest"

	"github.com/c2FmZQ/ech"

	"verifsim/core"
	"verifsim/echbox"
	"verifsim/simnet"
)

// Mutation is one deliberate deviation applied while a scripted hello is built.
type Mutation struct {
	Kind string `json:"kind"`
	A    int    `json:"a,omitempty"`
	B    int    `json:"b,omitempty"`
	S    string `json:"s,omitempty"`
}

// ScriptPlan describes one hello built by the toolbox client and fed to a
// fresh NewConn over a scripted transport.
type ScriptPlan struct {
	Keys       []KeySpec `json:"keys"`      // keys of the client-facing server
	Target     KeySpec   `json:"target"`    // key the client encrypts to
	SuiteIdx   int       `json:"suite_idx"` // which of Target.Suites the client uses
	InnerSNI   string    `json:"inner_sni"`
	InnerALPN  []string  `json:"inner_alpn,omitempty"`
	ExtraIn    int       `json:"extra_in"`
	ExtraOut   int       `json:"extra_out"`
	MaxData    int       `json:"max_data"`
	Pad        int       `json:"pad"`
	Compress   bool      `json:"compress"`
	NoECH      bool      `json:"no_ech,omitempty"` // plain hello without ECH (pass-through family)
	Grease     bool      `json:"grease,omitempty"` // GREASE ECH extension (random payload)
	TLS13      bool      `json:"tls13"`
	NoVersions bool      `json:"no_versions,omitempty"`
	// ExtBlock (hellos without ECH that do not offer TLS 1.3): "none" = the
	// hello ends after the compression methods, "empty" = an extensions block
	// of length zero.
	ExtBlock string `json:"ext_block,omitempty"`
	// Interleave > 0: another connection is served between this connection's
	// NewConn and its (Interleave-1)-th Read. ErrWithData: the transport returns
	// its last bytes together with the end of stream.
	Interleave  int  `json:"interleave,omitempty"`
	ErrWithData bool `json:"err_with_data,omitempty"`
	// GreaseNamesBadKey (C08): the GREASE extension names the config id and a
	// suite of a key whose private key does not parse.
	GreaseNamesBadKey bool `json:"grease_names_bad_key,omitempty"`
	// AlertWriteFails (refused hellos): writes to the client fail.
	AlertWriteFails bool `json:"alert_write_fails,omitempty"`
	// SNIList 1..3 (hellos without ECH / GREASE): the server_name list holds an
	// entry of a name type other than host_name (RFC 6066 allows the list to
	// grow new types): 1 = only such an entry, 2 = it comes before the
	// host_name entry, 3 = after it. Its opaque body is spelt so that a parser
	// that loses step inside it reads a host name there. A front may refuse
	// such a hello; if it lets it through, what it reports must be what a TLS
	// stack reads from the same bytes.
	SNIList int `json:"sni_list,omitempty"`
	// SharedOption: the process builds its option list once and uses it for all
	// its connections; before the connection under test it has served a valid
	// hello (same keys, same target, the config's first suite) with it.
	SharedOption bool `json:"shared_option,omitempty"`
	// CtxEndsAtAlert (refused hellos): the NewConn context is cancelled at the
	// moment the front starts writing to the client (the verdict is in by then).
	CtxEndsAtAlert bool `json:"ctx_ends_at_alert,omitempty"`
	// Prime: before the connection under test the process serves a connection
	// under this other config.
	Prime *KeySpec `json:"prime,omitempty"`
	// DupOuter: the outer hello repeats the type of a referenced extension.
	DupOuter bool `json:"dup_outer,omitempty"`
	// FragmentLen (hellos without ECH / GREASE): pad the hello so that the
	// record fragment has exactly this many octets.
	FragmentLen int `json:"fragment_len,omitempty"`
	// InnerMsgLen (accepted hellos): an opaque extension of the compressed run is
	// grown - in the outer and in the inner hello - until the reconstructed
	// ClientHelloInner handshake message has exactly this many octets (2^14 is
	// the most a plaintext record holds).
	InnerMsgLen int    `json:"inner_msg_len,omitempty"`
	RecVer      uint16 `json:"rec_ver"`
	LegacyVer   uint16 `json:"legacy_ver,omitempty"`  // ClientHello.legacy_version of a plain hello (0 = 0x0303)
	Compression []byte `json:"compression,omitempty"` // legacy_compression_methods of a plain hello (nil = {0})
	// HRRThenHello2 (pass-through family): the backend answers with a
	// HelloRetryRequest and the client repeats its hello; both must pass untouched.
	HRRThenHello2 bool `json:"hrr_then_hello2,omitempty"`
	// InnerSIDLen > 0: a non-conforming encoder left a legacy_session_id of that
	// length in EncodedClientHelloInner (the outer one must still win).
	InnerSIDLen int `json:"inner_sid_len,omitempty"`
	// OuterSIDEmpty: the outer hello (and hence the true inner) has an empty legacy_session_id.
	OuterSIDEmpty bool         `json:"outer_sid_empty,omitempty"`
	Mutations     []Mutation   `json:"mutations,omitempty"`
	Chunks        []int        `json:"chunks,omitempty"`
	// EmptyReads: the transport answers every other Read with (0, nil)
	EmptyReads bool `json:"empty_reads,omitempty"`
	Trailer       []TrailerRec `json:"trailer,omitempty"` // records that follow the hello
	ReadBuf       int          `json:"read_buf,omitempty"`
	Expect        string       `json:"expect"` // accept | passthrough | reject (passthrough or abort) | abort
	Alerts        []int        `json:"alerts,omitempty"`
}

type TrailerRec struct {
	Type byte `json:"type"`
	Len  int  `json:"len"`
}

const (
	alIllegalParameter  = 47
	alDecodeError       = 50
	alDecryptError      = 51
	alMissingExtension  = 109
	alUnexpectedMessage = 10
)

func alertClass(desc int) error {
	switch desc {
	case alIllegalParameter:
		return ech.ErrIllegalParameter
	case alDecodeError:
		return ech.ErrDecodeError
	case alDecryptError:
		return ech.ErrDecryptError
	case alMissingExtension:
		return ech.ErrMissingExtension
	case alUnexpectedMessage:
		return ech.ErrUnexpectedMessage
	}
	return nil
}

func alertName(desc int) string {
	switch desc {
	case alIllegalParameter:
		return "illegal_parameter"
	case alDecodeError:
		return "decode_error"
	case alDecryptError:
		return "decrypt_error"
	case alMissingExtension:
		return "missing_extension"
	case alUnexpectedMessage:
		return "unexpected_message"
	case 40:
		return "handshake_failure"
	}
	return fmt.Sprintf("alert(%d)", desc)
}

// built is a scripted scenario ready to run.
type built struct {
	keys      []ech.Key
	outerRec  []byte
	outer     *echbox.Hello
	inner     *echbox.Hello // true inner (nil without ECH)
	wantInner []byte        // reference reconstruction as a record (nil when none is expected)
	sealer    *echbox.Sealer
	pair      *echbox.Pair
	tpriv     []byte
	tcfg      []byte
	encoded   []byte
	from, to  int
}

var errSkip = errors.New("scenario not constructible for this seed")

// minRunFor is the length of the compressed run a mutation needs.
func minRunFor(ms []Mutation) int {
	n := 0
	for _, m := range ms {
		switch m.Kind {
		case "oe-order":
			n = max(n, 2)
		case "oe-odd", "oe-badlen", "oe-short", "oe-repeat", "oe-absent", "oe-ech", "oe-twice", "oe-bomb":
			n = max(n, 1)
		}
	}
	return n
}

func hasMut(ms []Mutation, kind string) *Mutation {
	for i := range ms {
		if ms[i].Kind == kind {
			return &ms[i]
		}
	}
	return nil
}

// buildScript constructs the hello of a ScriptPlan. Everything is drawn from
// the plan seed; HPKE ephemeral keys come from the pinned crypto randomness.
func buildScript(seed uint64, p *ScriptPlan) (*built, error) {
	r := core.NewRand(seed, "script")
	b := &built{keys: echKeys(p.Keys)}
	recVer := p.RecVer
	if recVer == 0 {
		recVer = 0x0301
	}
	if p.NoECH || p.Grease {
		h := echbox.GenHello(r, echbox.GenOpts{SNI: p.InnerSNI, ALPN: p.InnerALPN, TLS13: p.TLS13, NoVersions: p.NoVersions, Extra: p.ExtraOut, MaxData: p.MaxData, GREASE: r.IntN(2) == 0, SIDLen: []int{0, 32, 7}[r.IntN(3)]})
		if p.Grease {
			e := &echbox.ECHOuter{KDF: 1, AEAD: uint16(1 + r.IntN(3)), ConfigID: byte(r.IntN(256)), Enc: core.Bytes(r, 32), Payload: core.Bytes(r, 100+r.IntN(200))}
			if len(p.Keys) > 0 && (r.IntN(2) == 0 || p.GreaseNamesBadKey) {
				// GREASE that collides with a held config id (of a key the library
				// can use: what it does with a hello that names a key of a KEM it
				// does not implement is a configuration matter, not judged here)
				for _, k := range p.Keys {
					if !k.OtherKEM && (!k.BadPriv || p.GreaseNamesBadKey) {
						e.ConfigID = k.ID
						if p.GreaseNamesBadKey {
							e.KDF, e.AEAD = k.Suites[0].KDF, k.Suites[0].AEAD
						}
						break
					}
				}
			}
			if !p.GreaseNamesBadKey {
				// (a random id that happens to be the id of a held key of another
				// KEM, or of one whose private key does not parse, is the same
				// configuration matter)
				for tries := 0; tries < 256; tries++ {
					clash := false
					for _, k := range p.Keys {
						if (k.OtherKEM || k.BadPriv) && k.ID == e.ConfigID {
							clash = true
						}
					}
					if !clash {
						break
					}
					e.ConfigID++
				}
			}
			pos := r.IntN(len(h.Exts) + 1)
			h.Exts = slices.Insert(h.Exts, pos, echbox.Ext{Type: echbox.ExtECH, Data: e.Bytes()})
		}
		if p.SNIList > 0 {
			if i := h.Find(echbox.ExtSNI); i >= 0 {
				host := []byte(p.InnerSNI)
				real := append([]byte{0, byte(len(host) >> 8), byte(len(host))}, host...)
				evil := []byte("evil.example.org")
				// (opaque length 0x0100: a parser that skips only the type octet
				// meets 0x01 - another unknown type -, then 0x00 - host_name -, then
				// this length and name, then unknown types up to the end)
				body := append([]byte{byte(len(evil) >> 8), byte(len(evil))}, evil...)
				for len(body) < 256 {
					body = append(body, 1)
				}
				odd := append([]byte{1, 1, 0}, body...)
				var list []byte
				switch p.SNIList {
				case 1:
					list = odd
				case 2:
					list = append(append([]byte(nil), odd...), real...)
				default:
					list = append(append([]byte(nil), real...), 1, 0, 3, 'x', 'y', 'z')
				}
				h.Exts[i].Data = append([]byte{byte(len(list) >> 8), byte(len(list))}, list...)
			}
		}
		if p.LegacyVer != 0 {
			h.Version = p.LegacyVer
		}
		if len(p.Compression) > 0 {
			h.Compression = p.Compression
		}
		if p.ExtBlock != "" && !p.Grease {
			h.Exts, h.NoExtBlock = nil, p.ExtBlock == "none"
		}
		if p.FragmentLen > 0 && p.ExtBlock == "" {
			// a padding extension (RFC 7685) brings the record's fragment to
			// exactly FragmentLen octets (2^14 is the most a plaintext record holds)
			if cur := len(h.Record(recVer)) - 5; p.FragmentLen >= cur+4 {
				h.Exts = append(h.Exts, echbox.Ext{Type: 21, Data: make([]byte, p.FragmentLen-cur-4)})
			}
		}
		b.outer = h
		b.outerRec = h.Record(recVer)
		if len(b.outerRec) > 5+16384 {
			return nil, errSkip
		}
		return b, nil
	}
	tpriv, tpub, tcfg := p.Target.material()
	b.tpriv, b.tcfg = tpriv, tcfg
	suite := p.Target.Suites[p.SuiteIdx%len(p.Target.Suites)]
	pair := echbox.GenPair(r, p.Target.PublicName, p.InnerSNI, p.InnerALPN, p.ExtraIn, p.ExtraOut, p.MaxData, minRunFor(p.Mutations))
	b.pair = pair
	inner := pair.Inner
	outer := pair.Outer
	if p.OuterSIDEmpty {
		inner.SessionID, outer.SessionID = nil, nil
	}
	from, to := pair.From, pair.To
	if !p.Compress {
		from, to = 0, 0
	}
	if p.LegacyVer != 0 {
		// legacy_version of the inner hello as the client chose it (the offer of
		// TLS 1.3 is in supported_versions)
		inner.Version = p.LegacyVer
	}

	// --- stage A: the inner hello itself
	if hasMut(p.Mutations, "inner-no-ech") != nil {
		i := inner.Find(echbox.ExtECH)
		inner.Exts = slices.Delete(inner.Exts, i, i+1)
		if i < from {
			from, to = from-1, to-1
		}
	}
	if hasMut(p.Mutations, "inner-ech-empty") != nil {
		i := inner.Find(echbox.ExtECH)
		inner.Exts[i].Data = nil
	}
	if m := hasMut(p.Mutations, "inner-ech-type"); m != nil {
		// the inner hello's ECH extension is neither of the two defined types
		i := inner.Find(echbox.ExtECH)
		inner.Exts[i].Data = []byte{byte(2 + m.A%254)}
	}
	if m := hasMut(p.Mutations, "inner-ech-twice"); m != nil {
		// the inner-type marker appears twice in the inner hello
		at := m.A % (len(inner.Exts) + 1)
		inner.Exts = slices.Insert(inner.Exts, at, echbox.Ext{Type: echbox.ExtECH, Data: []byte{1}})
		if to > from {
			if at <= from {
				from, to = from+1, to+1
			} else if at < to {
				from, to = 0, 0 // the run is broken up: send the inner hello uncompressed
			}
		}
	}
	if m := hasMut(p.Mutations, "inner-edge"); m != nil {
		innerEdge(inner, m.A)
	}
	if m := hasMut(p.Mutations, "inner-versions-remnant"); m != nil {
		// supported_versions of the inner hello: TLS 1.3 first, then a stray
		// octet (every enclosing length is consistent)
		i := inner.Find(echbox.ExtVersions)
		inner.Exts[i].Data = [][]byte{{3, 3, 4, 3}, {5, 3, 4, 3, 3, 0x7f}, {1, 3}}[m.A%3]
	}
	if hasMut(p.Mutations, "inner-no-tls13") != nil {
		// only the inner hello stops offering TLS 1.3 (the generator disables
		// compression for this mutation, so the outer keeps its own offer)
		i := inner.Find(echbox.ExtVersions)
		inner.Exts[i] = echbox.VersionsExt(0x0303, 0x0302)
		if !p.Compress || (i >= from && i < to) {
			from, to = 0, 0
		}
		// (otherwise: other extensions are still referenced from the outer
		// hello, which keeps its own offer of TLS 1.3)
	}
	if needRun := minRunFor(p.Mutations); to-from < needRun {
		return nil, errSkip
	}
	if p.InnerMsgLen > 0 {
		grown := false
		for i := to - 1; i >= from && !grown; i-- {
			t := inner.Exts[i].Type
			if t == echbox.ExtSNI || t == echbox.ExtALPN || t == echbox.ExtVersions || t == echbox.ExtKeyShare || t == echbox.ExtECH || t == 41 || t == 42 || t == 0xfd00 {
				continue
			}
			o := outer.Find(t)
			cur := 4 + len(inner.Body())
			if o < 0 || cur > p.InnerMsgLen || !bytes.Equal(outer.Exts[o].Data, inner.Exts[i].Data) {
				continue
			}
			fill := make([]byte, p.InnerMsgLen-cur)
			for k := range fill {
				fill[k] = byte(0x30 + k%64)
			}
			inner.Exts[i].Data = append(append([]byte(nil), inner.Exts[i].Data...), fill...)
			outer.Exts[o].Data = append([]byte(nil), inner.Exts[i].Data...)
			grown = true
		}
		if !grown {
			return nil, errSkip
		}
	}
	b.inner = inner
	b.from, b.to = from, to

	// --- stage B: EncodedClientHelloInner
	encoded := echbox.EncodeInner(inner, from, to, p.Pad)
	if p.InnerSIDLen > 0 {
		encoded = echbox.EncodeInnerSID(inner, from, to, p.Pad, core.Bytes(r, p.InnerSIDLen))
	}
	oeTypes := func() []uint16 {
		var ts []uint16
		for _, e := range inner.Exts[from:to] {
			ts = append(ts, e.Type)
		}
		return ts
	}
	rebuild := func(oe echbox.Ext, twice bool) {
		c := inner.Clone()
		c.SessionID = nil
		var exts []echbox.Ext
		exts = append(exts, c.Exts[:from]...)
		exts = append(exts, oe)
		exts = append(exts, c.Exts[to:]...)
		if twice {
			// a second ech_outer_extensions, naming one more outer extension if there is one
			exts = append(exts, oe)
		}
		c.Exts = exts
		encoded = append(c.Body(), make([]byte, p.Pad)...)
	}
	for _, m := range p.Mutations {
		switch m.Kind {
		case "pad-nonzero":
			if p.Pad > 0 {
				pad := encoded[len(encoded)-p.Pad:]
				switch {
				case m.B%4 == 1 && p.Pad >= 2: // two equal non-zero bytes
					v := byte(1 + m.B%255)
					i := m.A % p.Pad
					j := (i + 1 + (m.A/7)%(p.Pad-1)) % p.Pad
					pad[i], pad[j] = v, v
				case m.B%4 == 2: // the whole padding
					for i := range pad {
						pad[i] = 0xff
					}
				case m.B%4 == 3 && p.Pad >= 3: // bytes whose XOR is zero
					i := m.A % (p.Pad - 2)
					pad[i], pad[i+1], pad[i+2] = 1, 2, 3
				default:
					pad[m.A%p.Pad] = byte(1 + m.B%255)
				}
			}
		case "oe-odd":
			ts := oeTypes()
			oe := echbox.OuterExtsExt(ts)
			oe.Data = append(oe.Data, 0)
			oe.Data[0]++
			rebuild(oe, false)
		case "oe-badlen":
			oe := echbox.OuterExtsExt(oeTypes())
			oe.Data[0] += byte(2 + 2*(m.A%3))
			rebuild(oe, false)
		case "oe-short":
			oe := echbox.OuterExtsExt(oeTypes())
			oe.Data = nil // no length byte at all
			rebuild(oe, false)
		case "oe-order":
			ts := oeTypes()
			i := m.A % (len(ts) - 1)
			ts[i], ts[i+1] = ts[i+1], ts[i]
			rebuild(echbox.OuterExtsExt(ts), false)
		case "oe-repeat":
			ts := oeTypes()
			i := m.A % len(ts)
			ts = slices.Insert(ts, i+1, ts[i])
			rebuild(echbox.OuterExtsExt(ts), false)
		case "oe-absent":
			ts := oeTypes()
			t := uint16(0x7a7b)
			for outer.Find(t) >= 0 {
				t++
			}
			ts = slices.Insert(ts, m.A%(len(ts)+1), t)
			rebuild(echbox.OuterExtsExt(ts), false)
		case "oe-ech":
			ts := oeTypes()
			t := uint16(echbox.ExtECH)
			if m.B%2 == 1 {
				t = echbox.ExtOuterExts
			}
			ts = slices.Insert(ts, m.A%(len(ts)+1), t)
			rebuild(echbox.OuterExtsExt(ts), false)
		case "oe-twice":
			rebuild(echbox.OuterExtsExt(oeTypes()), true)
		case "oe-bomb":
			// one large shared extension referenced as often as the list allows
			big := core.Bytes(r, 12000+m.A%2000)
			bi := -1
			for i := from; i < to; i++ {
				if t := inner.Exts[i].Type; t != echbox.ExtSNI && t != echbox.ExtALPN && t != echbox.ExtVersions {
					bi = i
					break
				}
			}
			if bi < 0 {
				return nil, errSkip
			}
			from = bi
			t := inner.Exts[from].Type
			inner.Exts[from].Data = big
			outer.Exts[outer.Find(t)].Data = append([]byte(nil), big...)
			ts := make([]uint16, 127)
			for i := range ts {
				ts[i] = t
			}
			to = from + 1
			b.from, b.to = from, to
			rebuild(echbox.OuterExtsExt(ts), false)
		case "trunc-inner":
			// cut the encoded inner short (still sealed authentically)
			// (at least one byte is kept: an empty plaintext is indistinguishable
			// from a payload that does not open, and falls back to the outer hello)
			n := len(encoded) - p.Pad
			encoded = encoded[:1+m.A%(n-1)]
		case "ext-remnant":
			// 1..3 stray bytes at the end of the inner extensions block, all
			// enclosing lengths consistent
			c := inner.Clone()
			c.SessionID = nil
			if to > from {
				var types []uint16
				for _, e := range inner.Exts[from:to] {
					types = append(types, e.Type)
				}
				c.Exts = append(append(append([]echbox.Ext(nil), c.Exts[:from]...), echbox.OuterExtsExt(types)), c.Exts[to:]...)
			}
			body := c.Body()
			eb := echbox.MarshalExts(c.Exts)
			off := len(body) - len(eb) - 2
			extra := 1 + m.A%3
			binary.BigEndian.PutUint16(body[off:], uint16(len(eb)+extra))
			body = append(body, make([]byte, extra)...)
			for i := 0; i < extra; i++ {
				body[len(body)-1-i] = byte(m.B >> (8 * i))
			}
			encoded = append(body, make([]byte, p.Pad)...)
		case "inner-len-lie":
			// inflate the extensions length of the encoded inner beyond the data
			c := inner.Clone()
			c.SessionID = nil
			body := c.Body()
			eb := echbox.MarshalExts(c.Exts)
			off := len(body) - len(eb) - 2
			binary.BigEndian.PutUint16(body[off:], uint16(len(eb)+1+m.A%50))
			encoded = body
		}
	}
	b.encoded = encoded

	// --- stage C: the outer hello
	if m := hasMut(p.Mutations, "outer-sni"); m != nil {
		i := outer.Find(echbox.ExtSNI)
		if i >= 0 {
			outer.Exts[i] = echbox.SNIExt("not-" + p.Target.PublicName)
			if len(p.Target.PublicName) > 200 {
				outer.Exts[i] = echbox.SNIExt("other.example")
			}
			if m.A%4 == 3 {
				// a look-alike of the public name: one letter replaced by a code
				// point that only case FOLDING maps onto it (KELVIN SIGN, LONG S)
				name := p.Target.PublicName
				if i := strings.IndexAny(name, "ks"); i >= 0 {
					rep := map[byte]string{'k': "\u212a", 's': "\u017f"}[name[i]]
					outer.Exts[i0(outer)] = echbox.SNIExt(name[:i] + rep + name[i+1:])
				}
			}
			if m.A%3 == 2 && m.A%4 != 3 {
				// the outer hello names nobody: no server_name extension at all
				outer.Exts = slices.Delete(outer.Exts, i, i+1)
				if i < pair.EchIdx {
					pair.EchIdx--
				}
			}
		}
	}
	if m := hasMut(p.Mutations, "outer-sni-other"); m != nil {
		// the outer hello names another front (the public name of another config)
		if i := outer.Find(echbox.ExtSNI); i >= 0 {
			outer.Exts[i] = echbox.SNIExt(m.S)
		}
	}
	if m := hasMut(p.Mutations, "outer-sni-empty"); m != nil {
		// a server_name extension that names nobody: empty list, or an empty host name
		if i := outer.Find(echbox.ExtSNI); i >= 0 {
			outer.Exts[i].Data = [][]byte{{0, 0}, {0, 3, 0, 0, 0}}[m.A%2]
		}
	}
	if hasMut(p.Mutations, "outer-no-tls13") != nil {
		if i := outer.Find(echbox.ExtVersions); i >= 0 {
			outer.Exts[i] = echbox.VersionsExt(0x0303, 0x0302)
		}
	}
	if hasMut(p.Mutations, "outer-has-oe") != nil {
		pos := r.IntN(len(outer.Exts) + 1)
		if pos <= pair.EchIdx {
			pair.EchIdx++
		}
		oe := echbox.OuterExtsExt([]uint16{10})
		if m := hasMut(p.Mutations, "outer-has-oe"); m.A%3 == 0 {
			oe.Data = nil // an ech_outer_extensions extension with an empty body
		}
		outer.Exts = slices.Insert(outer.Exts, pos, oe)
	}

	if p.DupOuter && to > from {
		// the outer hello carries the type of one referenced extension a second
		// time, further down and with another body: a reference resolves to the
		// first extension of that type at or after the pointer (draft, Appendix B)
		// (one whose body is opaque to the front: a second server_name, ALPN or
		// supported_versions would have to be well-formed in its own right)
		for k := 0; k < to-from; k++ {
			ref := inner.Exts[from+(int(seed%1024)+k)%(to-from)]
			if ref.Type != 0 && ref.Type != 16 && ref.Type != 43 {
				outer.Exts = append(outer.Exts, echbox.Ext{Type: ref.Type, Data: append([]byte{0x5a, 0xa5}, ref.Data...)})
				break
			}
		}
	}

	// key / info / suite substitutions (C02)
	sealPub, sealCfg, sealID, sealSuite := tpub, tcfg, p.Target.ID, suite
	for _, m := range p.Mutations {
		switch m.Kind {
		case "wrong-key": // sealed to a key the server does not hold, same config otherwise
			k := p.Target
			k.KeySeed = p.Target.KeySeed + 1 + m.A
			_, sealPub, _ = k.material()
		case "wrong-info": // right key, info string from a config that differs in one field
			k := p.Target
			switch m.A % 4 {
			case 0:
				k.ID++
			case 1:
				k.PublicName = "x" + k.PublicName
				if len(k.PublicName) > 255 {
					k.PublicName = k.PublicName[2:]
				}
			case 2:
				k.Suites = append([]echbox.Suite{{KDF: 1, AEAD: uint16(1 + (int(suite.AEAD) % 3))}}, k.Suites...)
			case 3:
				k.OwnEncoder = true
				_, pub, _ := k.material()
				sealCfg = echbox.BuildConfig(k.ID, pub, k.PublicName, k.Suites, byte(min(len(k.PublicName)+16, 255))^1)
			}
			if m.A%4 != 3 {
				_, _, sealCfg = k.material()
			}
		case "info-concat": // right key, info string over the configs of ALL the candidates before it and its own
			var cat []byte
			for _, k := range p.Keys {
				_, _, c := k.material()
				cat = append(cat, c...)
				if k.KeySeed == p.Target.KeySeed {
					break
				}
			}
			sealCfg = cat
		case "wrong-id-ext": // the extension names another config id than the one sealed for
			sealID = p.Target.ID + byte(1+m.A%255)
			if m.B%2 == 1 {
				// ... the id of ANOTHER key the server holds (which lists the suite)
				for _, k := range p.Keys {
					if k.KeySeed != p.Target.KeySeed && !k.BadConfig && !k.OtherKEM && k.ID != p.Target.ID && slices.Contains(k.Suites, suite) {
						sealID = k.ID
						break
					}
				}
			}
		case "unlisted-suite": // sealed (and labelled) with a suite the key's config does not list
			for _, cand := range echbox.AllSuites {
				listed := false
				for _, ls := range p.Target.Suites {
					if ls == cand {
						listed = true
					}
				}
				if !listed {
					sealSuite = cand
				}
			}
			if sealSuite == suite {
				return nil, errSkip // the config lists every suite
			}
		case "canonical-info":
			// the server's config is not in canonical form (maximum_name_length
			// not derived from the name, or a non-empty extensions block); the
			// client seals against the canonicalised variant of it
			k := p.Target
			if k.MaxNameDelta == 0 && !k.ExtraExt {
				return nil, errSkip
			}
			k.MaxNameDelta, k.ExtraExt = 0, false
			_, _, sealCfg = k.material()
		}
	}
	s, err := echbox.NewSealer(sealPub, sealCfg, sealID, sealSuite)
	if m := hasMut(p.Mutations, "low-order-enc"); m != nil && err == nil {
		// encrypted "to nobody": the encapsulated key is a point of small order
		// and the payload is sealed under the key schedule that results when the
		// receiver's X25519 result is taken to be empty or all zeros - everything
		// in it is public
		points := [][]byte{make([]byte, 32), append([]byte{1}, make([]byte, 31)...),
			{0xe0, 0xeb, 0x7a, 0x7c, 0x3b, 0x41, 0xb8, 0xae, 0x16, 0x56, 0xe3, 0xfa, 0xf1, 0x9f, 0xc4, 0x6a, 0xda, 0x09, 0x8d, 0xeb, 0x9c, 0x32, 0xb1, 0xfd, 0x86, 0x62, 0x05, 0x16, 0x5f, 0x49, 0xb8, 0x00}}
		dhs := [][]byte{nil, make([]byte, 32)}
		s, err = echbox.NewForgedSealer(dhs[m.B%2], points[m.A%3], tpub, sealCfg, sealID, sealSuite)
	}
	if err != nil {
		return nil, err
	}
	b.sealer = s
	o2, err := s.SealInto(outer, pair.EchIdx, encoded, true)
	if err != nil {
		return nil, err
	}
	// post-seal tampering
	for _, m := range p.Mutations {
		e, perr := echbox.ParseECHOuter(o2.Exts[pair.EchIdx].Data)
		if perr != nil {
			break // an earlier mutation already destroyed the extension
		}
		switch m.Kind {
		case "wrong-suite-ext": // extension claims another AEAD than the one used
			e.AEAD = uint16(1 + int(e.AEAD)%3)
			o2.Exts[pair.EchIdx].Data = e.Bytes()
		case "trunc-enc":
			e.Enc = e.Enc[:m.A%len(e.Enc)]
			o2.Exts[pair.EchIdx].Data = e.Bytes()
		case "bad-enc": // an encapsulated key the KEM cannot use: wrong length, or a low-order point
			switch m.A % 4 {
			case 0:
				e.Enc = e.Enc[:len(e.Enc)-1]
			case 1:
				e.Enc = append(append([]byte{4}, e.Enc...), e.Enc...) // the size of an uncompressed P-256 point
			case 2:
				e.Enc = make([]byte, len(e.Enc))
			case 3:
				e.Enc = append(e.Enc[:0:0], bytes.Repeat(e.Enc, 35)...) // the size of a hybrid KEM share
			}
			o2.Exts[pair.EchIdx].Data = e.Bytes()
		case "trunc-payload":
			e.Payload = e.Payload[:1+m.A%(len(e.Payload)-1)]
			o2.Exts[pair.EchIdx].Data = e.Bytes()
		case "aad-not-zeroed": // sealed with the placeholder zeros replaced: re-seal with a different AAD
			aad, _ := echbox.AAD(o2)
			aad[len(aad)-1-m.A%16] ^= 0x80
			s2, _ := echbox.NewSealer(sealPub, sealCfg, sealID, sealSuite)
			ct, _ := s2.SealRaw(aad, encoded)
			e.Enc, e.Payload = s2.Enc, ct
			o2.Exts[pair.EchIdx].Data = e.Bytes()
		case "sid-grown":
			// octets added behind a full-length legacy_session_id after sealing (not a
			// legal hello any more; a parser that keeps 32 octets must not seal its
			// eyes to the rest)
			if len(o2.SessionID) != 32 {
				return nil, errSkip
			}
			o2.SessionID = append(append([]byte(nil), o2.SessionID...), core.Bytes(r, 1+m.A%9)...)
		case "outer-ech-empty":
			o2.Exts[pair.EchIdx].Data = nil // the extension is there, its body is gone
		case "ech-empty-enc":
			e.Enc = nil // well-formed, but a first hello must carry the encapsulated key
			o2.Exts[pair.EchIdx].Data = e.Bytes()
		case "ech-trailing-sealed":
			// octets behind the payload inside the extension, and a sender that seals
			// against the associated data of a receiver which blanks the LAST
			// len(payload) octets of the extension instead of the payload field
			// (the ciphertext body does not depend on the associated data, only its
			// tag does): the hello is not bound to its own octets then
			junk := core.Bytes(r, 1+m.A%8)
			eph, kerr := ecdh.X25519().NewPrivateKey(core.Bytes(r, 32))
			rpub, perr2 := ecdh.X25519().NewPublicKey(sealPub)
			if kerr != nil || perr2 != nil {
				return nil, errSkip
			}
			dh, derr := eph.ECDH(rpub)
			if derr != nil {
				return nil, errSkip
			}
			mk := func() (*echbox.Sealer, error) {
				return echbox.NewForgedSealer(dh, eph.PublicKey().Bytes(), sealPub, sealCfg, sealID, sealSuite)
			}
			s1, e1 := mk()
			s2, e2 := mk()
			if e1 != nil || e2 != nil {
				return nil, errSkip
			}
			ct0, _ := s1.SealRaw(nil, encoded)
			e.Enc, e.Payload = eph.PublicKey().Bytes(), ct0
			blank := append(e.Bytes(), junk...)
			for i := len(blank) - len(ct0); i < len(blank); i++ {
				blank[i] = 0
			}
			o3 := o2.Clone()
			o3.Exts[pair.EchIdx].Data = blank
			ct, _ := s2.SealRaw(o3.Body(), encoded)
			e.Payload = ct
			o2.Exts[pair.EchIdx].Data = append(e.Bytes(), junk...)
		case "ech-trailing":
			// extra bytes inside the extension after the payload, lengths consistent
			d := append([]byte(nil), o2.Exts[pair.EchIdx].Data...)
			o2.Exts[pair.EchIdx].Data = append(d, core.Bytes(r, 1+m.A%40)...)
		case "outer-ech-type":
			// ECH extension of type inner (1) or of an unknown type in the outer hello
			t := byte(1)
			if m.A%2 == 1 {
				t = byte(2 + m.B%254)
			}
			d := append([]byte(nil), o2.Exts[pair.EchIdx].Data...)
			d[0] = t
			if t == 1 {
				d = []byte{1}
			}
			o2.Exts[pair.EchIdx].Data = d
		case "ech-ext-lie":
			// length field inside the ECH extension lies
			d := append([]byte(nil), o2.Exts[pair.EchIdx].Data...)
			off := 6 // enc length
			if m.A%2 == 1 {
				off = 8 + len(e.Enc) // payload length
			}
			binary.BigEndian.PutUint16(d[off:], binary.BigEndian.Uint16(d[off:])+uint16(1+m.B%300))
			o2.Exts[pair.EchIdx].Data = d
		}
	}
	b.outer = o2
	b.outerRec = o2.Record(recVer)
	if m := hasMut(p.Mutations, "outer-ext-remnant"); m != nil {
		// 1..3 stray bytes at the end of the outer extensions block, lengths consistent
		body := o2.Body()
		eb := echbox.MarshalExts(o2.Exts)
		off := len(body) - len(eb) - 2
		extra := 1 + m.A%3
		binary.BigEndian.PutUint16(body[off:], uint16(len(eb)+extra))
		for i := 0; i < extra; i++ {
			body = append(body, byte(m.B>>(8*i)))
		}
		b.outerRec = echbox.Record(22, recVer, echbox.Handshake(1, body))
	}
	if m := hasMut(p.Mutations, "outer-trailing"); m != nil {
		// stray octets after the extensions of the authentic outer hello - inside
		// the handshake message or behind it in the record (no length that the
		// AAD covers changes)
		body := o2.Body()
		junk := core.Bytes(core.NewRand(seed, "junk"), 1+m.A%40)
		if junk[0] == 0 {
			junk[0] = 0x5a
		}
		if m.B%2 == 0 {
			b.outerRec = echbox.Record(22, recVer, echbox.Handshake(1, append(body, junk...)))
		} else {
			b.outerRec = echbox.Record(22, recVer, append(echbox.Handshake(1, body), junk...))
		}
	}
	if m := hasMut(p.Mutations, "outer-zeros"); m != nil {
		// zero bytes appended to the authentic outer hello in transit: after the
		// extensions inside the message, or after the message inside the record
		// (neither length is covered by the AAD)
		body := o2.Body()
		zeros := make([]byte, 1+m.A%64)
		if m.B%2 == 0 {
			b.outerRec = echbox.Record(22, recVer, echbox.Handshake(1, append(body, zeros...)))
		} else {
			b.outerRec = echbox.Record(22, recVer, append(echbox.Handshake(1, body), zeros...))
		}
	}
	if len(b.outerRec) > 5+16384 && (p.InnerMsgLen == 0 || len(b.outerRec) > 5+16384+2048) {
		// not a legal plaintext record. (Plans that size the INNER hello to the
		// limit need an outer record beyond it: the library takes records of up
		// to 2^14+2048 octets, and whatever it accepts it must reconstruct.)
		return nil, errSkip
	}
	if p.Expect == "accept" {
		in, err := echbox.DecodeInner(encoded, o2)
		if err != nil {
			return nil, fmt.Errorf("reference decode of an unmutated hello failed: %w", err)
		}
		b.wantInner = in.Record(recVer)
	}
	return b, nil
}

type scriptOutcome struct {
	err       error
	accepted  bool
	presented bool
	name      string
	alpn      []string
	read      []byte // everything Conn.Read returned
	readErr   error
	out       []byte // bytes written to the client-side transport
	closes    int
	panicMsg  string
	panicSite string
	aliased   bool
}

func runScript(keys []ech.Key, in []byte, chunks []int, readBuf int) (*scriptOutcome, *simnet.ScriptConn) {
	return runScriptW(keys, in, chunks, readBuf, nil)
}

// runScriptW: as runScript, but afterNewConn (if non-nil) is written through
// Conn.Write right after NewConn returned (a backend flight such as a
// HelloRetryRequest) before the rest of the client's bytes is read.
// scriptHook, when set, runs once inside the next runScriptW, before its
// scriptHookAfter-th Read (0: right after NewConn): another connection of the
// same process gets served in between. scriptErrWithData makes the transport
// hand over its last bytes together with the end of stream.
var (
	scriptHook        func()
	scriptHookAfter   int
	scriptErrWithData bool
	// scriptWriteFails: every write to the client-side transport fails (the
	// client is gone or its window is shut for good).
	scriptWriteFails bool
	// scriptCtxEndsAtWrite: NewConn's context is cancelled as the transport's
	// first Write begins.
	scriptCtxEndsAtWrite bool
	// scriptEmptyReads: see ScriptPlan.EmptyReads
	scriptEmptyReads bool
	// scriptOpts: the option list to use instead of a fresh keyOptions(keys).
	scriptOpts []ech.Option
)

func runScriptW(keys []ech.Key, in []byte, chunks []int, readBuf int, afterNewConn []byte) (*scriptOutcome, *simnet.ScriptConn) {
	sc := simnet.NewScript(in)
	sc.Chunks = chunks
	sc.ErrWithData = scriptErrWithData
	sc.EmptyBefore = scriptEmptyReads
	if scriptWriteFails {
		sc.WriteErrAt = 0
	}
	hook, hookAfter := scriptHook, scriptHookAfter
	ctx, cancel := context.WithCancel(context.Background())
	defer cancel()
	if scriptCtxEndsAtWrite {
		fired := false
		sc.OnWrite = func() {
			if !fired {
				fired = true
				cancel()
				for i := 0; i < 50; i++ {
					runtime.Gosched()
				}
			}
		}
	}
	scriptHook, scriptErrWithData, scriptWriteFails, scriptCtxEndsAtWrite = nil, false, false, false
	o := &scriptOutcome{}
	var conn *ech.Conn
	panicked, msg, site := core.Guard(func() {
		var err error
		opts := scriptOpts
		if opts == nil {
			opts = keyOptions(keys)
		}
		conn, err = ech.NewConn(ctx, sc, opts...)
		o.err = err
		if err != nil {
			return
		}
		o.accepted, o.presented, o.name, o.alpn = conn.ECHAccepted(), conn.ECHPresented(), conn.ServerName(), conn.ALPNProtos()
		// what the accessor hands out belongs to the caller
		if scribble := conn.ALPNProtos(); len(scribble) > 0 {
			for i := range scribble {
				scribble[i] = "scribbled"
			}
			slices.Reverse(scribble)
			if again := conn.ALPNProtos(); !slices.Equal(again, o.alpn) {
				o.aliased = true
			}
		}
		if afterNewConn != nil {
			if n, err := conn.Write(afterNewConn); err != nil || n != len(afterNewConn) {
				o.readErr = fmt.Errorf("Conn.Write of the backend flight: n=%d err=%v", n, err)
				return
			}
		}
		if readBuf <= 0 {
			readBuf = 32768
		}
		buf := make([]byte, readBuf)
		for i := 0; i < 1<<20; i++ {
			if hook != nil && i == hookAfter {
				hook()
				hook = nil
			}
			n, err := conn.Read(buf)
			o.read = append(o.read, buf[:n]...)
			if err != nil {
				o.readErr = err
				break
			}
		}
	})
	if panicked {
		o.panicMsg, o.panicSite = msg, site
	}
	o.out = sc.Out
	o.closes = sc.Closes
	return o, sc
}

func trailerBytes(seed uint64, tr []TrailerRec) []byte {
	r := core.NewRand(seed, "trailer")
	var b []byte
	for _, t := range tr {
		pl := core.Bytes(r, t.Len)
		if t.Type == 21 && t.Len >= 2 && r.IntN(2) == 0 {
			// a well-formed alert: level, description
			pl = []byte{byte(1 + r.IntN(2)), []byte{0, 10, 40, 47, 50, 70, 80, 109, 112, 120}[r.IntN(10)]}
		}
		if t.Type == 22 && t.Len >= 1 && r.IntN(3) == 0 {
			// handshake messages of types at the edges of the one-octet code space
			pl[0] = []byte{0xff, 0xfe, 0x00, 0xff, 24, 0x80}[r.IntN(6)]
		}
		b = append(b, echbox.Record(t.Type, 0x0303, pl)...)
	}
	return b
}

// checkAbort verifies the four observations of an aborted hello.
func checkAbort(res *core.Result, prop, what string, err error, out []byte, closes int, forwarded []byte, allowed []int) {
	if err == nil {
		res.Fail(prop, "not-aborted", what, "the call returned no error; %d bytes forwarded", len(forwarded))
		return
	}
	var names []string
	okClass := false
	for _, a := range allowed {
		names = append(names, alertName(a))
		if errors.Is(err, alertClass(a)) {
			okClass = true
		}
	}
	if !okClass {
		res.Fail(prop, "wrong-error-class", what+": want "+fmt.Sprint(names), "got error %v", err)
	}
	if len(forwarded) > 0 {
		res.Fail(prop, "forwarded", what, "%d bytes were readable from the Conn after the abort", len(forwarded))
	}
	if len(out) == 0 {
		res.Fail(prop, "no-alert", "no alert record written to the client", "%s: error %v, transport closed %d times", what, err, closes)
		return
	}
	if len(out) != 7 || out[0] != 0x15 || out[1] != 3 || out[3] != 0 || out[4] != 2 || out[5] != 2 {
		res.Fail(prop, "bad-alert", what, "client-side bytes %x are not exactly one fatal alert record", out)
		return
	}
	desc := int(out[6])
	if !slices.Contains(allowed, desc) {
		res.Fail(prop, "wrong-alert", what+": want "+fmt.Sprint(names)+" got "+alertName(desc), "error %v", err)
	} else if !errors.Is(err, alertClass(desc)) {
		res.Fail(prop, "alert-error-mismatch", what, "alert %s but error %v", alertName(desc), err)
	}
	if closes == 0 {
		res.Fail(prop, "not-closed", what, "alert sent but the transport was not closed")
	}
}

func executeScript(t *testing.T, prop string, seed uint64, p *ScriptPlan) *core.Result {
	res := &core.Result{}
	cryptotest.SetGlobalRandom(t, seed)
	b, err := buildScript(seed, p)
	if err == errSkip {
		res.Probe("scenario_skipped")
		return res
	}
	if err != nil {
		res.Harness = "buildScript: " + err.Error()
		return res
	}
	trailer := trailerBytes(seed, p.Trailer)
	var flight []byte
	if p.HRRThenHello2 && (p.Expect == "passthrough") {
		// the backend asks for a retry; the client repeats its (outer) hello
		flight = append(hrrRecord(core.Mix(seed, "hrr")), echbox.Record(20, 0x0303, []byte{1})...)
		trailer = append(append(echbox.Record(20, 0x0303, []byte{1}), b.outerRec...), trailer...)
	}
	in := append(append([]byte(nil), b.outerRec...), trailer...)
	if p.Prime != nil {
		// an earlier connection of the same process, served under another
		// config (the key pair may be the same: a re-issued config)
		pp := *p
		pp.Prime, pp.Mutations, pp.Trailer, pp.Chunks = nil, nil, nil, nil
		pp.Target, pp.Keys, pp.Expect, pp.SuiteIdx = *p.Prime, []KeySpec{*p.Prime}, "accept", 0
		if pb, perr := buildScript(core.Mix(seed, "prime"), &pp); perr == nil {
			po, _ := runScriptW(pb.keys, append(append([]byte(nil), pb.outerRec...), echbox.Record(23, 0x0303, []byte("earlier connection"))...), nil, 0, nil)
			if po.err != nil || !po.accepted {
				res.Fail(prop, "rejected-valid", "earlier connection of the process (another config) not accepted", "err=%v", po.err)
				return res
			}
			res.Probe("earlier_connection_other_config")
		}
	}
	if p.Interleave > 0 {
		// another client of the same process is served between this
		// connection's NewConn and its (Interleave-1)-th Read
		op := *p
		op.Prime, op.Mutations, op.Trailer, op.Chunks, op.Interleave = nil, nil, []TrailerRec{{Type: 23, Len: 40}}, nil, 0
		op.NoECH, op.Grease, op.Expect, op.InnerSNI = true, false, "passthrough", "another-connection.example"
		if p.Expect == "accept" {
			op.NoECH, op.Expect = false, "accept"
		}
		if ob, oerr := buildScript(core.Mix(seed, "other"), &op); oerr == nil {
			oin := append(append([]byte(nil), ob.outerRec...), trailerBytes(seed+7, op.Trailer)...)
			scriptHookAfter = p.Interleave - 1
			scriptHook = func() {
				runScriptW(ob.keys, oin, nil, 0, nil)
				res.Probe("another_connection_in_between")
			}
		}
	}
	if p.SharedOption && len(b.keys) > 0 {
		vp := *p
		vp.Prime, vp.Mutations, vp.Trailer, vp.Chunks, vp.Interleave, vp.SharedOption = nil, nil, nil, nil, 0, false
		vp.Expect, vp.SuiteIdx, vp.NoECH, vp.Grease = "accept", 0, false, false
		if vb, verr := buildScript(core.Mix(seed, "shared"), &vp); verr == nil && len(vb.keys) == len(b.keys) {
			scriptOpts = keyOptions(b.keys)
			defer func() { scriptOpts = nil }()
			vo, _ := runScriptW(b.keys, append(append([]byte(nil), vb.outerRec...), echbox.Record(23, 0x0303, []byte("earlier connection"))...), nil, 0, nil)
			if vo.err != nil || !vo.accepted {
				res.Fail(prop, "rejected-valid", "earlier connection of the process (same option list, valid hello) not accepted", "err=%v", vo.err)
				return res
			}
			res.Probe("earlier_connection_same_option_list")
		}
	}
	scriptErrWithData = p.ErrWithData
	scriptWriteFails = p.AlertWriteFails && p.Expect == "abort"
	scriptCtxEndsAtWrite = p.CtxEndsAtAlert && p.Expect == "abort"
	scriptEmptyReads = p.EmptyReads
	o, _ := runScriptW(b.keys, in, p.Chunks, p.ReadBuf, flight)
	scriptHook, scriptEmptyReads = nil, false
	if p.EmptyReads {
		res.Probe("transport_with_empty_reads")
	}
	if flight != nil {
		res.Probe("passthrough_hrr_second_hello")
		if bytes.HasPrefix(o.out, flight) {
			o.out = o.out[len(flight):]
		} else if o.err == nil {
			res.Fail(prop, "passthrough", "backend flight not forwarded unchanged", "wrote %d bytes, transport got %d", len(flight), len(o.out))
		}
	}
	mk := "valid hello"
	if len(p.Mutations) > 0 {
		mk = ""
		for i, m := range p.Mutations {
			if i > 0 {
				mk += "+"
			}
			mk += m.Kind
		}
	}
	if o.panicMsg != "" {
		res.Fail(prop, "panic", o.panicSite+": "+normMsg(o.panicMsg), "%s", mk)
		return finishScript(res, p, o, mk)
	}
	if o.aliased {
		res.Fail(prop, "reconstruction", "ALPNProtos changes after the caller modified the slice it was handed", "%s", mk)
	}
	switch p.Expect {
	case "accept":
		switch {
		case o.err != nil:
			res.Fail(prop, "rejected-valid", "NewConn: "+normErr(o.err), "%s: %v", mk, o.err)
		case !o.accepted:
			res.Fail(prop, "rejected-valid", "Conn.ECHAccepted=false", "%s", mk)
		default:
			want := append(append([]byte(nil), b.wantInner...), trailer...)
			if len(o.read) >= 3 {
				// the record header's legacy version is not part of ClientHelloInner
				want[1], want[2] = o.read[1], o.read[2]
			}
			if !bytes.Equal(o.read, want) {
				d := firstDiff(o.read, want)
				where := "hello"
				if d >= len(b.wantInner) {
					where = "trailer"
				}
				res.Fail(prop, "reconstruction", "forwarded bytes differ from the reference reconstruction ("+where+")", "first diff at %d; got %d bytes want %d; compress=[%d,%d) pad=%d", d, len(o.read), len(want), b.from, b.to, p.Pad)
			}
			wi, _ := echbox.ParseHelloRecord(b.wantInner)
			if wi != nil && (o.name != wi.SNI() || !slices.Equal(o.alpn, wi.ALPN())) {
				res.Fail(prop, "reconstruction", "ServerName/ALPNProtos differ from the reconstructed hello", "Conn (%q,%q) reference (%q,%q)", o.name, o.alpn, wi.SNI(), wi.ALPN())
			}
			if o.readErr != io.EOF {
				res.Fail(prop, "pipe", "end of stream not reported as io.EOF", "%v", o.readErr)
			}
			if len(o.out) != 0 {
				res.Fail(prop, "pipe", "bytes written to the client during an accepted hello", "%x", o.out)
			}
		}
	case "passthrough", "reject":
		if o.err != nil {
			if p.Expect == "reject" {
				// an abort is an allowed outcome of a substitution; it must still be a proper abort
				res.Probe("substitution_aborted")
				break
			}
			if p.SNIList > 0 {
				res.Probe("odd_sni_list_refused")
				break
			}
			res.Fail(prop, "passthrough", "NewConn: "+normErr(o.err), "%s: %v", mk, o.err)
			break
		}
		if p.SNIList > 0 {
			res.Probe("odd_sni_list_let_through")
		}
		if o.accepted {
			res.Fail(prop, "accepted-unauthentic", mk, "Conn.ECHAccepted is true")
			break
		}
		want := append(append([]byte(nil), b.outerRec...), trailer...)
		got := append([]byte(nil), o.read...)
		if len(got) >= 3 {
			got[1], got[2] = want[1], want[2]
		}
		if !bytes.Equal(got, want) {
			res.Fail(prop, "passthrough", "bytes altered without ECH acceptance", "%s: first diff at %d (got %d bytes, sent %d)", mk, firstDiff(got, want), len(got), len(want))
		}
		if o.name != b.outer.SNI() || !slices.Equal(o.alpn, b.outer.ALPN()) {
			res.Fail(prop, "passthrough", "ServerName/ALPNProtos differ from the hello's own", "Conn (%q,%q) hello (%q,%q)", o.name, o.alpn, b.outer.SNI(), b.outer.ALPN())
		}
		if len(o.out) != 0 {
			res.Fail(prop, "passthrough", "bytes written to the client", "%x", o.out)
		}
		// an independent TLS stack fed the forwarded bytes must see the same name and protocols
		if len(o.read) >= len(b.outerRec) {
			if name, protos, ok := tlsView(o.read[:len(b.outerRec)]); ok {
				res.Probe("tls_stack_view_compared")
				if name != o.name || !slices.Equal(protos, o.alpn) {
					res.Fail(prop, "passthrough", "ServerName/ALPNProtos differ from what crypto/tls extracts from the forwarded bytes", "Conn (%q,%q) crypto/tls (%q,%q)", o.name, o.alpn, name, protos)
				}
			}
		}
	case "abort":
		if hasMut(p.Mutations, "ech-ext-lie") != nil && o.err == nil && !o.accepted {
			// a length that lies inside the ECH extension may still parse (as
			// another enc / payload split followed by ignored bytes); then the
			// payload simply does not open and the hello passes through
			want := append(append([]byte(nil), b.outerRec...), trailer...)
			got := append([]byte(nil), o.read...)
			if len(got) >= 3 {
				got[1], got[2] = want[1], want[2]
			}
			if !bytes.Equal(got, want) {
				res.Fail(prop, "passthrough", "bytes altered without ECH acceptance", "%s: first diff at %d", mk, firstDiff(got, want))
			}
			res.Probe("lie_passed_through")
			break
		}
		if p.AlertWriteFails {
			// the alert cannot be delivered: the error class and the end of
			// stream are what is left of the rule
			res.Probe("alert_write_fails")
			okClass := false
			for _, a := range p.Alerts {
				okClass = okClass || errors.Is(o.err, alertClass(a))
			}
			switch {
			case o.err == nil:
				res.Fail(prop, "not-aborted", mk, "the call returned no error; %d bytes forwarded", len(o.read))
			case !okClass:
				res.Fail(prop, "wrong-error-class", mk+" (alert write fails)", "got error %v", o.err)
			case o.closes == 0:
				res.Fail(prop, "not-closed", mk+" (alert write fails)", "the transport was not closed after the refused hello: the client never sees the end of stream")
			}
		} else {
			checkAbort(res, prop, mk, o.err, o.out, o.closes, o.read, p.Alerts)
		}
	default:
		res.Harness = "unknown expectation " + p.Expect
	}
	return finishScript(res, p, o, mk)
}

func finishScript(res *core.Result, p *ScriptPlan, o *scriptOutcome, mk string) *core.Result {
	res.NonTrivial = res.Harness == ""
	chunkClass := "whole"
	if len(p.Chunks) > 0 {
		chunkClass = core.SizeClass(p.Chunks[0])
	}
	res.Sig = core.SigOf("script", mk, p.Expect, fmt.Sprint(p.Compress), core.SizeClass(p.Pad), core.SizeClass(p.ExtraIn), core.SizeClass(p.ExtraOut), chunkClass, fmt.Sprint(len(p.Keys)), core.SizeClass(len(o.read)), fmt.Sprint(o.err != nil), fmt.Sprint(o.accepted))
	res.LogHash = core.HashLog([]string{fmt.Sprintf("%v|%v|%x|%x|%d", o.err, o.accepted, o.read, o.out, o.closes)})
	for _, m := range p.Mutations {
		res.Fault("mut:" + m.Kind)
	}
	if len(p.Chunks) > 0 {
		res.Fault("fragmented_input")
	}
	if p.Compress {
		res.Probe("compressed_inner")
	}
	res.Sample = map[string]any{"kind": "script", "mutations": p.Mutations, "expect": p.Expect, "alerts": p.Alerts, "compress": p.Compress, "pad": p.Pad, "extra_in": p.ExtraIn, "extra_out": p.ExtraOut, "chunks": len(p.Chunks)}
	return res
}

func shrinkScript(p *Plan) []*Plan {
	var out []*Plan
	add := func(f func(s *ScriptPlan) bool) {
		q := p.clone()
		if f(q.Script) {
			out = append(out, q)
		}
	}
	for i := range p.Script.Mutations {
		if len(p.Script.Mutations) > 1 {
			add(func(s *ScriptPlan) bool { s.Mutations = slices.Delete(s.Mutations, i, i+1); return true })
		}
	}
	add(func(s *ScriptPlan) bool { ok := len(s.Chunks) > 0; s.Chunks = nil; return ok })
	add(func(s *ScriptPlan) bool { ok := len(s.Trailer) > 0; s.Trailer = nil; return ok })
	add(func(s *ScriptPlan) bool {
		if len(s.Keys) <= 1 {
			return false
		}
		for _, k := range s.Keys {
			if k.KeySeed == s.Target.KeySeed {
				s.Keys = []KeySpec{k}
				return true
			}
		}
		s.Keys = s.Keys[:1]
		return true
	})
	add(func(s *ScriptPlan) bool { ok := s.ExtraIn > 0; s.ExtraIn /= 2; return ok })
	add(func(s *ScriptPlan) bool { ok := s.ExtraOut > 0; s.ExtraOut /= 2; return ok })
	add(func(s *ScriptPlan) bool { ok := s.MaxData > 8; s.MaxData = 8; return ok })
	add(func(s *ScriptPlan) bool {
		if s.Pad == 0 || hasMut(s.Mutations, "pad-nonzero") != nil {
			return false
		}
		s.Pad = 0
		return true
	})
	add(func(s *ScriptPlan) bool { ok := s.ReadBuf != 0; s.ReadBuf = 0; return ok })
	add(func(s *ScriptPlan) bool { ok := len(s.InnerALPN) > 0; s.InnerALPN = nil; return ok })
	return out
}

// tlsView feeds a ClientHello record to a crypto/tls server and reports the
// server name and protocol list that stack extracts from it.
func tlsView(rec []byte) (name string, protos []string, ok bool) {
	sc := simnet.NewScript(rec)
	cfg := &tls.Config{GetConfigForClient: func(chi *tls.ClientHelloInfo) (*tls.Config, error) {
		name, protos, ok = chi.ServerName, chi.SupportedProtos, true
		return nil, errors.New("stop")
	}}
	tls.Server(sc, cfg).HandshakeContext(context.Background())
	return
}

// innerEdge makes one field of an inner hello degenerate while every enclosing
// length stays consistent (C08: whatever the Conn then decides, it must not
// panic, spin or balloon on it - the payload is authentic).
func innerEdge(inner *echbox.Hello, a int) {
	set := func(t uint16, d []byte) {
		if i := inner.Find(t); i >= 0 {
			inner.Exts[i].Data = d
		} else {
			inner.Exts = append(inner.Exts, echbox.Ext{Type: t, Data: d})
		}
	}
	bodies := [][]byte{{}, {0}, {0, 0}, {0, 1, 0}, {0, 3, 0, 0, 0}, {0, 2, 1, 0}, {1, 0}, {0xff, 0xff}}
	switch a % 8 {
	case 0:
		inner.Compression = nil
	case 1:
		inner.CipherSuites = nil
	case 2:
		inner.CipherSuites = []byte{0x13}
	case 3:
		inner.Compression = []byte{1, 0, 64}
	case 4:
		set(echbox.ExtSNI, bodies[(a/8)%len(bodies)])
	case 5:
		set(16, bodies[(a/8)%len(bodies)])
	case 6:
		set(echbox.ExtVersions, bodies[(a/8)%len(bodies)])
	case 7:
		inner.Random = inner.Random[:min(len(inner.Random), 32)]
		set(echbox.ExtECH, bodies[(a/8)%len(bodies)])
	}
}

func i0(h *echbox.Hello) int { return h.Find(echbox.ExtSNI) }
