package e1front

import (
	"os"
	"strconv"
	"testing"
)

// Developer aid: VERIF_DBG_PLAN=C08:7 go test -tags verif -run TestOnePlan -v
func TestOnePlan(t *testing.T) {
	v := os.Getenv("VERIF_DBG_PLAN")
	if v == "" {
		t.Skip()
	}
	prop, is, _ := cut2(v)
	i, _ := strconv.Atoi(is)
	p := Engine{}.Generate(prop, "quick", 1, i)
	res := Engine{}.Execute(t, prop, p)
	t.Logf("kind=%s violations=%v harness=%q probes=%v faults=%v sample=%v", p.Kind, res.Violations, res.Harness, res.Probes, res.Faults, res.Sample)
}

func cut2(s string) (string, string, bool) {
	for i := range s {
		if s[i] == ':' {
			return s[:i], s[i+1:], true
		}
	}
	return s, "", false
}
