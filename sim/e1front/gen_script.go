package e1front

import (
	"math/rand/v2"
	"slices"

	"verifsim/core"
	"verifsim/echbox"
)

func genChunks(r *rand.Rand) []int {
	switch r.IntN(6) {
	case 0:
		return nil
	case 1:
		return []int{1}
	case 2:
		return []int{5, 0}
	case 3:
		return []int{4, 1, 3, 0}
	default:
		n := 1 + r.IntN(8)
		var c []int
		for i := 0; i < n; i++ {
			c = append(c, 1+r.IntN([]int{3, 9, 100, 3000}[r.IntN(4)]))
		}
		return c
	}
}

func genALPN(r *rand.Rand) []string {
	n := r.IntN(4)
	var out []string
	perm := r.Perm(len(alpnPool))
	for i := 0; i < n; i++ {
		out = append(out, alpnPool[perm[i]])
	}
	return out
}

// genScriptBase draws a valid scripted ECH hello whose key the server holds.
func genScriptBase(r *rand.Rand) *ScriptPlan {
	pub := "public.example.com"
	if r.IntN(3) == 0 {
		pub = genPublicName(r)
	}
	p := &ScriptPlan{TLS13: true, Expect: "accept"}
	p.Keys = genKeys(r, 1+r.IntN(3), pub, 2)
	p.Target = p.Keys[r.IntN(len(p.Keys))]
	p.SuiteIdx = r.IntN(3)
	p.InnerSNI = genName(r, genNameLen(r))
	if r.IntN(12) == 0 {
		p.InnerSNI = "" // e.g. a client that connects to an IP literal
	}
	p.InnerALPN = genALPN(r)
	p.ExtraIn = r.IntN(13)
	p.ExtraOut = r.IntN(13)
	p.MaxData = []int{8, 40, 40, 300, 1200}[r.IntN(5)]
	if p.MaxData > 300 {
		p.ExtraIn = min(p.ExtraIn, 5)
		p.ExtraOut = min(p.ExtraOut, 5)
	}
	p.Compress = r.IntN(5) != 0
	switch r.IntN(6) {
	case 0:
		p.Pad = 0
	case 1:
		p.Pad = 1 + r.IntN(2000)
	default:
		p.Pad = r.IntN(64)
	}
	p.RecVer = []uint16{0x0301, 0x0303, 0x0301, 0x0300}[r.IntN(4)]
	p.Chunks = genChunks(r)
	p.ReadBuf = []int{0, 0, 1, 7, 100, 5000}[r.IntN(6)]
	return p
}

func genC03(seed uint64, idx int) *Plan {
	if idx%16 == 5 {
		// what the accessors report after a HelloRetryRequest and a second hello
		// (well-formed or refused): C06's histories, judged for the accessors only
		pl := genC06(seed, idx)
		if idx%32 == 5 {
			pl = genC04(seed, 9+10*(idx/32))
		}
		if pl.History != nil {
			// the accessors are looked at on one goroutine; the protocol list is one
			// whose order is not the lexical one
			pl.History.Concurrent = false
			if a := pl.History.Base.InnerALPN; len(a) < 2 || slices.IsSorted(a) {
				pl.History.Base.InnerALPN = []string{"http/1.1", "h2", "acme-tls/1"}
			}
			for i := range pl.History.Steps {
				pl.History.Steps[i].SlowReturn, pl.History.Steps[i].DebugPark = false, 0
			}
			if idx%32 == 21 {
				// the plain accepted retry: HelloRetryRequest, a well-formed second
				// hello, then traffic
				a := int(seed>>8) & (1<<20 - 1)
				pl.History.Steps = []HStep{{Side: "b", Kind: "hrr"}, {Side: "c", Kind: "ccs"}, {Side: "c", Kind: "hello2-ok", A: a, RealCtx: a%2 == 0}, {Side: "c", Kind: "appdata", A: a}, {Side: "b", Kind: "sh"}}
				if a%4 == 1 {
					pl.History.Steps = pl.History.Steps[2:]
					pl.History.Steps = append([]HStep{{Side: "b", Kind: "hrr"}}, pl.History.Steps...)
				}
			}
		}
		return pl
	}
	r := core.NewRand(seed, "plan")
	if r.IntN(5) < 2 {
		// re-encoding client between the real crypto/tls client and the front
		p := genLiveBase(r)
		p.Forward = r.IntN(4) != 0
		if p.Resume {
			p.ClientChainPad = 0 // keeps the resumption hello within one record (the property's size range)
		}
		p.Reenc = &ReencPlan{RunPick: r.IntN(8), FromOff: r.IntN(8), Len: r.IntN(9), Pad: []int{0, 0, 1, 17, 31, 200, 1000}[r.IntN(7)]}
		// the front hands the client's side to io.Copy (which uses whatever
		// shortcut the Conn offers)
		p.CopyUp = idx%3 == 2 && p.Forward
		return &Plan{Kind: "live", Seed: seed, Live: p}
	}
	p := genScriptBase(r)
	if idx%8 == 3 {
		// the config of the key the hello is sealed to carries an extension of
		// its own (a non-mandatory one: clients and servers keep it as it is)
		for i := range p.Keys {
			if p.Keys[i].KeySeed == p.Target.KeySeed {
				p.Keys[i].ExtraExt = true
				p.Target = p.Keys[i]
			}
		}
	}
	if r.IntN(3) == 0 {
		p.Trailer = []TrailerRec{{Type: 20, Len: 1}, {Type: 23, Len: 1 + r.IntN(500)}}
	}
	if r.IntN(8) == 0 {
		p.InnerSIDLen = 1 + r.IntN(32)
		p.OuterSIDEmpty = r.IntN(2) == 0
	} else if r.IntN(10) == 0 {
		p.OuterSIDEmpty = true
	}
	p.DupOuter = idx%7 == 0
	if idx%4 == 1 {
		p.Interleave = 1 + (idx/4)%3
		if p.Interleave > 1 && p.ReadBuf == 0 {
			p.ReadBuf = 5
		}
		if (idx/12)%2 == 0 {
			// ... and the process has served an accepted connection before
			pr := p.Target
			p.Prime = &pr
		}
	}
	p.ErrWithData = idx%3 == 2
	if idx%16 == 13 {
		// the reconstructed hello fills a plaintext record to the last octet (or
		// stops one or a few short of it)
		p.InnerMsgLen = []int{16384, 16384, 16383, 16380, 12000}[(idx/16)%5]
		p.Compress, p.ExtraIn = true, max(p.ExtraIn, 4)
		p.Mutations = nil
	}
	if idx%5 == 0 {
		// a legacy_version of the client's own choosing in the inner hello
		p.LegacyVer = []uint16{0x0301, 0x0302, 0x0304, 0x0300}[(idx/5)%4]
	}
	if idx%6 == 0 {
		// mixed-case host name: forwarded and reported as sent
		b := []byte(p.InnerSNI)
		for i := range b {
			if b[i] >= 'a' && b[i] <= 'z' && r.IntN(2) == 0 {
				b[i] -= 32
			}
		}
		p.InnerSNI = string(b)
	}
	return &Plan{Kind: "script", Seed: seed, Script: p}
}

type mutSpec struct {
	kind    string
	alerts  []int
	noComp  bool
	needRun bool
	needPad bool
}

var c04Muts = []mutSpec{
	{kind: "outer-has-oe", alerts: []int{alIllegalParameter}},
	{kind: "outer-ech-type", alerts: []int{alIllegalParameter}},
	{kind: "outer-sni", alerts: []int{alIllegalParameter}},
	{kind: "outer-sni-empty", alerts: []int{alIllegalParameter, alDecodeError}},
	{kind: "outer-trailing", alerts: []int{alDecodeError, alIllegalParameter}},
	{kind: "inner-no-ech", alerts: []int{alIllegalParameter}},
	{kind: "inner-no-tls13", alerts: []int{alIllegalParameter}, noComp: true},
	{kind: "pad-nonzero", alerts: []int{alIllegalParameter}, needPad: true},
	{kind: "oe-odd", alerts: []int{alDecodeError, alIllegalParameter}, needRun: true},
	{kind: "oe-badlen", alerts: []int{alDecodeError, alIllegalParameter}, needRun: true},
	{kind: "oe-short", alerts: []int{alDecodeError, alIllegalParameter}, needRun: true},
	{kind: "oe-order", alerts: []int{alIllegalParameter}, needRun: true},
	{kind: "oe-repeat", alerts: []int{alIllegalParameter}, needRun: true},
	{kind: "oe-absent", alerts: []int{alIllegalParameter}, needRun: true},
	{kind: "oe-ech", alerts: []int{alIllegalParameter}, needRun: true},
	{kind: "oe-twice", alerts: []int{alIllegalParameter, alDecodeError}, needRun: true},
	{kind: "oe-bomb", alerts: []int{alIllegalParameter}, needRun: true},
	{kind: "trunc-inner", alerts: []int{alDecodeError, alIllegalParameter}},
	{kind: "inner-len-lie", alerts: []int{alDecodeError, alIllegalParameter}},
	{kind: "ech-ext-lie", alerts: []int{alDecodeError, alIllegalParameter}},
	{kind: "ext-remnant", alerts: []int{alDecodeError, alIllegalParameter}},
	{kind: "outer-ext-remnant", alerts: []int{alDecodeError, alIllegalParameter}},
	{kind: "type-inner-no-tls13", alerts: []int{alIllegalParameter}},
	{kind: "outer-ech-empty", alerts: []int{alDecodeError, alIllegalParameter}},
	{kind: "ech-empty-enc", alerts: []int{alIllegalParameter, alDecodeError, alDecryptError}},
	{kind: "inner-ech-empty", alerts: []int{alDecodeError, alIllegalParameter}},
	{kind: "inner-versions-remnant", alerts: []int{alDecodeError, alIllegalParameter}, noComp: true},
	{kind: "inner-ech-type", alerts: []int{alIllegalParameter}},
	{kind: "inner-ech-twice", alerts: []int{alIllegalParameter}},
}

func addAlerts(dst []int, src []int) []int {
	for _, a := range src {
		found := false
		for _, d := range dst {
			if d == a {
				found = true
			}
		}
		if !found {
			dst = append(dst, a)
		}
	}
	return dst
}

func genC04(seed uint64, idx int) *Plan {
	r := core.NewRand(seed, "plan")
	if idx%10 == 9 {
		// the same rules for the hello that follows a HelloRetryRequest: the
		// call that meets it is Conn.Read
		base := genScriptBase(r)
		base.Chunks, base.ReadBuf, base.Trailer = nil, 0, nil
		base.ExtraIn = max(base.ExtraIn, 2)
		kind := []string{"hello2-outersni", "hello2-innertype", "hello2-noech", "hello2-id", "hello2-suite-pre", "hello2-enc", "hello2-fresh", "hello2-nover", "hello2-enc-same", "hello2-sibling"}[r.IntN(10)]
		h := &HistoryPlan{Base: *base, Concurrent: r.IntN(3) == 0}
		if r.IntN(2) == 0 {
			h.Steps = append(h.Steps, HStep{Side: "c", Kind: "ccs"})
		}
		h.Steps = append(h.Steps, HStep{Side: "b", Kind: "hrr", Join: r.IntN(2) == 0, SlowReturn: h.Concurrent && r.IntN(2) == 0})
		if r.IntN(2) == 0 {
			h.Steps = append(h.Steps, HStep{Side: "b", Kind: "ccs"})
		}
		if r.IntN(2) == 0 {
			h.Steps = append(h.Steps, HStep{Side: "c", Kind: "ccs"})
		}
		h.Steps = append(h.Steps, HStep{Side: "c", Kind: kind, A: r.IntN(1 << 20)})
		if (idx/10)%3 == 1 {
			// the backend's flush with the HelloRetryRequest ends a few octets into
			// its next record (which never gets to be completed)
			h.Concurrent = false
			var steps []HStep
			for _, st := range h.Steps {
				if st.Side == "b" && st.Kind == "ccs" {
					continue
				}
				if st.Side == "b" && st.Kind == "hrr" {
					st.Join, st.SlowReturn, st.Spill = false, false, 1+r.IntN(4)
				}
				steps = append(steps, st)
			}
			h.Steps = append(steps, HStep{Side: "b", Kind: "ccs"})
		}
		// the context NewConn was given had a deadline, long past by the time the
		// second hello is refused: the alert is owed all the same
		h.CtxDeadline = h.Concurrent && (idx/10)%2 == 0
		return &Plan{Kind: "history", Seed: seed, History: h}
	}
	p := genScriptBase(r)
	p.Expect = "abort"
	p.ExtraIn = max(p.ExtraIn, 4)
	n := 1
	if r.IntN(10) < 3 {
		n = 2 + r.IntN(2)
	}
	stageB := false
	for len(p.Mutations) < n {
		ms := c04Muts[(idx+len(p.Mutations)*7+r.IntN(len(c04Muts)))%len(c04Muts)]
		if hasMut(p.Mutations, ms.kind) != nil {
			continue
		}
		if ms.kind == "type-inner-no-tls13" {
			// two faults at once: ECH type inner in an outer hello that does not offer TLS 1.3
			if hasMut(p.Mutations, "outer-ech-type") != nil || hasMut(p.Mutations, "outer-ext-remnant") != nil {
				continue
			}
			p.Mutations = append(p.Mutations, Mutation{Kind: "outer-no-tls13"}, Mutation{Kind: "outer-ech-type", A: 0})
			p.Alerts = addAlerts(p.Alerts, ms.alerts)
			n++
			continue
		}
		if ms.kind == "outer-ext-remnant" && hasMut(p.Mutations, "outer-no-tls13") != nil {
			continue
		}
		if ms.kind == "ech-empty-enc" && len(p.Mutations) > 0 {
			continue // on its own: the first hello names a held config but carries no encapsulated key
		}
		if ms.kind == "outer-ech-empty" && (hasMut(p.Mutations, "outer-ech-type") != nil || hasMut(p.Mutations, "ech-ext-lie") != nil) {
			continue
		}
		isB := ms.kind == "inner-versions-remnant" || ms.kind == "inner-ech-empty" || ms.kind == "inner-ech-type" || ms.kind == "inner-ech-twice" || ms.needRun || ms.needPad || ms.kind == "trunc-inner" || ms.kind == "inner-len-lie" || ms.kind == "inner-no-tls13" || ms.kind == "inner-no-ech" || ms.kind == "ext-remnant"
		if isB && stageB {
			continue // one deviation per inner hello, any number on the outer
		}
		stageB = stageB || isB
		if ms.needRun {
			p.Compress = true
		}
		if ms.noComp && !(ms.kind == "inner-no-tls13" && idx%2 == 1) {
			p.Compress = false
		}
		if ms.needPad && p.Pad == 0 {
			p.Pad = 1 + r.IntN(64)
		}
		p.Mutations = append(p.Mutations, Mutation{Kind: ms.kind, A: int(r.Uint32() >> 1), B: int(r.Uint32() >> 1)})
		p.Alerts = addAlerts(p.Alerts, ms.alerts)
	}
	p.AlertWriteFails = idx%9 == 4
	p.CtxEndsAtAlert = idx%9 == 7
	if len(p.Mutations) == 1 && p.Mutations[0].Kind == "outer-has-oe" && idx%2 == 0 {
		// the rule about ech_outer_extensions in an outer hello does not depend
		// on the server having keys
		p.Keys = nil
	}
	return &Plan{Kind: "script", Seed: seed, Script: p}
}

func genTrailer(r *rand.Rand) []TrailerRec {
	n := r.IntN(6)
	var t []TrailerRec
	for i := 0; i < n; i++ {
		typ := []byte{20, 21, 22, 23, 23, 23}[r.IntN(6)]
		l := []int{0, 1, 2, 5, 100, 1400, 16384, 16640}[r.IntN(8)]
		if typ != 23 && (l == 0 || l > 16384) {
			l = 1 + r.IntN(64)
		}
		t = append(t, TrailerRec{Type: typ, Len: l})
	}
	return t
}

func genC05(seed uint64, idx int) *Plan {
	r := core.NewRand(seed, "plan")
	if r.IntN(10) < 3 {
		// real client without ECH (or TLS 1.2 only) through the forward topology
		p := genLiveBase(r)
		p.ClientKey = -2
		p.Forward = true
		p.TLS12Only = r.IntN(2) == 0
		if p.Resume {
			p.ClientChainPad = 0 // keeps the resumption hello within one record (the property's size bound)
		}
		if r.IntN(3) == 0 {
			p.Keys = nil
		}
		if p.TLS12Only {
			// TLS 1.2 servers negotiate curves among the classic ones
			p.ClientCurves, p.BackendCurves = nil, nil
		}
		return &Plan{Kind: "live", Seed: seed, Live: p}
	}
	p := genScriptBase(r)
	p.Expect = "passthrough"
	p.Trailer = genTrailer(r)
	p.MaxData = []int{8, 40, 300, 3000}[r.IntN(4)]
	p.ExtraOut = r.IntN(16)
	if p.MaxData > 300 {
		p.ExtraOut = min(p.ExtraOut, 4)
		p.ExtraIn = min(p.ExtraIn, 1)
	}
	p.LegacyVer = []uint16{0, 0, 0, 0x0301, 0x0302, 0x0300, 0x0304}[r.IntN(7)]
	if r.IntN(6) == 0 {
		// mixed-case host name: reported as sent
		b := []byte(p.InnerSNI)
		for i := range b {
			if b[i] >= 'a' && b[i] <= 'z' && r.IntN(2) == 0 {
				b[i] -= 32
			}
		}
		p.InnerSNI = string(b)
	}
	if idx%13 == 6 {
		// a client that puts an address literal into server_name (not allowed,
		// and seen): reported and passed on as sent
		p.InnerSNI = []string{"192.0.2.7", "2001:db8::1", "10.1.2.3", "::ffff:192.0.2.1"}[(idx/13)%4]
	}
	p.HRRThenHello2 = r.IntN(4) == 0
	switch r.IntN(7) {
	case 0: // no ECH at all, TLS 1.3
		p.NoECH = true
	case 1: // TLS 1.2-style hello without supported_versions
		p.NoECH, p.TLS13, p.NoVersions = true, false, true
	case 2: // version list without 1.3
		p.NoECH, p.TLS13 = true, false
	case 3: // GREASE ECH
		p.Grease = true
	case 4: // GREASE ECH on a hello that does not offer TLS 1.3
		p.Grease, p.TLS13 = true, false
	case 5: // real ECH to a key the server does not hold (same or different id)
		t := p.Target
		t.KeySeed++
		if r.IntN(2) == 0 {
			t.ID += byte(1 + r.IntN(200))
		}
		p.Target = t
		if idx%4 == 2 {
			// ... or: sealed to the very key the server holds, with that key's
			// config as info, under a config id the server does not have
			p.Target.KeySeed--
			p.Target.ID = p.Keys[0].ID
			for i := range p.Keys {
				if p.Keys[i].KeySeed == p.Target.KeySeed {
					p.Target = p.Keys[i]
				}
			}
			p.Mutations = []Mutation{{Kind: "wrong-id-ext", A: idx / 4}}
		}
		if idx%4 == 3 {
			// ... or: a config id none of the server's keys has, and no
			// encapsulated key at all (not for this server: passed on like GREASE)
			p.Target.KeySeed = t.KeySeed
			for clash := true; clash; {
				clash = false
				for _, k := range p.Keys {
					if k.ID == p.Target.ID {
						p.Target.ID++
						clash = true
					}
				}
			}
			p.Mutations = []Mutation{{Kind: "ech-empty-enc"}}
		}
		if idx%4 == 0 {
			// ... and an encapsulated key no X25519 key can use
			p.Mutations = []Mutation{{Kind: "bad-enc", A: idx / 4}}
			if (idx/16)%2 == 0 {
				p.Target.KeySeed-- // sealed to the very key the server holds
			}
		}
	case 6: // real ECH, server has no keys at all
		p.Keys = nil
		if r.IntN(2) == 0 {
			// ... or: a decryptable ECH on an outer hello that does not offer TLS 1.3
			p.Keys = []KeySpec{p.Target}
			p.Mutations = []Mutation{{Kind: "outer-no-tls13"}}
		}
	}
	if p.NoECH && !p.TLS13 && r.IntN(2) == 0 {
		// a TLS 1.2 client that still offers compression
		p.Compression = [][]byte{{1, 0}, {0, 1, 64}, {1}}[r.IntN(3)]
	}
	if (p.NoECH || p.Grease) && r.IntN(3) == 0 {
		p.Keys = nil
	}
	if len(p.Keys) > 0 && idx%6 == 1 {
		// the key list also holds a key for a KEM the library does not implement,
		// under a config id of its own
		o := KeySpec{ID: p.Target.ID + 101, PublicName: p.Target.PublicName, Suites: append([]echbox.Suite(nil), echbox.AllSuites...), KeySeed: p.Target.KeySeed + 4242, OtherKEM: true}
		at := (idx / 6) % (len(p.Keys) + 1)
		p.Keys = append(p.Keys[:at:at], append([]KeySpec{o}, p.Keys[at:]...)...)
	}
	if p.Grease && p.TLS13 && len(p.Keys) > 0 && idx%6 == 3 {
		// the first key's config lists a suite whose KDF (or AEAD) the library does
		// not implement, and the GREASE extension happens to name that id and suite
		o := KeySpec{ID: p.Target.ID + 77, PublicName: p.Target.PublicName, KeySeed: p.Target.KeySeed + 6161,
			Suites: []echbox.Suite{[]echbox.Suite{{KDF: 2, AEAD: 1}, {KDF: 3, AEAD: 3}, {KDF: 1, AEAD: 0xffff}, {KDF: 0x7f7f, AEAD: 2}}[(idx/6)%4], {KDF: 1, AEAD: 1}}}
		p.Keys = append([]KeySpec{o}, p.Keys...)
		p.GreaseNamesBadKey = true
	}
	if len(p.Keys) > 0 && idx%6 == 4 {
		// the key list also holds a slot that is a zero Key (or a config cut short)
		o := KeySpec{ID: p.Target.ID + 55, PublicName: p.Target.PublicName, Suites: append([]echbox.Suite(nil), echbox.AllSuites...), KeySeed: p.Target.KeySeed + 5151, BadConfig: true, Empty: (idx/6)%3 != 2}
		at := (idx / 6) % (len(p.Keys) + 1)
		p.Keys = append(p.Keys[:at:at], append([]KeySpec{o}, p.Keys[at:]...)...)
	}
	if idx%5 == 2 {
		p.Interleave = 1 + (idx/5)%3
		if p.Interleave > 1 && p.ReadBuf == 0 {
			p.ReadBuf = 5
		}
	}
	p.ErrWithData = idx%3 == 1
	if (p.NoECH || p.Grease) && idx%7 == 3 {
		// the largest plaintext records
		p.FragmentLen = []int{16384, 16383, 16381, 16380, 16379, 16000}[(idx/7)%6]
	}
	if (p.NoECH || p.Grease) && idx%11 == 5 {
		p.SNIList = 1 + (idx/11)%3
	}
	if idx%17 == 8 {
		// a framed transport: the hello trickles in two or three octets at a
		// time, with a read that returns nothing before each piece (hundreds of
		// empty reads in all, never two in a row)
		p.EmptyReads = true
		p.Chunks = []int{2 + (idx/17)%2}
	}
	if p.NoECH && p.NoVersions && idx%3 == 0 {
		// an old client: no extensions (an empty block, or none at all)
		p.ExtBlock = []string{"none", "empty"}[(idx/3)%2]
	}
	return &Plan{Kind: "script", Seed: seed, Script: p}
}

var c02Subs = []string{"ech-trailing", "ech-trailing-sealed", "wrong-key", "wrong-info", "wrong-id-ext", "wrong-suite-ext", "trunc-enc", "trunc-payload", "aad-not-zeroed", "unlisted-suite", "canonical-info", "outer-zeros", "bad-enc", "info-concat", "low-order-enc", "sid-grown", "sid-grown"}

func genC02(seed uint64, idx int, tier string) *Plan {
	r := core.NewRand(seed, "plan")
	every := 60
	if idx%every == 0 {
		// exhaustive single-bit flips of one hello
		f := &FlipPlan{Real: (idx/every)%3 == 1, Retry: (idx/every)%3 == 2}
		f.Base = *genScriptBase(r)
		f.Base.Chunks, f.Base.ReadBuf, f.Base.Trailer = nil, 0, nil
		if f.Real {
			f.Live = genLiveBase(r)
		} else {
			f.Base.MaxData = min(f.Base.MaxData, 40)
			f.Base.Pad = min(f.Base.Pad, 64)
			if f.Retry {
				f.Base.ExtraIn = max(f.Base.ExtraIn, 2)
			}
		}
		return &Plan{Kind: "flip", Seed: seed, Flip: f}
	}
	p := genScriptBase(r)
	p.Expect = "reject"
	kind := c02Subs[(idx+r.IntN(len(c02Subs)))%len(c02Subs)]
	p.Mutations = []Mutation{{Kind: kind, A: int(r.Uint32() >> 1), B: int(r.Uint32() >> 1)}}
	switch kind {
	case "unlisted-suite":
		// needs a config that lists a strict subset of the suites
		for i := range p.Keys {
			if p.Keys[i].KeySeed == p.Target.KeySeed {
				p.Keys[i].Suites = p.Keys[i].Suites[:1+r.IntN(2)]
				if len(p.Keys[i].Suites) > 2 {
					p.Keys[i].Suites = p.Keys[i].Suites[:2]
				}
				p.Target = p.Keys[i]
			}
		}
	case "info-concat":
		// another key with the same config id (and every suite) in front of the target
		o := p.Target
		o.KeySeed += 7919
		o.Suites = append([]echbox.Suite(nil), echbox.AllSuites...)
		o.OwnEncoder = !o.OwnEncoder
		p.Keys = []KeySpec{o, p.Target}
	case "canonical-info":
		for i := range p.Keys {
			if p.Keys[i].KeySeed == p.Target.KeySeed {
				if r.IntN(2) == 0 {
					p.Keys[i].MaxNameDelta = []int{-16, -1, 1, 7}[r.IntN(4)]
				} else {
					p.Keys[i].ExtraExt = true
				}
				p.Target = p.Keys[i]
			}
		}
	}
	if kind == "wrong-id-ext" && idx%4 >= 2 {
		// a key list with an entry whose config does not parse in front, and
		// another usable key whose id the forged extension may name
		other := KeySpec{ID: p.Target.ID + 9, PublicName: p.Target.PublicName, Suites: append([]echbox.Suite(nil), echbox.AllSuites...), KeySeed: p.Target.KeySeed + 77, Retry: true}
		bad := KeySpec{ID: p.Target.ID + 3, PublicName: p.Target.PublicName, Suites: append([]echbox.Suite(nil), echbox.AllSuites...), KeySeed: p.Target.KeySeed + 78, BadConfig: true, Empty: idx%8 >= 6}
		p.Keys = append([]KeySpec{bad}, append(p.Keys, other)...)
		p.Mutations[0].B |= 1
	}
	if idx%5 == 3 {
		p.Interleave = 1 + (idx/5)%3
		if p.Interleave > 1 && p.ReadBuf == 0 {
			p.ReadBuf = 5
		}
	}
	if idx%2 == 1 {
		switch kind {
		case "unlisted-suite", "wrong-suite-ext":
			// the same key pair was served earlier under a config listing every suite
			pr := p.Target
			pr.Suites = append([]echbox.Suite(nil), echbox.AllSuites...)
			p.Prime = &pr
		case "wrong-id-ext":
			// ... or under the config id the hello names
			pr := p.Target
			pr.ID = p.Target.ID + byte(1+p.Mutations[0].A%255)
			p.Prime = &pr
		case "wrong-info", "wrong-key":
			pr := p.Target
			pr.PublicName = "old." + pr.PublicName
			if len(pr.PublicName) <= 250 {
				p.Prime = &pr
			}
		}
	}
	p.SharedOption = idx%4 == 2
	return &Plan{Kind: "script", Seed: seed, Script: p}
}

var _ = echbox.AllSuites
