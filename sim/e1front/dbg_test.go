package e1front

import (
	"fmt"
	"os"
	"strconv"
	"strings"
	"testing"
)

// Developer aid: VERIF_DBG_PROP=C01 VERIF_DBG_FROM=0 VERIF_DBG_TO=600 VERIF_DBG_HASHES=file go test -tags verif -run TestHashes
// writes "idx loghash" per non-arbitrated run (diff across GOMAXPROCS).
func TestHashes(t *testing.T) {
	prop, out := os.Getenv("VERIF_DBG_PROP"), os.Getenv("VERIF_DBG_HASHES")
	if prop == "" || out == "" {
		t.Skip()
	}
	from, _ := strconv.Atoi(os.Getenv("VERIF_DBG_FROM"))
	to, _ := strconv.Atoi(os.Getenv("VERIF_DBG_TO"))
	f, err := os.Create(out)
	if err != nil {
		t.Fatal(err)
	}
	defer f.Close()
	e := Engine{}
	for i := from; i < to; i++ {
		p := e.Generate(prop, "quick", 1, i)
		r := e.Execute(t, prop, p)
		if d := os.Getenv("VERIF_DBG_DUMP"); d != "" && lastLive != nil {
			os.WriteFile(d, []byte(strings.Join(lastLive.w.Canonical(), "\n")), 0o644)
		}
		if !r.Arbitrated {
			fmt.Fprintf(f, "%d %s %d\n", i, r.LogHash, len(r.Violations))
		}
	}
}
