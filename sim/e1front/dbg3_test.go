package e1front

import (
	"os"
	"testing"
)

// Developer aid: VERIF_DBG_PROP=C03 VERIF_DBG_SIZES=1 go test -tags verif -run TestSizes -v
func TestSizes(t *testing.T) {
	prop := os.Getenv("VERIF_DBG_PROP")
	if prop == "" || os.Getenv("VERIF_DBG_SIZES") == "" {
		t.Skip()
	}
	for i := 13; i < 700; i += 16 {
		p := Engine{}.Generate(prop, "quick", 1, i)
		if p.Script == nil || p.Script.InnerMsgLen == 0 {
			continue
		}
		b, err := buildScript(p.Seed, p.Script)
		if err != nil {
			t.Logf("idx %d want %d: %v (extra_in %d compress %v)", i, p.Script.InnerMsgLen, err, p.Script.ExtraIn, p.Script.Compress)
			continue
		}
		t.Logf("idx %d want %d: inner message %d octets, outer record %d, run %d..%d", i, p.Script.InnerMsgLen, 4+len(b.inner.Body()), len(b.outerRec), b.from, b.to)
	}
}
