package e1front

import (
	"context"
	"fmt"
	"strings"
	"sync"
	"testing"
	"testing/cryptotest"
	"testing/synctest"
	"time"

	"github.com/c2FmZQ/ech"

	"verifsim/core"
	"verifsim/simnet"
)

// DuplexPlan (C08): an accepted first hello, then hostile record streams in
// BOTH directions at the same time - the front's two forwarding goroutines run
// freely over simulated links, as in a real split-mode proxy. What is judged:
// no panic, no process-killing runtime error, every call returns; on the
// race-detector binary also that Read and Write of one Conn (and of different
// Conns of one process) do not touch shared state without synchronisation.
type DuplexPlan struct {
	Base   ScriptPlan `json:"base"`
	Tail   []HRec     `json:"tail,omitempty"`
	Back   []HRec     `json:"back,omitempty"`
	WSplit []int      `json:"wsplit,omitempty"`
	Conns  int        `json:"conns"` // connections served side by side (1..3)
	// CloseAtMs > 0: the client takes ClientWindow octets of what the front
	// writes and then stops reading, so that a Conn.Write blocks part-way; after
	// CloseAtMs another goroutine of the front closes the Conn (an idle timeout,
	// a shutdown). Both pumps must come back, without a panic.
	CloseAtMs    int `json:"close_at_ms,omitempty"`
	ClientWindow int `json:"client_window,omitempty"`
}

func executeDuplex(t *testing.T, prop string, seed uint64, p *DuplexPlan) *core.Result {
	res := &core.Result{Evals: 1}
	cryptotest.SetGlobalRandom(t, seed)
	b, err := buildScript(seed, &p.Base)
	if err != nil {
		if err == errSkip {
			res.Probe("scenario_skipped")
			return res
		}
		res.Harness = "buildScript: " + err.Error()
		return res
	}
	tail := hostileBytes(seed, "c", p.Tail, b, &p.Base)
	back := hostileBytes(seed, "b", p.Back, b, &p.Base)
	var mu sync.Mutex
	note := func(where, msg, site string) {
		mu.Lock()
		res.Fail(prop, "panic", site+": "+normMsg(msg), "%s, hostile records in both directions (%d client bytes, %d backend bytes)", where, len(tail), len(back))
		mu.Unlock()
	}
	stuck := ""
	msg := core.Bubble(t, func(t *testing.T) {
		w := simnet.NewWorld(seed)
		var wg sync.WaitGroup
		for ci := 0; ci < max(1, p.Conns); ci++ {
			lat := simnet.LinkCfg{Seg: simnet.SegRandom, MaxSeg: 900, LatMinUs: 10, LatMaxUs: 300}
			down := lat
			if p.CloseAtMs > 0 {
				down.Window = max(1, p.ClientWindow)
			}
			cc, fc := w.Pipe(fmt.Sprintf("c%d", ci), fmt.Sprintf("f%d", ci), lat, down)
			wg.Add(2)
			go func() { // client node
				defer wg.Done()
				cc.Write(b.outerRec)
				for pos := 0; pos < len(tail); {
					n := min(len(tail)-pos, 1+int(core.Mix(seed, "cw", pos)%700))
					if _, err := cc.Write(tail[pos : pos+n]); err != nil {
						break
					}
					pos += n
				}
				cc.CloseWrite()
				if p.CloseAtMs > 0 {
					// not reading: the front's writes back up
					time.Sleep(time.Duration(p.CloseAtMs)*time.Millisecond + time.Second)
				}
				buf := make([]byte, 32768)
				cc.SetReadDeadline(time.Now().Add(time.Minute))
				for {
					if _, err := cc.Read(buf); err != nil {
						break
					}
				}
				cc.Close()
			}()
			go func() { // front node: NewConn, then one goroutine per direction
				defer wg.Done()
				var conn *ech.Conn
				var nerr error
				if pk, m, s := core.Guard(func() { conn, nerr = ech.NewConn(context.Background(), fc, keyOptions(b.keys)...) }); pk {
					note("NewConn", m, s)
					fc.Close()
					return
				}
				if nerr != nil {
					fc.Close()
					return
				}
				var pumps sync.WaitGroup
				if p.CloseAtMs > 0 {
					tm := time.AfterFunc(time.Duration(p.CloseAtMs)*time.Millisecond, func() {
						if pk, m, s := core.Guard(func() { conn.Close() }); pk {
							note("Conn.Close", m, s)
						}
					})
					defer tm.Stop()
					mu.Lock()
					res.Probe("conn_closed_while_a_write_is_backed_up")
					mu.Unlock()
				}
				pumps.Add(2)
				go func() {
					defer pumps.Done()
					buf := make([]byte, 4096)
					if pk, m, s := core.Guard(func() {
						for i := 0; i < 1<<16; i++ {
							if _, err := conn.Read(buf); err != nil {
								return
							}
						}
					}); pk {
						note("Conn.Read", m, s)
					}
				}()
				go func() {
					defer pumps.Done()
					if pk, m, s := core.Guard(func() {
						k := 0
						for pos := 0; pos < len(back); {
							n := len(back) - pos
							if len(p.WSplit) > 0 {
								n = min(n, max(1, p.WSplit[k%len(p.WSplit)]))
								k++
							}
							if _, err := conn.Write(back[pos : pos+n]); err != nil {
								return
							}
							pos += n
						}
					}); pk {
						note("Conn.Write", m, s)
					}
				}()
				pumps.Wait()
				fc.Close()
			}()
		}
		done := make(chan struct{})
		go func() { wg.Wait(); close(done) }()
		select {
		case <-done:
		case <-time.After(10 * time.Minute):
			stuck = "a node is still busy ten virtual minutes after the last byte was sent"
		}
		res.SimNs = w.Now()
		for _, c := range w.Conns() {
			c.Close()
		}
		if stuck == "" {
			time.Sleep(time.Second)
			synctest.Wait()
		}
		w.Shutdown()
		synctest.Wait()
		if stuck == "" {
			lib, other := core.Leaked()
			if len(lib) > 0 {
				res.Fail(prop, "goroutine-leak", strings.Join(lib, ","), "goroutine of the library left after both directions ended")
			}
			if len(other) > 0 && len(res.Violations) == 0 {
				res.Harness = "goroutines left: " + strings.Join(other, ",")
			}
		}
	})
	if stuck != "" {
		res.Fail(prop, "hang", "Read or Write never returns although its transport was closed", "%s", stuck)
	} else if msg != "" && len(res.Violations) == 0 {
		if strings.Contains(msg, "deadlock") {
			res.Fail(prop, "hang", "all nodes blocked", "%s", firstLine(msg))
		} else {
			res.Harness = "bubble: " + firstLine(msg)
		}
	}
	res.Probe("both_directions_at_once")
	for _, it := range append(append([]HRec(nil), p.Tail...), p.Back...) {
		res.Fault("hostile:" + it.Kind)
	}
	res.NonTrivial = res.Harness == ""
	res.Arbitrated = true // two free-running goroutines per connection: instants are the runtime's
	res.Sig = core.SigOf("duplex", fmt.Sprint(len(p.Tail)), fmt.Sprint(len(p.Back)), fmt.Sprint(p.Conns), fmt.Sprint(seed%4096))
	res.Sample = map[string]any{"kind": "duplex", "client_bytes": len(tail), "backend_bytes": len(back), "connections": p.Conns}
	return res
}

func genDuplex(seed uint64, idx int) *Plan {
	r := core.NewRand(seed, "plan")
	b := genScriptBase(r)
	b.Chunks, b.ReadBuf, b.Trailer = nil, 0, nil
	d := &DuplexPlan{Base: *b, Conns: 1 + r.IntN(3)}
	d.Tail = genHRecs(r, "c")
	d.Back = genHRecs(r, "b")
	// records of types nobody knows, in both directions
	for i := 0; i < 1+r.IntN(3); i++ {
		d.Tail = append(d.Tail, HRec{Kind: "rec", Type: []byte{24, 25, 0, 255, 99}[r.IntN(5)], Len: r.IntN(40)})
		d.Back = append(d.Back, HRec{Kind: "rec", Type: []byte{24, 26, 0, 255, 98}[r.IntN(5)], Len: r.IntN(40)})
	}
	r.Shuffle(len(d.Tail), func(i, j int) { d.Tail[i], d.Tail[j] = d.Tail[j], d.Tail[i] })
	r.Shuffle(len(d.Back), func(i, j int) { d.Back[i], d.Back[j] = d.Back[j], d.Back[i] })
	if r.IntN(2) == 0 {
		d.WSplit = []int{1 + r.IntN(7), 1 + r.IntN(2000)}
	}
	if (idx/10)%3 == 1 {
		// the client stops reading and the front gives the connection up
		d.CloseAtMs = []int{1, 50, 3000}[r.IntN(3)]
		d.ClientWindow = []int{1, 3, 7, 10, 40, 300}[r.IntN(6)]
		d.Conns = 1
		d.Back = append([]HRec{{Kind: "sh"}, {Kind: "rec", Type: 22, Len: 600}}, d.Back...)
	}
	return &Plan{Kind: "duplex", Seed: seed, Duplex: d}
}

func shrinkDuplex(p *Plan) []*Plan {
	var out []*Plan
	d := p.Duplex
	for i := range d.Tail {
		q := p.clone()
		q.Duplex.Tail = append(append([]HRec(nil), d.Tail[:i]...), d.Tail[i+1:]...)
		out = append(out, q)
	}
	for i := range d.Back {
		q := p.clone()
		q.Duplex.Back = append(append([]HRec(nil), d.Back[:i]...), d.Back[i+1:]...)
		out = append(out, q)
	}
	if d.Conns > 1 {
		q := p.clone()
		q.Duplex.Conns = 1
		out = append(out, q)
	}
	return out
}
