package e1front

import (
	"io"
	"net"

	"verifsim/echbox"
)

// reencoder is the re-encoding client node: it opens every ClientHelloOuter
// the real client sends (the simulator owns all keys), re-encodes the inner
// hello with a plan-chosen ech_outer_extensions run and padding, re-seals it
// under a fresh HPKE context and forwards it. The real client never notices:
// the outer hello is not part of the transcript when ECH is accepted.
type reencoder struct {
	lw     *liveWorld
	plan   *ReencPlan
	opener echbox.Opener
	sealer *echbox.Sealer
	n      int
}

func (r *reencoder) rewrite(rec []byte) []byte {
	p := r.lw.p
	if p.ClientKey < 0 {
		return rec
	}
	outer, err := echbox.ParseHelloRecord(rec)
	if err != nil {
		return rec
	}
	idx := outer.Find(echbox.ExtECH)
	if idx < 0 {
		return rec
	}
	priv, pub, cfg := p.Keys[p.ClientKey].material()
	enc, e, err := r.opener.OpenOuter(priv, cfg, outer)
	if err != nil {
		r.lw.res.Harness = "reencoder: cannot open the client's hello: " + err.Error()
		return rec
	}
	inner, err := echbox.DecodeInner(enc, outer)
	if err != nil {
		r.lw.res.Harness = "reencoder: cannot decode the client's inner hello: " + err.Error()
		return rec
	}
	first := r.sealer == nil
	if first {
		r.sealer, err = echbox.NewSealer(pub, cfg, e.ConfigID, echbox.Suite{KDF: e.KDF, AEAD: e.AEAD})
		if err != nil {
			r.lw.res.Harness = "reencoder: " + err.Error()
			return rec
		}
	}
	runs := echbox.CompressibleRuns(inner, outer)
	from, to := 0, 0
	if len(runs) > 0 && r.plan.Len > 0 {
		run := runs[r.plan.RunPick%len(runs)]
		l := run[1] - run[0]
		from = run[0] + r.plan.FromOff%l
		to = min(run[1], from+r.plan.Len)
	}
	newEnc := echbox.EncodeInner(inner, from, to, r.plan.Pad)
	o2, err := r.sealer.SealInto(outer, idx, newEnc, first)
	if err != nil {
		r.lw.res.Harness = "reencoder: seal: " + err.Error()
		return rec
	}
	r.n++
	r.lw.mu.Lock()
	r.lw.res.Probe("reencoded_hello")
	if to > from {
		r.lw.res.Probe("reencoded_with_compression")
	}
	if !first {
		r.lw.res.Probe("reencoded_retry_hello")
	}
	r.lw.mu.Unlock()
	return o2.Record(uint16(rec[1])<<8 | uint16(rec[2]))
}

// pump reads TLS records from src, rewrites ClientHellos, writes to dst.
func (r *reencoder) pump(src, dst net.Conn) {
	plain := true
	for {
		hdr := make([]byte, 5)
		if _, err := io.ReadFull(src, hdr); err != nil {
			dst.Close()
			return
		}
		n := int(hdr[3])<<8 | int(hdr[4])
		rec := append(hdr, make([]byte, n)...)
		if _, err := io.ReadFull(src, rec[5:]); err != nil {
			dst.Close()
			return
		}
		if rec[0] == 23 {
			plain = false
		}
		if plain && rec[0] == 22 && n > 4 && rec[5] == 1 {
			rec = r.rewrite(rec)
		}
		if _, err := dst.Write(rec); err != nil {
			return
		}
	}
}
