package e1front

import (
	"testing"

	"verifsim/core"
)

type HistoryPlan struct{}
type PipePlan struct{}
type HostilePlan struct{}
type StallPlan struct{}
type KeySetPlan struct{}
type CtxPlan struct{}

func genC06(s uint64, idx int) *Plan              { return nil }
func genC07(s uint64, idx int, tier string) *Plan { return nil }
func genC08(s uint64, idx int) *Plan              { return nil }
func genC09(s uint64, idx int) *Plan              { return nil }
func genC10(s uint64, idx int) *Plan              { return nil }

func executeHistory(t *testing.T, prop string, seed uint64, p *HistoryPlan) *core.Result { return nil }
func executePipe(t *testing.T, prop string, seed uint64, p *PipePlan) *core.Result       { return nil }
func executeHostile(t *testing.T, prop string, seed uint64, p *HostilePlan) *core.Result { return nil }
func executeStall(t *testing.T, prop string, seed uint64, p *StallPlan) *core.Result     { return nil }
func executeKeySet(t *testing.T, prop string, seed uint64, p *KeySetPlan) *core.Result   { return nil }
func executeCtx(t *testing.T, prop string, seed uint64, p *CtxPlan) *core.Result         { return nil }

func shrinkHistory(p *Plan) []*Plan { return nil }
func shrinkPipe(p *Plan) []*Plan    { return nil }
func shrinkHostile(p *Plan) []*Plan { return nil }
func shrinkKeySet(p *Plan) []*Plan  { return nil }
func shrinkCtx(p *Plan) []*Plan     { return nil }
func shrinkStall(p *Plan) []*Plan   { return nil }
