package e1front

import (
	"bytes"
	"context"
	"errors"
	"fmt"
	"net"
	"os"
	"reflect"
	"slices"
	"sync"
	"testing"
	"testing/cryptotest"
	"verifsim/echbox"

	"github.com/c2FmZQ/ech"

	"verifsim/core"
	"verifsim/simnet"
)

// KeySetPlan (C09): one authentic flight (first hello, optionally HRR + retried
// hello) replayed against every ordered list of 1..4 keys drawn from
// {target} + Others.
type KeySetPlan struct {
	Base      ScriptPlan `json:"base"`
	Others    []KeySpec  `json:"others"`
	WithRetry bool       `json:"with_retry"`
	// Unlisted: the (non-conforming) client sealed with a suite the target
	// key's config does not list: no key list may make the server accept it.
	Unlisted bool `json:"unlisted,omitempty"`
	// OnlyList restricts the enumeration to one list (indices into the pool,
	// 0 = target), set by the shrinker.
	OnlyList []int `json:"only_list,omitempty"`
	Hint     []int `json:"hint,omitempty"`
	// BadEnc: the hello is sealed to the target but carries an encapsulated
	// key no X25519 key can use: never acceptable, whatever the list.
	BadEnc int `json:"bad_enc,omitempty"`
	// WrongOuterName: the hello is sealed to the target but its outer SNI is the
	// public name of ANOTHER key of the pool: whenever the target key is held
	// the hello must be refused (illegal_parameter), whatever else is held.
	WrongOuterName bool `json:"wrong_outer_name,omitempty"`
	// WrongID: the hello is sealed to the target (right info string) but its ECH
	// extension names another config id - one that no key of the pool has, or
	// (odd values) the id of the first other key: never acceptable.
	WrongID int `json:"wrong_id,omitempty"`
	// Parallel: the key list is used by several connections at the same time
	// (real goroutines, no simulated clock involved): hellos sealed to every key
	// of the pool, all of them acceptable.
	Parallel bool `json:"parallel,omitempty"`
	// CtxEnds: the context of NewConn ends while the last octet of the hello is
	// handed over (every third list).
	CtxEnds bool `json:"ctx_ends,omitempty"`
}

func permLists(n int) [][]int {
	var out [][]int
	var rec func(cur []int, used uint)
	rec = func(cur []int, used uint) {
		if len(cur) > 0 {
			out = append(out, append([]int(nil), cur...))
		}
		if len(cur) == 4 {
			return
		}
		for i := 0; i < n; i++ {
			if used&(1<<i) == 0 {
				rec(append(cur, i), used|1<<i)
			}
		}
	}
	rec(nil, 0)
	return out
}

func executeKeySet(t *testing.T, prop string, seed uint64, p *KeySetPlan) *core.Result {
	res := &core.Result{}
	cryptotest.SetGlobalRandom(t, seed)
	if p.Parallel {
		return executeKeySetParallel(res, prop, seed, p)
	}
	base := p.Base
	base.Keys = []KeySpec{base.Target}
	base.Expect = "accept"
	if p.Unlisted {
		base.Expect = "reject"
		base.Mutations = []Mutation{{Kind: "unlisted-suite"}}
	}
	if p.BadEnc > 0 {
		base.Expect = "reject"
		base.Mutations = []Mutation{{Kind: "bad-enc", A: p.BadEnc - 1}}
	}
	if p.WrongOuterName {
		base.Expect = "abort"
		base.Mutations = []Mutation{{Kind: "outer-sni-other", S: p.Others[0].PublicName}}
	}
	if p.WrongID > 0 {
		base.Expect = "reject"
		delta := byte(1 + p.WrongID%250)
		if p.WrongID%2 == 1 && len(p.Others) > 0 && p.Others[0].ID != base.Target.ID {
			delta = p.Others[0].ID - base.Target.ID
		}
		base.Mutations = []Mutation{{Kind: "wrong-id-ext", A: int(delta) - 1}}
	}
	never := p.Unlisted || p.BadEnc > 0 || p.WrongOuterName || p.WrongID > 0
	b, err := buildScript(seed, &base)
	if err == errSkip {
		res.Probe("scenario_skipped")
		return res
	}
	if err != nil {
		res.Harness = "buildScript: " + err.Error()
		return res
	}
	pool := append([]KeySpec{base.Target}, p.Others...)
	var hrr, rec2, want2 []byte
	if p.WithRetry && !never {
		hc := &histClient{p: &base, b: b, r: res, seed: seed, sendSeq: 1}
		hrr = hrrRecord(core.Mix(seed, "hrr"))
		rec2, _, _, want2, err = hc.hello2("hello2-ok", 0, true)
		if err != nil {
			res.Harness = "hello2: " + err.Error()
			return res
		}
	}
	// A server process hands the same key slice to every connection: before the
	// connection under test, another client uses another key of the list
	// ("decoy"; every other list of the enumeration).
	decoys := map[int]*built{}
	if !never {
		for i := 1; i < len(pool); i++ {
			db := base
			db.Target, db.Keys, db.Mutations = pool[i], []KeySpec{pool[i]}, nil
			db.SuiteIdx = 0
			if d, derr := buildScript(core.Mix(seed, "decoy", i), &db); derr == nil {
				decoys[i] = d
			}
		}
	}
	// ... or a client that spells the public name with a trailing dot (refused
	// or not, it must leave the server's keys as they are)
	var dotted *built
	if !never && len(base.Target.PublicName) < 250 {
		db := base
		db.Mutations = []Mutation{{Kind: "outer-sni-other", S: base.Target.PublicName + "."}}
		if d, derr := buildScript(core.Mix(seed, "dotted"), &db); derr == nil {
			dotted = d
		}
	}
	// ... or a client whose hello names the target's config and suite but
	// carries an encapsulated key no key can use (refused or passed through, it
	// must not change what the server does for the next client)
	var badEnc *built
	if !never {
		db := base
		db.Expect = "reject"
		db.Mutations = []Mutation{{Kind: "bad-enc", A: int(core.Mix(seed, "earlier-bad-enc") % 4)}}
		if d, derr := buildScript(core.Mix(seed, "badenc"), &db); derr == nil {
			badEnc = d
		}
	}
	lists := permLists(len(pool))
	if p.OnlyList != nil {
		lists = [][]int{p.OnlyList}
	}
	var log []string
	buf := make([]byte, 70000)
	sameID := 0
	for _, o := range p.Others {
		if o.ID == base.Target.ID {
			sameID++
		}
	}
	for li, l := range lists {
		var specs []KeySpec
		has := false
		for _, i := range l {
			specs = append(specs, pool[i])
			if i == 0 && !never {
				has = true
			}
		}
		core.Beat()
		res.Evals++
		what := fmt.Sprintf("list %v (0 = the key the hello is sealed to; %d other keys share its config id)", l, sameID)
		if li%5 == 4 && has {
			// merged key files: the key the hello is sealed to is listed once more at the end
			specs = append(specs, pool[0])
			what += " + key 0 once more at the end"
			res.Probe("target_key_listed_twice")
		}
		fail := func(class, site, f string, a ...any) {
			if p.Hint == nil {
				p.Hint = l
			}
			res.Fail(prop, class, site, what+": "+f, a...)
		}
		ks := echKeys(specs)
		opts := keyOptions(ks)
		if li%2 == 1 && len(l) > 1 {
			opts = []ech.Option{ech.WithKeys(ks)}
			pristine := echKeys(specs)
			di := l[len(l)-1]
			if di == 0 {
				di = l[0]
			}
			if d := decoys[di]; d != nil {
				dsc := simnet.NewScript(d.outerRec)
				dsc.NoEOF = true
				var dconn *ech.Conn
				var derr error
				if pk, m, s := core.Guard(func() { dconn, derr = ech.NewConn(context.Background(), dsc, opts...) }); pk {
					fail("panic", s+": "+normMsg(m), "NewConn (earlier connection to another key of the list)")
					continue
				}
				if derr != nil || !dconn.ECHAccepted() {
					fail("acceptance-depends-on-other-keys", "an earlier connection to another key of the same list is not accepted", "key %d of the pool: err=%v", di, derr)
					continue
				}
				res.Probe("earlier_connection_other_key")
				if !reflect.DeepEqual(ks, pristine) {
					fail("key-list-modified", "NewConn modified the caller's key list", "after a connection to key %d of the pool", di)
					continue
				}
			}
		}
		if li%4 == 2 && dotted != nil && slices.Contains(l, 0) {
			pristine := echKeys(specs)
			dsc := simnet.NewScript(dotted.outerRec)
			dsc.NoEOF = true
			if pk, m, s := core.Guard(func() { ech.NewConn(context.Background(), dsc, opts...) }); pk {
				fail("panic", s+": "+normMsg(m), "NewConn (earlier connection with a trailing dot in the outer SNI)")
				continue
			}
			res.Probe("earlier_connection_dotted_sni")
			if !reflect.DeepEqual(ks, pristine) {
				fail("key-list-modified", "NewConn modified the caller's key list", "after a connection whose outer SNI is the public name with a trailing dot")
				continue
			}
		}
		if li%4 == 3 && badEnc != nil && slices.Contains(l, 0) {
			dsc := simnet.NewScript(badEnc.outerRec)
			dsc.NoEOF = true
			if pk, m, s := core.Guard(func() { ech.NewConn(context.Background(), dsc, opts...) }); pk {
				fail("panic", s+": "+normMsg(m), "NewConn (earlier connection with an unusable encapsulated key)")
				continue
			}
			res.Probe("earlier_connection_bad_enc")
		}
		sc := simnet.NewScript(b.outerRec)
		sc.NoEOF = true
		var conn *ech.Conn
		var err error
		ctx, cancel := context.WithCancel(context.Background())
		var tr net.Conn = sc
		ctxEnded := p.CtxEnds && li%3 == 2
		if ctxEnded {
			tr = &cancelAtConn{ScriptConn: sc, at: len(b.outerRec), cancel: cancel}
			res.Probe("context_ends_with_last_octet")
		}
		if pk, m, s := core.Guard(func() { conn, err = ech.NewConn(ctx, tr, opts...) }); pk {
			cancel()
			fail("panic", s+": "+normMsg(m), "NewConn")
			continue
		}
		cancel()
		if ctxEnded && err != nil && (errors.Is(err, context.Canceled) || errors.Is(err, os.ErrDeadlineExceeded)) {
			continue // the context won: not a matter of keys
		}
		if p.WrongOuterName {
			holdsTarget := slices.Contains(l, 0)
			switch {
			case holdsTarget && err == nil:
				fail("acceptance-depends-on-other-keys", fmt.Sprintf("hello whose outer SNI is another key's public name: not refused (ECHAccepted=%v)", conn.ECHAccepted()), "")
			case holdsTarget && !errors.Is(err, ech.ErrIllegalParameter):
				fail("aborted-valid", "wrong error class for an outer SNI that is not the config's public name: "+normErr(err), "")
			case !holdsTarget && (err != nil || conn.ECHAccepted()):
				fail("acceptance-depends-on-other-keys", "hello to a key that is not held: err="+normErr(err), "")
			}
			log = append(log, fmt.Sprintf("%v wrong-outer-name %v", l, err != nil))
			continue
		}
		if err != nil {
			fail("aborted-valid", "NewConn aborts a hello that a single-key server handles: "+normErr(err), "holds target=%v", has)
			continue
		}
		if conn.ECHAccepted() != has {
			fail("acceptance-depends-on-other-keys", fmt.Sprintf("ECHAccepted=%v although holds-target=%v", conn.ECHAccepted(), has), "")
			continue
		}
		var n int
		var rerr error
		if pk, m, s := core.Guard(func() { n, rerr = conn.Read(buf) }); pk {
			fail("panic", s+": "+normMsg(m), "Read")
			continue
		}
		want := b.outerRec
		if has {
			want = b.wantInner
		}
		got := append([]byte(nil), buf[:n]...)
		w := append([]byte(nil), want...)
		if len(got) >= 3 {
			w[1], w[2] = got[1], got[2]
		}
		if rerr != nil || !bytes.Equal(got, w) {
			fail("forwarded-hello-depends-on-other-keys", "first record differs from the reference", "err=%v first diff %d", rerr, firstDiff(got, w))
			continue
		}
		log = append(log, fmt.Sprintf("%v %v", l, has))
		if !p.WithRetry || never {
			continue
		}
		// the operator rotates its key slice in place once the connection has been
		// handed out: the Conn has its own copy
		for i := range ks {
			ks[i] = ech.Key{}
		}
		var wn int
		var werr error
		if pk, m, s := core.Guard(func() { wn, werr = conn.Write(hrr) }); pk {
			fail("panic", s+": "+normMsg(m), "Write HRR")
			continue
		}
		if werr != nil || wn != len(hrr) || !bytes.Equal(sc.Out, hrr) {
			fail("history", "HelloRetryRequest not forwarded", "n=%d err=%v", wn, werr)
			continue
		}
		sc.Feed(rec2)
		if pk, m, s := core.Guard(func() { n, rerr = conn.Read(buf) }); pk {
			fail("panic", s+": "+normMsg(m), "Read retried hello")
			continue
		}
		want = rec2
		if has {
			want = want2
		}
		got = append([]byte(nil), buf[:n]...)
		w = append([]byte(nil), want...)
		if has && len(got) >= 3 {
			w[1], w[2] = got[1], got[2]
		}
		if rerr != nil {
			fail("aborted-valid", "retried hello aborted: "+normErr(rerr), "holds target=%v", has)
			continue
		}
		if !bytes.Equal(got, w) {
			fail("forwarded-hello-depends-on-other-keys", "retried hello differs from the reference", "first diff %d", firstDiff(got, w))
			continue
		}
		res.Probe("retry_replayed")
	}
	if sameID > 0 {
		res.Probe("config_id_collision")
	}
	res.NonTrivial = res.Harness == ""
	res.Sig = core.SigOf("keyset", fmt.Sprint(len(pool)), fmt.Sprint(sameID), fmt.Sprint(p.WithRetry), fmt.Sprint(base.Compress), core.SizeClass(base.Pad), fmt.Sprint(seed%256))
	res.LogHash = core.HashLog(log)
	res.FaultN("key_list_variation", res.Evals)
	res.Sample = map[string]any{"kind": "keyset", "pool": len(pool), "same_id_others": sameID, "with_retry": p.WithRetry, "lists": len(lists)}
	return res
}

func genC09(seed uint64, idx int) *Plan {
	r := core.NewRand(seed, "plan")
	base := genScriptBase(r)
	base.Chunks, base.ReadBuf, base.Trailer = nil, 0, nil
	base.ExtraIn = max(base.ExtraIn, 2)
	k := &KeySetPlan{Base: *base, WithRetry: r.IntN(2) == 0}
	if idx%16 == 6 || idx%16 == 12 {
		// the target's config carries a (non-mandatory) extension of its own
		k.Base.Target.ExtraExt = true
	}
	if r.IntN(5) == 0 {
		k.Unlisted = true
		k.Base.Target.Suites = k.Base.Target.Suites[:1+r.IntN(min(2, len(k.Base.Target.Suites)))]
		if len(k.Base.Target.Suites) > 2 {
			k.Base.Target.Suites = k.Base.Target.Suites[:2]
		}
	}
	if !k.Unlisted && idx%8 == 5 {
		k.BadEnc = 1 + (idx/8)%4
	}
	k.CtxEnds = idx%2 == 0
	wrongName := !k.Unlisted && k.BadEnc == 0 && idx%8 == 3
	k.Parallel = !k.Unlisted && k.BadEnc == 0 && idx%8 == 7
	if !k.Unlisted && k.BadEnc == 0 && idx%8 == 1 {
		k.WrongID = 1 + idx/8
	}
	n := 1 + r.IntN(3)
	for i := 0; i < n; i++ {
		o := KeySpec{ID: byte(r.IntN(256)), PublicName: base.Target.PublicName, Suites: genSuites(r), KeySeed: int(r.Uint32()), Retry: true, OwnEncoder: r.IntN(3) == 0}
		switch r.IntN(4) {
		case 0, 1:
			o.ID = base.Target.ID // the collision case of key rotation
		}
		if r.IntN(3) == 0 {
			o.Suites = append(o.Suites[:0:0], base.Target.Suites...)
		}
		if r.IntN(6) == 0 {
			o.PublicName = genPublicName(r)
		}
		k.Others = append(k.Others, o)
	}
	if idx%3 == 2 {
		// the target's own key pair re-issued under a config whose octets differ
		// (another maximum_name_length, another suite order): same id, same
		// public key, another info string
		re := base.Target
		re.MaxNameDelta = 7
		if len(re.Suites) > 1 {
			re.Suites = append([]echbox.Suite{re.Suites[len(re.Suites)-1]}, re.Suites[:len(re.Suites)-1]...)
		}
		switch (idx / 3) % 3 {
		case 1:
			// ... and without the suite the hello uses (the operator narrowed the
			// list when it re-issued the config)
			if used := base.Target.Suites[base.SuiteIdx%len(base.Target.Suites)]; len(base.Target.Suites) > 1 {
				re.Suites = nil
				for _, su := range base.Target.Suites {
					if su != used {
						re.Suites = append(re.Suites, su)
					}
				}
			}
		case 2:
			// ... and for another public name
			if pn := "reissued." + base.Target.PublicName; len(pn) <= 250 {
				re.PublicName = pn
			}
		}
		k.Others = append(k.Others, re)
		if len(k.Others) > 3 {
			k.Others = k.Others[1:]
		}
	}
	if wrongName {
		k.WrongOuterName = true
		k.Others[0].PublicName = "rotated." + base.Target.PublicName
		if len(k.Others[0].PublicName) > 250 {
			k.Others[0].PublicName = "other-front.example"
		}
	}
	return &Plan{Kind: "keyset", Seed: seed, KeySet: k}
}

func shrinkKeySet(p *Plan) []*Plan {
	var out []*Plan
	if p.KeySet.OnlyList == nil && p.KeySet.Hint != nil {
		q := p.clone()
		q.KeySet.OnlyList = q.KeySet.Hint
		out = append(out, q)
	}
	if p.KeySet.WithRetry {
		q := p.clone()
		q.KeySet.WithRetry = false
		out = append(out, q)
	}
	q := p.clone()
	if q.KeySet.Base.ExtraIn > 2 || q.KeySet.Base.ExtraOut > 0 || q.KeySet.Base.Pad > 0 {
		q.KeySet.Base.ExtraIn, q.KeySet.Base.ExtraOut, q.KeySet.Base.Pad = 2, 0, 0
		out = append(out, q)
	}
	return out
}

// cancelAtConn ends a context when the at-th octet of the input has been handed over.
type cancelAtConn struct {
	*simnet.ScriptConn
	at     int
	cancel func()
}

func (c *cancelAtConn) Read(p []byte) (int, error) {
	n, err := c.ScriptConn.Read(p)
	if c.ScriptConn.Pos() >= c.at {
		c.cancel()
	}
	return n, err
}

// executeKeySetParallel: one server process, one key list, many connections at
// once. Whether a hello is accepted must not depend on what other connections
// are doing at that moment.
func executeKeySetParallel(res *core.Result, prop string, seed uint64, p *KeySetPlan) *core.Result {
	base := p.Base
	base.Expect = "accept"
	pool := append([]KeySpec{base.Target}, p.Others...)
	type flight struct {
		rec, want []byte
		key       int
	}
	var flights []flight
	for i := range pool {
		db := base
		db.Target, db.Keys, db.Mutations, db.SuiteIdx = pool[i], []KeySpec{pool[i]}, nil, 0
		d, err := buildScript(core.Mix(seed, "parallel", i), &db)
		if err == errSkip {
			continue
		}
		if err != nil {
			res.Harness = "buildScript: " + err.Error()
			return res
		}
		flights = append(flights, flight{d.outerRec, d.wantInner, i})
	}
	if len(flights) == 0 {
		res.Probe("scenario_skipped")
		return res
	}
	ks := echKeys(pool)
	shared := ech.WithKeys(ks) // one Option value for every connection, as in a server's accept loop
	const workers, rounds = 8, 24
	var mu sync.Mutex
	var wg sync.WaitGroup
	start := make(chan struct{})
	for g := 0; g < workers; g++ {
		wg.Add(1)
		go func(g int) {
			defer wg.Done()
			<-start
			buf := make([]byte, 70000)
			for i := 0; i < rounds; i++ {
				f := flights[(g+i)%len(flights)]
				sc := simnet.NewScript(f.rec)
				sc.NoEOF = true
				var conn *ech.Conn
				var err error
				var n int
				var rerr error
				pk, m, site := core.Guard(func() {
					conn, err = ech.NewConn(context.Background(), sc, shared)
					if err == nil {
						n, rerr = conn.Read(buf)
					}
				})
				what := fmt.Sprintf("%d connections at once, %d keys (hello sealed to key %d of the pool)", workers, len(pool), f.key)
				mu.Lock()
				res.Evals++
				switch {
				case pk:
					res.Fail(prop, "panic", site+": "+normMsg(m), "%s", what)
				case err != nil:
					res.Fail(prop, "aborted-valid", "NewConn aborts an acceptable hello while other connections are being served: "+normErr(err), "%s", what)
				case !conn.ECHAccepted():
					res.Fail(prop, "acceptance-depends-on-other-connections", "an acceptable hello is rejected while other connections are being served", "%s", what)
				default:
					got := append([]byte(nil), buf[:n]...)
					w := append([]byte(nil), f.want...)
					if len(got) >= 3 {
						w[1], w[2] = got[1], got[2]
					}
					if rerr != nil || !bytes.Equal(got, w) {
						res.Fail(prop, "forwarded-hello-depends-on-other-connections", "first record differs from the reference while other connections are being served", "%s: err=%v first diff %d", what, rerr, firstDiff(got, w))
					}
				}
				mu.Unlock()
			}
		}(g)
	}
	close(start)
	wg.Wait()
	res.Probe("connections_in_parallel")
	res.NonTrivial = res.Harness == ""
	res.Arbitrated = true // real parallelism: which goroutine runs when is the runtime's choice
	res.Sig = core.SigOf("keyset-parallel", fmt.Sprint(len(pool)), fmt.Sprint(seed%1024))
	res.Sample = map[string]any{"kind": "keyset", "parallel": true, "pool": len(pool), "connections": workers * rounds}
	return res
}
