package e1front

import "verifsim/core"

func (Engine) Describe(prop string) core.Description {
	d := core.Description{Components: map[string]string{
		"ech.NewConn / ech.Conn (client-facing server)": "real code under test",
		"TLS client":                "real crypto/tls client (go1.26.8)",
		"backend / public-name TLS": "real crypto/tls server (go1.26.8)",
		"network":                   "simulated (simnet links: seeded segmentation, latency, short reads, cuts, stalls, corruption)",
		"clock":                     "virtual (testing/synctest)",
		"crypto randomness":         "pinned per plan (testing/cryptotest)",
		"other ECH clients":         "harness toolbox (echbox) sealing with the standard library's crypto/hpke",
	}}
	return d
}
