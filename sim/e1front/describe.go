package e1front

import "verifsim/core"

var e1Components = map[string]string{
	"ech.NewConn / ech.Conn (client-facing server), internal/hpke, config.go": "real code under test",
	"TLS client":                "real crypto/tls client (go1.26.8): ECH, HelloRetryRequest, PSK resumption, client certificates, X25519MLKEM768",
	"backend / public-name TLS": "real crypto/tls server (go1.26.8), with EncryptedClientHelloKeys on the public-name side",
	"other ECH clients":         "harness toolbox echbox (own ClientHello codec, EncodedClientHelloInner encoder/decoder, AAD builder) sealing with the standard library's crypto/hpke",
	"network":                   "simulated: simnet links (seeded segmentation, latency, short reads, cuts, stalls, flow-control window) on the virtual clock; ScriptConn for single-goroutine replays",
	"clock":                     "virtual (testing/synctest)",
	"crypto randomness":         "pinned per plan (testing/cryptotest)",
}

var e1Rules = map[string][3]string{
	// rule, exhaustive dimensions, required probes (comma separated)
	"C01": {"one plan = one real-stack topology drawn from the seed (client config, backend config, key set, links, topology); non-trivial = every handshake of the plan completed as expected; distinct = different canonical (event kind, node, size class) sequence of the simulated network",
		"", "hrr_seen,psk_resumed,pq_key_share,stale_rejected,retry_config_used,inner_reconstruction_checked,inner_without_sni,hrr_client_without_compat_ccs,hrr_write_returns_late"},
	"C02": {"substitution plans: one sealed hello with one deliberate mismatch; flip plans: one accepted hello (toolbox, real client, or the hello after HelloRetryRequest) and every single-bit corruption of its record; an evaluation = one fresh NewConn; distinct = (substitution kind, layout classes) resp. one per flip plan",
		"every single-bit flip of the hello record, for each flip plan's hello", "flip_aborted,flip_passthrough,retry_flip_aborted"},
	"C03": {"live plans with a re-encoding client node, scripted plans with grammar-generated inner/outer pairs; non-trivial = accepted and compared with the reference reconstruction; distinct = (compression, padding, size, chunking classes) resp. network schedule signature",
		"", "reencoded_with_compression,reencoded_retry_hello,compressed_inner,inner_reconstruction_checked"},
	"C04": {"one authentic hello with 1..3 rule violations (or a rule violation on the hello after HRR); non-trivial = the four abort observations were evaluated; distinct = (set of violations, layout classes, chunking class, outcome)",
		"", "compressed_inner,retry_processed"},
	"C05": {"live plans without ECH / TLS 1.2-only / through HRR, scripted plans with a plain, GREASE or undecryptable hello plus an arbitrary record stream; non-trivial = bytes compared in both directions; distinct = (hello family, sizes, chunking, outcome)",
		"", "tls_stack_view_compared,passthrough_hrr_second_hello"},
	"C06": {"one accepted first hello followed by an interleaving of <= 12 client / backend records (sequential on one goroutine, or with the read pump parked in Conn.Read over simnet; backend records optionally joined into one Write); non-trivial = compared record by record with the model; distinct = the sequence of (side, kind, joined) plus mode",
		"", "hrr_armed,retry_processed,hello_without_hrr_or_late,concurrent_history,several_records_per_write,write_returns_after_next_read"},
	"C07": {"one bidirectional stream (recorded from a live handshake or synthetic) replayed under one enumerated dimension; an evaluation = one fresh Conn over the stream; distinct = per cut: (kind, record index, record type, rewritten or not, position class within the record)",
		"transport cut (EOF / error, on its own Read or with the last bytes) at every byte offset of the client stream; write error at every offset and every single split point of the backend stream (stride 7/11 for streams with > 16 KB records); 10 chunkings x 7 read-buffer sizes, incl. two interleaved connections", "cut_in_first_record,cut_mid_stream,two_connections_interleaved,hrr_stream"},
	"C08": {"stall plans: every offset of one first record; hostile plans: one mutated first record plus hostile record streams on both sides; non-trivial = all monitors evaluated; distinct = per stall offset (region, window, lateness) resp. (mutation kinds, item kinds, outcome)",
		"stall after every byte offset of the first record, for each stall plan", "hostile_past_newconn,both_directions_at_once"},
	"C09": {"one authentic flight replayed against every ordered list of 1..4 keys from {target} + <= 3 others; an evaluation = one list; distinct = per plan (pool size, collisions, retry, layout classes)",
		"all ordered key lists of length 1..4 over the plan's key pool", "config_id_collision,retry_replayed,earlier_connection_other_key,context_ends_with_last_octet,connections_in_parallel"},
	"C10": {"one cell of the action grid (where the context ends relative to the hello and to NewConn's return, how the transport and the context react) x GOMAXPROCS, repeated 24-48 times; distinct = the grid cell",
		"", "ctx_end_after_return,ctx_end_during_newconn_ok,ctx_end_while_blocked,hrr_after_ctx_end"},
}

func (Engine) Describe(prop string) core.Description {
	d := core.Description{Components: e1Components}
	if r, ok := e1Rules[prop]; ok {
		d.Rule = r[0]
		d.Exhaustive = r[1]
		for _, p := range splitComma(r[2]) {
			d.RequiredProbes = append(d.RequiredProbes, p)
		}
	}
	d.Assumptions = []string{
		"go1.26.8's crypto/tls, crypto/hpke, testing/synctest and testing/cryptotest behave as documented (they are the independent oracle and the clock)",
		"one ClientHello per TLS record (hellos longer than one record are a recorded known finding of C01, outside the other properties' quantifiers)",
		"sampling, not proof: only the dimensions listed as exhaustive are enumerated, for the hellos / streams drawn from the seed",
	}
	if prop == "C10" {
		d.Assumptions = append(d.Assumptions, "which ready case a select takes, and the order of goroutines made runnable together, are the Go runtime's choice: every scenario is repeated 24-48 times per plan and the plans are marked runtime_arbitrated")
	}
	return d
}

func splitComma(s string) []string {
	var out []string
	cur := ""
	for _, c := range s {
		if c == ',' {
			if cur != "" {
				out = append(out, cur)
			}
			cur = ""
			continue
		}
		cur += string(c)
	}
	if cur != "" {
		out = append(out, cur)
	}
	return out
}
