package e1front

import (
	"bytes"
	"context"
	"crypto/tls"
	"fmt"
	"testing"
	"testing/cryptotest"

	"github.com/c2FmZQ/ech"

	"verifsim/core"
	"verifsim/echbox"
	"verifsim/simnet"
)

// FlipPlan: one accepted hello, then every single-bit corruption of it in
// flight (an enumerated fault dimension).
type FlipPlan struct {
	Base ScriptPlan `json:"base"`
	Real bool       `json:"real"` // flight recorded from the real crypto/tls client instead of the toolbox
	// Retry: the flips are applied to the hello sent after a HelloRetryRequest
	// (toolbox flights only): accepted first hello, HRR through Write, then the
	// corrupted second hello.
	Retry bool      `json:"retry,omitempty"`
	Live  *LivePlan `json:"live,omitempty"` // client configuration for Real
	// Only restricts the enumeration to one bit (set by the shrinker / replay).
	Only *int `json:"only,omitempty"`
	// Hint is written by Execute: the first failing bit (used by the shrinker).
	Hint *int `json:"hint,omitempty"`
}

// realClientFlight records the first flight of a real crypto/tls client.
func realClientFlight(cfg *tls.Config) []byte {
	sc := simnet.NewScript(nil)
	c := tls.Client(sc, cfg)
	c.HandshakeContext(context.Background()) // fails with EOF after the hello was written
	return sc.Out
}

func liveClientConfig(p *LivePlan) *tls.Config {
	pk := getPKI()
	ccfg := &tls.Config{ServerName: p.ServerName, RootCAs: pk.pool, NextProtos: p.ClientALPN, MinVersion: tls.VersionTLS13}
	for _, c := range p.ClientCurves {
		ccfg.CurvePreferences = append(ccfg.CurvePreferences, tls.CurveID(c))
	}
	if p.ClientKey >= 0 {
		_, _, cfg := p.Keys[p.ClientKey].material()
		ccfg.EncryptedClientHelloConfigList = echbox.ConfigListOf(cfg)
	}
	return ccfg
}

// executeFlipRetry: every single-bit corruption of the hello that follows a
// HelloRetryRequest. The retried hello must be aborted, or - when the flip
// makes it something else than a ClientHello record - passed on untouched;
// it must never be replaced by a "reconstructed" hello.
func executeFlipRetry(t *testing.T, prop string, seed uint64, p *FlipPlan) *core.Result {
	res := &core.Result{}
	cryptotest.SetGlobalRandom(t, seed)
	base := p.Base
	base.Keys = []KeySpec{base.Target}
	b, err := buildScript(seed, &base)
	if err != nil {
		if err == errSkip {
			res.Probe("scenario_skipped")
			return res
		}
		res.Harness = "buildScript: " + err.Error()
		return res
	}
	hc := &histClient{p: &base, b: b, r: res, seed: seed, sendSeq: 1}
	hrr := hrrRecord(core.Mix(seed, "hrr"))
	rec2, _, _, want2, err := hc.hello2("hello2-ok", 0, true)
	if err != nil || want2 == nil {
		res.Harness = fmt.Sprintf("hello2: %v", err)
		return res
	}
	buf := make([]byte, 70000)
	var tryWith func(first, second []byte) (got []byte, rerr error, pk string)
	try := func(second []byte) (got []byte, rerr error, pk string) { return tryWith(b.outerRec, second) }
	tryWith = func(first, second []byte) (got []byte, rerr error, pk string) {
		sc := simnet.NewScript(first)
		sc.NoEOF = true
		p, m, s := core.Guard(func() {
			conn, err := ech.NewConn(context.Background(), sc, keyOptions(b.keys)...)
			if err != nil {
				rerr = fmt.Errorf("NewConn: %w", err)
				return
			}
			if n, err := conn.Read(buf); err != nil || n == 0 {
				rerr = fmt.Errorf("first Read: %v", err)
				return
			}
			if _, err := conn.Write(hrr); err != nil {
				rerr = fmt.Errorf("Write HRR: %w", err)
				return
			}
			sc.Feed(second)
			n, err := conn.Read(buf)
			got, rerr = append([]byte(nil), buf[:n]...), err
		})
		if p {
			pk = s + ": " + normMsg(m)
		}
		return
	}
	// positive control
	got, rerr, pk := try(rec2)
	w := append([]byte(nil), want2...)
	if len(got) >= 3 {
		w[1], w[2] = got[1], got[2]
	}
	if pk != "" || rerr != nil || !bytes.Equal(got, w) {
		res.Fail(prop, "rejected-valid", "positive control: authentic retried hello not replaced by the reference inner", "err=%v panic=%q", rerr, pk)
		return res
	}
	// substitution: the retried hello names (consistently, so that the AAD
	// agrees) another AEAD than the first one while continuing its HPKE context:
	// it must be aborted, never replaced by a reconstructed hello
	if p.Only == nil {
		if b2, err := buildScript(seed, &base); err == nil {
			hc2 := &histClient{p: &base, b: b2, r: res, seed: seed, sendSeq: 1}
			if sub, _, _, _, err := hc2.hello2("hello2-suite-pre", 0, true); err == nil {
				got, rerr, pk := tryWith(b2.outerRec, sub)
				res.Evals++
				res.Fault("mut:retry-suite-relabelled")
				switch {
				case pk != "":
					res.Fail(prop, "panic", pk, "retried hello naming another AEAD")
				case rerr == nil && !bytes.Equal(got, sub):
					res.Fail(prop, "accepted-unauthentic", "retried hello naming another cipher suite than the first one replaced by a reconstructed hello", "first hello AEAD %d", b2.sealer.Suite.AEAD)
				case rerr == nil:
					res.Fail(prop, "accepted-unauthentic", "retried hello naming another cipher suite passed on instead of being aborted", "")
				}
			}
		}
	}
	lo, hi := 0, len(rec2)*8
	if p.Only != nil {
		lo, hi = *p.Only, *p.Only+1
	}
	aborted, passed := 0, 0
	mut := make([]byte, len(rec2))
	for bit := lo; bit < hi; bit++ {
		core.Beat()
		copy(mut, rec2)
		mut[bit/8] ^= 1 << (bit % 8)
		got, rerr, pk := try(mut)
		res.Evals++
		hint := func() {
			if p.Hint == nil {
				bb := bit
				p.Hint = &bb
			}
		}
		switch {
		case pk != "":
			hint()
			res.Fail(prop, "panic", pk, "bit %d of the retried hello flipped", bit)
		case bit/8 < 9:
			// record / handshake header: not part of ClientHelloOuter (only no panic)
		case rerr != nil:
			aborted++
		case bytes.Equal(got, mut):
			passed++
			if bit/8 >= 9 {
				hint()
				res.Fail(prop, "accepted-unauthentic", "retried hello with an altered bit passed on instead of being aborted", "bit %d (byte %d of %d, region %s)", bit, bit/8, len(rec2), region(rec2, bit/8))
			}
		default:
			hint()
			res.Fail(prop, "accepted-unauthentic", "retried hello with an altered bit replaced by a reconstructed hello", "bit %d (byte %d of %d, region %s)", bit, bit/8, len(rec2), region(rec2, bit/8))
		}
	}
	res.FaultN("bit_flip", res.Evals)
	res.ProbeN("retry_flip_aborted", aborted)
	res.ProbeN("retry_flip_untouched", passed)
	res.NonTrivial = true
	res.Sig = core.SigOf("flip-retry", core.SizeClass(len(rec2)), fmt.Sprint(seed%64))
	res.LogHash = core.HashLog([]string{fmt.Sprintf("%d %d %d", len(rec2), aborted, passed)})
	res.Sample = map[string]any{"kind": "flip-retry", "hello_bytes": len(rec2), "bits": hi - lo, "aborted": aborted, "untouched": passed}
	return res
}

func executeFlip(t *testing.T, prop string, seed uint64, p *FlipPlan) *core.Result {
	if p.Retry && !p.Real {
		return executeFlipRetry(t, prop, seed, p)
	}
	res := &core.Result{}
	cryptotest.SetGlobalRandom(t, seed)
	var rec []byte
	var keys []ech.Key
	var want []byte
	if p.Real {
		lp := p.Live
		if lp.ClientKey < 0 {
			lp.ClientKey = 0
		}
		keys = echKeys(lp.Keys)
		rec = realClientFlight(liveClientConfig(lp))
		recs, rest := splitRecords(rec)
		if len(recs) != 1 || len(rest) != 0 {
			res.Harness = fmt.Sprintf("real client flight is not a single record (%d records, %d bytes left)", len(recs), len(rest))
			return res
		}
		outer, err := echbox.ParseHelloRecord(rec)
		if err != nil {
			res.Harness = "cannot parse the real client's hello"
			return res
		}
		priv, _, cfg := lp.Keys[lp.ClientKey].material()
		enc, _, err := (&echbox.Opener{}).OpenOuter(priv, cfg, outer)
		if err != nil {
			res.Harness = "cannot open the real client's hello: " + err.Error()
			return res
		}
		in, err := echbox.DecodeInner(enc, outer)
		if err != nil {
			res.Harness = "cannot decode the real client's hello: " + err.Error()
			return res
		}
		want = in.Record(uint16(rec[1])<<8 | uint16(rec[2]))
	} else {
		b, err := buildScript(seed, &p.Base)
		if err != nil {
			res.Harness = "buildScript: " + err.Error()
			return res
		}
		rec, keys, want = b.outerRec, b.keys, b.wantInner
	}
	// positive control
	o, _ := runScript(keys, rec, nil, 0)
	if o.panicMsg != "" {
		res.Fail(prop, "panic", o.panicSite+": "+normMsg(o.panicMsg), "unmodified hello")
		return res
	}
	if len(o.read) >= 3 && len(want) >= 3 {
		want[1], want[2] = o.read[1], o.read[2]
	}
	if o.err != nil || !o.accepted || !bytes.Equal(o.read, want) {
		res.Fail(prop, "rejected-valid", "positive control: authentic hello not accepted as the reference inner", "err=%v accepted=%v read %d bytes want %d", o.err, o.accepted, len(o.read), len(want))
		return res
	}
	nbits := len(rec) * 8
	lo, hi := 0, nbits
	if p.Only != nil {
		lo, hi = *p.Only, *p.Only+1
	}
	accepted, aborted, passed := 0, 0, 0
	hint := func(bit int) {
		if p.Hint == nil {
			b := bit
			p.Hint = &b
		}
	}
	mut := make([]byte, len(rec))
	for bit := lo; bit < hi; bit++ {
		core.Beat()
		copy(mut, rec)
		mut[bit/8] ^= 1 << (bit % 8)
		o, _ := runScript(keys, mut, nil, 0)
		res.Evals++
		if o.panicMsg != "" {
			res.Fail(prop, "panic", o.panicSite+": "+normMsg(o.panicMsg), "bit %d (byte %d) flipped", bit, bit/8)
			hint(bit)
			continue
		}
		if bit/8 < 9 {
			continue // record / handshake header: not part of ClientHelloOuter
		}
		switch {
		case o.err != nil:
			aborted++
		case o.accepted:
			accepted++
			hint(bit)
			res.Fail(prop, "accepted-unauthentic", "ECH accepted although a bit of the outer hello was altered", "bit %d (byte %d of %d, region %s)", bit, bit/8, len(rec), region(rec, bit/8))
		default:
			passed++
			got := append([]byte(nil), o.read...)
			if len(got) >= 3 {
				got[1], got[2] = mut[1], mut[2]
			}
			if !bytes.Equal(got, mut) {
				hint(bit)
				res.Fail(prop, "passthrough", "fall-back did not forward the (altered) outer hello unchanged", "bit %d: first diff at %d", bit, firstDiff(got, mut))
			}
		}
	}
	res.FaultN("bit_flip", res.Evals)
	res.ProbeN("flip_aborted", aborted)
	res.ProbeN("flip_passthrough", passed)
	res.NonTrivial = true
	res.Sig = core.SigOf("flip", fmt.Sprint(p.Real), core.SizeClass(len(rec)), fmt.Sprint(aborted*16/max(1, res.Evals)), fmt.Sprint(seed%64))
	res.LogHash = core.HashLog([]string{fmt.Sprintf("%d %d %d %d", len(rec), accepted, aborted, passed)})
	res.Sample = map[string]any{"kind": "flip", "real_client": p.Real, "hello_bytes": len(rec), "bits": hi - lo, "aborted": aborted, "passthrough": passed}
	return res
}

// region names the part of the hello a byte offset falls into (for messages).
func region(rec []byte, off int) string {
	h, err := echbox.ParseHelloRecord(rec)
	if err != nil {
		return "?"
	}
	pos := 9 + 2 + 32 + 1 + len(h.SessionID) + 2 + len(h.CipherSuites) + 1 + len(h.Compression) + 2
	if off < pos {
		return "fixed fields"
	}
	for _, e := range h.Exts {
		if off < pos+4+len(e.Data) {
			return fmt.Sprintf("extension 0x%04x", e.Type)
		}
		pos += 4 + len(e.Data)
	}
	return "trailer"
}

func shrinkFlip(p *Plan) []*Plan {
	if p.Flip.Only != nil || p.Flip.Hint == nil {
		return nil
	}
	q := p.clone()
	q.Flip.Only = q.Flip.Hint
	return []*Plan{q}
}
