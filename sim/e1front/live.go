package e1front

import (
	"bytes"
	"context"
	"crypto/tls"
	"errors"
	"fmt"
	"io"
	"net"
	"os"
	"slices"
	"strings"
	"sync"
	"testing"
	"testing/cryptotest"
	"testing/synctest"
	"time"

	"github.com/c2FmZQ/ech"

	"verifsim/core"
	"verifsim/echbox"
	"verifsim/simnet"
)

// KeySpec describes one ECH key held by the client-facing server.
type KeySpec struct {
	ID         byte           `json:"id"`
	PublicName string         `json:"public_name"`
	Suites     []echbox.Suite `json:"suites"`
	KeySeed    int            `json:"key_seed"`
	Retry      bool           `json:"retry"`
	OwnEncoder bool           `json:"own_encoder,omitempty"` // config bytes from the harness encoder instead of ech.ConfigSpec
	// Non-canonical encodings (harness encoder only): maximum_name_length not
	// derived from the name, and a non-empty (non-mandatory) extensions block.
	MaxNameDelta int  `json:"max_name_delta,omitempty"`
	ExtraExt     bool `json:"extra_ext,omitempty"`
	// OtherKEM: a key for DHKEM(P-256) - a KEM this library does not implement
	// (the key list is of the type crypto/tls uses, where such keys are fine).
	OtherKEM bool `json:"other_kem,omitempty"`
	// BadConfig: the entry's config does not parse (cut short): the library has
	// to leave it aside.
	BadConfig bool `json:"bad_config,omitempty"`
	// Empty (with BadConfig): the entry is a zero Key (a placeholder in a
	// fixed-size list, a slot whose file failed to load).
	Empty bool `json:"empty,omitempty"`
	// BadPriv: the config parses, the private key that goes with it does not.
	BadPriv bool `json:"bad_priv,omitempty"`
}

func (k KeySpec) material() (priv, pub, cfg []byte) {
	if k.BadPriv {
		g := k
		g.BadPriv = false
		priv, pub, cfg = g.material()
		return priv[:len(priv)-1], pub, cfg
	}
	if k.BadConfig && k.Empty {
		return nil, nil, nil
	}
	if k.BadConfig {
		g := k
		g.BadConfig = false
		priv, pub, cfg = g.material()
		return priv, pub, cfg[:len(cfg)-3]
	}
	h := core.Mix(uint64(k.KeySeed), "echkey")
	seed := make([]byte, 32)
	for i := range seed {
		seed[i] = byte(h >> (8 * (i % 8)))
		if i%8 == 7 {
			h = core.SplitMix64(h)
		}
	}
	priv, pub = echbox.KeyFromSeed(seed)
	if k.OtherKEM {
		// config for kem_id 0x0010 with a 65-octet uncompressed point
		pt := append(append([]byte{4}, pub...), priv...)
		c := echbox.BuildConfig(k.ID, pt, k.PublicName, k.Suites, byte(min(len(k.PublicName)+16, 255)))
		c[5], c[6] = 0x00, 0x10
		return priv, pt, c
	}
	if k.OwnEncoder || k.MaxNameDelta != 0 || k.ExtraExt {
		mnl := byte(min(len(k.PublicName)+16, 255) + k.MaxNameDelta)
		if k.ExtraExt {
			cfg = echbox.BuildConfigExt(k.ID, pub, k.PublicName, k.Suites, mnl, []byte{0x12, 0x34, 0, 3, 1, 2, 3})
		} else {
			cfg = echbox.BuildConfig(k.ID, pub, k.PublicName, k.Suites, mnl)
		}
		return
	}
	spec := ech.ConfigSpec{Version: 0xfe0d, ID: k.ID, KEM: 0x0020, PublicKey: pub, PublicName: []byte(k.PublicName)}
	for _, s := range k.Suites {
		spec.CipherSuites = append(spec.CipherSuites, ech.CipherSuite{KDF: s.KDF, AEAD: s.AEAD})
	}
	c, err := spec.Bytes()
	if err != nil {
		panic(err)
	}
	return priv, pub, c
}

// keyOptions hands the keys to NewConn the way callers may: spread over one or
// several WithKeys options (options accumulate).
func keyOptions(keys []ech.Key) []ech.Option {
	return append(splitKeyOptions(keys), debugOption(keys)...)
}

// debugOption: callers pass WithDebug in three ways - not at all, with a nil
// function (an unset optional hook handed through), or with a function that
// really formats what it is given. Which one is derived from the key material.
func debugOption(keys []ech.Key) []ech.Option {
	sel := len(keys)
	if len(keys) > 0 && len(keys[0].Config) > 8 {
		sel += int(keys[0].Config[len(keys[0].Config)/3])
	}
	switch sel % 4 {
	case 1:
		return []ech.Option{ech.WithDebug(nil)}
	case 2:
		return []ech.Option{ech.WithDebug(func(format string, a ...any) { _ = fmt.Sprintf(format, a...) })}
	}
	return nil
}

func splitKeyOptions(keys []ech.Key) []ech.Option {
	if len(keys) < 2 {
		return []ech.Option{ech.WithKeys(keys)}
	}
	// deterministic split derived from the key material itself (of the first
	// entry that has any)
	k0 := -1
	for i := range keys {
		if len(keys[i].Config) > 0 && len(keys[i].PrivateKey) > 1 {
			k0 = i
			break
		}
	}
	if k0 < 0 {
		return []ech.Option{ech.WithKeys(keys)}
	}
	ref := keys[k0]
	cut := 1 + int(ref.Config[len(ref.Config)/2])%(len(keys)-1)
	if ref.PrivateKey[0]%3 == 0 {
		return []ech.Option{ech.WithKeys(keys)}
	}
	opts := []ech.Option{ech.WithKeys(keys[:cut]), ech.WithKeys(keys[cut:])}
	if len(keys[cut:]) > 1 && ref.PrivateKey[1]%2 == 0 {
		opts = []ech.Option{ech.WithKeys(keys[:cut]), ech.WithKeys(keys[cut : cut+1]), ech.WithKeys(keys[cut+1:])}
	}
	return opts
}

func echKeys(specs []KeySpec) []ech.Key {
	var out []ech.Key
	for _, k := range specs {
		priv, _, cfg := k.material()
		out = append(out, ech.Key{Config: cfg, PrivateKey: priv, SendAsRetry: k.Retry})
	}
	return out
}

// ReencPlan drives the re-encoding client node (C03): it re-compresses and
// re-seals every ClientHello the real client sends.
type ReencPlan struct {
	RunPick int `json:"run_pick"` // which maximal compressible run
	FromOff int `json:"from_off"` // sub-run start offset inside it
	Len     int `json:"len"`      // sub-run length (0: no compression)
	Pad     int `json:"pad"`
}

// LivePlan is one run of the real-stack topology.
type LivePlan struct {
	Keys      []KeySpec `json:"keys"`
	ClientKey int       `json:"client_key"` // >=0 index into Keys; -1 stale config; -2 no ECH
	Stale     KeySpec   `json:"stale,omitempty"`

	ServerName     string   `json:"server_name"`
	ClientALPN     []string `json:"client_alpn,omitempty"`
	BackendALPN    []string `json:"backend_alpn,omitempty"`
	ClientCurves   []uint16 `json:"client_curves,omitempty"`
	BackendCurves  []uint16 `json:"backend_curves,omitempty"`
	Resume         bool     `json:"resume,omitempty"`
	ClientCert     bool     `json:"client_cert,omitempty"`
	ChainPad       int      `json:"chain_pad,omitempty"`
	ClientChainPad int      `json:"client_chain_pad,omitempty"`
	Forward        bool     `json:"forward"`
	TLS12Only      bool     `json:"tls12_only,omitempty"`

	CF simnet.LinkCfg `json:"cf"`
	FC simnet.LinkCfg `json:"fc"`
	FB simnet.LinkCfg `json:"fb"`
	BF simnet.LinkCfg `json:"bf"`

	ReadBuf    int   `json:"read_buf"`
	WriteSplit []int `json:"write_split,omitempty"`
	UpBytes    int   `json:"up_bytes"`
	DownBytes  int   `json:"down_bytes"`

	Reenc *ReencPlan `json:"reenc,omitempty"`

	// SlowWriteReturnMs (forwarding topology): the front's first writes towards
	// the client return this much later than the bytes leave.
	SlowWriteReturnMs int `json:"slow_write_return_ms,omitempty"`
	// CopyUp: the front forwards client -> backend with io.Copy(backend, conn).
	CopyUp bool `json:"copy_up,omitempty"`
	// NoCCS: the client does not use middlebox compatibility mode (RFC 8446,
	// D.4: optional): its change_cipher_spec records never reach the wire.
	NoCCS bool `json:"no_ccs,omitempty"`
}

// noCCSConn drops the change_cipher_spec records crypto/tls writes (it writes
// whole records).
type noCCSConn struct {
	net.Conn
	dropped *int
}

func (c *noCCSConn) Write(b []byte) (int, error) {
	out := make([]byte, 0, len(b))
	rest := b
	for len(rest) >= 5 {
		n := 5 + (int(rest[3])<<8 | int(rest[4]))
		if n > len(rest) {
			break
		}
		if rest[0] == 20 {
			*c.dropped++
		} else {
			out = append(out, rest[:n]...)
		}
		rest = rest[n:]
	}
	out = append(out, rest...)
	if len(out) > 0 {
		if _, err := c.Conn.Write(out); err != nil {
			return 0, err
		}
	}
	return len(b), nil
}

type connObs struct {
	ccsDropped      int
	clientErr       error
	clientState     tls.ConnectionState
	clientEchoOK    bool
	newConnErr      error
	frontAccepted   bool
	frontPresented  bool
	frontName       string
	frontALPN       []string
	routedPublic    bool
	pubErr          error
	pubBytes        []byte
	backendErr      error
	backendState    tls.ConnectionState
	backendSawName  string
	backendSawALPN  []string
	backendGotHello bool
	cf, fc, fb, bf  []byte // bytes accepted by each link
	panics          []string
	retryList       []byte
	pumpReadErr     error
	pumpWriteErr    error
}

type teeConn struct {
	net.Conn
	mu sync.Mutex
	rd []byte
}

func (t *teeConn) Read(p []byte) (int, error) {
	n, err := t.Conn.Read(p)
	t.mu.Lock()
	t.rd = append(t.rd, p[:n]...)
	t.mu.Unlock()
	return n, err
}

func pattern(n int, salt byte) []byte {
	b := make([]byte, n)
	for i := range b {
		b[i] = byte(i*31) ^ salt
	}
	return b
}

type liveWorld struct {
	w      *simnet.World
	p      *LivePlan
	keys   []ech.Key
	pubs   map[string]bool
	cache  tls.ClientSessionCache
	bcfg   *tls.Config
	pubCfg *tls.Config
	res    *core.Result
	mu     sync.Mutex
	hello  [](*tls.ClientHelloInfo)
	// slowWrites counts connections whose front writes return late
	slowWrites int
	copyUps    int
}

func (lw *liveWorld) guard(o *connObs, where string, f func()) {
	if panicked, msg, site := core.Guard(f); panicked {
		lw.mu.Lock()
		o.panics = append(o.panics, where+"|"+site+"|"+msg)
		lw.mu.Unlock()
	}
}

// runConn performs one client connection through the front.
func (lw *liveWorld) runConn(n int, ccfg *tls.Config) *connObs {
	p, w := lw.p, lw.w
	o := &connObs{}
	tag := fmt.Sprintf("%d", n)
	var cc, fc net.Conn
	var cfLink *simnet.Link // the link that carries what the front receives
	var fcLink *simnet.Link
	var reencDone chan struct{}
	if p.Reenc != nil {
		c1, m1 := w.Pipe("c"+tag, "m"+tag, simnet.LinkCfg{Seg: simnet.SegWhole}, simnet.LinkCfg{Seg: simnet.SegWhole})
		m2, f2 := w.Pipe("m"+tag, "f"+tag, p.CF, p.FC)
		cc, fc = c1, f2
		cfLink, fcLink = m2.Out(), f2.Out()
		re := &reencoder{lw: lw, plan: p.Reenc}
		reencDone = make(chan struct{})
		go func() {
			defer close(reencDone)
			lw.guard(o, "reenc", func() { re.pump(m1, m2) })
		}()
		go func() {
			b := make([]byte, 32768)
			for {
				k, err := m2.Read(b)
				if k > 0 {
					m1.Write(b[:k])
				}
				if err != nil {
					m1.Close()
					return
				}
			}
		}()
	} else {
		c1, f1 := w.Pipe("c"+tag, "f"+tag, p.CF, p.FC)
		cc, fc = c1, f1
		cfLink, fcLink = c1.Out(), f1.Out()
	}
	var fbLink, bfLink *simnet.Link

	clientDone := make(chan struct{})
	go func() { // client node
		defer close(clientDone)
		lw.guard(o, "client", func() {
			var tc net.Conn = cc
			if p.NoCCS {
				tc = &noCCSConn{Conn: cc, dropped: &o.ccsDropped}
			}
			c := tls.Client(tc, ccfg)
			o.clientErr = c.HandshakeContext(context.Background())
			if o.clientErr == nil {
				o.clientState = c.ConnectionState()
				up := pattern(p.UpBytes, byte(n))
				if _, err := c.Write(up); err != nil {
					o.clientErr = fmt.Errorf("client write: %w", err)
				} else {
					got := make([]byte, p.DownBytes)
					if _, err := io.ReadFull(c, got); err != nil {
						o.clientErr = fmt.Errorf("client read: %w", err)
					} else {
						o.clientEchoOK = bytes.Equal(got, pattern(p.DownBytes, byte(n)^0x55))
					}
				}
				c.Close()
			}
			cc.Close()
		})
	}()

	serve := func(s *tls.Conn, o *connObs) error {
		if err := s.HandshakeContext(context.Background()); err != nil {
			return err
		}
		o.backendState = s.ConnectionState()
		got := make([]byte, p.UpBytes)
		if _, err := io.ReadFull(s, got); err != nil {
			return fmt.Errorf("backend read: %w", err)
		}
		if !bytes.Equal(got, pattern(p.UpBytes, byte(n))) {
			return errors.New("backend: application data corrupted")
		}
		if _, err := s.Write(pattern(p.DownBytes, byte(n)^0x55)); err != nil {
			return fmt.Errorf("backend write: %w", err)
		}
		// wait for the client's close_notify so that nothing is cut short
		io.Copy(io.Discard, s)
		return nil
	}

	frontDone := make(chan struct{})
	backendDone := make(chan struct{})
	backendStarted := false
	go func() { // client-facing server node, as in the package documentation
		defer close(frontDone)
		lw.guard(o, "front", func() {
			ctx, cancel := context.WithTimeout(context.Background(), time.Hour) // (byte-wise delivery of a long hello over a slow link takes minutes of virtual time)
			defer cancel()
			conn, err := ech.NewConn(ctx, fc, keyOptions(lw.keys)...)
			if err != nil {
				o.newConnErr = err
				fc.Close()
				return
			}
			o.frontAccepted, o.frontPresented = conn.ECHAccepted(), conn.ECHPresented()
			o.frontName, o.frontALPN = conn.ServerName(), conn.ALPNProtos()
			scribbleALPN(conn)
			if lw.pubs[o.frontName] {
				// the public-name server terminates here and holds the ECH keys
				o.routedPublic = true
				tee := &teeConn{Conn: conn}
				s := tls.Server(tee, lw.pubCfg)
				o.pubErr = s.HandshakeContext(context.Background())
				if o.pubErr == nil {
					io.Copy(io.Discard, s)
				}
				s.Close()
				tee.mu.Lock()
				o.pubBytes = tee.rd
				tee.mu.Unlock()
				return
			}
			if !p.Forward {
				s := tls.Server(conn, lw.bcfg)
				o.backendErr = serve(s, o)
				s.Close()
				return
			}
			if sc, ok := fc.(*simnet.Conn); ok && p.SlowWriteReturnMs > 0 {
				// the first writes towards the client return late: the record is on
				// its way, the goroutine that wrote it gets the processor back only
				// after the client has answered
				k := 0
				sc.WriteHook = func(int) {
					if k++; k <= 4 {
						// (+950 ns: an instant of its own - link deliveries sit on a
						// 1 µs grid plus a per-link residue below 900 ns)
						time.Sleep(time.Duration(p.SlowWriteReturnMs)*time.Millisecond + 950*time.Nanosecond)
					}
				}
				lw.mu.Lock()
				lw.slowWrites++
				lw.mu.Unlock()
			}
			fb, bc := w.Pipe("f"+tag, "b"+tag, p.FB, p.BF)
			fbLink, bfLink = fb.Out(), bc.Out()
			backendStarted = true
			go func() { // backend node
				defer close(backendDone)
				lw.guard(o, "backend", func() {
					s := tls.Server(bc, lw.bcfg)
					o.backendErr = serve(s, o)
					s.Close()
					bc.Close()
				})
			}()
			pumpDone := make(chan struct{})
			go func() { // backend -> client pump, splitting writes as planned
				defer close(pumpDone)
				lw.guard(o, "pump-down", func() {
					buf := make([]byte, 65536)
					k := 0
					for {
						nr, err := fb.Read(buf)
						b := buf[:nr]
						for len(b) > 0 {
							sz := len(b)
							if len(p.WriteSplit) > 0 {
								sz = min(sz, max(1, p.WriteSplit[k%len(p.WriteSplit)]))
								k++
							}
							nw, werr := conn.Write(b[:sz])
							if werr != nil {
								o.pumpWriteErr = werr
								conn.Close()
								return
							}
							b = b[nw:]
						}
						if err != nil {
							conn.Close()
							return
						}
					}
				})
			}()
			rb := p.ReadBuf
			if rb <= 0 {
				rb = 32768
			}
			buf := make([]byte, rb)
			if p.CopyUp {
				// the forwarding loop most fronts have: io.Copy (which uses the
				// source's WriteTo, should it have one)
				wfailed := false
				_, err := io.Copy(writerFunc(func(b []byte) (int, error) {
					n, werr := fb.Write(b)
					if werr != nil {
						wfailed = true
					}
					return n, werr
				}), conn)
				if err != nil && !wfailed {
					o.pumpReadErr = err
				}
				lw.mu.Lock()
				lw.copyUps++
				lw.mu.Unlock()
			} else {
				for {
					nr, err := conn.Read(buf)
					if nr > 0 {
						if _, werr := fb.Write(buf[:nr]); werr != nil {
							break
						}
					}
					if err != nil {
						if err != io.EOF {
							o.pumpReadErr = err
						}
						break
					}
				}
			}
			fb.CloseWrite()
			<-pumpDone
			fb.Close()
		})
	}()
	<-clientDone
	<-frontDone
	if backendStarted {
		<-backendDone
	}
	if reencDone != nil {
		<-reencDone
	}
	if n == 0 {
		lastObs = lastObs[:0]
	}
	lastObs = append(lastObs, o)
	o.cf, o.fc = cfLink.Sent(), fcLink.Sent()
	if fbLink != nil {
		o.fb, o.bf = fbLink.Sent(), bfLink.Sent()
	}
	return o
}

func splitRecords(b []byte) (recs [][]byte, rest []byte) {
	for len(b) >= 5 {
		n := int(b[3])<<8 | int(b[4])
		if len(b) < 5+n {
			break
		}
		recs = append(recs, b[:5+n])
		b = b[5+n:]
	}
	return recs, b
}

func errStr(err error) string {
	if err == nil {
		return "<nil>"
	}
	return err.Error()
}

func sameStrings(a, b []string) bool { return slices.Equal(a, b) }

// executeLive runs a LivePlan and judges it for the given property.
func executeLive(t *testing.T, prop string, seed uint64, p *LivePlan) *core.Result {
	res := &core.Result{}
	cryptotest.SetGlobalRandom(t, seed)
	var lw *liveWorld
	msg := core.Bubble(t, func(t *testing.T) {
		w := simnet.NewWorld(seed)
		lw = &liveWorld{w: w, p: p, res: res, pubs: map[string]bool{}}
		lw.keys = echKeys(p.Keys)
		for _, k := range p.Keys {
			lw.pubs[k.PublicName] = true
		}
		pk := getPKI()
		bcert := leafCert("server", p.ChainPad, p.ServerName)
		lw.bcfg = &tls.Config{Certificates: []tls.Certificate{bcert}, NextProtos: p.BackendALPN, MinVersion: tls.VersionTLS12}
		for _, c := range p.BackendCurves {
			lw.bcfg.CurvePreferences = append(lw.bcfg.CurvePreferences, tls.CurveID(c))
		}
		if p.ClientCert {
			lw.bcfg.ClientAuth = tls.RequireAndVerifyClientCert
			lw.bcfg.ClientCAs = pk.pool
		}
		base := lw.bcfg
		lw.bcfg = base.Clone()
		lw.bcfg.GetConfigForClient = func(chi *tls.ClientHelloInfo) (*tls.Config, error) {
			lw.mu.Lock()
			lw.hello = append(lw.hello, chi)
			lw.mu.Unlock()
			return nil, nil
		}
		if p.ClientKey == -1 && p.Stale.PublicName != "" {
			lw.pubs[p.Stale.PublicName] = true
		}
		var pubNames []string
		for n := range lw.pubs {
			pubNames = append(pubNames, n)
		}
		slices.Sort(pubNames)
		if len(pubNames) > 0 {
			lw.pubCfg = &tls.Config{Certificates: []tls.Certificate{leafCert("public", 0, pubNames...)}, EncryptedClientHelloKeys: lw.keys, MinVersion: tls.VersionTLS12,
				CurvePreferences: base.CurvePreferences} // the public-name server may answer with HelloRetryRequest too
		}
		if p.Stale.PublicName != "" && lw.pubCfg == nil {
			lw.pubs[p.Stale.PublicName] = true
			lw.pubCfg = &tls.Config{Certificates: []tls.Certificate{leafCert("public", 0, p.Stale.PublicName)}, MinVersion: tls.VersionTLS12}
		}

		ccfg := &tls.Config{ServerName: p.ServerName, RootCAs: pk.pool, NextProtos: p.ClientALPN}
		for _, c := range p.ClientCurves {
			ccfg.CurvePreferences = append(ccfg.CurvePreferences, tls.CurveID(c))
		}
		if p.ClientCert {
			ccfg.Certificates = []tls.Certificate{leafCert("client", p.ClientChainPad, "client.example")}
		}
		if p.Resume {
			ccfg.ClientSessionCache = tls.NewLRUClientSessionCache(4)
		}
		switch {
		case p.ClientKey >= 0:
			_, _, cfg := p.Keys[p.ClientKey].material()
			ccfg.EncryptedClientHelloConfigList = echbox.ConfigListOf(cfg)
			ccfg.MinVersion = tls.VersionTLS13
		case p.ClientKey == -1:
			_, _, cfg := p.Stale.material()
			ccfg.EncryptedClientHelloConfigList = echbox.ConfigListOf(cfg)
			ccfg.MinVersion = tls.VersionTLS13
		default:
			if p.TLS12Only {
				ccfg.MaxVersion = tls.VersionTLS12
			}
		}

		judge := func(n int, o *connObs, wantAccept, wantResume bool) {
			site := func(s string) string {
				if len(p.ServerName) < 6 {
					return s
				}
				return strings.ReplaceAll(s, normMsg(p.ServerName), "<sni>")
			}
			for _, pn := range o.panics {
				parts := strings.SplitN(pn, "|", 3)
				if strings.HasPrefix(parts[1], "ech") {
					res.Fail(prop, "panic", parts[1]+": "+normMsg(parts[2]), "conn %d in %s", n, parts[0])
				} else {
					res.Harness = "panic outside the library: " + pn
				}
			}
			if len(o.panics) > 0 {
				return
			}
			fail := func(class, s, f string, a ...any) { res.Fail(prop, class, site(s), f, a...) }
			if o.newConnErr != nil {
				note := ""
				if c := o.cf; len(c) >= 9 && c[0] == 22 && c[5] == 1 && (int(c[6])<<16|int(c[7])<<8|int(c[8]))+4 > int(c[3])<<8|int(c[4]) {
					note = " [ClientHello spans several records]"
				}
				fail("handshake-failed", "NewConn: "+normErr(o.newConnErr)+note, "conn %d: NewConn: %v", n, o.newConnErr)
				return
			}
			if o.frontAccepted != wantAccept {
				fail("ech-acceptance", fmt.Sprintf("Conn.ECHAccepted=%v want %v", o.frontAccepted, wantAccept), "conn %d: client=%v backend=%v", n, o.clientErr, o.backendErr)
				return
			}
			if o.pumpReadErr != nil || o.pumpWriteErr != nil {
				fail("conn-error", "Conn.Read: "+normErr(o.pumpReadErr)+" / Conn.Write: "+normErr(o.pumpWriteErr), "conn %d: read=%v write=%v client=%v backend=%v", n, o.pumpReadErr, o.pumpWriteErr, o.clientErr, o.backendErr)
				return
			}
			if o.clientErr != nil || o.backendErr != nil {
				fail("handshake-failed", "client: "+normErr(o.clientErr)+" / backend: "+normErr(o.backendErr), "conn %d: client=%v backend=%v", n, o.clientErr, o.backendErr)
				return
			}
			if !o.clientEchoOK {
				fail("data-corrupted", "application data", "conn %d: reply corrupted", n)
			}
			if o.clientState.ECHAccepted != wantAccept {
				fail("ech-acceptance", fmt.Sprintf("client ECHAccepted=%v want %v", o.clientState.ECHAccepted, wantAccept), "conn %d", n)
			}
			wantName := p.ServerName
			if net.ParseIP(wantName) != nil {
				wantName = "" // no server_name extension for IP literals
				res.Probe("inner_without_sni")
			}
			if o.frontName != wantName {
				fail("routing", "Conn.ServerName", "conn %d: %q want %q", n, o.frontName, wantName)
			}
			if !sameStrings(o.frontALPN, p.ClientALPN) {
				fail("routing", "Conn.ALPNProtos", "conn %d: %q want %q", n, o.frontALPN, p.ClientALPN)
			}
			lw.mu.Lock()
			var chi *tls.ClientHelloInfo
			if len(lw.hello) > 0 {
				chi = lw.hello[len(lw.hello)-1]
			}
			lw.mu.Unlock()
			if chi == nil {
				res.Harness = "backend saw no ClientHelloInfo"
				return
			}
			if chi.ServerName != o.frontName || !sameStrings(chi.SupportedProtos, o.frontALPN) {
				fail("routing", "Conn vs backend ClientHelloInfo", "conn %d: Conn (%q,%q) backend (%q,%q)", n, o.frontName, o.frontALPN, chi.ServerName, chi.SupportedProtos)
			}
			if o.backendState.ServerName != wantName || o.backendState.NegotiatedProtocol != o.clientState.NegotiatedProtocol {
				fail("routing", "backend ConnectionState", "conn %d: backend name=%q proto=%q client proto=%q", n, o.backendState.ServerName, o.backendState.NegotiatedProtocol, o.clientState.NegotiatedProtocol)
			}
			if wantResume && !(o.clientState.DidResume && o.backendState.DidResume) {
				fail("resumption", "DidResume", "conn %d: client=%v backend=%v", n, o.clientState.DidResume, o.backendState.DidResume)
			}
			if o.clientState.DidResume {
				res.Probe("psk_resumed")
			}
			if o.backendState.HelloRetryRequest {
				res.Probe("hrr_seen")
				if o.ccsDropped > 0 {
					res.Probe("hrr_client_without_compat_ccs")
				}
				if lw.slowWrites > 0 {
					res.Probe("hrr_write_returns_late")
				}
				if lw.copyUps > 0 {
					res.Probe("hrr_front_forwards_with_io_copy")
				}
			}
			if o.clientState.CurveID == tls.X25519MLKEM768 {
				res.Probe("pq_key_share")
			}
			lw.judgeBytes(prop, n, o, wantAccept)
		}

		switch {
		case p.ClientKey >= 0:
			o := lw.runConn(0, ccfg)
			judge(0, o, true, false)
			if p.Resume && len(res.Violations) == 0 {
				o2 := lw.runConn(1, ccfg)
				judge(1, o2, true, true)
			}
		case p.ClientKey == -2:
			o := lw.runConn(0, ccfg)
			judge(0, o, false, false)
			if p.Resume && len(res.Violations) == 0 {
				o2 := lw.runConn(1, ccfg)
				judge(1, o2, false, true)
			}
		default: // stale config: rejection with authenticated retry configs, then success
			o := lw.runConn(0, ccfg)
			lw.judgeStale(prop, o)
			var rej *tls.ECHRejectionError
			if len(res.Violations) == 0 && errors.As(o.clientErr, &rej) && len(rej.RetryConfigList) > 0 {
				c2 := ccfg.Clone()
				c2.EncryptedClientHelloConfigList = rej.RetryConfigList
				o2 := lw.runConn(1, c2)
				judge(1, o2, true, false)
				res.Probe("retry_config_used")
			}
		}
		res.SimNs = w.Now()
		lastLive = lw
		// whatever is still in flight (the end of stream of a node that finished
		// last) arrives before the links are taken down: the log does not depend
		// on who runs first in the final instant
		time.Sleep(10 * time.Second)
		synctest.Wait()
		w.Shutdown()
		synctest.Wait()
		lib, other := core.Leaked()
		if len(lib) > 0 {
			res.Fail(prop, "goroutine-leak", strings.Join(lib, ","), "goroutines of the library still alive after the connection ended")
		}
		if len(other) > 0 {
			res.Harness = "goroutines left at end of run: " + strings.Join(other, ",")
		}
	})
	if msg != "" {
		if os.Getenv("VERIF_DEBUG") != "" {
			fmt.Fprintln(os.Stderr, msg)
		}
		if strings.Contains(msg, "deadlock") && lw != nil {
			res.Fail(prop, "hang", "live handshake: all nodes blocked", "%s", firstLine(msg))
		} else {
			res.Harness = "bubble: " + firstLine(msg)
		}
	}
	if lw != nil {
		res.LogHash = core.HashLog(lw.w.Canonical())
		res.Sig = lw.w.Signature()
		res.NonTrivial = len(res.Violations) == 0 && res.Harness == ""
		for _, l := range lw.w.Links() {
			for k, v := range l.FiredCounts() {
				res.FaultN(k, v)
			}
		}
		res.FaultN("segmented_delivery", lw.w.CountKind("deliver"))
	}
	res.Sample = map[string]any{"kind": "live", "server_name_len": len(p.ServerName), "client_key": p.ClientKey, "keys": len(p.Keys), "forward": p.Forward, "resume": p.Resume, "cf_seg": p.CF.Seg, "reenc": p.Reenc}
	return res
}

func firstLine(s string) string {
	if i := strings.IndexByte(s, '\n'); i >= 0 {
		return s[:i]
	}
	return s
}

// normErr strips run-specific detail from error text so that it can be part of
// a violation site.
func normErr(err error) string {
	if err == nil {
		return "ok"
	}
	return normMsg(err.Error())
}

func normMsg(s string) string {
	s = firstLine(s)
	// drop numbers that vary with the input
	var b strings.Builder
	inNum := false
	for _, r := range s {
		if r >= '0' && r <= '9' {
			if !inNum {
				b.WriteByte('N')
			}
			inNum = true
			continue
		}
		inNum = false
		b.WriteRune(r)
	}
	out := b.String()
	if len(out) > 120 {
		out = out[:120]
	}
	return out
}

// judgeStale checks the stale-config path: the hello reaches the public-name
// server untouched and the client obtains authenticated retry configs.
func (lw *liveWorld) judgeStale(prop string, o *connObs) {
	res, p := lw.res, lw.p
	for _, pn := range o.panics {
		parts := strings.SplitN(pn, "|", 3)
		if strings.HasPrefix(parts[1], "ech") {
			res.Fail(prop, "panic", parts[1]+": "+normMsg(parts[2]), "stale conn in %s", parts[0])
		} else {
			res.Harness = "panic outside the library: " + pn
		}
		return
	}
	if o.newConnErr != nil {
		res.Fail(prop, "stale-config", "NewConn: "+normErr(o.newConnErr), "%v", o.newConnErr)
		return
	}
	if o.frontAccepted {
		res.Fail(prop, "stale-config", "Conn.ECHAccepted with a key the server does not hold", "")
		return
	}
	if !o.routedPublic {
		res.Fail(prop, "stale-config", "not routed to the public name", "Conn.ServerName=%q", o.frontName)
		return
	}
	// untouched: the bytes the public-name server consumed are the bytes the client sent
	want := append([]byte(nil), o.cf...)
	got := append([]byte(nil), o.pubBytes...)
	if len(want) >= 3 && len(got) >= 3 {
		got[1], got[2] = want[1], want[2]
	}
	if !bytes.HasPrefix(want, got) || len(got) == 0 {
		res.Fail(prop, "stale-config", "outer hello modified on the way to the public-name server", "sent %d bytes, public server read %d, first diff at %d", len(want), len(got), firstDiff(want, got))
		return
	}
	var rej *tls.ECHRejectionError
	if !errors.As(o.clientErr, &rej) {
		res.Fail(prop, "stale-config", "client did not get ECHRejectionError: "+normErr(o.clientErr), "%v (public server: %v)", o.clientErr, o.pubErr)
		return
	}
	var retry [][]byte
	for i, k := range p.Keys {
		if k.Retry {
			retry = append(retry, lw.keys[i].Config)
		}
	}
	wantList := []byte(nil)
	if len(retry) > 0 {
		wantList = echbox.ConfigListOf(retry...)
	}
	if !bytes.Equal(rej.RetryConfigList, wantList) {
		res.Fail(prop, "stale-config", "retry config list differs from the server's", "got %x want %x", rej.RetryConfigList, wantList)
	}
	res.Probe("stale_rejected")
}

func firstDiff(a, b []byte) int {
	n := min(len(a), len(b))
	for i := 0; i < n; i++ {
		if a[i] != b[i] {
			return i
		}
	}
	return n
}

// judgeBytes compares the byte streams on the links (forward topology): the
// C03 / C05 / C07 oracles on live traffic.
func (lw *liveWorld) judgeBytes(prop string, n int, o *connObs, accepted bool) {
	res, p := lw.res, lw.p
	if !p.Forward || o.fb == nil {
		return
	}
	if !bytes.Equal(o.bf, o.fc) {
		res.Fail(prop, "pipe", "backend->client bytes altered", "conn %d: backend sent %d bytes, client link got %d, first diff %d", n, len(o.bf), len(o.fc), firstDiff(o.bf, o.fc))
	}
	if !accepted {
		want := append([]byte(nil), o.cf...)
		got := append([]byte(nil), o.fb...)
		if len(want) >= 3 && len(got) >= 3 {
			got[1], got[2] = want[1], want[2]
		}
		if !bytes.Equal(want, got) {
			res.Fail(prop, "passthrough", "client->backend bytes altered without ECH acceptance", "conn %d: %d vs %d bytes, first diff %d", n, len(want), len(got), firstDiff(want, got))
		}
		return
	}
	crecs, crest := splitRecords(o.cf)
	brecs, brest := splitRecords(o.fb)
	if len(crest) != 0 || len(brest) != 0 || len(crecs) != len(brecs) {
		res.Fail(prop, "pipe", "record streams differ in length", "conn %d: client %d records (+%d), backend %d (+%d)", n, len(crecs), len(crest), len(brecs), len(brest))
		return
	}
	// independent reconstruction of every ClientHello: find the key the
	// client encrypted to by trial (after a retry it is one of the retry configs)
	var priv, cfg []byte
	for i := range crecs {
		c := crecs[i]
		if c[0] == 22 && len(c) > 9 && c[5] == 1 {
			outer, err := echbox.ParseHelloRecord(c)
			if err != nil {
				res.Harness = "cannot parse the client's own hello: " + err.Error()
				return
			}
			for _, k := range p.Keys {
				kp, _, kc := k.material()
				if _, _, err := (&echbox.Opener{}).OpenOuter(kp, kc, outer); err == nil {
					priv, cfg = kp, kc
					break
				}
			}
			break
		}
	}
	if priv == nil {
		res.Harness = "independent HPKE open failed with every key"
		return
	}
	op := &echbox.Opener{}
	plain := true
	for i := range crecs {
		c, b := crecs[i], brecs[i]
		if c[0] == 23 {
			plain = false
		}
		if plain && c[0] == 22 && len(c) > 9 && c[5] == 1 {
			outer, err := echbox.ParseHelloRecord(c)
			if err != nil {
				res.Harness = "cannot parse the client's own hello: " + err.Error()
				return
			}
			enc, _, err := op.OpenOuter(priv, cfg, outer)
			if err != nil {
				res.Harness = "independent HPKE open failed: " + err.Error()
				return
			}
			inner, err := echbox.DecodeInner(enc, outer)
			if err != nil {
				res.Harness = "independent decode failed: " + err.Error()
				return
			}
			want := inner.Record(uint16(b[1])<<8 | uint16(b[2]))
			if !bytes.Equal(want, b) {
				res.Fail(prop, "reconstruction", "forwarded ClientHelloInner differs from the reference reconstruction", "conn %d record %d: first diff at %d (len %d vs %d)", n, i, firstDiff(want, b), len(want), len(b))
			}
			res.Probe("inner_reconstruction_checked")
			continue
		}
		if !bytes.Equal(c, b) {
			res.Fail(prop, "pipe", "non-hello record altered", "conn %d record %d type %d", n, i, c[0])
			return
		}
	}
}

// writerFunc is a writer without ReadFrom.
type writerFunc func([]byte) (int, error)

func (f writerFunc) Write(b []byte) (int, error) { return f(b) }
