// Package simnet is the simulated network: every byte between nodes travels on
// a Link whose segmentation, latency and faults are drawn from the link's own
// PRNG stream, on the virtual clock of the enclosing synctest bubble.
package simnet

import (
	"errors"
	"fmt"
	"io"
	"math/rand/v2"
	"net"
	"os"
	"sync"
	"time"

	"verifsim/core"
)

// Event is one entry of the world's event log.
type Event struct {
	Seq  uint64
	At   int64 // virtual ns since world start
	Src  string
	Kind string
	N    int
	Note string
}

// World owns the event log and all links of one run.
type World struct {
	T0    time.Time
	Seed  uint64
	mu    sync.Mutex
	seq   uint64
	Log   []Event
	links []*Link
	conns []*Conn
	nextR int
	wg    sync.WaitGroup
}

func NewWorld(seed uint64) *World {
	return &World{T0: time.Now(), Seed: seed, nextR: 1}
}

// Ev appends to the event log and returns the global sequence number.
func (w *World) Ev(src, kind string, n int, note string) uint64 {
	w.mu.Lock()
	defer w.mu.Unlock()
	w.seq++
	w.Log = append(w.Log, Event{Seq: w.seq, At: int64(time.Since(w.T0)), Src: src, Kind: kind, N: n, Note: note})
	return w.seq
}

func (w *World) Seq() uint64 {
	w.mu.Lock()
	defer w.mu.Unlock()
	w.seq++
	return w.seq
}

func (w *World) Now() int64 { return int64(time.Since(w.T0)) }

// Canonical renders the log for hashing: events are ordered by (instant,
// source, per-source order), so the order in which the runtime happened to run
// goroutines that were made runnable in the same instant does not matter.
func (w *World) Canonical() []string {
	w.mu.Lock()
	evs := append([]Event(nil), w.Log...)
	w.mu.Unlock()
	// stable sort by (At, Src); per-source order is preserved by stability
	sortEvents(evs)
	out := make([]string, len(evs))
	for i, e := range evs {
		out[i] = fmt.Sprintf("%d %s %s %d %s", e.At, e.Src, e.Kind, e.N, e.Note)
	}
	return out
}

func sortEvents(evs []Event) {
	// insertion-friendly stable sort
	sortStable(evs, func(a, b Event) bool {
		if a.At != b.At {
			return a.At < b.At
		}
		return a.Src < b.Src
	})
}

func sortStable(evs []Event, less func(a, b Event) bool) {
	// simple merge sort to stay allocation-light and deterministic
	if len(evs) < 2 {
		return
	}
	tmp := make([]Event, len(evs))
	var ms func(lo, hi int)
	ms = func(lo, hi int) {
		if hi-lo < 2 {
			return
		}
		mid := (lo + hi) / 2
		ms(lo, mid)
		ms(mid, hi)
		i, j, k := lo, mid, lo
		for i < mid && j < hi {
			if less(evs[j], evs[i]) {
				tmp[k] = evs[j]
				j++
			} else {
				tmp[k] = evs[i]
				i++
			}
			k++
		}
		for i < mid {
			tmp[k] = evs[i]
			i++
			k++
		}
		for j < hi {
			tmp[k] = evs[j]
			j++
			k++
		}
		copy(evs[lo:hi], tmp[lo:hi])
	}
	ms(0, len(evs))
}

// Signature folds the event kinds / size classes into a schedule signature.
func (w *World) Signature() uint64 {
	w.mu.Lock()
	evs := append([]Event(nil), w.Log...)
	w.mu.Unlock()
	sortEvents(evs)
	parts := make([]string, 0, len(evs))
	for _, e := range evs {
		parts = append(parts, e.Src+":"+e.Kind+":"+core.SizeClass(e.N))
	}
	return core.SigOf(parts...)
}

// Shutdown force-closes every link so that no simulator goroutine outlives the
// run.
func (w *World) Shutdown() {
	w.mu.Lock()
	links := append([]*Link(nil), w.links...)
	w.mu.Unlock()
	for _, l := range links {
		l.kill()
	}
	// link goroutines asleep until their next delivery instant wake up on the
	// virtual clock and see the kill flag; the bubble's root must not return
	// before that (time stops advancing once it has).
	w.wg.Wait()
}

// Fault kinds.
const (
	CutEOF  = "cut-eof"  // reader sees EOF after Offset delivered bytes
	CutRST  = "cut-rst"  // reader sees an error after Offset delivered bytes
	Stall   = "stall"    // nothing is delivered after Offset bytes, ever
	Corrupt = "corrupt"  // XOR Mask into the byte at Offset while in flight
	WriteEr = "writeerr" // the writer gets an error once Offset bytes were accepted
)

type Fault struct {
	Kind   string `json:"kind"`
	Offset int64  `json:"offset"`
	Mask   byte   `json:"mask,omitempty"`
}

// Segmentation modes.
const (
	SegWhole    = "whole"
	SegByte     = "byte"
	SegRandom   = "random"
	SegRecord   = "record"
	SegHdrSplit = "hdrsplit"
)

// LinkCfg is the plan of one direction of a connection.
type LinkCfg struct {
	Seg       string  `json:"seg"`
	MaxSeg    int     `json:"max_seg,omitempty"`
	LatMinUs  int     `json:"lat_min_us"`
	LatMaxUs  int     `json:"lat_max_us"`
	ShortRead bool    `json:"short_read,omitempty"`
	Faults    []Fault `json:"faults,omitempty"`
	// Window bounds the bytes the writer may have outstanding (accepted but
	// not yet read by the peer): a Write that would exceed it blocks until the
	// peer reads, the write deadline passes or the connection is closed, like a
	// TCP sender facing a full / zero window. 0 = unbounded, -1 = zero window.
	Window int `json:"window,omitempty"`
}

var ErrReset = errors.New("simnet: connection reset by peer")

// Link is one direction of a connection.
type Link struct {
	w       *World
	name    string
	residue int64
	rng     *rand.Rand
	cfg     LinkCfg

	mu        sync.Mutex
	pending   []byte
	sent      []byte
	txClosed  bool
	rx        []byte
	rxClosed  bool
	rxErr     error
	killed    bool
	accepted  int64 // bytes accepted from the writer
	delivered int64 // bytes delivered to the receive buffer
	last      time.Time
	lastWrite time.Time
	stalled   bool
	recPos    int64 // record parser: offset of the next record header in the stream
	hdr       []byte
	Fired     map[string]int

	wakeTx   chan struct{}
	wakeRx   chan struct{}
	wakeW    chan struct{}
	consumed int64 // bytes the reader took out of the receive buffer
}

func (w *World) newLink(name string, cfg LinkCfg) *Link {
	w.mu.Lock()
	r := w.nextR
	w.nextR++
	w.mu.Unlock()
	l := &Link{w: w, name: name, residue: int64(r % 900), rng: core.NewRand(w.Seed, "link", name), cfg: cfg,
		wakeTx: make(chan struct{}, 1), wakeRx: make(chan struct{}, 1), wakeW: make(chan struct{}, 1), Fired: map[string]int{}}
	w.mu.Lock()
	w.links = append(w.links, l)
	w.mu.Unlock()
	w.wg.Add(1)
	go func() {
		defer w.wg.Done()
		l.run()
	}()
	return l
}

func signal(c chan struct{}) {
	select {
	case c <- struct{}{}:
	default:
	}
}

func (l *Link) kill() {
	l.mu.Lock()
	l.killed = true
	l.rxClosed = true
	if l.rxErr == nil {
		l.rxErr = net.ErrClosed
	}
	l.mu.Unlock()
	signal(l.wakeTx)
	signal(l.wakeRx)
	signal(l.wakeW)
}

// nextSeg decides how many of the pending bytes travel together.
func (l *Link) nextSeg(p []byte) int {
	n := len(p)
	switch l.cfg.Seg {
	case SegByte:
		return 1
	case SegRandom:
		m := l.cfg.MaxSeg
		if m <= 0 {
			m = 2000
		}
		return 1 + l.rng.IntN(min(n, 1+l.rng.IntN(m)))
	case SegRecord, SegHdrSplit:
		// follow TLS record framing of the stream itself
		pos := l.delivered
		if pos < l.recPos {
			// inside a record body
			return int(min(int64(n), l.recPos-pos))
		}
		// at a record header
		need := 5 - len(l.hdr)
		if n < need {
			l.hdr = append(l.hdr, p...)
			return n
		}
		l.hdr = append(l.hdr, p[:need]...)
		blen := int64(l.hdr[3])<<8 | int64(l.hdr[4])
		l.hdr = l.hdr[:0]
		l.recPos = pos + int64(need) + blen
		if l.cfg.Seg == SegHdrSplit {
			return need
		}
		return int(min(int64(n), int64(need)+blen))
	default:
		return n
	}
}

// fireAtLocked fires the cut / stall fault placed exactly at the current
// delivered offset, if any. Caller holds l.mu.
func (l *Link) fireAtLocked() string {
	if l.rxClosed || l.stalled {
		return ""
	}
	for _, f := range l.cfg.Faults {
		if f.Offset != l.delivered {
			continue
		}
		switch f.Kind {
		case CutEOF:
			l.rxClosed = true
			l.Fired[CutEOF]++
			return f.Kind
		case CutRST:
			l.rxClosed = true
			l.rxErr = ErrReset
			l.Fired[CutRST]++
			return f.Kind
		case Stall:
			l.stalled = true
			l.Fired[Stall]++
			return f.Kind
		}
	}
	return ""
}

func (l *Link) run() {
	l.mu.Lock()
	k0 := l.fireAtLocked()
	l.mu.Unlock()
	if k0 != "" {
		l.w.Ev(l.name, "deliver", 0, k0)
		signal(l.wakeRx)
	}
	for {
		l.mu.Lock()
		for len(l.pending) == 0 && !l.txClosed && !l.killed {
			l.mu.Unlock()
			<-l.wakeTx
			l.mu.Lock()
		}
		if l.killed {
			l.mu.Unlock()
			return
		}
		if len(l.pending) == 0 && l.txClosed {
			if !l.stalled {
				l.rxClosed = true
			}
			l.mu.Unlock()
			if !l.stalled {
				l.w.Ev(l.name, "fin", 0, "")
				signal(l.wakeRx)
			}
			return
		}
		if l.stalled || l.rxClosed {
			l.pending = nil
			l.mu.Unlock()
			continue
		}
		// Collection point: bytes written during the current instant are only
		// looked at once that instant is over (the writer may still be running,
		// in parallel, and append more), so that segmentation never depends on
		// how the runtime interleaved goroutines inside one instant.
		if now := time.Now(); l.lastWrite.Equal(now) {
			at := l.w.T0.Add(time.Since(l.w.T0).Truncate(time.Microsecond) + time.Microsecond + time.Duration(l.residue))
			if !at.After(l.last) {
				at = l.last.Add(time.Microsecond)
			}
			l.last = at
			l.mu.Unlock()
			time.Sleep(time.Until(at))
			continue
		}
		n := l.nextSeg(l.pending)
		chunk := append([]byte(nil), l.pending[:n]...)
		l.pending = l.pending[n:]
		l.mu.Unlock()

		// unique delivery instant: 1µs grid + per-link ns residue, strictly increasing per link
		lat := l.cfg.LatMinUs
		if l.cfg.LatMaxUs > l.cfg.LatMinUs {
			lat += l.rng.IntN(l.cfg.LatMaxUs - l.cfg.LatMinUs + 1)
		}
		base := time.Since(l.w.T0).Truncate(time.Microsecond) + time.Duration(1+lat)*time.Microsecond
		at := l.w.T0.Add(base + time.Duration(l.residue))
		if !at.After(l.last) {
			at = l.last.Add(time.Microsecond)
		}
		l.last = at
		time.Sleep(time.Until(at))

		l.mu.Lock()
		if l.killed {
			l.mu.Unlock()
			return
		}
		// apply faults that fall inside this segment
		start := l.delivered
		deliver := chunk
		for _, f := range l.cfg.Faults {
			switch f.Kind {
			case Corrupt:
				if f.Offset >= start && f.Offset < start+int64(len(chunk)) {
					chunk[f.Offset-start] ^= f.Mask
					l.Fired[Corrupt]++
				}
			case CutEOF, CutRST, Stall:
				if f.Offset > start && f.Offset < start+int64(len(deliver)) {
					deliver = deliver[:f.Offset-start]
				}
			}
		}
		l.rx = append(l.rx, deliver...)
		l.delivered += int64(len(deliver))
		endKind := l.fireAtLocked()
		l.mu.Unlock()
		l.w.Ev(l.name, "deliver", len(deliver), endKind)
		signal(l.wakeRx)
	}
}

// Conn is a net.Conn over two links.
type Conn struct {
	w    *World
	name string
	in   *Link
	out  *Link
	rrng *rand.Rand

	mu        sync.Mutex
	rdl, wdl  time.Time
	dlCh      chan struct{}
	wdlCh     chan struct{}
	closed    bool
	Closes    int
	Deadlines []DeadlineCall
	// ReadHook, when set, runs at the start of every Read with the number of
	// bytes currently readable (C10 transport seam).
	ReadHook func(avail int)
	// DeadlineHook, when set, runs at the start of every Set*Deadline call,
	// before the call is recorded and takes effect (C10: a slow SetDeadline).
	DeadlineHook func(t time.Time)
	// WriteHook, when set, runs at the end of every successful Write, after
	// the bytes are on their way and before Write returns (a writer that is
	// slow to get the processor back).
	WriteHook func(n int)
	// DeadlineErr, when set, is what every Set*Deadline call returns, without
	// any effect (the calls are still recorded).
	DeadlineErr error
	// DeadlineWriteErr, when set: a transport whose read half supports
	// deadlines and whose write half does not. SetReadDeadline works;
	// SetDeadline arms the read side AND returns this error; SetWriteDeadline
	// only returns it.
	DeadlineWriteErr error
	wroteN           int64
}

type DeadlineCall struct {
	Seq  uint64
	At   int64
	Kind string
	T    time.Time
}

// Pipe creates a connection; a is the end named nameA, b the end named nameB.
// ab configures the a→b direction, ba the b→a direction.
func (w *World) Pipe(nameA, nameB string, ab, ba LinkCfg) (*Conn, *Conn) {
	lab := w.newLink(nameA+">"+nameB, ab)
	lba := w.newLink(nameB+">"+nameA, ba)
	a := &Conn{w: w, name: nameA + "@" + nameB, in: lba, out: lab, rrng: core.NewRand(w.Seed, "read", nameA, nameB), dlCh: make(chan struct{}, 1), wdlCh: make(chan struct{}, 1)}
	b := &Conn{w: w, name: nameB + "@" + nameA, in: lab, out: lba, rrng: core.NewRand(w.Seed, "read", nameB, nameA), dlCh: make(chan struct{}, 1), wdlCh: make(chan struct{}, 1)}
	w.mu.Lock()
	w.conns = append(w.conns, a, b)
	w.mu.Unlock()
	return a, b
}

func (c *Conn) In() *Link  { return c.in }
func (c *Conn) Out() *Link { return c.out }

// Delivered is the number of bytes the link has put into the receive buffer.
func (l *Link) Delivered() int64 {
	l.mu.Lock()
	defer l.mu.Unlock()
	return l.delivered
}

func (l *Link) Accepted() int64 {
	l.mu.Lock()
	defer l.mu.Unlock()
	return l.accepted
}

func (l *Link) FiredCounts() map[string]int {
	l.mu.Lock()
	defer l.mu.Unlock()
	m := map[string]int{}
	for k, v := range l.Fired {
		m[k] = v
	}
	return m
}

func (c *Conn) Read(p []byte) (int, error) {
	if c.ReadHook != nil {
		c.in.mu.Lock()
		av := len(c.in.rx)
		c.in.mu.Unlock()
		c.ReadHook(av)
	}
	for {
		c.mu.Lock()
		dl, closed := c.rdl, c.closed
		c.mu.Unlock()
		if closed {
			return 0, net.ErrClosed
		}
		l := c.in
		l.mu.Lock()
		if len(l.rx) > 0 && len(p) > 0 {
			n := len(p)
			if n > len(l.rx) {
				n = len(l.rx)
			}
			if l.cfg.ShortRead && n > 1 {
				n = 1 + c.rrng.IntN(n)
			}
			copy(p, l.rx[:n])
			l.rx = l.rx[n:]
			l.consumed += int64(n)
			l.mu.Unlock()
			signal(l.wakeW)
			c.w.Ev(c.name, "read", n, "")
			return n, nil
		}
		if len(p) == 0 && len(l.rx) > 0 {
			l.mu.Unlock()
			return 0, nil
		}
		if l.rxClosed {
			err := l.rxErr
			l.mu.Unlock()
			if err == nil {
				err = io.EOF
			}
			c.w.Ev(c.name, "read-end", 0, err.Error())
			return 0, err
		}
		l.mu.Unlock()
		if !dl.IsZero() && !time.Now().Before(dl) {
			c.w.Ev(c.name, "read-deadline", 0, "")
			return 0, os.ErrDeadlineExceeded
		}
		var tc <-chan time.Time
		var tm *time.Timer
		if !dl.IsZero() {
			tm = time.NewTimer(time.Until(dl))
			tc = tm.C
		}
		select {
		case <-l.wakeRx:
		case <-c.dlCh:
		case <-tc:
		}
		if tm != nil {
			tm.Stop()
		}
	}
}

func (c *Conn) Write(p []byte) (int, error) {
	c.mu.Lock()
	closed, wdl := c.closed, c.wdl
	c.mu.Unlock()
	if closed {
		return 0, net.ErrClosed
	}
	if !wdl.IsZero() && !time.Now().Before(wdl) {
		return 0, os.ErrDeadlineExceeded
	}
	l := c.out
	l.mu.Lock()
	taken := 0 // octets of this Write already accepted (a positive window takes what fits)
	for l.cfg.Window != 0 && len(p) > 0 && !l.txClosed && !l.killed {
		win := int64(max(0, l.cfg.Window))
		if l.accepted-l.consumed+int64(len(p)) <= win {
			break
		}
		if room := win - (l.accepted - l.consumed); room > 0 {
			// like a socket buffer: the part that fits goes now
			part := int(room)
			l.pending = append(l.pending, p[:part]...)
			l.sent = append(l.sent, p[:part]...)
			l.accepted += int64(part)
			l.lastWrite = time.Now()
			taken += part
			p = p[part:]
			l.mu.Unlock()
			c.w.Ev(c.name, "write", part, "partial")
			signal(l.wakeTx)
			l.mu.Lock()
			continue
		}
		// blocked by flow control
		l.Fired["write_blocked"]++
		l.mu.Unlock()
		c.mu.Lock()
		closed, wdl := c.closed, c.wdl
		c.mu.Unlock()
		if closed {
			return taken, net.ErrClosed
		}
		if !wdl.IsZero() && !time.Now().Before(wdl) {
			c.w.Ev(c.name, "write-deadline", 0, "")
			return taken, os.ErrDeadlineExceeded
		}
		var tc <-chan time.Time
		var tm *time.Timer
		if !wdl.IsZero() {
			tm = time.NewTimer(time.Until(wdl))
			tc = tm.C
		}
		select {
		case <-l.wakeW:
		case <-c.wdlCh:
		case <-tc:
		}
		if tm != nil {
			tm.Stop()
		}
		l.mu.Lock()
	}
	if l.txClosed || l.killed {
		l.mu.Unlock()
		return taken, io.ErrClosedPipe
	}
	n := len(p)
	var werr error
	for _, f := range l.cfg.Faults {
		if f.Kind == WriteEr && l.accepted+int64(n) > f.Offset {
			n = int(max(0, f.Offset-l.accepted))
			werr = ErrReset
			l.Fired[WriteEr]++
		}
	}
	l.pending = append(l.pending, p[:n]...)
	l.sent = append(l.sent, p[:n]...)
	l.accepted += int64(n)
	l.lastWrite = time.Now()
	l.mu.Unlock()
	c.w.Ev(c.name, "write", n, "")
	signal(l.wakeTx)
	if h := c.WriteHook; h != nil && werr == nil {
		h(taken + n)
	}
	return taken + n, werr
}

func (c *Conn) Close() error {
	c.mu.Lock()
	c.Closes++
	already := c.closed
	c.closed = true
	c.mu.Unlock()
	if already {
		return nil
	}
	c.w.Ev(c.name, "close", 0, "")
	c.out.mu.Lock()
	c.out.txClosed = true
	c.out.mu.Unlock()
	signal(c.out.wakeTx)
	signal(c.out.wakeW)
	signal(c.dlCh)
	signal(c.wdlCh)
	signal(c.in.wakeRx)
	return nil
}

// CloseWrite half-closes the connection: the peer sees end of stream after the
// bytes already written; reading continues.
func (c *Conn) CloseWrite() error {
	c.w.Ev(c.name, "close-write", 0, "")
	c.out.mu.Lock()
	c.out.txClosed = true
	c.out.mu.Unlock()
	signal(c.out.wakeTx)
	return nil
}

func (c *Conn) IsClosed() bool {
	c.mu.Lock()
	defer c.mu.Unlock()
	return c.closed
}

type addr string

func (a addr) Network() string { return "sim" }
func (a addr) String() string  { return string(a) }

func (c *Conn) LocalAddr() net.Addr  { return addr(c.name) }
func (c *Conn) RemoteAddr() net.Addr { return addr(c.name + "-peer") }

func (c *Conn) setDL(kind string, t time.Time) error {
	if h := c.DeadlineHook; h != nil {
		h(t)
	}
	c.mu.Lock()
	seq := c.w.Ev(c.name, kind, 0, "")
	c.Deadlines = append(c.Deadlines, DeadlineCall{Seq: seq, At: c.w.Now(), Kind: kind, T: t})
	if c.DeadlineErr != nil {
		// a transport without deadline support (a tunnel, an io.Pipe adapter)
		c.mu.Unlock()
		return c.DeadlineErr
	}
	if c.DeadlineWriteErr != nil && kind != "SetReadDeadline" {
		if kind == "SetDeadline" {
			c.rdl = t
		}
		c.mu.Unlock()
		signal(c.dlCh)
		return c.DeadlineWriteErr
	}
	switch kind {
	case "SetDeadline":
		c.rdl, c.wdl = t, t
	case "SetReadDeadline":
		c.rdl = t
	case "SetWriteDeadline":
		c.wdl = t
	}
	c.mu.Unlock()
	signal(c.dlCh)
	signal(c.wdlCh)
	return nil
}

func (c *Conn) SetDeadline(t time.Time) error      { return c.setDL("SetDeadline", t) }
func (c *Conn) SetReadDeadline(t time.Time) error  { return c.setDL("SetReadDeadline", t) }
func (c *Conn) SetWriteDeadline(t time.Time) error { return c.setDL("SetWriteDeadline", t) }

func (c *Conn) DeadlineCalls() []DeadlineCall {
	c.mu.Lock()
	defer c.mu.Unlock()
	return append([]DeadlineCall(nil), c.Deadlines...)
}

// Listener hands simulated connections to real servers.
type Listener struct {
	ch     chan net.Conn
	closed chan struct{}
	once   sync.Once
	name   string
}

func NewListener(name string) *Listener {
	return &Listener{ch: make(chan net.Conn, 64), closed: make(chan struct{}), name: name}
}

func (l *Listener) Accept() (net.Conn, error) {
	select {
	case c := <-l.ch:
		return c, nil
	case <-l.closed:
		return nil, net.ErrClosed
	}
}

func (l *Listener) Deliver(c net.Conn) bool {
	select {
	case l.ch <- c:
		return true
	case <-l.closed:
		return false
	}
}

func (l *Listener) Close() error   { l.once.Do(func() { close(l.closed) }); return nil }
func (l *Listener) Addr() net.Addr { return addr(l.name) }

// Sent returns a copy of every byte the writer handed to this link.
func (l *Link) Sent() []byte {
	l.mu.Lock()
	defer l.mu.Unlock()
	return append([]byte(nil), l.sent...)
}

// Links lists the links of the world in creation order.
func (w *World) Links() []*Link {
	w.mu.Lock()
	defer w.mu.Unlock()
	return append([]*Link(nil), w.links...)
}

// CountKind counts log events of one kind.
func (w *World) CountKind(kind string) int {
	w.mu.Lock()
	defer w.mu.Unlock()
	n := 0
	for _, e := range w.Log {
		if e.Kind == kind {
			n++
		}
	}
	return n
}

// Conns lists the connection ends of the world.
func (w *World) Conns() []*Conn {
	w.mu.Lock()
	defer w.mu.Unlock()
	return append([]*Conn(nil), w.conns...)
}
