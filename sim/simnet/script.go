package simnet

import (
	"errors"
	"io"
	"net"
	"os"
	"sync"
	"time"
)

// ScriptConn is a synchronous transport for single-threaded replay: the input
// stream, its chunking and its cut are fixed in advance, and every call is
// recorded. It needs no bubble and no goroutine.
type ScriptConn struct {
	In     []byte
	Chunks []int // successive maximum read sizes; when exhausted the last one repeats (0 = unlimited)
	CutAt  int   // reader fails once this many bytes were returned (-1: at end of input, with io.EOF)
	CutErr error // error at the cut (nil = io.EOF)
	// ErrWithData: the bytes just before the cut are returned together with the
	// error (n > 0, err != nil), as io.Reader allows.
	ErrWithData bool
	// NoEOF: at the natural end of input return ErrWouldBlock instead of EOF
	// (the harness feeds more later).
	NoEOF bool
	// BlockErr, when set, is returned instead of ErrWouldBlock (e.g. a read
	// deadline that expires: a net.Error with Timeout() true).
	BlockErr error

	// EmptyBefore: every read that would deliver octets is preceded by one that
	// returns (0, nil) - allowed by io.Reader, produced by transports that frame
	// their payload (a frame without payload)
	EmptyBefore bool
	gaveEmpty   bool

	pos   int
	chunk int

	Out        []byte
	Writes     []int
	WriteErrAt int // writer fails once this many bytes were accepted (-1: never)
	// WriteTimeoutAt >= 0: the first Write that crosses this offset takes the
	// octets up to it and returns a timeout (a write deadline that expired);
	// later writes go through.
	WriteTimeoutAt int
	wTimedOut      bool
	ShortWrite     bool
	Closes         int
	Deadlines      []time.Time
	dlMu           sync.Mutex
	// OnWrite, if set, runs at the start of every Write (before the octets are
	// taken): a control point for "something happens as the peer is written to".
	OnWrite func()
	// OnRead, if set, runs at the start of every Read.
	OnRead    func()
	ReadCalls int
	ZeroReads int
}

var ErrWouldBlock = errors.New("simnet: script exhausted (read would block)")

func NewScript(in []byte) *ScriptConn {
	return &ScriptConn{In: in, CutAt: -1, WriteErrAt: -1, WriteTimeoutAt: -1}
}

func (c *ScriptConn) Feed(b []byte) { c.In = append(c.In, b...) }

func (c *ScriptConn) Pos() int { return c.pos }

func (c *ScriptConn) Read(p []byte) (int, error) {
	if c.OnRead != nil {
		c.OnRead()
	}
	c.ReadCalls++
	if c.Closes > 0 {
		return 0, net.ErrClosed
	}
	limit := len(c.In)
	if c.CutAt >= 0 && c.CutAt < limit {
		limit = c.CutAt
	}
	if c.pos >= limit {
		if c.CutAt >= 0 && c.pos >= c.CutAt {
			if c.CutErr != nil {
				return 0, c.CutErr
			}
			return 0, io.EOF
		}
		if c.NoEOF {
			if c.BlockErr != nil {
				return 0, c.BlockErr
			}
			return 0, ErrWouldBlock
		}
		return 0, io.EOF
	}
	if c.EmptyBefore && !c.gaveEmpty && len(p) > 0 {
		c.gaveEmpty = true
		c.ZeroReads++
		return 0, nil
	}
	c.gaveEmpty = false
	n := len(p)
	if len(c.Chunks) > 0 {
		m := c.Chunks[min(c.chunk, len(c.Chunks)-1)]
		c.chunk++
		if m > 0 && n > m {
			n = m
		}
	}
	if n > limit-c.pos {
		n = limit - c.pos
	}
	copy(p, c.In[c.pos:c.pos+n])
	c.pos += n
	if n == 0 {
		c.ZeroReads++
	}
	if c.ErrWithData && n > 0 && c.CutAt >= 0 && c.pos >= c.CutAt {
		if c.CutErr != nil {
			return n, c.CutErr
		}
		return n, io.EOF
	}
	if c.ErrWithData && n > 0 && c.CutAt < 0 && !c.NoEOF && c.pos >= len(c.In) {
		return n, io.EOF // the last bytes of the stream come with its end
	}
	return n, nil
}

func (c *ScriptConn) Write(p []byte) (int, error) {
	if c.OnWrite != nil {
		c.OnWrite()
	}
	if c.Closes > 0 {
		return 0, net.ErrClosed
	}
	n := len(p)
	var err error
	if c.WriteErrAt >= 0 && len(c.Out)+n > c.WriteErrAt {
		n = max(0, c.WriteErrAt-len(c.Out))
		err = ErrReset
	}
	if c.WriteTimeoutAt >= 0 && !c.wTimedOut && err == nil && len(c.Out)+n > c.WriteTimeoutAt {
		c.wTimedOut = true
		n = max(0, c.WriteTimeoutAt-len(c.Out))
		err = ErrWriteTimeout
	}
	c.Out = append(c.Out, p[:n]...)
	c.Writes = append(c.Writes, n)
	return n, err
}

// ErrWriteTimeout is what a write deadline that expired looks like.
var ErrWriteTimeout error = writeTimeout{}

type writeTimeout struct{}

func (writeTimeout) Error() string   { return "simnet: write deadline exceeded (i/o timeout)" }
func (writeTimeout) Timeout() bool   { return true }
func (writeTimeout) Temporary() bool { return true }
func (writeTimeout) Is(t error) bool { return t == os.ErrDeadlineExceeded }

func (c *ScriptConn) Close() error                       { c.Closes++; return nil }
func (c *ScriptConn) LocalAddr() net.Addr                { return addr("script") }
func (c *ScriptConn) RemoteAddr() net.Addr               { return addr("script-peer") }
func (c *ScriptConn) SetDeadline(t time.Time) error      { return c.noteDeadline(t) }
func (c *ScriptConn) SetReadDeadline(t time.Time) error  { return c.noteDeadline(t) }
func (c *ScriptConn) SetWriteDeadline(t time.Time) error { return c.noteDeadline(t) }

// (deadline calls may come from a goroutine of the code under test)
func (c *ScriptConn) noteDeadline(t time.Time) error {
	c.dlMu.Lock()
	c.Deadlines = append(c.Deadlines, t)
	c.dlMu.Unlock()
	return nil
}
