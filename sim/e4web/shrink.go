//go:build verif

package e4web

import (
	"verifsim/simdoh"
	"verifsim/simnet"
)

// shrink proposes simpler plans (deep copies), simplest first. Every plan is
// self-describing (the oracle recomputes its expectations from the zone and
// the node list), so any sub-plan is a valid plan.
func shrink(p *Plan) []*Plan {
	var out []*Plan
	add := func(f func(q *Plan)) {
		q := p.clone()
		f(q)
		out = append(out, q)
	}
	// requests: keep one, keep a pair, drop one
	if len(p.Reqs) > 1 {
		for i := range p.Reqs {
			add(func(q *Plan) { q.Reqs = []Req{q.Reqs[i]} })
		}
		if len(p.Reqs) > 2 {
			for i := range p.Reqs {
				for j := i + 1; j < len(p.Reqs); j++ {
					add(func(q *Plan) { q.Reqs = []Req{q.Reqs[i], q.Reqs[j]} })
				}
			}
		}
		for i := range p.Reqs {
			add(func(q *Plan) { q.Reqs = append(q.Reqs[:i:i], q.Reqs[i+1:]...) })
		}
	}
	// DNS
	if len(p.Zone.Faults) > 0 {
		add(func(q *Plan) { q.Zone.Faults = nil })
	}
	if len(p.Zone.Poison) > 0 {
		add(func(q *Plan) { q.Zone.Poison = nil })
		if len(p.Zone.Poison) > 1 {
			for i := range p.Zone.Poison {
				add(func(q *Plan) { q.Zone.Poison = append(q.Zone.Poison[:i:i], q.Zone.Poison[i+1:]...) })
			}
		}
	}
	for i := range p.Zone.RRs {
		add(func(q *Plan) { q.Zone.RRs = append(q.Zone.RRs[:i:i], q.Zone.RRs[i+1:]...) })
	}
	// configuration
	if p.H3 {
		add(func(q *Plan) { q.H3 = false })
	}
	if p.PlainReconfigured {
		add(func(q *Plan) { q.PlainReconfigured = false })
	}
	if len(p.ClientALPN) > 0 {
		add(func(q *Plan) { q.ClientALPN = nil })
	}
	if !p.Direct {
		add(func(q *Plan) { q.Direct = true })
	}
	if p.Link.Seg != simnet.SegWhole || p.Link.LatMaxUs != 0 || p.Link.ShortRead {
		add(func(q *Plan) { q.Link = simnet.LinkCfg{Seg: simnet.SegWhole} })
	}
	if p.DoHLatencyUs != 0 {
		add(func(q *Plan) { q.DoHLatencyUs = 0 })
	}
	if p.CacheSize != -1 {
		add(func(q *Plan) { q.CacheSize = -1 })
	}
	// nodes: drop one; strip extras
	if len(p.Nodes) > 1 {
		for i := range p.Nodes {
			add(func(q *Plan) { q.Nodes = append(q.Nodes[:i:i], q.Nodes[i+1:]...) })
		}
	}
	for i := range p.Nodes {
		nd := p.Nodes[i]
		if nd.ECH != nil {
			add(func(q *Plan) {
				q.Nodes[i].ECH = nil
				for k := range q.Zone.RRs {
					if q.Zone.RRs[k].Svc != nil {
						q.Zone.RRs[k].Svc.ECH = nil
					}
				}
			})
		}
		if len(nd.ALPN) > 0 {
			add(func(q *Plan) { q.Nodes[i].ALPN = nil })
		}
		if len(nd.PlainPorts) > 0 {
			add(func(q *Plan) { q.Nodes[i].PlainPorts = nil })
		}
		if len(nd.H3Ports) > 1 {
			add(func(q *Plan) { q.Nodes[i].H3Ports = q.Nodes[i].H3Ports[:1] })
		}
		if len(nd.TLSPorts) > 1 {
			for k := range nd.TLSPorts {
				add(func(q *Plan) { q.Nodes[i].TLSPorts = append(q.Nodes[i].TLSPorts[:k:k], q.Nodes[i].TLSPorts[k+1:]...) })
			}
		}
		if len(nd.CertNames) > 1 {
			for k := range nd.CertNames {
				add(func(q *Plan) {
					q.Nodes[i].CertNames = append(q.Nodes[i].CertNames[:k:k], q.Nodes[i].CertNames[k+1:]...)
				})
			}
		}
	}
	// records: simplify service parameters
	for i := range p.Zone.RRs {
		rr := p.Zone.RRs[i]
		if rr.Type != simdoh.TypeHTTPS || rr.Svc == nil || rr.Svc.Priority == 0 {
			continue
		}
		s := rr.Svc
		if len(s.ECH) > 0 {
			add(func(q *Plan) { q.Zone.RRs[i].Svc.ECH = nil })
		}
		if len(s.V4Hint)+len(s.V6Hint) > 0 {
			add(func(q *Plan) { q.Zone.RRs[i].Svc.V4Hint, q.Zone.RRs[i].Svc.V6Hint = nil, nil })
		}
		if s.Port != 0 {
			add(func(q *Plan) { q.Zone.RRs[i].Svc.Port = 0 })
		}
		if len(s.ALPN) > 1 {
			for k := range s.ALPN {
				add(func(q *Plan) {
					a := q.Zone.RRs[i].Svc.ALPN
					q.Zone.RRs[i].Svc.ALPN = append(a[:k:k], a[k+1:]...)
				})
			}
		}
		if rr.Target != "" {
			add(func(q *Plan) { q.Zone.RRs[i].Target = "" })
		}
	}
	// requests: simplify
	for i := range p.Reqs {
		rq := p.Reqs[i]
		if rq.HostOverride != "" {
			add(func(q *Plan) { q.Reqs[i].HostOverride = "" })
		}
		if rq.EmptyHost {
			add(func(q *Plan) { q.Reqs[i].EmptyHost = false })
		}
		if rq.Method != "GET" || rq.BodyLen != 0 {
			add(func(q *Plan) { q.Reqs[i].Method, q.Reqs[i].BodyLen = "GET", 0 })
		}
		if rq.RespSize != 0 {
			add(func(q *Plan) { q.Reqs[i].RespSize = 0 })
		}
		if rq.NoDrain {
			add(func(q *Plan) { q.Reqs[i].NoDrain = false })
		}
		if rq.Path != "/" {
			add(func(q *Plan) { q.Reqs[i].Path = "/" })
		}
	}
	return out
}
