//go:build verif

package e4web

import (
	"io"
	"log"
	"os"
	"testing"

	"verifsim/core"
)

func TestWorker(t *testing.T) { core.RunWorker[Plan](t, Engine{}) }

func TestRuns(t *testing.T) { core.PrintRuns[Plan](t, Engine{}) }

// The library and net/http log through the standard logger; that is noise here.
func TestMain(m *testing.M) {
	log.SetOutput(io.Discard)
	os.Exit(m.Run())
}
