//go:build verif

// Package e4web is engine E4 "websim": an http.Client on ech.Transport (real:
// Transport, Dialer, Resolver, dns.DoH, net/http client and server,
// crypto/tls) over a simulated network (simnet), a simulated DoH upstream
// (simdoh) and the virtual clock of a synctest bubble, with a recording
// HTTP/3 round-tripper stub. It decides C19.
package e4web

import (
	"encoding/json"
	"net"
	"strconv"
	"testing"

	"verifsim/core"
	"verifsim/simdoh"
	"verifsim/simnet"
)

// ECHSpec: the node holds an ECH key; the config is a pure function of the
// spec (key derived from KeySeed).
type ECHSpec struct {
	ID         uint8  `json:"id"`
	PublicName string `json:"public_name"`
	KeySeed    int    `json:"key_seed"`
}

// Node is one machine of the simulated network: one address, one certificate,
// the ports it listens on.
type Node struct {
	IP         string   `json:"ip"`
	CertNames  []string `json:"cert_names"`            // names (or IP literals) the certificate covers
	TLSPorts   []int    `json:"tls_ports,omitempty"`   // HTTPS over TCP
	PlainPorts []int    `json:"plain_ports,omitempty"` // cleartext HTTP over TCP
	H3Ports    []int    `json:"h3_ports,omitempty"`    // UDP ports on which the HTTP/3 stub finds a listener
	ALPN       []string `json:"alpn,omitempty"`        // NextProtos of the TLS server
	ECH        *ECHSpec `json:"ech,omitempty"`
}

// Req is one request of the sequence.
type Req struct {
	Scheme       string `json:"scheme"`
	Host         string `json:"host"` // name or IPv4 literal
	Port         int    `json:"port"` // -1: not written
	Path         string `json:"path"`
	HostOverride string `json:"host_override,omitempty"` // req.Host set by the caller
	// EmptyHost: the caller leaves req.Host empty (a hand-built http.Request;
	// net/http then sends URL.Host).
	EmptyHost bool   `json:"empty_host,omitempty"`
	Method    string `json:"method"`
	BodyLen   int    `json:"body_len,omitempty"`
	RespSize  int    `json:"resp_size"`
	NoDrain   bool   `json:"no_drain,omitempty"` // close the response body after the first byte
	// TimeoutMs > 0: the caller's context carries that deadline (and is
	// cancelled when the call returns); net/http lets a dial that is under way
	// run on for the benefit of later requests.
	TimeoutMs int `json:"timeout_ms,omitempty"`
}

func (r Req) hostPort() string {
	if r.Port >= 0 {
		return net.JoinHostPort(r.Host, strconv.Itoa(r.Port))
	}
	return r.Host
}

func (r Req) URL() string { return r.Scheme + "://" + r.hostPort() + r.Path }

// effPort is the port of the origin as written (scheme default when absent).
func (r Req) effPort() int {
	if r.Port >= 0 {
		return r.Port
	}
	if r.Scheme == "http" {
		return 80
	}
	return 443
}

// Plan is the plain-data description of one E4 run.
type Plan struct {
	Seed  uint64      `json:"seed"`
	Nodes []Node      `json:"nodes"`
	Zone  simdoh.Zone `json:"zone"`
	Reqs  []Req       `json:"reqs"`
	// H3: Transport.HTTP3Transport is set (to the recording stub).
	H3 bool `json:"h3,omitempty"`
	// PlainReconfigured: HTTPTransport.DialContext is replaced by a dialer that
	// reaches the cleartext listeners of the simulated network (the property
	// allows plaintext only then).
	PlainReconfigured bool `json:"plain_reconfigured,omitempty"`
	// ClientALPN is Transport.TLSConfig.NextProtos.
	ClientALPN []string `json:"client_alpn,omitempty"`
	// StaticECH: every node holds the same ECH key; the client is configured
	// with that config list itself (Transport.TLSConfig) and with
	// Dialer.RequireECH - a deployment that does not rely on DNS for the list.
	StaticECH bool `json:"static_ech,omitempty"`
	// BootstrapECH: every node holds the same ECH key; the client knows only its
	// public name (Transport.Dialer.PublicName) and learns the list from the
	// server's retry configs where DNS has none.
	BootstrapECH bool `json:"bootstrap_ech,omitempty"`
	// DialerResolver: the application also set Transport.Dialer.Resolver (to the
	// very resolver of the Transport); under a Transport it has no say.
	DialerResolver bool `json:"dialer_resolver,omitempty"`
	// Direct: call Transport.RoundTrip instead of http.Client.Do.
	Direct       bool           `json:"direct,omitempty"`
	Link         simnet.LinkCfg `json:"link"`
	DoHLatencyUs int            `json:"doh_latency_us,omitempty"`
	CacheSize    int            `json:"cache_size"` // -1: default
}

func (p *Plan) clone() *Plan {
	b, _ := json.Marshal(p)
	var q Plan
	if err := json.Unmarshal(b, &q); err != nil {
		panic(err)
	}
	return &q
}

type Engine struct{}

func (Engine) Name() string { return "e4web" }

const (
	runsQuick    = 6000
	runsThorough = 480000
)

func (Engine) Runs(prop, tier string) int {
	if prop != "C19" {
		return 0
	}
	if tier == "thorough" {
		return runsThorough
	}
	return runsQuick
}

func (Engine) Generate(prop, tier string, seed uint64, idx int) *Plan {
	if prop != "C19" {
		panic("e4web: unknown property " + prop)
	}
	return genPlan(core.Mix(seed, prop, idx), idx)
}

func (Engine) Execute(t *testing.T, prop string, p *Plan) *core.Result {
	return execute(t, prop, p)
}

func (Engine) Shrink(prop string, p *Plan) []*Plan { return shrink(p) }
