//go:build verif

package e4web

import (
	"encoding/json"
	"fmt"
	"os"
	"strconv"
	"testing"

	"verifsim/core"
)

// TestDebug executes plans E4DEBUG_FROM..E4DEBUG_TO of seed E4DEBUG_SEED and
// prints what happened (development aid; skipped unless E4DEBUG_TO is set).
func TestDebug(t *testing.T) {
	to, _ := strconv.Atoi(os.Getenv("E4DEBUG_TO"))
	if to == 0 {
		t.Skip("E4DEBUG_TO not set")
	}
	from, _ := strconv.Atoi(os.Getenv("E4DEBUG_FROM"))
	seed, _ := strconv.ParseUint(os.Getenv("E4DEBUG_SEED"), 10, 64)
	if seed == 0 {
		seed = 1
	}
	verbose := os.Getenv("E4DEBUG_V") != ""
	probes := map[string]int{}
	sigs := map[uint64]bool{}
	nt := 0
	for i := from; i < to; i++ {
		p := Engine{}.Generate("C19", "quick", seed, i)
		debugLog = nil
		res := Engine{}.Execute(t, "C19", p)
		if verbose {
			b, _ := json.Marshal(p)
			fmt.Printf("--- run %d plan %s\n", i, b)
			for _, l := range debugLog {
				fmt.Println("   ", l)
			}
		}
		for k, v := range res.Probes {
			probes[k] += v
		}
		if res.NonTrivial {
			nt++
			sigs[res.Sig] = true
		}
		if res.Harness != "" {
			fmt.Printf("run %d HARNESS %s\n", i, res.Harness)
		}
		for _, v := range res.Violations {
			fmt.Printf("run %d VIOLATION %s / %s : %s\n", i, v.Class, v.Site, v.Detail)
		}
	}
	fmt.Printf("runs %d nontrivial %d distinct %d\nprobes %v\n", to-from, nt, len(sigs), probes)
	_ = core.SigOf
}
