//go:build verif

package e4web

import "verifsim/core"

func (Engine) Describe(prop string) core.Description {
	return core.Description{
		Rule: "One plan = a small simulated internet (1-5 machines, each with one address, one Ed25519 certificate for a set of names, TLS / cleartext / HTTP-3 listening ports, optional ECH key; " +
			"1-4 host names homed on those machines, often several on one machine and one certificate), its DNS zone served by a simulated DoH upstream (A/AAAA that point at the right machine, a dead address, " +
			"a machine with somebody else's certificate, or several; CNAMEs; HTTPS record sets at the host and at _port._https.host: none, 1-3 ServiceMode records with distinct priorities, ALPN lists from " +
			"{none,h2,h3,http/1.1,unknown ids}, no-default-alpn, port, target names with their own addresses, hints, ech; alias chains of depth 1-3, alias to nothing, alias loops; poisoned extra answers; rcode faults), " +
			"a client configuration (HTTP/3 round-tripper set or not, cleartext dialer left as NewTransport made it or reconfigured, TLS ALPN, http.Client.Do or Transport.RoundTrip) and a sequence of 1-8 requests " +
			"(http/https, default / explicit standard / explicit other ports, IPv4 literals, repeated origins, Host overrides, GET/POST, response sizes, undrained bodies), executed one after the other in one synctest bubble " +
			"with synctest.Wait() in between so that connection pooling is deterministic. Every request is judged against an independent RFC 9460 model of the zone and against what the DialFuncs, the cleartext dialer, " +
			"the HTTP/3 stub and the origin servers recorded (connection ids are assigned at dial time and reported by the origin that served the request). " +
			"A run is non-trivial when at least one request was answered by an origin or the HTTP/3 stub, was refused as cleartext, or met a wrong certificate. " +
			"Two runs are distinct when the client configuration or the per-request sequence of (scheme, port class, record-set shape, expected HTTP/3 decision, path taken incl. negotiated protocol, error class, " +
			"connection reused, Host override, number of TLS dials and successes, DNS fault, method) differs.",
		Components: map[string]string{
			"ech.Transport / ech.Dialer / ech.Resolver": "real code under test",
			"dns.DoH (+ go-retryablehttp)":              "real, pointed at the simulated upstream through the verif-tagged dns.VerifRoundTripper hook",
			"HTTP client":                               "real net/http (http.Client, the http.Transport inside ech.Transport incl. its connection pool, HTTP/1.1 and HTTP/2)",
			"origin servers":                            "real net/http servers over real crypto/tls servers (Ed25519 certificates, optional ECH keys) fed by simnet listeners; cleartext origins are real net/http servers too",
			"TLS":                                       "real crypto/tls on both ends of every simulated TCP connection (certificate verification is the end-to-end oracle for server authentication)",
			"network":                                   "simulated (simnet pipes: seeded segmentation, latency, short reads; connection refused for addresses nobody listens on)",
			"DoH upstream":                              "simulated (simdoh: own RFC 1035/9460 codec, zone database, poisoned answers, rcode faults)",
			"clock":                                     "virtual (testing/synctest)",
			"crypto randomness":                         "pinned per plan (testing/cryptotest)",
			"HTTP/3 round-tripper":                      "stub: records the request it is handed, dials through an ech.Dialer with the request context and the address derived from req.URL.Host exactly as quic/h3.NewTransport does (once with a DialFunc that refuses everything, to enumerate the offered targets, once for real against the plan's UDP listeners), answers a canned response; no QUIC, no certificate check on this path",
			"oracle":                                    "independent RFC 9460 model (DESIGN appendix A.3) over the plan's zone using simdoh's own lookup code; never calls the library",
		},
		Assumptions: []string{
			"requests are issued sequentially (the resolver cache's mutex waits are not durably blocking under synctest); concurrency inside one request (Dial workers, net/http loops) is real",
			"'reconfigured to allow plaintext' means HTTPTransport.DialContext was replaced by the caller; the replacement used here understands both host:port and the pool-key form the Transport writes into the URL",
			"'the origin publishes HTTPS records' = a ServiceMode record is reached from the RFC 9460 QNAME (host for ports 80/443, _port._https.host otherwise) through at most two aliases; alias-only answers, longer chains, loops, alias mixed with service records: nothing DNS-dependent is asserted",
			"an http URL over TLS on port 80 counts as the same origin as its https form on 443 (RFC 9460 9.5); sharing a connection between those is permitted, never sharing is permitted as well",
			"usable record = one whose protocol set (alpn ids plus http/1.1 unless no-default-alpn) meets {h2, http/1.1} or, with an HTTP/3 round-tripper, h3; records sharing the best priority but disagreeing on h3 leave the decision open",
			"dial order, the error returned by failing requests, and the port of the plain-address fallback of an upgraded http URL are not asserted",
			"'request-failed' is asserted only when the model lists a target of a compatible record at which the simulated network has a listener with a certificate for the URL host (and the matching ECH key when the record carries a config)",
			"IPv6 literal URLs, https://host:80, userinfo, redirects, proxies and context cancellation during a request are outside the generated space",
		},
		RequiredProbes: []string{"http_upgraded", "http_upgraded_explicit_port", "plaintext_refused", "plaintext_allowed_when_reconfigured", "pooled_connection_reused", "hosts_sharing_an_address_both_served",
			"same_host_two_ports_served", "h3_selected", "h3_offered_by_less_preferred_record_only", "wrong_cert_rejected", "host_override", "alias_followed", "failover_to_later_target", "unusable_record_skipped",
			"http2_used", "ech_accepted", "poisoned_answers_present", "dial_after_decision", "blackholed_target"},
	}
}
