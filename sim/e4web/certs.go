//go:build verif

package e4web

import (
	"crypto/ed25519"
	"crypto/sha256"
	"crypto/tls"
	"crypto/x509"
	"crypto/x509/pkix"
	"fmt"
	"math/big"
	"net"
	"sync"
	"time"
)

// Certificates are a pure function of the name list: Ed25519 keys derived
// from fixed seeds and deterministic signatures, so they can be cached across
// runs without making a run depend on the process history. (Same scheme as
// engine E1; copied so that the engines stay independent.)

type pki struct {
	caKey  ed25519.PrivateKey
	caCert *x509.Certificate
	pool   *x509.CertPool
}

var (
	pkiOnce sync.Once
	thePKI  *pki
	certMu  sync.Mutex
	certMap = map[string]tls.Certificate{}
)

func seedKey(label string) ed25519.PrivateKey {
	h := sha256.Sum256([]byte("verifsim-e4-key:" + label))
	return ed25519.NewKeyFromSeed(h[:])
}

var (
	notBefore = time.Date(1999, 1, 1, 0, 0, 0, 0, time.UTC)
	notAfter  = time.Date(2100, 1, 1, 0, 0, 0, 0, time.UTC)
)

type zeroReader struct{}

func (zeroReader) Read(p []byte) (int, error) {
	for i := range p {
		p[i] = 0
	}
	return len(p), nil
}

func getPKI() *pki {
	pkiOnce.Do(func() {
		k := seedKey("ca")
		tmpl := &x509.Certificate{SerialNumber: big.NewInt(1), Subject: pkix.Name{CommonName: "verifsim e4 CA"}, NotBefore: notBefore, NotAfter: notAfter,
			IsCA: true, BasicConstraintsValid: true, KeyUsage: x509.KeyUsageCertSign | x509.KeyUsageDigitalSignature}
		der, err := x509.CreateCertificate(zeroReader{}, tmpl, tmpl, k.Public(), k)
		if err != nil {
			panic(err)
		}
		c, _ := x509.ParseCertificate(der)
		p := x509.NewCertPool()
		p.AddCert(c)
		thePKI = &pki{caKey: k, caCert: c, pool: p}
	})
	return thePKI
}

// leafCert returns the server certificate for names (DNS names or IP
// literals).
func leafCert(names ...string) tls.Certificate {
	if len(names) == 0 {
		names = []string{"nameless.invalid"}
	}
	key := fmt.Sprintf("%q", names)
	certMu.Lock()
	defer certMu.Unlock()
	if c, ok := certMap[key]; ok {
		return c
	}
	p := getPKI()
	k := seedKey("leaf:" + key)
	h := sha256.Sum256([]byte(key))
	tmpl := &x509.Certificate{SerialNumber: new(big.Int).SetBytes(h[:8]), Subject: pkix.Name{CommonName: "e4 leaf"}, NotBefore: notBefore, NotAfter: notAfter,
		KeyUsage: x509.KeyUsageDigitalSignature, ExtKeyUsage: []x509.ExtKeyUsage{x509.ExtKeyUsageServerAuth}}
	for _, n := range names {
		if ip := net.ParseIP(n); ip != nil {
			tmpl.IPAddresses = append(tmpl.IPAddresses, ip)
		} else {
			tmpl.DNSNames = append(tmpl.DNSNames, n)
		}
	}
	der, err := x509.CreateCertificate(zeroReader{}, tmpl, p.caCert, k.Public(), p.caKey)
	if err != nil {
		panic(err)
	}
	leaf, _ := x509.ParseCertificate(der)
	c := tls.Certificate{Certificate: [][]byte{der}, PrivateKey: k, Leaf: leaf}
	if len(certMap) > 512 {
		certMap = map[string]tls.Certificate{}
	}
	certMap[key] = c
	return c
}
