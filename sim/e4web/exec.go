//go:build verif

package e4web

import (
	"bytes"
	"context"
	"crypto/tls"
	"crypto/x509"
	"errors"
	"fmt"
	"io"
	"log"
	"net"
	"net/http"
	"net/netip"
	"os"
	"regexp"
	"strconv"
	"strings"
	"sync"
	"testing"
	"testing/cryptotest"
	"testing/synctest"
	"time"

	"github.com/c2FmZQ/ech"
	"github.com/c2FmZQ/ech/dns"

	"verifsim/core"
	"verifsim/simdoh"
	"verifsim/simnet"
)

const doHURL = "https://doh.sim/dns-query"

type ctxKey int

const (
	reqKey  ctxKey = 1
	connKey ctxKey = 2
)

func reqOf(ctx context.Context) int {
	if v, ok := ctx.Value(reqKey).(int); ok {
		return v
	}
	return -1
}

// dialRec is one call of a DialFunc (the TCP one of Transport.Dialer, or the
// UDP one of the HTTP/3 stub's dialer).
type dialRec struct {
	Seq        int
	Req        int
	Network    string
	Addr       string
	SNI        string
	NextProtos []string
	ECH        bool
	ISV        bool   // InsecureSkipVerify
	Late       bool   // ctx already done at entry (attempt started after Dial had returned)
	Phase      string // "" (tcp), "enum" / "dial" (HTTP/3 stub passes)
	Outcome    string
	ConnID     int
}

// plainRec is one call of HTTPTransport.DialContext (the cleartext dialer).
type plainRec struct {
	Seq         int
	Req         int
	Addr        string
	Established bool
	ConnID      int
	Note        string
}

// serveRec is one request as an origin server saw it.
type serveRec struct {
	ID       int
	Endpoint string
	Node     int
	Plain    bool
	ConnID   int
	Host     string
	SNI      string
	Proto    string
	Method   string
	URI      string
	BodyLen  int
	Tag      int
	ECHOK    bool
}

type h3Rec struct {
	Seq     int
	Req     int
	Scheme  string
	URLHost string
	Host    string
	Outcome string
}

type connInfo struct {
	id       int
	endpoint string
	node     int
	plain    bool
}

type reqObs struct {
	panicked    bool
	pmsg, psite string
	resp        bool
	status      int
	serveID     int
	viaH3       bool
	err         error
	errClass    string
	timedOut    bool // the caller's deadline passed before the call returned
	ptrSame     bool
	urlBefore   string
	urlAfter    string
	hostBefore  string
	hostAfter   string
	bodyN       int
	bodyErr     bool
	queries     int
	elapsedNs   int64
}

type endpoint struct {
	key    string
	node   int
	plain  bool
	ln     *simnet.Listener
	tlsCfg *tls.Config
}

type run struct {
	p   *Plan
	w   *simnet.World
	net *netModel

	mu              sync.Mutex
	seq             int
	connSeq         int
	dials           []*dialRec
	plains          []*plainRec
	serves          []*serveRec
	h3s             []*h3Rec
	connInfo        map[net.Conn]*connInfo
	connDial        map[int]*dialRec  // TLS connection id -> the dial that created it
	connPlain       map[int]*plainRec // cleartext connection id -> the dial that created it
	tlsEP           map[netip.AddrPort]*endpoint
	plainEP         map[netip.AddrPort]*endpoint
	panics          []string
	cur             int // index of the request being executed (sequential)
	defaultPlainNil bool
}

func (r *run) nextSeq() int {
	r.seq++
	return r.seq
}

var errRefused = errors.New("simnet: connection refused")

// Addresses in 10.9.7.0/24 swallow every packet (no answer, no reset); other
// addresses nobody listens on refuse the connection at once.
var blackholeNet = netip.MustParsePrefix("10.9.7.0/24")

func isBlackhole(ap netip.AddrPort) bool { return blackholeNet.Contains(ap.Addr()) }

func normAddr(addr string) (netip.AddrPort, bool) {
	ap, err := netip.ParseAddrPort(addr)
	if err != nil {
		return netip.AddrPort{}, false
	}
	return netip.AddrPortFrom(ap.Addr().Unmap(), ap.Port()), true
}

// dialTLS is Transport.Dialer.DialFunc: the seam to the simulated network.
func (r *run) dialTLS(ctx context.Context, network, addr string, tc *tls.Config) (*tls.Conn, error) {
	rec := &dialRec{Req: reqOf(ctx), Network: network, Addr: addr, ConnID: -1}
	if tc != nil {
		rec.SNI = tc.ServerName
		rec.NextProtos = append([]string(nil), tc.NextProtos...)
		rec.ECH = len(tc.EncryptedClientHelloConfigList) > 0
		rec.ISV = tc.InsecureSkipVerify
	}
	rec.Late = ctx.Err() != nil
	r.mu.Lock()
	rec.Seq = r.nextSeq()
	if rec.Req < 0 {
		rec.Req = r.cur
	}
	r.dials = append(r.dials, rec)
	r.mu.Unlock()
	if rec.Late {
		rec.Outcome = "cancelled"
		return nil, ctx.Err()
	}
	ap, ok := normAddr(addr)
	if !ok || !strings.HasPrefix(network, "tcp") {
		rec.Outcome = "bad-address"
		return nil, fmt.Errorf("simnet: cannot dial %s %q", network, addr)
	}
	if isBlackhole(ap) {
		// packets vanish: the attempt ends when its context does
		rec.Outcome = "blackhole"
		<-ctx.Done()
		return nil, ctx.Err()
	}
	ep := r.tlsEP[ap]
	if ep == nil {
		rec.Outcome = "refused"
		if r.plainEP[ap] != nil {
			rec.Outcome = "refused-not-tls"
		}
		return nil, fmt.Errorf("dial %s: %w", addr, errRefused)
	}
	r.mu.Lock()
	r.connSeq++
	id := r.connSeq
	r.mu.Unlock()
	cc, sc := r.w.Pipe(fmt.Sprintf("c%d", id), fmt.Sprintf("s%d", id), r.p.Link, r.p.Link)
	srvConn := tls.Server(sc, ep.tlsCfg)
	r.mu.Lock()
	r.connInfo[srvConn] = &connInfo{id: id, endpoint: ep.key, node: ep.node}
	r.connDial[id] = rec
	r.mu.Unlock()
	rec.ConnID = id
	if !ep.ln.Deliver(srvConn) {
		cc.Close()
		sc.Close()
		rec.Outcome = "refused"
		return nil, fmt.Errorf("dial %s: %w", addr, errRefused)
	}
	c := tls.Client(cc, tc)
	if err := c.HandshakeContext(ctx); err != nil {
		cc.Close()
		rec.Outcome = "handshake-failed:" + tlsErrClass(err)
		return nil, err
	}
	rec.Outcome = "ok"
	return c, nil
}

func tlsErrClass(err error) string {
	var cve *tls.CertificateVerificationError
	var he x509.HostnameError
	var ua x509.UnknownAuthorityError
	var rej *tls.ECHRejectionError
	switch {
	case errors.As(err, &rej):
		return "ech-rejected"
	case errors.As(err, &he):
		return "cert-name"
	case errors.As(err, &ua):
		return "cert-authority"
	case errors.As(err, &cve):
		return "cert"
	case errors.Is(err, context.Canceled), errors.Is(err, context.DeadlineExceeded):
		return "ctx"
	}
	return "other"
}

var keyAddrRE = regexp.MustCompile(`^_(\d+)\._([a-z0-9]+)\.(.+)\._$`)

// plainDial is the cleartext dialer of plans that reconfigure the transport
// (and the stand-in when the library's default turns out to be nil). It
// understands both a real host:port and the pool-key form the Transport
// writes into the URL.
func (r *run) plainDial(ctx context.Context, rec *plainRec, addr string) (net.Conn, error) {
	host, port, err := net.SplitHostPort(addr)
	if err != nil {
		return nil, err
	}
	if m := keyAddrRE.FindStringSubmatch(host); m != nil {
		host = m[3]
	}
	pn, _ := strconv.Atoi(port)
	var addrs []netip.Addr
	if a, err := netip.ParseAddr(strings.Trim(host, "[]")); err == nil {
		addrs = []netip.Addr{a.Unmap()}
	} else {
		addrs = zoneAddrs(&r.p.Zone, host)
	}
	for _, a := range addrs {
		ep := r.plainEP[netip.AddrPortFrom(a, uint16(pn))]
		if ep == nil {
			continue
		}
		r.mu.Lock()
		r.connSeq++
		id := r.connSeq
		r.mu.Unlock()
		cc, sc := r.w.Pipe(fmt.Sprintf("c%d", id), fmt.Sprintf("s%d", id), r.p.Link, r.p.Link)
		r.mu.Lock()
		r.connInfo[sc] = &connInfo{id: id, endpoint: ep.key, node: ep.node, plain: true}
		r.connPlain[id] = rec
		r.mu.Unlock()
		if !ep.ln.Deliver(sc) {
			cc.Close()
			sc.Close()
			continue
		}
		rec.Established, rec.ConnID = true, id
		return cc, nil
	}
	return nil, fmt.Errorf("dial %s: %w", addr, errRefused)
}

func (r *run) handler(w http.ResponseWriter, req *http.Request) {
	info, _ := req.Context().Value(connKey).(*connInfo)
	body, _ := io.ReadAll(req.Body)
	rec := &serveRec{ConnID: -1, Node: -1, Host: req.Host, Proto: req.Proto, Method: req.Method, URI: req.URL.RequestURI(), BodyLen: len(body), Tag: -1}
	if info != nil {
		rec.ConnID, rec.Endpoint, rec.Node, rec.Plain = info.id, info.endpoint, info.node, info.plain
	}
	if req.TLS != nil {
		rec.SNI = req.TLS.ServerName
		rec.ECHOK = req.TLS.ECHAccepted
	}
	if t, err := strconv.Atoi(req.Header.Get("X-Sim-Req")); err == nil {
		rec.Tag = t
	}
	r.mu.Lock()
	rec.ID = len(r.serves)
	r.serves = append(r.serves, rec)
	r.mu.Unlock()
	n, _ := strconv.Atoi(req.Header.Get("X-Sim-Size"))
	n = max(0, min(n, 1<<20))
	w.Header().Set("X-Sim-Serve", strconv.Itoa(rec.ID))
	w.Header().Set("Content-Type", "application/octet-stream")
	w.Header().Set("Content-Length", strconv.Itoa(n))
	w.WriteHeader(200)
	if n > 0 {
		b := make([]byte, n)
		for i := range b {
			b[i] = byte('a' + i%26)
		}
		w.Write(b)
	}
}

// ---------------------------------------------------------------------------
// HTTP/3 stub: mirrors what quic/h3.NewTransport wires up -- an
// http3.Transport whose Dial goes through an ech.Dialer with the request
// context (which carries the Transport's filtered resolution) and the address
// derived from req.URL.Host -- but records instead of speaking QUIC.

type h3Conn struct{ addr string }

type h3Stub struct {
	r      *run
	tr     *ech.Transport
	enum   *ech.Dialer[*h3Conn]
	dialer *ech.Dialer[*h3Conn]
}

func (s *h3Stub) dialFunc(phase string) func(ctx context.Context, network, addr string, tc *tls.Config) (*h3Conn, error) {
	return func(ctx context.Context, network, addr string, tc *tls.Config) (c *h3Conn, err error) {
		r := s.r
		rec := &dialRec{Req: reqOf(ctx), Network: network, Addr: addr, ConnID: -1, Phase: phase}
		if tc != nil {
			rec.SNI = tc.ServerName
			rec.NextProtos = append([]string(nil), tc.NextProtos...)
			rec.ECH = len(tc.EncryptedClientHelloConfigList) > 0
			rec.ISV = tc.InsecureSkipVerify
		}
		rec.Late = ctx.Err() != nil
		r.mu.Lock()
		rec.Seq = r.nextSeq()
		if rec.Req < 0 {
			rec.Req = r.cur
		}
		r.dials = append(r.dials, rec)
		r.mu.Unlock()
		if rec.Late {
			rec.Outcome = "cancelled"
			return nil, ctx.Err()
		}
		if phase == "enum" {
			rec.Outcome = "enumerated"
			return nil, errors.New("h3 stub: enumeration pass")
		}
		ap, ok := normAddr(addr)
		if ok && isBlackhole(ap) {
			rec.Outcome = "blackhole"
			<-ctx.Done()
			return nil, ctx.Err()
		}
		if !ok || r.net.h3[ap] == nil {
			rec.Outcome = "refused"
			return nil, fmt.Errorf("dial udp %s: %w", addr, errRefused)
		}
		rec.Outcome = "ok"
		return &h3Conn{addr: addr}, nil
	}
}

func (s *h3Stub) RoundTrip(req *http.Request) (*http.Response, error) {
	r := s.r
	rec := &h3Rec{Req: reqOf(req.Context()), Scheme: req.URL.Scheme, URLHost: req.URL.Host, Host: req.Host}
	r.mu.Lock()
	rec.Seq = r.nextSeq()
	if rec.Req < 0 {
		rec.Req = r.cur
	}
	r.h3s = append(r.h3s, rec)
	r.mu.Unlock()
	if req.URL.Scheme != "https" {
		rec.Outcome = "unsupported-scheme"
		if req.Body != nil {
			req.Body.Close()
		}
		return nil, fmt.Errorf("http3: unsupported protocol scheme: %s", req.URL.Scheme)
	}
	addr := req.URL.Host
	if _, _, err := net.SplitHostPort(addr); err != nil {
		addr = net.JoinHostPort(strings.Trim(addr, "[]"), "443")
	}
	// like h3.NewTransport: the options of Transport.Dialer are copied
	for _, d := range []*ech.Dialer[*h3Conn]{s.enum, s.dialer} {
		d.RequireECH = s.tr.Dialer.RequireECH
		d.PublicName = s.tr.Dialer.PublicName
		d.MaxConcurrency = s.tr.Dialer.MaxConcurrency
		d.ConcurrencyDelay = s.tr.Dialer.ConcurrencyDelay
	}
	var conn *h3Conn
	var err error
	if pn, msg, site := core.Guard(func() {
		s.enum.Dial(req.Context(), "udp", addr, s.tr.TLSConfig)
		conn, err = s.dialer.Dial(req.Context(), "udp", addr, s.tr.TLSConfig)
	}); pn {
		r.notePanic("h3 dial", msg, site)
		err = errors.New("panic")
	}
	if req.Body != nil {
		io.Copy(io.Discard, req.Body)
		req.Body.Close()
	}
	if err != nil {
		rec.Outcome = "dial-failed"
		return nil, err
	}
	rec.Outcome = "ok:" + conn.addr
	body := "h3 stub response"
	h := http.Header{}
	h.Set("X-Sim-H3", "1")
	return &http.Response{Status: "200 OK", StatusCode: 200, Proto: "HTTP/3.0", ProtoMajor: 3, Header: h,
		Body: io.NopCloser(strings.NewReader(body)), ContentLength: int64(len(body)), Request: req}, nil
}

func (r *run) notePanic(where, msg, site string) {
	r.mu.Lock()
	r.panics = append(r.panics, where+"|"+site+"|"+msg)
	r.mu.Unlock()
}

// ---------------------------------------------------------------------------

func errClass(err error) string {
	if err == nil {
		return "ok"
	}
	s := err.Error()
	switch {
	case strings.Contains(s, "attempting to dial a plaintext tcp connection"):
		return "plaintext-refused"
	case errors.Is(err, ech.ErrServerFailure), errors.Is(err, ech.ErrNonExistentDomain), errors.Is(err, ech.ErrQueryRefused), errors.Is(err, ech.ErrFormatError), errors.Is(err, ech.ErrNotImplemented):
		return "dns"
	case errors.Is(err, ech.ErrInvalidName):
		return "invalid-name"
	case strings.Contains(s, "no address"):
		return "no-address"
	case strings.Contains(s, "http3: unsupported protocol scheme"):
		return "h3-scheme"
	}
	var cve *tls.CertificateVerificationError
	var he x509.HostnameError
	var ua x509.UnknownAuthorityError
	if errors.As(err, &cve) || errors.As(err, &he) || errors.As(err, &ua) || strings.Contains(s, "x509:") {
		return "cert"
	}
	if errors.Is(err, errRefused) {
		return "refused"
	}
	return "other"
}

func firstLine(s string) string {
	if i := strings.IndexByte(s, '\n'); i >= 0 {
		return s[:i]
	}
	return s
}

func normMsg(s string) string {
	s = firstLine(s)
	var b strings.Builder
	inNum := false
	for _, c := range s {
		if c >= '0' && c <= '9' {
			if !inNum {
				b.WriteByte('N')
			}
			inNum = true
			continue
		}
		inNum = false
		b.WriteRune(c)
	}
	out := b.String()
	if len(out) > 160 {
		out = out[:160]
	}
	return out
}

func execute(t *testing.T, prop string, p *Plan) *core.Result {
	res := &core.Result{Evals: 1}
	if len(p.Reqs) == 0 {
		res.LogHash = core.HashLog(nil)
		return res
	}
	cryptotest.SetGlobalRandom(t, p.Seed)
	r := &run{p: p, connInfo: map[net.Conn]*connInfo{}, connDial: map[int]*dialRec{}, connPlain: map[int]*plainRec{},
		tlsEP: map[netip.AddrPort]*endpoint{}, plainEP: map[netip.AddrPort]*endpoint{}}
	r.net = newNetModel(p.Nodes)
	if p.StaticECH && len(p.Nodes) > 0 && p.Nodes[0].ECH != nil {
		_, _, r.net.static = echMaterial(p.Nodes[0].ECH)
	}
	obs := make([]*reqObs, len(p.Reqs))
	var leakedLib, leakedOther []string
	var srv *simdoh.Server
	msg := core.Bubble(t, func(t *testing.T) {
		w := simnet.NewWorld(p.Seed)
		r.w = w
		zone := p.Zone
		srv = simdoh.NewServer(&zone)
		srv.PadTo = 128
		if p.DoHLatencyUs > 0 {
			lat := time.Duration(p.DoHLatencyUs) * time.Microsecond
			srv.Latency = func(int) time.Duration { return lat }
		}
		dns.VerifRoundTripper = srv
		defer func() { dns.VerifRoundTripper = nil }()
		resolver, err := ech.NewResolver(doHURL)
		if err != nil {
			res.Harness = "NewResolver: " + err.Error()
			return
		}
		if p.CacheSize >= 0 {
			resolver.SetCacheSize(p.CacheSize)
		}

		// origins
		pk := getPKI()
		var servers []*http.Server
		quiet := log.New(io.Discard, "", 0)
		for i := range p.Nodes {
			nd := &p.Nodes[i]
			a, err := netip.ParseAddr(nd.IP)
			if err != nil {
				res.Harness = "bad node address " + nd.IP
				return
			}
			a = a.Unmap()
			names := append([]string(nil), nd.CertNames...)
			cfg := &tls.Config{NextProtos: append([]string(nil), nd.ALPN...), MinVersion: tls.VersionTLS12}
			if nd.ECH != nil {
				priv, c, _ := echMaterial(nd.ECH)
				cfg.EncryptedClientHelloKeys = []tls.EncryptedClientHelloKey{{Config: c, PrivateKey: priv, SendAsRetry: true}}
				names = append(names, nd.ECH.PublicName)
			}
			cfg.Certificates = []tls.Certificate{leafCert(names...)}
			hs := &http.Server{Handler: http.HandlerFunc(r.handler), ErrorLog: quiet,
				ConnContext: func(ctx context.Context, c net.Conn) context.Context {
					r.mu.Lock()
					info := r.connInfo[c]
					r.mu.Unlock()
					return context.WithValue(ctx, connKey, info)
				}}
			servers = append(servers, hs)
			listen := func(port int, plain bool) {
				ap := netip.AddrPortFrom(a, uint16(port))
				m := r.tlsEP
				if plain {
					m = r.plainEP
				}
				if m[ap] != nil {
					return
				}
				ep := &endpoint{key: ap.String(), node: i, plain: plain, ln: simnet.NewListener(ap.String()), tlsCfg: cfg}
				m[ap] = ep
				go hs.Serve(ep.ln)
			}
			for _, pt := range nd.TLSPorts {
				listen(pt, false)
			}
			for _, pt := range nd.PlainPorts {
				if r.tlsEP[netip.AddrPortFrom(a, uint16(pt))] == nil {
					listen(pt, true)
				}
			}
		}

		// the client under test
		tr := ech.NewTransport()
		tr.Resolver = resolver
		tr.TLSConfig = &tls.Config{RootCAs: pk.pool, NextProtos: append([]string(nil), p.ClientALPN...)}
		if p.StaticECH && len(p.Nodes) > 0 && p.Nodes[0].ECH != nil {
			_, _, list := echMaterial(p.Nodes[0].ECH)
			tr.TLSConfig.EncryptedClientHelloConfigList = list
			tr.Dialer.RequireECH = true
			res.Probe("static_ech_list_and_require_ech")
		}
		if p.BootstrapECH && len(p.Nodes) > 0 && p.Nodes[0].ECH != nil {
			tr.Dialer.PublicName = p.Nodes[0].ECH.PublicName
			res.Probe("dialer_public_name_set")
		}
		if p.DialerResolver {
			tr.Dialer.Resolver = resolver
			res.Probe("dialer_resolver_set_too")
		}
		tr.Dialer.DialFunc = func(ctx context.Context, network, addr string, tc *tls.Config) (c *tls.Conn, err error) {
			if pn, msg, site := core.Guard(func() { c, err = r.dialTLS(ctx, network, addr, tc) }); pn {
				res.Harness = "panic in the simulated dialer: " + msg + " @" + site
				return nil, errors.New("panic")
			}
			return c, err
		}
		orig := tr.HTTPTransport.DialContext
		r.defaultPlainNil = orig == nil
		tr.HTTPTransport.DialContext = func(ctx context.Context, network, addr string) (c net.Conn, err error) {
			rec := &plainRec{Req: reqOf(ctx), Addr: addr, ConnID: -1}
			r.mu.Lock()
			rec.Seq = r.nextSeq()
			if rec.Req < 0 {
				rec.Req = r.cur
			}
			r.plains = append(r.plains, rec)
			r.mu.Unlock()
			switch {
			case p.PlainReconfigured:
				rec.Note = "reconfigured"
				return r.plainDial(ctx, rec, addr)
			case orig == nil:
				// the library's default has no cleartext guard: behave like the
				// network would
				rec.Note = "default-nil"
				return r.plainDial(ctx, rec, addr)
			}
			rec.Note = "default"
			if pn, msg, site := core.Guard(func() { c, err = orig(ctx, network, addr) }); pn {
				r.notePanic("plaintext dialer", msg, site)
				return nil, errors.New("panic")
			}
			if err == nil && c != nil {
				rec.Established = true
			}
			return c, err
		}
		if p.H3 {
			st := &h3Stub{r: r, tr: tr}
			st.enum = &ech.Dialer[*h3Conn]{DialFunc: st.dialFunc("enum")}
			st.dialer = &ech.Dialer[*h3Conn]{DialFunc: st.dialFunc("dial")}
			tr.HTTP3Transport = st
		}
		client := &http.Client{Transport: tr, CheckRedirect: func(*http.Request, []*http.Request) error { return http.ErrUseLastResponse }}

		anyTimeout := false
		for i, q := range p.Reqs {
			o := &reqObs{serveID: -1}
			obs[i] = o
			r.mu.Lock()
			r.cur = i
			r.mu.Unlock()
			ctx := context.WithValue(context.Background(), reqKey, i)
			cancelReq := func() {}
			if q.TimeoutMs > 0 {
				ctx, cancelReq = context.WithTimeout(ctx, time.Duration(q.TimeoutMs)*time.Millisecond)
				anyTimeout = true
			}
			var body io.Reader
			if q.BodyLen > 0 {
				body = bytes.NewReader(bytes.Repeat([]byte{'q'}, q.BodyLen))
			}
			req, err := http.NewRequestWithContext(ctx, q.Method, q.URL(), body)
			if err != nil {
				o.err, o.errClass = err, "bad-request"
				cancelReq()
				continue
			}
			req.Header.Set("X-Sim-Req", strconv.Itoa(i))
			req.Header.Set("X-Sim-Size", strconv.Itoa(q.RespSize))
			if q.HostOverride != "" {
				req.Host = q.HostOverride
			} else if q.EmptyHost {
				req.Host = ""
			}
			o.urlBefore, o.hostBefore = req.URL.String(), req.Host
			before := srv.LogLen()
			t0 := time.Now()
			var resp *http.Response
			o.panicked, o.pmsg, o.psite = core.Guard(func() {
				if p.Direct {
					resp, err = tr.RoundTrip(req)
				} else {
					resp, err = client.Do(req)
				}
			})
			if o.panicked {
				resp, err = nil, errors.New("panic")
			}
			o.err, o.errClass = err, errClass(err)
			if resp != nil && err == nil {
				o.resp, o.status = true, resp.StatusCode
				o.ptrSame = resp.Request == req
				o.viaH3 = resp.Header.Get("X-Sim-H3") == "1"
				if id, e := strconv.Atoi(resp.Header.Get("X-Sim-Serve")); e == nil {
					o.serveID = id
				}
				if resp.Body != nil {
					if q.NoDrain {
						var one [1]byte
						n, _ := resp.Body.Read(one[:])
						o.bodyN = n
					} else {
						n, e := io.Copy(io.Discard, resp.Body)
						o.bodyN, o.bodyErr = int(n), e != nil
					}
					resp.Body.Close()
				}
			}
			o.timedOut = q.TimeoutMs > 0 && (err != nil || o.bodyErr) && (errors.Is(err, context.DeadlineExceeded) || ctx.Err() != nil)
			cancelReq()
			o.urlAfter, o.hostAfter = req.URL.String(), req.Host
			o.queries = srv.LogLen() - before
			o.elapsedNs = int64(time.Since(t0))
			synctest.Wait()
		}
		res.SimNs = w.Now()

		if anyTimeout {
			// dials that outlived their requests run into the Dialer's own
			// per-attempt timeout
			time.Sleep(10 * time.Minute)
			synctest.Wait()
		}
		// teardown: nothing of the harness may outlive the run
		tr.HTTPTransport.CloseIdleConnections()
		for _, hs := range servers {
			hs.Close()
		}
		synctest.Wait()
		w.Shutdown()
		synctest.Wait()
		leakedLib, leakedOther = core.Leaked()
	})
	if res.Harness != "" {
		return res
	}
	if msg != "" {
		if os.Getenv("VERIF_DEBUG") != "" {
			fmt.Fprintln(os.Stderr, msg)
		}
		switch {
		case strings.Contains(msg, "deadlock"):
			res.Fail(prop, "hang", "request never completes (every goroutine of the bubble blocked)", "%s", firstLine(msg))
		case strings.Contains(msg, "panic in bubble root"):
			res.Harness = "bubble: " + firstLine(msg)
		default:
			res.Harness = "bubble: " + firstLine(msg)
		}
		return res
	}
	if len(leakedLib) > 0 {
		res.Fail(prop, "goroutine-leak", "library goroutine alive after the last request and teardown: "+leakedLib[0], "%v", leakedLib)
	}
	if len(leakedOther) > 0 {
		res.Harness = "goroutines left at end of run: " + strings.Join(leakedOther, ",")
		return res
	}
	judge(prop, p, r, obs, res)
	for _, q := range p.Reqs {
		if q.TimeoutMs > 0 {
			// what a dial that outlives its request still gets to do, and in which
			// order, is the runtime's choice: the verdicts do not depend on it, the
			// event log does
			res.Arbitrated = true
		}
	}
	return res
}
