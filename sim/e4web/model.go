//go:build verif

package e4web

import (
	"fmt"
	"net/netip"
	"slices"
	"sort"
	"strings"

	"verifsim/echbox"
	"verifsim/simdoh"
)

// This file is the reference model of C19's DNS-dependent decisions, written
// from the property statement and DESIGN appendix A.3 (RFC 9460 client), over
// the plan's zone with simdoh's own lookup code. It never calls the library.

func canon(n string) string { return strings.ToLower(strings.TrimSuffix(n, ".")) }

// svcRec is a ServiceMode HTTPS record as the model sees it.
type svcRec struct {
	Prio   uint16
	Target string // "" = the owner name
	ALPN   []string
	NDA    bool
	Port   uint16
	V4, V6 []string
	ECH    []byte
}

// protos is the protocol set of a record: its alpn ids plus the default
// (http/1.1) unless no-default-alpn.
func (s svcRec) protos() []string {
	out := append([]string(nil), s.ALPN...)
	if !s.NDA {
		out = append(out, "http/1.1")
	}
	return out
}

func (s svcRec) offersH3() bool { return slices.Contains(s.protos(), "h3") }
func (s svcRec) offersTCP() bool {
	p := s.protos()
	return slices.Contains(p, "h2") || slices.Contains(p, "http/1.1")
}

// originModel is what the zone says about one request URL.
type originModel struct {
	Host  string
	Port  int // origin port (scheme default when none is written)
	QName string
	// Faulty: the upstream is configured to fail a lookup involved in this
	// origin; DNS-dependent expectations are loosened.
	Faulty bool
	// Ambiguous: the zone has a shape the statement (and RFC 9460) leaves open
	// for a client (long alias chains, loops, AliasMode mixed with ServiceMode,
	// alias to "."); nothing DNS-dependent is asserted then.
	Ambiguous bool
	// HTTPSPresent: the HTTPS lookup for the origin returns at least one record.
	HTTPSPresent bool
	Svc          []svcRec // ServiceMode records the origin resolves to, by priority
	TiePrio      bool     // two of them share a priority (their order is open)
	AliasDepth   int
	OriginAddrs  []netip.Addr
	TargetAddrs  map[string][]netip.Addr
	// DNSNames are names DNS mentions on the way (alias targets, service
	// targets, CNAME targets); none of them may ever become the TLS name.
	DNSNames map[string]string
}

// answer is what the upstream puts into the answer section for (name, typ):
// the zone's own records plus the "poison" records of that type, whatever
// their owner (a poison record owned by the very name asked is, for a client,
// indistinguishable from a genuine one and counts as such).
//
// An error response (NXDOMAIN, SERVFAIL) that nevertheless carries such a
// record for the name asked is a message a client may read either way: odd.
func answerOdd(z *simdoh.Zone, name string, typ uint16) (ans []simdoh.RR, odd bool) {
	ans, rc := z.Lookup(name, typ)
	n := len(ans)
	for i := range z.Poison {
		if z.Poison[i].Type == typ {
			ans = append(ans, z.Poison[i])
		}
	}
	if rc != 0 {
		if len(simdoh.Final(ans, name, typ)) > 0 {
			odd = true
		}
		return ans[:n], odd
	}
	return ans, false
}

func answer(z *simdoh.Zone, name string, typ uint16) []simdoh.RR {
	ans, _ := answerOdd(z, name, typ)
	return ans
}

func oddName(z *simdoh.Zone, name string, types ...uint16) bool {
	for _, t := range types {
		if _, odd := answerOdd(z, name, t); odd {
			return true
		}
	}
	return false
}

func zoneAddrs(z *simdoh.Zone, name string) []netip.Addr {
	var out []netip.Addr
	for _, typ := range []uint16{simdoh.TypeA, simdoh.TypeAAAA} {
		ans := answer(z, name, typ)
		for _, rr := range simdoh.Final(ans, name, typ) {
			if a, err := netip.ParseAddr(rr.IP); err == nil {
				out = append(out, a.Unmap())
			}
		}
	}
	return out
}

func noteCNAMEs(m *originModel, ans []simdoh.RR) {
	for _, rr := range ans {
		if rr.Type == simdoh.TypeCNAME && rr.Target != "" {
			m.DNSNames[canon(rr.Target)] = "CNAME target"
		}
	}
}

func faultTouches(z *simdoh.Zone, names map[string]bool) bool {
	for _, f := range z.Faults {
		if f.Name == "" || names[canon(f.Name)] {
			return true
		}
	}
	return false
}

// modelOrigin resolves (host, port) the way appendix A.3 prescribes.
func modelOrigin(z *simdoh.Zone, host string, port int) *originModel {
	m := &originModel{Host: host, Port: port, TargetAddrs: map[string][]netip.Addr{}, DNSNames: map[string]string{}}
	involved := map[string]bool{canon(host): true}
	if _, err := netip.ParseAddr(host); err == nil {
		// IP literal: no DNS at all
		a, _ := netip.ParseAddr(host)
		m.OriginAddrs = []netip.Addr{a.Unmap()}
		return m
	}
	m.QName = host
	if port != 80 && port != 443 {
		m.QName = fmt.Sprintf("_%d._https.%s", port, host)
	}
	cur := m.QName
	seen := map[string]bool{}
	for {
		involved[canon(cur)] = true
		if seen[canon(cur)] {
			m.Ambiguous = true
			break
		}
		seen[canon(cur)] = true
		ans, odd := answerOdd(z, cur, simdoh.TypeHTTPS)
		if odd {
			m.Ambiguous = true
		}
		noteCNAMEs(m, ans)
		recs := simdoh.Final(ans, cur, simdoh.TypeHTTPS)
		if len(recs) == 0 {
			break
		}
		if cur == m.QName {
			m.HTTPSPresent = true
		}
		var alias *simdoh.RR
		nsvc := 0
		for i := range recs {
			if recs[i].Svc == nil {
				m.Ambiguous = true
				continue
			}
			if recs[i].Svc.Priority == 0 {
				if alias == nil {
					alias = &recs[i]
				}
			} else {
				nsvc++
			}
			if len(recs[i].Svc.Mandatory) > 0 || len(recs[i].Svc.Extra) > 0 {
				m.Ambiguous = true // usability rules of C14, not modelled here
			}
		}
		if alias != nil {
			if nsvc > 0 || canon(alias.Target) == "" {
				m.Ambiguous = true
				break
			}
			m.AliasDepth++
			if m.AliasDepth > 2 {
				m.Ambiguous = true
				break
			}
			cur = canon(alias.Target)
			m.DNSNames[cur] = "alias target"
			continue
		}
		for i := range recs {
			s := recs[i].Svc
			if s == nil {
				continue
			}
			if s.NoDefaultALPN && len(s.ALPN) == 0 {
				m.Ambiguous = true // not self-consistent (RFC 9460 7.1.1)
			}
			m.Svc = append(m.Svc, svcRec{Prio: s.Priority, Target: canon(recs[i].Target), ALPN: s.ALPN, NDA: s.NoDefaultALPN, Port: s.Port, V4: s.V4Hint, V6: s.V6Hint, ECH: s.ECH})
		}
		break
	}
	sort.SliceStable(m.Svc, func(i, j int) bool { return m.Svc[i].Prio < m.Svc[j].Prio })
	for i := 1; i < len(m.Svc); i++ {
		if m.Svc[i].Prio == m.Svc[i-1].Prio {
			m.TiePrio = true
		}
	}
	addrName := host
	if m.AliasDepth > 0 {
		addrName = cur
	}
	involved[canon(addrName)] = true
	{
		noteCNAMEs(m, answer(z, addrName, simdoh.TypeA))
		noteCNAMEs(m, answer(z, addrName, simdoh.TypeAAAA))
	}
	m.OriginAddrs = zoneAddrs(z, addrName)
	if oddName(z, addrName, simdoh.TypeA, simdoh.TypeAAAA) {
		m.Ambiguous = true
	}
	for _, s := range m.Svc {
		if s.Target == "" {
			continue
		}
		involved[s.Target] = true
		m.DNSNames[s.Target] = "service target"
		if _, ok := m.TargetAddrs[s.Target]; !ok {
			m.TargetAddrs[s.Target] = zoneAddrs(z, s.Target)
			if oddName(z, s.Target, simdoh.TypeA, simdoh.TypeAAAA) {
				m.Ambiguous = true
			}
		}
	}
	delete(m.DNSNames, canon(host))
	m.Faulty = faultTouches(z, involved)
	return m
}

// mustUpgrade: the origin certainly publishes HTTPS records (a ServiceMode
// record is reached). mustNotUpgrade: it certainly publishes none.
func (m *originModel) mustUpgrade() bool { return !m.Ambiguous && !m.Faulty && len(m.Svc) > 0 }
func (m *originModel) mustNotUpgrade() bool {
	return !m.Ambiguous && !m.Faulty && !m.HTTPSPresent
}

// wantH3 is the HTTP/3 decision: "yes", "no" or "open". Usable = the client
// supports one of the record's protocols (h3 only when an HTTP/3 round-tripper
// is configured; h2 and http/1.1 always).
func (m *originModel) wantH3(h3Configured bool) string {
	if !h3Configured {
		return "no"
	}
	if m.Ambiguous || m.Faulty {
		return "open"
	}
	best := -1
	for i, s := range m.Svc {
		if s.offersH3() || s.offersTCP() {
			best = i
			break
		}
	}
	if best < 0 {
		return "no"
	}
	yes, no := 0, 0
	for _, s := range m.Svc {
		if s.Prio != m.Svc[best].Prio || !(s.offersH3() || s.offersTCP()) {
			continue
		}
		if s.offersH3() {
			yes++
		} else {
			no++
		}
	}
	switch {
	case no == 0:
		return "yes"
	case yes == 0:
		return "no"
	}
	return "open"
}

type mTarget struct {
	Addr netip.AddrPort
	ECH  []byte
	Rec  int // index into Svc, -1 for a plain address
}

// targets lists the dial targets for the records accepted by keep, in order
// (A.3). portAlt: when the list falls back to plain origin addresses and the
// origin port is 80 (an upgraded http URL), both 80 and 443 are listed -- the
// statement does not say which.
func (m *originModel) targets(keep func(svcRec) bool) (list []mTarget, fromHTTPS bool) {
	seen := map[netip.AddrPort]bool{}
	add := func(a netip.Addr, port int, ech []byte, rec int) {
		ap := netip.AddrPortFrom(a, uint16(port))
		if seen[ap] {
			return
		}
		seen[ap] = true
		list = append(list, mTarget{Addr: ap, ECH: ech, Rec: rec})
	}
	for i, s := range m.Svc {
		if !keep(s) {
			continue
		}
		port := int(s.Port)
		if port == 0 {
			port = m.Port
			if port == 80 {
				port = 443
			}
		}
		var addrs []netip.Addr
		switch {
		case s.Target != "":
			addrs = m.TargetAddrs[s.Target]
		case len(m.OriginAddrs) > 0:
			addrs = m.OriginAddrs
		default:
			for _, h := range append(append([]string(nil), s.V4...), s.V6...) {
				if a, err := netip.ParseAddr(h); err == nil {
					addrs = append(addrs, a.Unmap())
				}
			}
		}
		for _, a := range addrs {
			add(a, port, s.ECH, i)
		}
	}
	if len(list) > 0 {
		return list, true
	}
	for _, a := range m.OriginAddrs {
		add(a, m.Port, nil, -1)
	}
	if m.Port == 80 {
		for _, a := range m.OriginAddrs {
			add(a, 443, nil, -1)
		}
	}
	return list, false
}

func (m *originModel) tcpTargets() ([]mTarget, bool) {
	return m.targets(func(s svcRec) bool { return s.offersTCP() })
}
func (m *originModel) h3Targets() ([]mTarget, bool) {
	return m.targets(func(s svcRec) bool { return s.offersH3() })
}
func (m *originModel) allTargets() []mTarget {
	l, _ := m.targets(func(s svcRec) bool { return true })
	return l
}

// ---------------------------------------------------------------------------
// the simulated network as the model sees it

type netModel struct {
	tls   map[netip.AddrPort]*Node
	plain map[netip.AddrPort]*Node
	h3    map[netip.AddrPort]*Node
	// static: the config list the client brings along for every dial (nil: the
	// list comes from the record that produced the target)
	static []byte
}

func newNetModel(nodes []Node) *netModel {
	n := &netModel{tls: map[netip.AddrPort]*Node{}, plain: map[netip.AddrPort]*Node{}, h3: map[netip.AddrPort]*Node{}}
	for i := range nodes {
		nd := &nodes[i]
		a, err := netip.ParseAddr(nd.IP)
		if err != nil {
			continue
		}
		a = a.Unmap()
		put := func(m map[netip.AddrPort]*Node, ports []int) {
			for _, p := range ports {
				ap := netip.AddrPortFrom(a, uint16(p))
				if _, dup := m[ap]; !dup {
					m[ap] = nd
				}
			}
		}
		put(n.tls, nd.TLSPorts)
		put(n.h3, nd.H3Ports)
	}
	// a port that speaks TLS does not also speak cleartext
	for i := range nodes {
		nd := &nodes[i]
		a, err := netip.ParseAddr(nd.IP)
		if err != nil {
			continue
		}
		for _, p := range nd.PlainPorts {
			ap := netip.AddrPortFrom(a.Unmap(), uint16(p))
			if _, dup := n.plain[ap]; !dup && n.tls[ap] == nil {
				n.plain[ap] = nd
			}
		}
	}
	return n
}

// certCovers: does the node's certificate authenticate host? (exact names
// only; the generator uses no wildcards)
func certCovers(nd *Node, host string) bool {
	h := canon(host)
	if a, err := netip.ParseAddr(h); err == nil {
		for _, n := range nd.CertNames {
			if b, err := netip.ParseAddr(n); err == nil && a.Unmap() == b.Unmap() {
				return true
			}
		}
		return false
	}
	for _, n := range nd.CertNames {
		if canon(n) == h {
			return true
		}
	}
	return false
}

// echMaterial derives the node's ECH key and config list from its spec.
func echMaterial(e *ECHSpec) (priv, cfg, list []byte) {
	seed := make([]byte, 32)
	for i := range seed {
		seed[i] = byte(e.KeySeed*31 + i*7 + 1)
	}
	priv, pub := echbox.KeyFromSeed(seed)
	cfg = echbox.BuildConfig(e.ID, pub, e.PublicName, []echbox.Suite{{KDF: 1, AEAD: 1}}, byte(min(len(e.PublicName)+16, 255)))
	return priv, cfg, echbox.ConfigListOf(cfg)
}

// goodTCP: a TLS handshake to this target for host succeeds in the simulated
// network: somebody listens, its certificate covers the host, and if the
// record carries an ECH config the listener holds the key for it.
func (n *netModel) goodTCP(t mTarget, host string) bool {
	nd := n.tls[t.Addr]
	if nd == nil || !certCovers(nd, host) {
		return false
	}
	ech := t.ECH
	if n.static != nil {
		ech = n.static
	}
	if len(ech) > 0 {
		if nd.ECH == nil {
			return false
		}
		_, _, list := echMaterial(nd.ECH)
		if !slices.Equal(list, ech) {
			return false
		}
	}
	return true
}
