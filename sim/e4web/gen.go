//go:build verif

package e4web

import (
	"fmt"
	"math/rand/v2"
	"slices"
	"strings"

	"verifsim/core"
	"verifsim/simdoh"
	"verifsim/simnet"
)

// The generator builds a small universe constructively (nodes, hosts homed on
// nodes, DNS that mostly points where it should and sometimes does not) and a
// request sequence over it. The oracle never looks at how the plan was built:
// it recomputes everything from the plan's zone and node list.

var hostPool = []string{"a.example", "b.example", "www.a.example", "c.test", "d.test"}

var alpnChoices = [][]string{
	nil, nil,
	{"h2"}, {"h2"},
	{"h3"}, {"h3"}, {"h3"},
	{"h3", "h2"}, {"h3", "h2"},
	{"h2", "h3"},
	{"h2", "http/1.1"},
	{"http/1.1"},
	{"foo"}, {"foo"},
	{"h3", "foo"},
	{"h3-29", "bar"},
}

type hostInfo struct {
	name     string
	home     int   // node index
	ports    []int // explicit ports this host is addressed with
	addrName string
}

type gen struct {
	r      *rand.Rand
	p      *Plan
	hosts  []*hostInfo
	nsvc   int
	nalias int
	ncname int
	ttl    uint32
}

func (g *gen) chance(num, den int) bool { return core.Chance(g.r, num, den) }

func nodeIP(i int, v6 bool) string {
	if v6 {
		return fmt.Sprintf("fd00::%x", i+1)
	}
	return fmt.Sprintf("10.0.0.%d", i+1)
}

func (g *gen) deadIP() string {
	if g.chance(1, 5) {
		return fmt.Sprintf("10.9.7.%d", 1+g.r.IntN(200)) // black hole
	}
	if g.chance(1, 4) {
		return fmt.Sprintf("fd00::dead:%x", 1+g.r.IntN(200))
	}
	return fmt.Sprintf("10.9.9.%d", 1+g.r.IntN(200))
}

func isV6(ip string) bool { return strings.Contains(ip, ":") }

func (g *gen) addAddr(name, ip string) {
	typ := uint16(simdoh.TypeA)
	if isV6(ip) {
		typ = simdoh.TypeAAAA
	}
	for _, rr := range g.p.Zone.RRs {
		if rr.Type == typ && rr.Name == name && rr.IP == ip {
			return
		}
	}
	g.p.Zone.RRs = append(g.p.Zone.RRs, simdoh.RR{Name: name, Type: typ, TTL: g.ttl, IP: ip})
}

func addPort(ports []int, p int) []int {
	if slices.Contains(ports, p) {
		return ports
	}
	return append(ports, p)
}

// wrongNode returns a node whose certificate does not cover host (creating an
// "evil" one if needed).
func (g *gen) wrongNode(host string) int {
	var c []int
	for i := range g.p.Nodes {
		if !certCovers(&g.p.Nodes[i], host) {
			c = append(c, i)
		}
	}
	if len(c) > 0 {
		return core.Pick(g.r, c)
	}
	i := len(g.p.Nodes)
	g.p.Nodes = append(g.p.Nodes, Node{IP: nodeIP(i, false), CertNames: []string{"evil.test"}, TLSPorts: []int{443}})
	if g.chance(1, 2) {
		g.p.Nodes[i].PlainPorts = []int{80}
		g.p.Nodes[i].H3Ports = []int{443}
	}
	return i
}

// landing picks where a name used as an address source points: mostly the
// home node, sometimes a dead address, sometimes a node with the wrong
// certificate, sometimes several.
func (g *gen) pointName(name string, h *hostInfo) {
	home := g.p.Nodes[h.home].IP
	switch x := g.r.IntN(100); {
	case x < 62:
		g.addAddr(name, home)
	case x < 72:
		g.addAddr(name, g.deadIP())
		g.addAddr(name, home)
	case x < 80:
		g.addAddr(name, g.p.Nodes[g.wrongNode(h.name)].IP)
		g.addAddr(name, home)
	case x < 86:
		g.addAddr(name, g.p.Nodes[g.wrongNode(h.name)].IP)
	case x < 90:
		g.addAddr(name, g.deadIP())
	default:
		// every node whose certificate covers the host
		g.addAddr(name, home)
		for i := range g.p.Nodes {
			if certCovers(&g.p.Nodes[i], h.name) {
				g.addAddr(name, g.p.Nodes[i].IP)
			}
		}
	}
}

func (g *gen) nodeOfIP(ip string) *Node {
	for i := range g.p.Nodes {
		if g.p.Nodes[i].IP == ip {
			return &g.p.Nodes[i]
		}
	}
	return nil
}

// firstLanding: the node the first address of name belongs to (for ECH).
func (g *gen) landingNodes(name string) []*Node {
	var out []*Node
	for _, a := range zoneAddrs(&g.p.Zone, name) {
		if nd := g.nodeOfIP(a.String()); nd != nil {
			out = append(out, nd)
		}
	}
	return out
}

// svcSet writes 1..3 ServiceMode records owned by owner. originName is the
// name whose addresses are used by records without a target.
func (g *gen) svcSet(owner, originName string, h *hostInfo, urlPort int) {
	n := core.Pick(g.r, []int{1, 1, 2, 2, 2, 3})
	prios := g.r.Perm(6)
	tie := g.chance(1, 25)
	for i := 0; i < n; i++ {
		s := &simdoh.Svc{Priority: uint16(prios[i] + 1)}
		if tie && i > 0 {
			s.Priority = uint16(prios[0] + 1)
		}
		s.ALPN = append([]string(nil), core.Pick(g.r, alpnChoices)...)
		if len(s.ALPN) > 0 && g.chance(7, 20) {
			s.NoDefaultALPN = true
		}
		rr := simdoh.RR{Name: owner, Type: simdoh.TypeHTTPS, TTL: g.ttl, Svc: s}
		landName := originName
		if g.chance(3, 10) {
			g.nsvc++
			rr.Target = fmt.Sprintf("svc%d.cdn.test", g.nsvc)
			if g.chance(1, 6) && g.nsvc > 1 {
				rr.Target = fmt.Sprintf("svc%d.cdn.test", 1+g.r.IntN(g.nsvc-1)) // share a target
			}
			if len(zoneAddrs(&g.p.Zone, rr.Target)) == 0 && !g.chance(1, 15) {
				g.pointName(rr.Target, h)
			}
			landName = rr.Target
		}
		if g.chance(1, 4) {
			s.Port = uint16(core.Pick(g.r, []int{8444, 8444, 443, 9443}))
			if g.chance(4, 5) {
				nd := &g.p.Nodes[h.home]
				nd.TLSPorts = addPort(nd.TLSPorts, int(s.Port))
				if g.chance(2, 3) {
					nd.H3Ports = addPort(nd.H3Ports, int(s.Port))
				}
			}
		}
		lands := g.landingNodes(landName)
		if len(lands) == 0 && rr.Target == "" {
			// origin without addresses: hints
			if g.chance(4, 5) {
				ip := g.p.Nodes[h.home].IP
				if isV6(ip) {
					s.V6Hint = []string{ip}
				} else {
					s.V4Hint = []string{ip}
				}
				lands = []*Node{&g.p.Nodes[h.home]}
			}
		} else if rr.Target == "" && g.chance(1, 6) {
			s.V4Hint = []string{g.deadIP4()} // must be ignored: the origin has addresses
		}
		// ECH only when every landing node holds the same key
		if len(lands) > 0 && lands[0].ECH != nil && g.chance(4, 5) {
			same := true
			for _, nd := range lands {
				if nd.ECH == nil || *nd.ECH != *lands[0].ECH {
					same = false
				}
			}
			if same {
				_, _, list := echMaterial(lands[0].ECH)
				s.ECH = list
			}
		}
		g.p.Zone.RRs = append(g.p.Zone.RRs, rr)
	}
}

func (g *gen) deadIP4() string { return fmt.Sprintf("10.9.8.%d", 1+g.r.IntN(200)) }

// httpsFor publishes (or not) HTTPS records for host h at the QNAME of port.
func (g *gen) httpsFor(h *hostInfo, port int) {
	qname := h.name
	if port != 80 && port != 443 {
		qname = fmt.Sprintf("_%d._https.%s", port, h.name)
	}
	for _, rr := range g.p.Zone.RRs {
		if rr.Type == simdoh.TypeHTTPS && rr.Name == qname {
			return
		}
	}
	switch x := g.r.IntN(100); {
	case x < 30:
		// no HTTPS records
	case x < 78:
		g.svcSet(qname, h.addrName, h, port)
	case x < 92:
		// alias chain of depth 1 or 2 ending in a service set
		depth := 1
		if g.chance(1, 4) {
			depth = 2
		}
		cur := qname
		for d := 0; d < depth; d++ {
			g.nalias++
			next := fmt.Sprintf("alias%d.net.test", g.nalias)
			g.p.Zone.RRs = append(g.p.Zone.RRs, simdoh.RR{Name: cur, Type: simdoh.TypeHTTPS, TTL: g.ttl, Target: next, Svc: &simdoh.Svc{Priority: 0}})
			cur = next
		}
		if !g.chance(1, 12) {
			g.pointName(cur, h)
		}
		g.svcSet(cur, cur, h, port)
	case x < 96:
		// alias to a name without service records (it may have addresses)
		g.nalias++
		next := fmt.Sprintf("alias%d.net.test", g.nalias)
		g.p.Zone.RRs = append(g.p.Zone.RRs, simdoh.RR{Name: qname, Type: simdoh.TypeHTTPS, TTL: g.ttl, Target: next, Svc: &simdoh.Svc{Priority: 0}})
		if g.chance(2, 3) {
			g.pointName(next, h)
		}
	case x < 98:
		// alias chain of depth 3 (open)
		cur := qname
		for d := 0; d < 3; d++ {
			g.nalias++
			next := fmt.Sprintf("alias%d.net.test", g.nalias)
			g.p.Zone.RRs = append(g.p.Zone.RRs, simdoh.RR{Name: cur, Type: simdoh.TypeHTTPS, TTL: g.ttl, Target: next, Svc: &simdoh.Svc{Priority: 0}})
			cur = next
		}
		g.pointName(cur, h)
		g.svcSet(cur, cur, h, port)
	default:
		// alias loop (open)
		g.nalias++
		next := fmt.Sprintf("alias%d.net.test", g.nalias)
		g.p.Zone.RRs = append(g.p.Zone.RRs, simdoh.RR{Name: qname, Type: simdoh.TypeHTTPS, TTL: g.ttl, Target: next, Svc: &simdoh.Svc{Priority: 0}})
		g.p.Zone.RRs = append(g.p.Zone.RRs, simdoh.RR{Name: next, Type: simdoh.TypeHTTPS, TTL: g.ttl, Target: qname, Svc: &simdoh.Svc{Priority: 0}})
	}
}

func genPlan(seed uint64, idx int) *Plan {
	r := core.NewRand(seed, "plan")
	p := &Plan{Seed: seed, CacheSize: -1}
	g := &gen{r: r, p: p, ttl: uint32(core.Pick(r, []int{30, 300, 3600}))}

	// nodes
	nn := core.Pick(r, []int{1, 2, 2, 3, 3, 4})
	for i := 0; i < nn; i++ {
		nd := Node{IP: nodeIP(i, g.chance(1, 4)), TLSPorts: []int{443}}
		switch x := r.IntN(20); {
		case x < 12:
			nd.ALPN = []string{"h2", "http/1.1"}
		case x < 15:
			nd.ALPN = []string{"http/1.1"}
		}
		if g.chance(3, 5) {
			nd.PlainPorts = []int{80}
		}
		if g.chance(7, 10) {
			nd.H3Ports = []int{443}
		}
		if g.chance(3, 10) {
			nd.ECH = &ECHSpec{ID: uint8(r.IntN(256)), PublicName: fmt.Sprintf("public%d.cdn.test", i), KeySeed: r.IntN(1 << 20)}
		}
		p.Nodes = append(p.Nodes, nd)
	}
	if g.chance(1, 10) {
		p.StaticECH = true
		if idx%2 == 1 {
			p.StaticECH, p.BootstrapECH = false, true
		}
		spec := &ECHSpec{ID: uint8(r.IntN(256)), PublicName: "public.static.test", KeySeed: r.IntN(1 << 20)}
		for i := range p.Nodes {
			p.Nodes[i].ECH = spec
		}
	}

	// hosts
	nh := core.Pick(r, []int{1, 2, 2, 3, 3, 4})
	perm := r.Perm(len(hostPool))
	prevHome := r.IntN(nn)
	for i := 0; i < nh; i++ {
		h := &hostInfo{name: hostPool[perm[i]]}
		h.home = prevHome
		if i > 0 && !g.chance(11, 20) {
			h.home = r.IntN(nn)
		}
		prevHome = h.home
		h.addrName = h.name
		nd := &p.Nodes[h.home]
		nd.CertNames = append(nd.CertNames, h.name)
		if g.chance(1, 5) && nn > 1 {
			o := &p.Nodes[r.IntN(nn)]
			if !certCovers(o, h.name) {
				o.CertNames = append(o.CertNames, h.name)
			}
		}
		if g.chance(2, 5) {
			pt := core.Pick(r, []int{8443, 8443, 4443})
			h.ports = append(h.ports, pt)
			if !g.chance(1, 10) {
				nd.TLSPorts = addPort(nd.TLSPorts, pt)
				if g.chance(1, 2) {
					nd.H3Ports = addPort(nd.H3Ports, pt)
				}
			}
		}
		if g.chance(1, 6) {
			h.ports = append(h.ports, 8080) // typically addressed as http://host:8080
			if g.chance(2, 3) {
				nd.PlainPorts = addPort(nd.PlainPorts, 8080)
			}
			if g.chance(2, 3) {
				nd.TLSPorts = addPort(nd.TLSPorts, 8080)
			}
		}
		g.hosts = append(g.hosts, h)
	}
	// One plan in ten has an origin whose host NAME is spelt like the text the
	// Transport derives from another origin (scheme, host, port): two distinct
	// origins all the same, each with its own certificate and home.
	var keyHost, keyPeer *hostInfo
	if g.chance(1, 10) {
		h0 := g.hosts[0]
		nd0 := &p.Nodes[h0.home]
		if !slices.Contains(h0.ports, 8443) {
			h0.ports = append(h0.ports, 8443)
		}
		nd0.TLSPorts = addPort(nd0.TLSPorts, 8443)
		kh := &hostInfo{name: fmt.Sprintf("_8443._https.%s._", h0.name), home: r.IntN(nn)}
		kh.addrName = kh.name
		nk := &p.Nodes[kh.home]
		nk.CertNames = append(nk.CertNames, kh.name)
		g.hosts = append(g.hosts, kh)
		keyHost, keyPeer = kh, h0
	}
	for i := range p.Nodes {
		if len(p.Nodes[i].CertNames) == 0 {
			p.Nodes[i].CertNames = []string{fmt.Sprintf("unused%d.test", i)}
		}
	}

	// DNS
	for _, h := range g.hosts {
		switch x := r.IntN(100); {
		case x < 4:
			// no addresses at all (hints may help)
		case x < 16:
			g.ncname++
			h.addrName = fmt.Sprintf("edge%d.cdn.test", g.ncname)
			p.Zone.RRs = append(p.Zone.RRs, simdoh.RR{Name: h.name, Type: simdoh.TypeCNAME, TTL: g.ttl, Target: h.addrName})
			g.pointName(h.addrName, h)
			h.addrName = h.name // lookups start at the host; the CNAME is followed by the upstream
		default:
			g.pointName(h.name, h)
		}
	}
	for _, h := range g.hosts {
		hasCNAME := false
		for _, rr := range p.Zone.RRs {
			if rr.Type == simdoh.TypeCNAME && rr.Name == h.name {
				hasCNAME = true
			}
		}
		if !hasCNAME { // a name with a CNAME owns nothing else
			g.httpsFor(h, 443)
		} else if g.chance(1, 2) {
			// HTTPS records at the CNAME target are what a lookup for the host returns
			var tgt string
			for _, rr := range p.Zone.RRs {
				if rr.Type == simdoh.TypeCNAME && rr.Name == h.name {
					tgt = rr.Target
				}
			}
			hh := *h // same host (certificate, home node); the records live at the CNAME target
			hh.addrName = tgt
			g.svcSetAt(tgt, &hh)
		}
		for _, pt := range h.ports {
			g.httpsFor(h, pt)
		}
	}

	// Byzantine extras appended to every answer of their type
	if g.chance(1, 4) {
		evil := p.Nodes[g.wrongNode(g.hosts[0].name)].IP
		victim := core.Pick(r, g.hosts).name
		for _, owner := range []string{"evil.test", victim} {
			if g.chance(2, 3) {
				typ := uint16(simdoh.TypeA)
				if isV6(evil) {
					typ = simdoh.TypeAAAA
				}
				p.Zone.Poison = append(p.Zone.Poison, simdoh.RR{Name: owner, Type: typ, TTL: g.ttl, IP: evil})
			}
			if g.chance(1, 2) {
				p.Zone.Poison = append(p.Zone.Poison, simdoh.RR{Name: owner, Type: simdoh.TypeHTTPS, TTL: g.ttl,
					Svc: &simdoh.Svc{Priority: 1, ALPN: []string{"h3", "h2"}, Port: 443}})
			}
		}
	}
	if g.chance(1, 12) {
		h := core.Pick(r, g.hosts)
		p.Zone.Faults = append(p.Zone.Faults, simdoh.Fault{Name: h.name, Type: core.Pick(r, []uint16{simdoh.TypeHTTPS, simdoh.TypeA, simdoh.TypeAAAA, 0}),
			Kind: simdoh.FaultRCode, RCode: core.Pick(r, []int{2, 3, 5})})
	}

	// client configuration
	p.H3 = g.chance(11, 20)
	p.PlainReconfigured = g.chance(1, 5)
	switch x := r.IntN(20); {
	case x < 8:
		p.ClientALPN = []string{"h2", "http/1.1"}
	case x < 10:
		p.ClientALPN = []string{"http/1.1"}
	}
	p.Direct = g.chance(1, 4)
	p.Link = simnet.LinkCfg{Seg: core.Pick(r, []string{simnet.SegWhole, simnet.SegWhole, simnet.SegWhole, simnet.SegRandom, simnet.SegRandom, simnet.SegRecord}),
		MaxSeg: core.Pick(r, []int{40, 700, 4000}), LatMinUs: 0, LatMaxUs: core.Pick(r, []int{0, 0, 50, 400}), ShortRead: g.chance(1, 5)}
	p.DoHLatencyUs = core.Pick(r, []int{0, 0, 300, 5000})
	p.CacheSize = core.Pick(r, []int{-1, -1, -1, 0, 2})

	// requests
	nr := core.Pick(r, []int{1, 2, 3, 3, 4, 4, 5, 6, 7, 8})
	if keyHost != nil {
		nr = max(nr, 3)
	}
	for i := 0; i < nr; i++ {
		var q Req
		if i > 0 && g.chance(3, 10) {
			prev := p.Reqs[r.IntN(i)]
			q = Req{Scheme: prev.Scheme, Host: prev.Host, Port: prev.Port}
			if g.chance(1, 4) {
				q.Scheme = core.Pick(r, []string{"http", "https"})
				if q.Port == 80 || q.Port == 443 {
					q.Port = -1
				}
			}
		} else {
			h := core.Pick(r, g.hosts)
			q = Req{Scheme: "https", Host: h.name, Port: -1}
			if g.chance(7, 20) {
				q.Scheme = "http"
			}
			switch x := r.IntN(20); {
			case x < 5 && len(h.ports) > 0:
				q.Port = core.Pick(r, h.ports)
				if q.Port == 8080 && g.chance(3, 4) {
					q.Scheme = "http"
				}
			case x < 7:
				q.Port = 443
				if q.Scheme == "http" {
					q.Port = 80
				}
			case x < 9:
				// the other scheme's default port, written out (https://host:80,
				// http://host:443): origins of their own
				q.Port = 80
				if q.Scheme == "http" {
					q.Port = 443
				}
			}
			if g.chance(1, 30) {
				// IP literal (IPv4 only; see Describe)
				nd := &p.Nodes[h.home]
				if !isV6(nd.IP) {
					q = Req{Scheme: "https", Host: nd.IP, Port: -1}
					if g.chance(3, 4) && !slices.Contains(nd.CertNames, nd.IP) {
						nd.CertNames = append(nd.CertNames, nd.IP)
					}
				}
			}
		}
		if keyHost != nil && i < 3 {
			// the two look-alike origins, one after the other, then the first again
			q = Req{Scheme: "https", Host: keyPeer.name, Port: 8443}
			if i == 1 {
				q = Req{Scheme: "https", Host: keyHost.name, Port: -1}
			}
		}
		q.Path = fmt.Sprintf("/r%d?x=%d", i, r.IntN(100))
		if g.chance(3, 20) && (keyHost == nil || i >= 3) {
			switch r.IntN(4) {
			case 0:
				q.HostOverride = "override.invalid"
			case 1:
				q.HostOverride = core.Pick(r, g.hosts).name
			case 2:
				q.HostOverride = core.Pick(r, hostPool)
			default:
				q.HostOverride = q.Host + ":8081"
			}
		}
		if q.HostOverride == "" && g.chance(1, 4) {
			q.EmptyHost = true
		}
		q.Method = "GET"
		if g.chance(1, 5) {
			q.Method = "POST"
			q.BodyLen = core.Pick(r, []int{1, 100, 3000})
		}
		q.RespSize = core.Pick(r, []int{0, 10, 10, 1000, 20000})
		q.NoDrain = g.chance(1, 12)
		if g.chance(1, 12) && i+1 < nr {
			q.TimeoutMs = core.Pick(r, []int{1, 200, 1500, 40000})
		}
		p.Reqs = append(p.Reqs, q)
	}
	p.DialerResolver = idx%6 == 4
	return p
}

// svcSetAt writes a service set owned by name (used for names reached through
// a CNAME).
func (g *gen) svcSetAt(name string, h *hostInfo) {
	for _, rr := range g.p.Zone.RRs {
		if rr.Type == simdoh.TypeHTTPS && rr.Name == name {
			return
		}
	}
	g.svcSet(name, name, h, 443)
}
