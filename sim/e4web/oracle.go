//go:build verif

package e4web

import (
	"fmt"
	"net/netip"
	"slices"
	"sort"
	"strings"

	"verifsim/core"
)

// The oracle is written from the statement of C19:
//
//	(1) never a request over plaintext TCP unless reconfigured to;
//	(2) http is upgraded to https when (and, per DESIGN section 6, only when)
//	    the origin publishes HTTPS records;
//	(3) the server is authenticated against the URL's host name whatever DNS
//	    says: every TLS dial names the URL host, a response only ever comes
//	    from a server whose certificate covers it;
//	(4) the origin receives the caller's Host/authority;
//	(5) a pooled connection is never shared between different
//	    scheme/host/port origins;
//	(6) HTTP/3 exactly when an HTTP/3 round-tripper is configured and the
//	    most-preferred usable HTTPS record offers h3;
//	(7) dial targets restricted to records compatible with the chosen protocol;
//	(8) the response is bound to the caller's original, unmodified request.
//
// Where the statement is silent (which error, dial order, port of the plain
// fallback of an upgraded request, zones of open shape) nothing is asserted.

type triple struct {
	scheme string
	host   string
	port   int
}

func (t triple) String() string { return fmt.Sprintf("%s://%s:%d", t.scheme, t.host, t.port) }

// originTriple is the (scheme, host, port) origin a request addresses;
// overTLS: the exchange runs over TLS (an http URL then counts as its https
// upgrade, 80 becoming 443, RFC 9460 section 9.5).
func originTriple(q Req, overTLS bool) triple {
	t := triple{scheme: q.Scheme, host: canon(q.Host), port: q.effPort()}
	if q.Scheme == "http" && overTLS {
		t.scheme = "https"
		if t.port == 80 {
			t.port = 443
		}
	}
	return t
}

func inTargets(list []mTarget, ap netip.AddrPort) bool {
	for _, t := range list {
		if t.Addr == ap {
			return true
		}
	}
	return false
}

func sniSite(sni string, q Req, m *originModel) string {
	switch {
	case sni == "":
		return "TLS dial without a ServerName"
	case q.HostOverride != "" && (canon(sni) == canon(q.HostOverride) || canon(sni) == canon(hostOnly(q.HostOverride))):
		return "TLS ServerName taken from the caller's Host override instead of the URL host"
	case m.DNSNames[canon(sni)] != "":
		return "TLS ServerName is a name taken from DNS (" + m.DNSNames[canon(sni)] + ") instead of the URL host"
	case keyAddrRE.MatchString(sni):
		return "TLS ServerName is the connection-pool key instead of the URL host"
	case canon(sni) == canon(q.hostPort()) && q.Port >= 0:
		return "TLS ServerName includes the port"
	}
	return "TLS ServerName differs from the URL host"
}

func hostOnly(hp string) string {
	if i := strings.LastIndexByte(hp, ':'); i > 0 && !strings.Contains(hp[i:], "]") {
		return hp[:i]
	}
	return hp
}

func judge(prop string, p *Plan, r *run, obs []*reqObs, res *core.Result) {
	fail := func(class, site, f string, a ...any) { res.Fail(prop, class, site, f, a...) }
	for _, pn := range r.panics {
		parts := strings.SplitN(pn, "|", 3)
		if strings.HasPrefix(parts[1], "ech") {
			fail("panic", parts[1]+": "+normMsg(parts[2]), "in %s: %s", parts[0], parts[2])
		} else {
			res.Harness = "panic outside the library: " + pn
			return
		}
	}

	// group the observations by request
	n := len(p.Reqs)
	dials := make([][]*dialRec, n)
	plains := make([][]*plainRec, n)
	h3s := make([][]*h3Rec, n)
	serves := make([][]*serveRec, n)
	for _, d := range r.dials {
		if d.Req >= 0 && d.Req < n {
			dials[d.Req] = append(dials[d.Req], d)
		}
	}
	for _, d := range r.plains {
		if d.Req >= 0 && d.Req < n {
			plains[d.Req] = append(plains[d.Req], d)
		}
	}
	for _, d := range r.h3s {
		if d.Req >= 0 && d.Req < n {
			h3s[d.Req] = append(h3s[d.Req], d)
		}
	}
	for _, s := range r.serves {
		if s.Tag >= 0 && s.Tag < n {
			serves[s.Tag] = append(serves[s.Tag], s)
		} else {
			res.Harness = fmt.Sprintf("origin saw a request without a usable tag (%d)", s.Tag)
			return
		}
	}

	var log []string
	var sig []string
	sig = append(sig, fmt.Sprintf("h3=%v plain=%v alpn=%d direct=%v", p.H3, p.PlainReconfigured, len(p.ClientALPN), p.Direct))
	connUses := map[int]int{}
	h3Keys := map[string]triple{}
	servedHostsByEP := map[string]map[string]bool{}
	portsByHost := map[string]map[int]bool{}
	progress := false

	for i, q := range p.Reqs {
		o := obs[i]
		if o == nil {
			continue
		}
		m := modelOrigin(&p.Zone, q.Host, q.effPort())
		want := fmt.Sprintf("req %d %s %s", i, q.Method, q.URL())
		if q.HostOverride != "" {
			want += " Host=" + q.HostOverride
		} else if q.EmptyHost {
			want += " Host unset"
		}
		if o.panicked {
			if strings.HasPrefix(o.psite, "ech") {
				fail("panic", o.psite+": "+normMsg(o.pmsg), "%s: RoundTrip panicked: %s", want, o.pmsg)
			} else {
				res.Harness = "panic outside the library during " + want + ": " + o.pmsg + " @" + o.psite
				return
			}
			log = append(log, want+" panic")
			sig = append(sig, "panic")
			continue
		}
		if o.errClass == "bad-request" {
			res.Harness = "cannot build request: " + o.err.Error()
			return
		}

		var tlsDials, udpDials []*dialRec
		for _, d := range dials[i] {
			if d.Phase == "" {
				tlsDials = append(tlsDials, d)
			} else {
				udpDials = append(udpDials, d)
			}
		}
		h3Ran := len(h3s[i]) > 0
		overTLS := len(tlsDials) > 0 || h3Ran
		var served *serveRec
		if o.resp && !o.viaH3 {
			for _, s := range serves[i] {
				if s.ID == o.serveID {
					served = s
				}
			}
			if served == nil {
				res.Harness = fmt.Sprintf("%s: response without a matching origin record (serve id %d)", want, o.serveID)
				return
			}
			if !served.Plain {
				overTLS = true
			}
		}
		expHost := q.hostPort()
		if q.HostOverride != "" {
			expHost = q.HostOverride
		}

		// (1) plaintext
		for _, pd := range plains[i] {
			switch {
			case q.Scheme == "https":
				fail("plaintext", "cleartext TCP dial for an https URL", "%s: HTTPTransport.DialContext(%q)", want, pd.Addr)
			case m.mustUpgrade():
				fail("not-upgraded", "http URL whose origin publishes HTTPS records is dialled in cleartext", "%s: HTTPS records at %s; HTTPTransport.DialContext(%q)", want, m.QName, pd.Addr)
			}
			if pd.Established && !p.PlainReconfigured {
				if pd.Note == "default-nil" {
					fail("plaintext", "NewTransport leaves the cleartext dialer unset: a cleartext connection is made in the default configuration", "%s: connection to %q established", want, pd.Addr)
				} else {
					fail("plaintext", "the default cleartext dialer returns a connection", "%s: connection for %q", want, pd.Addr)
				}
			}
		}
		for _, s := range serves[i] {
			if s.Plain && !p.PlainReconfigured {
				fail("plaintext", "request delivered over cleartext TCP in the default configuration", "%s reached %s in clear (Host %q)", want, s.Endpoint, s.Host)
			}
			if s.Plain && q.Scheme == "https" {
				fail("plaintext", "https request delivered over cleartext TCP", "%s reached %s in clear", want, s.Endpoint)
			}
		}
		if q.Scheme == "http" && !p.PlainReconfigured && !overTLS && len(plains[i]) > 0 && !o.resp {
			res.Probe("plaintext_refused")
			progress = true
		}
		if q.Scheme == "http" && p.PlainReconfigured && served != nil && served.Plain {
			res.Probe("plaintext_allowed_when_reconfigured")
			progress = true
		}

		// (2) upgrade
		if q.Scheme == "http" {
			if overTLS && m.mustNotUpgrade() {
				fail("upgrade", "http URL sent over TLS although the origin publishes no HTTPS records", "%s: no HTTPS record at %s", want, m.QName)
			}
			if overTLS && m.mustUpgrade() {
				res.Probe("http_upgraded")
				if q.Port >= 0 && q.Port != 80 {
					res.Probe("http_upgraded_explicit_port")
				}
			}
			for _, h := range h3s[i] {
				if h.Scheme != "https" {
					fail("not-upgraded", "HTTP/3 round-tripper is handed an http URL", "%s: scheme %q", want, h.Scheme)
				}
			}
		}

		// (3) server name and authentication
		for _, d := range dials[i] {
			if !strings.EqualFold(d.SNI, q.Host) {
				fail("server-name", sniSite(d.SNI, q, m), "%s: %s dial of %s with ServerName %q", want, d.Network, d.Addr, d.SNI)
			}
			if d.ISV {
				fail("server-auth", "TLS dial with certificate verification disabled", "%s: dial of %s", want, d.Addr)
			}
		}
		if served != nil && !served.Plain {
			nd := &p.Nodes[served.Node]
			if !certCovers(nd, q.Host) {
				fail("server-auth", "response accepted from a server whose certificate does not cover the URL host", "%s answered by %s (certificate for %v)", want, served.Endpoint, nd.CertNames)
			}
			if served.SNI != "" && canon(served.SNI) != canon(q.Host) {
				fail("server-name", "origin saw another server name than the URL host", "%s: SNI %q at %s", want, served.SNI, served.Endpoint)
			}
			if served.ECHOK {
				res.Probe("ech_accepted")
			}
			if strings.HasPrefix(served.Proto, "HTTP/2") {
				res.Probe("http2_used")
			}
		}
		for _, d := range tlsDials {
			if strings.HasPrefix(d.Outcome, "handshake-failed:cert") {
				res.Probe("wrong_cert_rejected")
				progress = true
			}
			if d.Late {
				res.Probe("dial_after_decision")
			}
			if d.Outcome == "blackhole" {
				res.Probe("blackholed_target")
			}
		}

		// (4) Host / authority
		for _, s := range serves[i] {
			if s.Host != expHost {
				site := "origin receives another Host than the URL's host[:port]"
				switch {
				case q.HostOverride != "" && s.Host == q.hostPort():
					site = "caller's Host override replaced by the URL host"
				case q.HostOverride != "":
					site = "origin receives another Host than the caller's override"
				case keyAddrRE.MatchString(hostOnly(s.Host)) || keyAddrRE.MatchString(s.Host):
					site = "origin receives the connection-pool key as Host"
				case s.Host == q.Host && q.Port >= 0:
					site = "port dropped from the Host the origin receives"
				}
				fail("host-header", site, "%s: origin %s saw Host %q, want %q", want, s.Endpoint, s.Host, expHost)
			} else if q.HostOverride != "" {
				res.Probe("host_override")
			}
		}
		for _, h := range h3s[i] {
			if h.Host != expHost {
				site := "HTTP/3 round-tripper receives another authority than the URL's host[:port]"
				if q.HostOverride != "" {
					site = "HTTP/3 round-tripper receives another authority than the caller's override"
				}
				fail("host-header", site, "%s: req.Host %q, want %q", want, h.Host, expHost)
			} else if q.HostOverride != "" {
				res.Probe("host_override")
			}
		}

		// (5a) an HTTP/3 round-tripper pools its QUIC connections by the authority
		// of the URL it is handed (quic-go's http3.Transport does): two origins
		// that differ in scheme, host or port must never be handed the same one
		for _, h := range h3s[i] {
			key := h.Scheme + "://" + strings.ToLower(h.URLHost)
			mine := originTriple(q, true)
			if prev, ok := h3Keys[key]; ok && prev != mine {
				fail("pool-sharing", "HTTP/3 round-tripper is handed the same URL authority (its pool key) for different scheme/host/port origins", "%s (origin %v): URL.Host %q was also used for origin %v", want, mine, h.URLHost, prev)
			} else if !ok {
				h3Keys[key] = mine
			}
		}

		// (5) connection / origin isolation
		reused := false
		if served != nil {
			if served.Plain {
				if pd := r.connPlain[served.ConnID]; pd != nil && pd.Req >= 0 && pd.Req < n {
					a, b := originTriple(p.Reqs[pd.Req], false), originTriple(q, false)
					if a != b {
						fail("pool-sharing", "request served on a cleartext connection dialled for another scheme/host/port origin", "%s (origin %v) served on connection %d dialled during request %d for %v", want, b, served.ConnID, pd.Req, a)
					}
				}
			} else if d := r.connDial[served.ConnID]; d != nil && d.Req >= 0 && d.Req < n {
				a, b := originTriple(p.Reqs[d.Req], true), originTriple(q, true)
				if a != b {
					site := "request served on a connection dialled for another scheme/host/port origin"
					switch {
					case a.host != b.host:
						site = "request served on a connection dialled for another host"
					case a.port != b.port:
						site = "request served on a connection dialled for another port of the same host"
					}
					fail("pool-sharing", site, "%s (origin %v) served on connection %d (%s, ServerName %q) dialled during request %d for %v", want, b, served.ConnID, d.Addr, d.SNI, d.Req, a)
				}
				if d.Req != i {
					reused = true
				}
			} else if d == nil {
				res.Harness = fmt.Sprintf("%s: served on unknown connection %d", want, served.ConnID)
				return
			}
			connUses[served.ConnID]++
			if connUses[served.ConnID] == 2 {
				res.Probe("pooled_connection_reused")
			}
			if servedHostsByEP[served.Endpoint] == nil {
				servedHostsByEP[served.Endpoint] = map[string]bool{}
			}
			servedHostsByEP[served.Endpoint][canon(q.Host)] = true
			if portsByHost[canon(q.Host)] == nil {
				portsByHost[canon(q.Host)] = map[int]bool{}
			}
			portsByHost[canon(q.Host)][originTriple(q, !served.Plain).port] = true
			progress = true
		}

		// (6) HTTP/3 selection
		wantH3 := m.wantH3(p.H3)
		reachedHTTP := overTLS || len(plains[i]) > 0
		if reachedHTTP {
			switch {
			case h3Ran && wantH3 == "no":
				fail("h3-selection", "HTTP/3 used although the most-preferred usable HTTPS record does not offer h3", "%s: records %s", want, svcText(m.Svc))
			case !h3Ran && wantH3 == "yes":
				fail("h3-selection", "HTTP/3 not used although the most-preferred usable HTTPS record offers h3", "%s: records %s", want, svcText(m.Svc))
			}
		}
		if h3Ran {
			progress = true
			res.Probe("h3_selected")
		}
		if !h3Ran && p.H3 && reachedHTTP && wantH3 == "no" {
			for _, s := range m.Svc {
				if s.offersH3() {
					res.Probe("h3_offered_by_less_preferred_record_only")
					break
				}
			}
		}

		// (7) dial targets
		if !m.Ambiguous {
			tcpList, _ := m.tcpTargets()
			h3List, _ := m.h3Targets()
			all := m.allTargets()
			var plainList []mTarget
			if m.Faulty {
				// a failing lookup may hide the HTTPS records: the plain addresses
				// are acceptable then
				pm := *m
				pm.Svc = nil
				pm.OriginAddrs = append(append([]netip.Addr(nil), m.OriginAddrs...), zoneAddrs(&p.Zone, q.Host)...)
				plainList, _ = pm.targets(func(svcRec) bool { return true })
			}
			for _, d := range dials[i] {
				ap, ok := normAddr(d.Addr)
				list := tcpList
				proto := "h2/http1.1 over TCP"
				if d.Phase != "" {
					list, proto = h3List, "h3"
				}
				if ok && (inTargets(list, ap) || inTargets(plainList, ap)) {
					continue
				}
				site := "dial target is not an address the origin's records lead to"
				if ok && inTargets(all, ap) {
					site = "dial target belongs to an HTTPS record that is not compatible with the chosen protocol"
				} else if ok && len(m.Svc) > 0 && inTargets(func() []mTarget {
					pm := *m
					pm.Svc = nil
					l, _ := pm.targets(func(svcRec) bool { return true })
					return l
				}(), ap) {
					site = "plain origin address dialled although compatible HTTPS records provide targets"
				}
				fail("dial-target", site, "%s: %s dial of %s (%s); permitted %s; records %s", want, d.Network, d.Addr, proto, targetText(list), svcText(m.Svc))
			}
			// (7b) completeness, through its only observable consequence: a
			// compatible, reachable, correctly certified target exists => the
			// request succeeds.
			if o.timedOut {
				res.Probe("caller_deadline_passed")
			}
			if !m.Faulty && reachedHTTP && !o.resp && !o.timedOut {
				if _, fromHTTPS := m.h3Targets(); h3Ran && wantH3 != "no" && (fromHTTPS || m.Port != 80) {
					for _, t := range h3List {
						if r.net.h3[t.Addr] != nil {
							fail("request-failed", "HTTP/3 request fails although a record compatible with h3 leads to a reachable target", "%s: %v; target %s; offered %s", want, o.err, t.Addr, dialText(udpDials))
							break
						}
					}
				}
				if !h3Ran && wantH3 != "yes" && (q.Scheme == "https" || m.mustUpgrade()) {
					_, fromHTTPS := m.tcpTargets()
					if fromHTTPS || m.Port != 80 {
						for _, t := range tcpList {
							if r.net.goodTCP(t, q.Host) {
								fail("request-failed", "https request fails although a compatible record leads to a reachable, correctly certified target", "%s: %v; target %s; dialled %s", want, firstLine(fmt.Sprint(o.err)), t.Addr, dialText(tlsDials))
								break
							}
						}
					}
				}
			}
			if len(tlsDials) > 1 && o.resp && served != nil {
				okAt := -1
				for k, d := range tlsDials {
					if d.Outcome == "ok" {
						okAt = k
					}
				}
				if okAt > 0 {
					res.Probe("failover_to_later_target")
				}
			}
		}
		if len(m.Svc) > 0 && m.AliasDepth > 0 && overTLS {
			res.Probe("alias_followed")
		}
		for _, s := range m.Svc {
			if !s.offersH3() && !s.offersTCP() && overTLS {
				res.Probe("unusable_record_skipped")
				break
			}
		}

		// (8) response binding
		if o.resp && !o.ptrSame {
			fail("response-binding", "resp.Request is not the caller's request object", "%s", want)
		}
		if o.urlAfter != o.urlBefore {
			fail("response-binding", "the caller's request URL is modified", "%s: URL now %q", want, o.urlAfter)
		}
		if o.hostAfter != o.hostBefore {
			fail("response-binding", "the caller's request Host is modified", "%s: Host %q -> %q", want, o.hostBefore, o.hostAfter)
		}
		if o.resp && served != nil && !q.NoDrain && (o.bodyErr || o.bodyN != q.RespSize) && !o.timedOut {
			fail("response-binding", "response body differs from what the origin sent", "%s: %d octets (error %v), sent %d", want, o.bodyN, o.bodyErr, q.RespSize)
		}

		// canonical log line and signature
		line := want + " -> " + o.errClass
		if o.resp {
			line += fmt.Sprintf(" status=%d", o.status)
		}
		if served != nil {
			line += fmt.Sprintf(" served=%s conn=%d plain=%v host=%q sni=%q proto=%s uri=%s body=%d ech=%v", served.Endpoint, served.ConnID, served.Plain, served.Host, served.SNI, served.Proto, served.URI, served.BodyLen, served.ECHOK)
		}
		for _, h := range h3s[i] {
			line += fmt.Sprintf(" h3[%s %s %s %s]", h.Scheme, h.URLHost, h.Host, h.Outcome)
		}
		var live, late []string
		for _, d := range dials[i] {
			s := fmt.Sprintf("%s%s %s sni=%s alpn=%v ech=%v %s", d.Phase, d.Network, d.Addr, d.SNI, d.NextProtos, d.ECH, d.Outcome)
			if d.Late {
				late = append(late, s)
			} else {
				live = append(live, s)
			}
		}
		sort.Strings(late)
		line += " dials=" + strings.Join(live, ";") + " late=" + strings.Join(late, ";")
		for _, pd := range plains[i] {
			line += fmt.Sprintf(" plain[%s %v %s]", pd.Addr, pd.Established, pd.Note)
		}
		line += fmt.Sprintf(" q=%d n=%d", o.queries, o.bodyN)
		log = append(log, line)

		shape := "none"
		switch {
		case m.Ambiguous:
			shape = "open"
		case len(m.Svc) > 0 && m.AliasDepth > 0:
			shape = "alias-svc"
		case len(m.Svc) > 0:
			shape = fmt.Sprintf("svc%d", len(m.Svc))
		case m.HTTPSPresent:
			shape = "alias-only"
		}
		pc := "default"
		if q.Port >= 0 {
			pc = "other"
			if q.Port == 80 || q.Port == 443 {
				pc = "std"
			}
		}
		path := "none"
		switch {
		case h3Ran:
			path = "h3"
		case served != nil && served.Plain:
			path = "plain"
		case served != nil:
			path = "tls-" + served.Proto
		case len(tlsDials) > 0:
			path = "tls-fail"
		case len(plains[i]) > 0:
			path = "plain-fail"
		}
		okDial := 0
		for _, d := range tlsDials {
			if d.Outcome == "ok" {
				okDial++
			}
		}
		sig = append(sig, strings.Join([]string{q.Scheme, pc, shape, wantH3, path, o.errClass, fmt.Sprint(reused), fmt.Sprint(q.HostOverride != ""), fmt.Sprint(min(len(tlsDials), 4)), fmt.Sprint(okDial), fmt.Sprint(m.Faulty), q.Method}, ","))
	}

	for _, hs := range servedHostsByEP {
		if len(hs) > 1 {
			res.Probe("hosts_sharing_an_address_both_served")
		}
	}
	for _, ps := range portsByHost {
		if len(ps) > 1 {
			res.Probe("same_host_two_ports_served")
		}
	}
	if len(p.Zone.Poison) > 0 && progress {
		res.Probe("poisoned_answers_present")
	}
	res.FaultN("dns_rcode_fault_configured", len(p.Zone.Faults))
	nRefused, nCert := 0, 0
	for _, d := range r.dials {
		if strings.HasPrefix(d.Outcome, "refused") {
			nRefused++
		}
		if strings.HasPrefix(d.Outcome, "handshake-failed:cert") {
			nCert++
		}
	}
	res.FaultN("dial_refused", nRefused)
	res.FaultN("wrong_certificate_presented", nCert)
	if len(p.Zone.Poison) > 0 {
		res.Fault("poisoned_zone")
	}

	debugLog = log
	res.NonTrivial = progress
	res.Sig = core.SigOf(sig...)
	res.LogHash = core.HashLog(log)
	res.Sample = map[string]any{"requests": n, "nodes": len(p.Nodes), "zone_records": len(p.Zone.RRs), "h3": p.H3, "plain_reconfigured": p.PlainReconfigured, "first": firstLine(log0(log))}
}

// debugLog keeps the canonical log of the last run for the development test.
var debugLog []string

func log0(l []string) string {
	if len(l) == 0 {
		return ""
	}
	s := l[0]
	if len(s) > 300 {
		s = s[:300] + "..."
	}
	return s
}

func svcText(svc []svcRec) string {
	var out []string
	for _, s := range svc {
		t := fmt.Sprintf("{prio %d", s.Prio)
		if s.Target != "" {
			t += " target " + s.Target
		}
		if len(s.ALPN) > 0 {
			t += " alpn " + strings.Join(s.ALPN, ",")
		}
		if s.NDA {
			t += " no-default-alpn"
		}
		if s.Port != 0 {
			t += fmt.Sprintf(" port %d", s.Port)
		}
		if len(s.ECH) > 0 {
			t += " ech"
		}
		out = append(out, t+"}")
	}
	if len(out) == 0 {
		return "(none)"
	}
	return strings.Join(out, " ")
}

func targetText(l []mTarget) string {
	var out []string
	for _, t := range l {
		out = append(out, t.Addr.String())
	}
	if len(out) == 0 {
		return "(none)"
	}
	return strings.Join(out, ",")
}

func dialText(ds []*dialRec) string {
	var out []string
	for _, d := range ds {
		out = append(out, d.Addr+"="+d.Outcome)
	}
	if len(out) == 0 {
		return "(nothing)"
	}
	slices.Sort(out)
	return strings.Join(out, ",")
}
