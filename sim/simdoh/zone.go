package simdoh

import (
	"strings"
)

// Zone is the DNS universe of one run: plain data, part of the plan.
type Zone struct {
	RRs []RR `json:"rrs"`
	// Poison records are appended to the answer section of every answer to a
	// query of their type (after the in-chain records) whatever the name asked.
	Poison []RR `json:"poison,omitempty"`
	// Faults are per-name behaviours of the upstream.
	Faults []Fault `json:"faults,omitempty"`
	// OneHop: the upstream does not chase CNAMEs: an answer for a name that
	// owns a CNAME holds that one record and nothing else.
	OneHop bool `json:"one_hop,omitempty"`
	// Bulk > 0: every answer section starts with a TXT record of about that
	// many octets owned by an unrelated name (so that the names that follow
	// sit - and are pointed at - beyond the first kilobyte of the message).
	Bulk int `json:"bulk,omitempty"`
	// NegSOA: answers without records (NODATA, NXDOMAIN) carry the zone's SOA
	// record in the authority section, as authoritative and recursive servers
	// do (RFC 2308): TTL NegSOATTL, MINIMUM field NegSOAMin.
	// FirstRead > 0: the first Read of every reply body hands over at most that
	// many octets (the reply arrives in two pieces); the rest follows.
	FirstRead int `json:"first_read,omitempty"`
	// Glue > 0: answers to HTTPS questions carry, in the additional section, the
	// address records of the names their ServiceMode records point at (RFC 9460
	// 4.2), with TTL Glue (which may be smaller than the TTLs of the answer).
	Glue      uint32 `json:"glue,omitempty"`
	NegSOA    bool   `json:"neg_soa,omitempty"`
	NegSOATTL uint32 `json:"neg_soa_ttl,omitempty"`
	NegSOAMin uint32 `json:"neg_soa_min,omitempty"`
}

// Fault kinds.
const (
	FaultRCode     = "rcode"     // answer with RCode, empty sections
	FaultTransport = "transport" // RoundTrip returns an error
	FaultStatus    = "status"    // HTTP status Status, empty body
	FaultTruncate  = "truncate"  // body cut to Arg octets, content-length adjusted
	FaultCutLie    = "cutlie"    // body cut to Arg octets, content-length of the whole body
	FaultNoCL      = "nocl"      // no content-length header
	FaultBadCL     = "badcl"     // content-length header Text
	FaultCorrupt   = "corrupt"   // body[Arg] ^= Mask
	FaultBody      = "body"      // body replaced by Body
	FaultReadErr   = "readerr"   // body reader fails after Arg octets
	FaultOtherQ    = "otherq"    // a well-formed response to ANOTHER question: the same type for the name Text
)

// Fault applies to queries matching Name (case-insensitive, "" = any name)
// and Type (0 = any type). Count > 0 limits it to the first Count matching
// requests (a burst); Count == 0 means always.
type Fault struct {
	Name   string `json:"name,omitempty"`
	Type   uint16 `json:"type,omitempty"`
	Kind   string `json:"kind"`
	RCode  int    `json:"rcode,omitempty"`
	Status int    `json:"status,omitempty"`
	Count  int    `json:"count,omitempty"`
	Arg    int    `json:"arg,omitempty"`
	Mask   byte   `json:"mask,omitempty"`
	Text   string `json:"text,omitempty"`
	Body   []byte `json:"body,omitempty"`
}

func canon(n string) string { return strings.ToLower(strings.TrimSuffix(n, ".")) }

func (f *Fault) matches(name string, typ uint16) bool {
	if f.Type != 0 && f.Type != typ {
		return false
	}
	return f.Name == "" || canon(f.Name) == canon(name)
}

// exists reports whether name owns a record or is an empty non-terminal.
func (z *Zone) exists(name string) bool {
	suffix := "." + name
	for i := range z.RRs {
		o := canon(z.RRs[i].Name)
		if o == name || strings.HasSuffix(o, suffix) {
			return true
		}
	}
	return false
}

const maxCNAMEChain = 12

// Lookup answers like a recursive resolver: the CNAME chain starting at
// qname, then the RRset of qtype at the end of the chain. rcode is 0, 3
// (NXDOMAIN: the end of the chain does not exist) or 2 (SERVFAIL: CNAME loop
// or chain too long). The owner of the first record is spelled as asked.
func (z *Zone) Lookup(qname string, qtype uint16) (answer []RR, rcode int) {
	cur := canon(qname)
	spelled := strings.TrimSuffix(qname, ".")
	seen := map[string]bool{cur: true}
	for hops := 0; ; hops++ {
		if hops > maxCNAMEChain {
			return nil, 2
		}
		var cn *RR
		if qtype != TypeCNAME {
			for i := range z.RRs {
				if z.RRs[i].Type == TypeCNAME && canon(z.RRs[i].Name) == cur {
					cn = &z.RRs[i]
					break
				}
			}
		}
		if cn == nil {
			break
		}
		r := *cn
		r.Name = spelled
		answer = append(answer, r)
		if z.OneHop {
			return answer, 0
		}
		cur = canon(cn.Target)
		spelled = cur
		if seen[cur] {
			return nil, 2
		}
		seen[cur] = true
	}
	n := 0
	for i := range z.RRs {
		if z.RRs[i].Type == qtype && canon(z.RRs[i].Name) == cur {
			r := z.RRs[i]
			r.Name = spelled
			answer = append(answer, r)
			n++
		}
	}
	if n == 0 && !z.exists(cur) {
		return answer, 3
	}
	return answer, 0
}

// Final returns the records of the answer that a conforming client may use
// for (qname, qtype): those of qtype owned by the end of the in-answer CNAME
// chain that starts at qname.
func Final(answer []RR, qname string, qtype uint16) []RR {
	cur := canon(qname)
	for hops := 0; hops <= len(answer); hops++ {
		moved := false
		for i := range answer {
			if answer[i].Type == TypeCNAME && qtype != TypeCNAME && canon(answer[i].Name) == cur {
				cur = canon(answer[i].Target)
				moved = true
				break
			}
		}
		if !moved {
			break
		}
	}
	var out []RR
	for i := range answer {
		if answer[i].Type == qtype && canon(answer[i].Name) == cur {
			out = append(out, answer[i])
		}
	}
	return out
}
