// Package simdoh is the simulated DNS-over-HTTPS upstream of engine E2: an
// http.RoundTripper in front of a zone database, with its OWN RFC 1035 /
// RFC 9460 wire codec. Nothing in this package imports the dns package of the
// library under test: the codec is the independent party that encodes every
// response the resolver consumes and decodes every query it emits.
package simdoh

import (
	"errors"
	"fmt"
	"net/netip"
	"sort"
	"strings"
)

const (
	TypeA      = 1
	TypeNS     = 2
	TypeCNAME  = 5
	TypeSOA    = 6
	TypePTR    = 12
	TypeMX     = 15
	TypeTXT    = 16
	TypeAAAA   = 28
	TypeLOC    = 29
	TypeSRV    = 33
	TypeCERT   = 37
	TypeOPT    = 41
	TypeDS     = 43
	TypeRRSIG  = 46
	TypeNSEC   = 47
	TypeDNSKEY = 48
	TypeSVCB   = 64
	TypeHTTPS  = 65
	TypeURI    = 256
	TypeCAA    = 257
)

// TypeName is only for messages.
func TypeName(t uint16) string {
	switch t {
	case TypeA:
		return "A"
	case TypeAAAA:
		return "AAAA"
	case TypeCNAME:
		return "CNAME"
	case TypeHTTPS:
		return "HTTPS"
	case TypeSVCB:
		return "SVCB"
	case TypeOPT:
		return "OPT"
	case TypeSOA:
		return "SOA"
	case TypeMX:
		return "MX"
	case TypeTXT:
		return "TXT"
	case TypeSRV:
		return "SRV"
	case TypeNS:
		return "NS"
	}
	return fmt.Sprintf("TYPE%d", t)
}

// Svc is the SvcParams part of a SVCB/HTTPS record (RFC 9460).
type Svc struct {
	Priority      uint16   `json:"prio"`
	Mandatory     []uint16 `json:"mandatory,omitempty"`
	ALPN          []string `json:"alpn,omitempty"`
	NoDefaultALPN bool     `json:"nda,omitempty"`
	Port          uint16   `json:"port,omitempty"`
	V4Hint        []string `json:"v4,omitempty"`
	V6Hint        []string `json:"v6,omitempty"`
	ECH           []byte   `json:"ech,omitempty"`
	// Extra are further parameters (key > 6), encoded verbatim in key order.
	Extra []SvcParam `json:"extra,omitempty"`
}

type SvcParam struct {
	Key   uint16 `json:"k"`
	Value []byte `json:"v,omitempty"`
}

type Opt struct {
	Code uint16 `json:"code"`
	Data []byte `json:"data,omitempty"`
}

type SOA struct {
	MName   string `json:"mname"`
	RName   string `json:"rname"`
	Serial  uint32 `json:"serial"`
	Refresh uint32 `json:"refresh"`
	Retry   uint32 `json:"retry"`
	Expire  uint32 `json:"expire"`
	Minimum uint32 `json:"minimum"`
}

// RR is a resource record as plain data. Which fields matter follows from
// Type; names are dotted strings without trailing dot, "" being the root.
type RR struct {
	Name  string `json:"name"`
	Type  uint16 `json:"type"`
	Class uint16 `json:"class,omitempty"` // 0 means IN
	TTL   uint32 `json:"ttl"`

	IP     string   `json:"ip,omitempty"`     // A, AAAA (text form)
	Target string   `json:"target,omitempty"` // CNAME/NS/PTR target; SVCB/HTTPS TargetName; MX exchange; SRV target
	Svc    *Svc     `json:"svc,omitempty"`    // SVCB/HTTPS
	Opts   []Opt    `json:"opts,omitempty"`   // OPT
	SOA    *SOA     `json:"soa,omitempty"`
	Pref   uint16   `json:"pref,omitempty"` // MX preference; SRV priority
	Weight uint16   `json:"weight,omitempty"`
	Port   uint16   `json:"rrport,omitempty"`
	TXT    []string `json:"txt,omitempty"`
	Raw    []byte   `json:"raw,omitempty"` // any other type: RDATA verbatim
	// RawName, when set, is a domain name appended (compressible) after Raw:
	// RRSIG signer, NSEC next name.
	RawName *string `json:"rawname,omitempty"`
	RawTail []byte  `json:"rawtail,omitempty"`
}

type Question struct {
	Name  string `json:"name"`
	Type  uint16 `json:"type"`
	Class uint16 `json:"class"`
}

type Msg struct {
	ID         uint16     `json:"id"`
	Flags      uint16     `json:"flags"` // the whole second header word (QR, opcode, AA, TC, RD, RA, Z, RCODE)
	Question   []Question `json:"question,omitempty"`
	Answer     []RR       `json:"answer,omitempty"`
	Authority  []RR       `json:"authority,omitempty"`
	Additional []RR       `json:"additional,omitempty"`
}

func (m *Msg) RCode() int { return int(m.Flags & 0xf) }

// Layout says where the interesting fields of an encoded message are; the
// fault enumerations of C12 are driven by it.
type Layout struct {
	Pointers  []int `json:"pointers"`  // offsets of compression pointers
	RDLens    []int `json:"rdlens"`    // offsets of RDLENGTH fields
	Names     []int `json:"names"`     // offsets at which a name starts
	ParamLens []int `json:"paramlens"` // offsets of SvcParam length fields
	RRStarts  []int `json:"rrstarts"`  // offsets at which a resource record starts
	Labels    []int `json:"labels"`    // offsets of label length octets
}

type EncodeOpts struct {
	Compress bool
	// CompressRData also compresses names inside SVCB/HTTPS/SRV RDATA (not
	// allowed by the RFCs, seen in the wild, and accepted by most decoders).
	CompressRData bool
}

type encoder struct {
	b      []byte
	table  map[string]int
	lay    Layout
	opts   EncodeOpts
	inData bool
}

func splitName(n string) []string {
	n = strings.TrimSuffix(n, ".")
	if n == "" {
		return nil
	}
	return strings.Split(n, ".")
}

func (e *encoder) u8(v uint8)   { e.b = append(e.b, v) }
func (e *encoder) u16(v uint16) { e.b = append(e.b, byte(v>>8), byte(v)) }
func (e *encoder) u32(v uint32) { e.b = append(e.b, byte(v>>24), byte(v>>16), byte(v>>8), byte(v)) }

// name writes a domain name, compressed against earlier names when allowed.
func (e *encoder) name(n string, compress bool) {
	labels := splitName(n)
	e.lay.Names = append(e.lay.Names, len(e.b))
	for i := range labels {
		suffix := strings.ToLower(strings.Join(labels[i:], "."))
		if compress && e.opts.Compress {
			if off, ok := e.table[suffix]; ok {
				e.lay.Pointers = append(e.lay.Pointers, len(e.b))
				e.u16(0xC000 | uint16(off))
				return
			}
		}
		if len(e.b) < 0x3fff {
			if _, ok := e.table[suffix]; !ok {
				e.table[suffix] = len(e.b)
			}
		}
		l := labels[i]
		if len(l) > 63 {
			l = l[:63] // a zone can not hold such a label; never generated on purpose
		}
		e.lay.Labels = append(e.lay.Labels, len(e.b))
		e.u8(uint8(len(l)))
		e.b = append(e.b, l...)
	}
	e.u8(0)
}

func parseIP(s string, want int) []byte {
	a, err := netip.ParseAddr(s)
	if err != nil {
		return make([]byte, want)
	}
	if want == 4 {
		if !a.Is4() {
			return make([]byte, 4)
		}
		x := a.As4()
		return x[:]
	}
	x := a.As16()
	return x[:]
}

func (e *encoder) svc(target string, s *Svc) {
	if s == nil {
		s = &Svc{}
	}
	e.u16(s.Priority)
	e.name(target, e.opts.CompressRData)
	type kv struct {
		k uint16
		v []byte
	}
	var ps []kv
	if len(s.Mandatory) > 0 {
		var v []byte
		for _, k := range s.Mandatory {
			v = append(v, byte(k>>8), byte(k))
		}
		ps = append(ps, kv{0, v})
	}
	if len(s.ALPN) > 0 {
		var v []byte
		for _, a := range s.ALPN {
			if len(a) > 255 {
				a = a[:255]
			}
			v = append(v, byte(len(a)))
			v = append(v, a...)
		}
		ps = append(ps, kv{1, v})
	}
	if s.NoDefaultALPN {
		ps = append(ps, kv{2, nil})
	}
	if s.Port != 0 {
		ps = append(ps, kv{3, []byte{byte(s.Port >> 8), byte(s.Port)}})
	}
	if len(s.V4Hint) > 0 {
		var v []byte
		for _, a := range s.V4Hint {
			v = append(v, parseIP(a, 4)...)
		}
		ps = append(ps, kv{4, v})
	}
	if len(s.ECH) > 0 {
		ps = append(ps, kv{5, s.ECH})
	}
	if len(s.V6Hint) > 0 {
		var v []byte
		for _, a := range s.V6Hint {
			v = append(v, parseIP(a, 16)...)
		}
		ps = append(ps, kv{6, v})
	}
	for _, x := range s.Extra {
		ps = append(ps, kv{x.Key, x.Value})
	}
	sort.SliceStable(ps, func(i, j int) bool { return ps[i].k < ps[j].k })
	for _, p := range ps {
		e.u16(p.k)
		e.lay.ParamLens = append(e.lay.ParamLens, len(e.b))
		e.u16(uint16(len(p.v)))
		e.b = append(e.b, p.v...)
	}
}

func (e *encoder) rr(r *RR) {
	e.lay.RRStarts = append(e.lay.RRStarts, len(e.b))
	e.name(r.Name, true)
	e.u16(r.Type)
	cl := r.Class
	if cl == 0 && r.Type != TypeOPT {
		cl = 1
	}
	e.u16(cl)
	e.u32(r.TTL)
	e.lay.RDLens = append(e.lay.RDLens, len(e.b))
	lenAt := len(e.b)
	e.u16(0)
	start := len(e.b)
	switch r.Type {
	case TypeA:
		e.b = append(e.b, parseIP(r.IP, 4)...)
	case TypeAAAA:
		e.b = append(e.b, parseIP(r.IP, 16)...)
	case TypeCNAME, TypeNS, TypePTR:
		e.name(r.Target, true)
	case TypeMX:
		e.u16(r.Pref)
		e.name(r.Target, true)
	case TypeSRV:
		e.u16(r.Pref)
		e.u16(r.Weight)
		e.u16(r.Port)
		e.name(r.Target, e.opts.CompressRData)
	case TypeSOA:
		s := r.SOA
		if s == nil {
			s = &SOA{}
		}
		e.name(s.MName, true)
		e.name(s.RName, true)
		e.u32(s.Serial)
		e.u32(s.Refresh)
		e.u32(s.Retry)
		e.u32(s.Expire)
		e.u32(s.Minimum)
	case TypeTXT:
		for _, t := range r.TXT {
			if len(t) > 255 {
				t = t[:255]
			}
			e.u8(uint8(len(t)))
			e.b = append(e.b, t...)
		}
	case TypeSVCB, TypeHTTPS:
		e.svc(r.Target, r.Svc)
	case TypeOPT:
		for _, o := range r.Opts {
			e.u16(o.Code)
			e.u16(uint16(len(o.Data)))
			e.b = append(e.b, o.Data...)
		}
	default:
		e.b = append(e.b, r.Raw...)
		if r.RawName != nil {
			e.name(*r.RawName, e.opts.CompressRData)
		}
		e.b = append(e.b, r.RawTail...)
	}
	n := len(e.b) - start
	e.b[lenAt], e.b[lenAt+1] = byte(n>>8), byte(n)
}

// Encode serialises the message.
func (m *Msg) Encode(opts EncodeOpts) ([]byte, *Layout) {
	e := &encoder{table: map[string]int{}, opts: opts}
	e.u16(m.ID)
	e.u16(m.Flags)
	e.u16(uint16(len(m.Question)))
	e.u16(uint16(len(m.Answer)))
	e.u16(uint16(len(m.Authority)))
	e.u16(uint16(len(m.Additional)))
	for _, q := range m.Question {
		e.name(q.Name, true)
		e.u16(q.Type)
		e.u16(q.Class)
	}
	for _, sec := range [][]RR{m.Answer, m.Authority, m.Additional} {
		for i := range sec {
			e.rr(&sec[i])
		}
	}
	return e.b, &e.lay
}

// ---------------------------------------------------------------------------
// decoding

var ErrWire = errors.New("simdoh: malformed message")

type decoder struct {
	b []byte
	// Hops counts compression pointers followed over the whole message;
	// IntoLabel counts pointer targets that are not the start of a label as
	// laid out by the primary (pointer-free) walks.
	Hops      int
	IntoLabel int
	labelAt   map[int]bool // offsets of label length octets / pointers seen by primary walks
	contentAt map[int]bool // offsets inside label contents seen by primary walks
}

// readName reads the name at off; next is the offset after the name in the
// original stream. Strict: pointers must point before the start of the
// segment that contains them (so every walk terminates), labels <= 63, total
// <= 255 octets.
func (d *decoder) readName(off int) (name string, next int, err error) {
	var labels []string
	total := 1
	next = -1
	limit := off // pointers must go below this
	jumped := false
	for {
		if off >= len(d.b) {
			return "", 0, fmt.Errorf("%w: name runs past the end", ErrWire)
		}
		c := int(d.b[off])
		switch c & 0xC0 {
		case 0xC0:
			if off+1 >= len(d.b) {
				return "", 0, fmt.Errorf("%w: truncated pointer", ErrWire)
			}
			if !jumped && d.labelAt != nil {
				d.labelAt[off] = true
			}
			tgt := (c&0x3f)<<8 | int(d.b[off+1])
			if next < 0 {
				next = off + 2
			}
			if tgt >= limit {
				return "", 0, fmt.Errorf("%w: pointer at %d to %d does not point before its name segment (%d)", ErrWire, off, tgt, limit)
			}
			d.Hops++
			if d.contentAt != nil && d.contentAt[tgt] && !d.labelAt[tgt] {
				d.IntoLabel++
			}
			off, limit, jumped = tgt, tgt, true
		case 0x00:
			if c == 0 {
				if next < 0 {
					next = off + 1
				}
				return strings.Join(labels, "."), next, nil
			}
			if off+1+c > len(d.b) {
				return "", 0, fmt.Errorf("%w: label runs past the end", ErrWire)
			}
			total += 1 + c
			if total > 255 {
				return "", 0, fmt.Errorf("%w: name longer than 255 octets", ErrWire)
			}
			if !jumped && d.labelAt != nil {
				d.labelAt[off] = true
				for i := off + 1; i < off+1+c; i++ {
					d.contentAt[i] = true
				}
			}
			labels = append(labels, string(d.b[off+1:off+1+c]))
			off += 1 + c
		default:
			return "", 0, fmt.Errorf("%w: label type 0x%02x at %d (a label longer than 63 octets?)", ErrWire, c, off)
		}
	}
}

func (d *decoder) u16(off int) (uint16, error) {
	if off+2 > len(d.b) {
		return 0, fmt.Errorf("%w: truncated", ErrWire)
	}
	return uint16(d.b[off])<<8 | uint16(d.b[off+1]), nil
}

func (d *decoder) u32(off int) (uint32, error) {
	if off+4 > len(d.b) {
		return 0, fmt.Errorf("%w: truncated", ErrWire)
	}
	return uint32(d.b[off])<<24 | uint32(d.b[off+1])<<16 | uint32(d.b[off+2])<<8 | uint32(d.b[off+3]), nil
}

func ipText(b []byte) string {
	a, ok := netip.AddrFromSlice(b)
	if !ok {
		return ""
	}
	return a.String()
}

func (d *decoder) svc(r *RR, off, end int) error {
	p, err := d.u16(off)
	if err != nil || off+2 > end {
		return fmt.Errorf("%w: svcb priority", ErrWire)
	}
	s := &Svc{Priority: p}
	r.Svc = s
	name, next, err := d.readName(off + 2)
	if err != nil {
		return err
	}
	if next > end {
		return fmt.Errorf("%w: svcb target runs past RDATA", ErrWire)
	}
	r.Target = name
	off = next
	last := -1
	for off < end {
		if off+4 > end {
			return fmt.Errorf("%w: truncated SvcParam", ErrWire)
		}
		k, _ := d.u16(off)
		l, _ := d.u16(off + 2)
		off += 4
		if off+int(l) > end {
			return fmt.Errorf("%w: SvcParam value runs past RDATA", ErrWire)
		}
		if int(k) <= last {
			return fmt.Errorf("%w: SvcParams not in increasing key order", ErrWire)
		}
		last = int(k)
		v := d.b[off : off+int(l)]
		off += int(l)
		switch k {
		case 0:
			for i := 0; i+1 < len(v); i += 2 {
				s.Mandatory = append(s.Mandatory, uint16(v[i])<<8|uint16(v[i+1]))
			}
		case 1:
			for i := 0; i < len(v); {
				n := int(v[i])
				if i+1+n > len(v) {
					return fmt.Errorf("%w: alpn", ErrWire)
				}
				s.ALPN = append(s.ALPN, string(v[i+1:i+1+n]))
				i += 1 + n
			}
		case 2:
			s.NoDefaultALPN = true
		case 3:
			if len(v) != 2 {
				return fmt.Errorf("%w: port", ErrWire)
			}
			s.Port = uint16(v[0])<<8 | uint16(v[1])
		case 4:
			if len(v)%4 != 0 {
				return fmt.Errorf("%w: ipv4hint", ErrWire)
			}
			for i := 0; i < len(v); i += 4 {
				s.V4Hint = append(s.V4Hint, ipText(v[i:i+4]))
			}
		case 5:
			s.ECH = append([]byte(nil), v...)
		case 6:
			if len(v)%16 != 0 {
				return fmt.Errorf("%w: ipv6hint", ErrWire)
			}
			for i := 0; i < len(v); i += 16 {
				s.V6Hint = append(s.V6Hint, ipText(v[i:i+16]))
			}
		default:
			s.Extra = append(s.Extra, SvcParam{Key: k, Value: append([]byte(nil), v...)})
		}
	}
	return nil
}

func (d *decoder) rr(off int) (RR, int, error) {
	var r RR
	name, next, err := d.readName(off)
	if err != nil {
		return r, 0, err
	}
	r.Name = name
	off = next
	if off+10 > len(d.b) {
		return r, 0, fmt.Errorf("%w: truncated record header", ErrWire)
	}
	r.Type, _ = d.u16(off)
	r.Class, _ = d.u16(off + 2)
	r.TTL, _ = d.u32(off + 4)
	rdlen, _ := d.u16(off + 8)
	off += 10
	end := off + int(rdlen)
	if end > len(d.b) {
		return r, 0, fmt.Errorf("%w: RDATA runs past the end", ErrWire)
	}
	switch r.Type {
	case TypeA:
		if rdlen != 4 {
			return r, 0, fmt.Errorf("%w: A RDATA of %d octets", ErrWire, rdlen)
		}
		r.IP = ipText(d.b[off:end])
	case TypeAAAA:
		if rdlen != 16 {
			return r, 0, fmt.Errorf("%w: AAAA RDATA of %d octets", ErrWire, rdlen)
		}
		r.IP = ipText(d.b[off:end])
	case TypeCNAME, TypeNS, TypePTR:
		t, next, err := d.readName(off)
		if err != nil {
			return r, 0, err
		}
		if next != end {
			return r, 0, fmt.Errorf("%w: name does not fill RDATA", ErrWire)
		}
		r.Target = t
	case TypeSVCB, TypeHTTPS:
		if err := d.svc(&r, off, end); err != nil {
			return r, 0, err
		}
	case TypeOPT:
		for p := off; p < end; {
			if p+4 > end {
				return r, 0, fmt.Errorf("%w: truncated option", ErrWire)
			}
			code, _ := d.u16(p)
			l, _ := d.u16(p + 2)
			if p+4+int(l) > end {
				return r, 0, fmt.Errorf("%w: option runs past RDATA", ErrWire)
			}
			r.Opts = append(r.Opts, Opt{Code: code, Data: append([]byte(nil), d.b[p+4:p+4+int(l)]...)})
			p += 4 + int(l)
		}
	default:
		r.Raw = append([]byte(nil), d.b[off:end]...)
	}
	return r, end, nil
}

// Decode parses a whole message strictly; trailing octets are an error.
func Decode(b []byte) (*Msg, error) {
	m, _, err := decode(b, false)
	return m, err
}

// Stats of a decoding walk, for the C12 probes.
type WalkStats struct {
	Hops      int // compression pointers followed
	IntoLabel int // pointers whose target lies inside the content of a label
}

// DecodeTraced is Decode that also reports pointer statistics.
func DecodeTraced(b []byte) (*Msg, WalkStats, error) {
	return decode(b, true)
}

func decode(b []byte, trace bool) (*Msg, WalkStats, error) {
	d := &decoder{b: b}
	if trace {
		d.labelAt, d.contentAt = map[int]bool{}, map[int]bool{}
	}
	st := func() WalkStats { return WalkStats{Hops: d.Hops, IntoLabel: d.IntoLabel} }
	if len(b) < 12 {
		return nil, st(), fmt.Errorf("%w: shorter than a header", ErrWire)
	}
	m := &Msg{}
	m.ID, _ = d.u16(0)
	m.Flags, _ = d.u16(2)
	qd, _ := d.u16(4)
	an, _ := d.u16(6)
	ns, _ := d.u16(8)
	ar, _ := d.u16(10)
	off := 12
	for i := 0; i < int(qd); i++ {
		name, next, err := d.readName(off)
		if err != nil {
			return nil, st(), err
		}
		t, err := d.u16(next)
		if err != nil {
			return nil, st(), err
		}
		c, err := d.u16(next + 2)
		if err != nil {
			return nil, st(), err
		}
		m.Question = append(m.Question, Question{Name: name, Type: t, Class: c})
		off = next + 4
	}
	for si, cnt := range []uint16{an, ns, ar} {
		for i := 0; i < int(cnt); i++ {
			r, next, err := d.rr(off)
			if err != nil {
				return nil, st(), err
			}
			switch si {
			case 0:
				m.Answer = append(m.Answer, r)
			case 1:
				m.Authority = append(m.Authority, r)
			default:
				m.Additional = append(m.Additional, r)
			}
			off = next
		}
	}
	if off != len(b) {
		return nil, st(), fmt.Errorf("%w: %d trailing octets", ErrWire, len(b)-off)
	}
	return m, st(), nil
}

// NameProblems checks a presentation-form name against RFC 1035 size rules:
// labels of 1..63 octets, at most 255 octets on the wire. A single trailing
// dot is allowed.
func NameProblems(n string) []string {
	var out []string
	n = strings.TrimSuffix(n, ".")
	if n == "" {
		return []string{"empty name"}
	}
	wire := 1
	for _, l := range strings.Split(n, ".") {
		if len(l) == 0 {
			out = append(out, "empty label")
		}
		if len(l) > 63 {
			out = append(out, "label longer than 63 octets")
		}
		wire += 1 + len(l)
	}
	if wire > 255 {
		out = append(out, "name longer than 255 octets")
	}
	return out
}

// ---------------------------------------------------------------------------
// NaiveCycle: would a decoder that follows every compression pointer which
// points before the pointer's own position - and has no hop limit - walk some
// name of b for ever? The message is walked section by section like any
// decoder would; the answer is only used by the C12 engine to avoid
// re-running inputs of a kind already reported in the same plan.

// NaiveTrace is what the naive walk over all names of a message meets.
type NaiveTrace struct {
	Cycle     bool // some name walk revisits a pointer: endless without a hop limit
	MaxHops   int  // most pointers followed within one name
	IntoLabel int  // pointers whose target lies inside the content of a label walked before
}

type naiveWalker struct {
	b       []byte
	tr      NaiveTrace
	content map[int]bool // offsets inside label contents met so far
	starts  map[int]bool // offsets of label length octets / pointers met so far
}

func (w *naiveWalker) name(off, end int) (next int, ok bool) {
	b := w.b
	next = -1
	visited := map[int]bool{}
	hops := 0
	for {
		if off >= end || off >= len(b) {
			return 0, false
		}
		c := int(b[off])
		w.starts[off] = true
		if c&0xC0 == 0xC0 {
			if off+1 >= end || off+1 >= len(b) {
				return 0, false
			}
			if visited[off] {
				w.tr.Cycle = true
				return 0, false
			}
			visited[off] = true
			tgt := (c&0x3f)<<8 | int(b[off+1])
			if next < 0 {
				next = off + 2
			}
			if tgt >= off {
				return 0, false
			}
			hops++
			if hops > w.tr.MaxHops {
				w.tr.MaxHops = hops
			}
			if w.content[tgt] && !w.starts[tgt] {
				w.tr.IntoLabel++
			}
			off, end = tgt, len(b)
			continue
		}
		if off+1+c > end || off+1+c > len(b) {
			return 0, false
		}
		if c == 0 {
			if next < 0 {
				next = off + 1
			}
			return next, true
		}
		for i := off + 1; i < off+1+c; i++ {
			w.content[i] = true
		}
		off += 1 + c
	}
}

func naiveName(b []byte, off, end int) (next int, cyc, ok bool) {
	w := &naiveWalker{b: b, content: map[int]bool{}, starts: map[int]bool{}}
	next, ok = w.name(off, end)
	return next, w.tr.Cycle, ok
}

// NaiveCycle reports whether the naive walk of b never ends.
func NaiveCycle(b []byte) bool { return TraceNaive(b).Cycle }

func TraceNaive(b []byte) NaiveTrace {
	w := &naiveWalker{b: b, content: map[int]bool{}, starts: map[int]bool{}}
	w.walk()
	return w.tr
}

func (w *naiveWalker) walk() {
	b := w.b
	if len(b) < 12 {
		return
	}
	cnt := func(i int) int { return int(b[i])<<8 | int(b[i+1]) }
	off := 12
	for i := 0; i < cnt(4); i++ {
		next, ok := w.name(off, len(b))
		if !ok || next+4 > len(b) {
			return
		}
		off = next + 4
	}
	total := cnt(6) + cnt(8) + cnt(10)
	for i := 0; i < total; i++ {
		next, ok := w.name(off, len(b))
		if !ok || next+10 > len(b) {
			return
		}
		typ := int(b[next])<<8 | int(b[next+1])
		rdlen := int(b[next+8])<<8 | int(b[next+9])
		rd := next + 10
		end := rd + rdlen
		if end > len(b) {
			return
		}
		var at []int
		switch typ {
		case TypeNS, TypeCNAME, TypePTR, TypeNSEC:
			at = []int{0}
		case TypeMX, TypeSVCB, TypeHTTPS:
			at = []int{2}
		case TypeSRV:
			at = []int{6}
		case TypeRRSIG:
			at = []int{18}
		case TypeSOA:
			at = []int{0, -1}
		}
		p := rd
		for _, a := range at {
			if a >= 0 {
				p = rd + a
			}
			n, ok := w.name(p, end)
			if !ok {
				return // the decoder gives up on this record: the message is rejected
			}
			p = n
		}
		off = end
	}
}
