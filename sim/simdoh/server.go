package simdoh

import (
	"bytes"
	"errors"
	"fmt"
	"io"
	"net/http"
	"strconv"
	"strings"
	"sync"
	"sync/atomic"
	"time"
)

// Entry is one request seen by the upstream, with what was answered.
type Entry struct {
	Seq      int           // ordinal of the request
	Tick     int64         // harness sequence number when the request arrived
	TickDone int64         // ... when the reply was handed back
	At       time.Duration // virtual time of arrival, since the server was created
	Done     time.Duration // virtual time at which the reply was handed back
	QName    string
	QType    uint16
	Len      int      // length of the query message
	Problems []string // findings of the query monitor
	Outcome  string   // "answer", "rcode:N", "status:N", "transport", "bad-query", or a body fault kind
	Reply    *Msg     // the message answered, before any body fault (nil if none)
	Fault    int      // index of the zone fault that fired, -1 if none
	// HTTPCache: the reply carried HTTP caching headers (Age, Cache-Control).
	HTTPCache string
}

// Reply is what the RoundTripper hands back for one request.
type Reply struct {
	Err          error
	Status       int
	Body         []byte
	CL           *string // nil: len(Body); otherwise the literal header value ("" = no header)
	ReadErrAfter int     // > 0: the body reader fails after that many octets
	// Stream > 0: instead of Body, a stream of that many zero octets is sent
	// without a content-length (a chunked / decompressed response).
	Stream int64
	// Stall: the body reader delivers nothing and blocks until the request's
	// context ends (headers sent, then silence).
	Stall bool
}

// piecewise hands over at most first octets on its first Read.
type piecewise struct {
	r     io.Reader
	first int
	done  bool
}

func (p *piecewise) Read(b []byte) (int, error) {
	if !p.done {
		p.done = true
		if len(b) > p.first {
			b = b[:p.first]
		}
	}
	return p.r.Read(b)
}

type stalledBody struct{ done <-chan struct{} }

func (b stalledBody) Read([]byte) (int, error) {
	if b.done == nil {
		<-make(chan struct{}) // (a channel of the bubble: the wait is durable)
	}
	<-b.done
	return 0, errors.New("simdoh: request context ended while the body was stalled")
}

type zeroStream struct{}

func (zeroStream) Read(p []byte) (int, error) {
	for i := range p {
		p[i] = 0
	}
	return len(p), nil
}

// Server is the simulated DoH upstream.
type Server struct {
	mu    sync.Mutex
	zone  *Zone
	hits  []int
	log   []Entry
	seq   int
	start time.Time
	tick  atomic.Int64

	// Latency is slept (virtual time) before every reply. It must be zero
	// when several goroutines may wait for the same resolver cache entry.
	Latency func(seq int) time.Duration
	// Yield, if set, is called once per request (PRNG-placed runtime.Gosched).
	Yield func(seq int)
	// Headers, if set, adds HTTP headers to the reply of request seq (the
	// caching vocabulary of RFC 8484 section 5.1: Age, Cache-Control).
	Headers func(seq int) http.Header
	// Override, if set and returning non-nil, replaces the reply.
	Override func(e *Entry) *Reply
	Enc      EncodeOpts
	// PadTo > 0 adds an OPT record with a padding option so that the reply
	// length is a multiple of PadTo (RFC 8467); 0 adds a bare OPT record;
	// < 0 adds none.
	PadTo int
	// Extra records appended to the authority / additional sections of
	// every answer (C12: exercises the decoders of the other record types).
	ExtraAuthority  []RR
	ExtraAdditional []RR
}

func NewServer(z *Zone) *Server {
	s := &Server{start: time.Now(), Enc: EncodeOpts{Compress: true}}
	s.SetZone(z)
	return s
}

// SetZone replaces the zone (fault burst counters restart).
func (s *Server) SetZone(z *Zone) {
	s.mu.Lock()
	s.zone = z
	s.hits = make([]int, len(z.Faults))
	s.mu.Unlock()
}

// Tick hands out the next harness sequence number.
func (s *Server) Tick() int64 { return s.tick.Add(1) }

// Now is the virtual time since the server was created.
func (s *Server) Now() time.Duration { return time.Since(s.start) }

// Log returns a copy of the request log.
func (s *Server) Log() []Entry {
	s.mu.Lock()
	defer s.mu.Unlock()
	return append([]Entry(nil), s.log...)
}

func (s *Server) LogLen() int {
	s.mu.Lock()
	defer s.mu.Unlock()
	return len(s.log)
}

var errTransport = errors.New("simdoh: connection reset by peer (injected)")

// checkQuery is the query monitor: the independent codec decodes what the
// resolver emitted.
func checkQuery(req *http.Request, body []byte) (q *Msg, problems []string) {
	if req.Method != "POST" {
		problems = append(problems, "method "+req.Method)
	}
	if ct := req.Header.Get("Content-Type"); ct != "application/dns-message" {
		problems = append(problems, "content-type "+strconv.Quote(ct))
	}
	q, err := Decode(body)
	if err != nil {
		// Say what is wrong with the name if that is the reason: read the
		// question the way its encoder must have meant it (length octets
		// taken at face value).
		if name, ok := lenientQName(body); ok {
			if pr := NameProblems(name); len(pr) > 0 {
				for _, p := range pr {
					problems = append(problems, "QNAME: "+p)
				}
				return nil, problems
			}
		}
		problems = append(problems, "undecodable query: "+strings.TrimPrefix(err.Error(), "simdoh: malformed message: "))
		return nil, problems
	}
	if len(body)%128 != 0 {
		problems = append(problems, fmt.Sprintf("query length %d is not a multiple of 128", len(body)))
	}
	if len(q.Question) != 1 {
		problems = append(problems, fmt.Sprintf("%d questions", len(q.Question)))
		return nil, problems
	}
	if q.Flags&0x8000 != 0 {
		problems = append(problems, "QR set in a query")
	}
	if q.Question[0].Class != 1 {
		problems = append(problems, fmt.Sprintf("class %d", q.Question[0].Class))
	}
	if len(q.Answer)+len(q.Authority) != 0 {
		problems = append(problems, "records in the answer/authority section of a query")
	}
	for _, p := range NameProblems(q.Question[0].Name) {
		problems = append(problems, "QNAME: "+p)
	}
	return q, problems
}

// lenientQName reads the first question name taking every length octet at
// face value (0..255), which is what an encoder that does not check label
// sizes produces.
func lenientQName(b []byte) (string, bool) {
	if len(b) < 13 || int(b[4])<<8|int(b[5]) != 1 {
		return "", false
	}
	var labels []string
	off := 12
	for {
		if off >= len(b) {
			return "", false
		}
		n := int(b[off])
		if n == 0 {
			break
		}
		if off+1+n > len(b) {
			return "", false
		}
		labels = append(labels, string(b[off+1:off+1+n]))
		off += 1 + n
	}
	if off+5 > len(b) {
		return "", false
	}
	return strings.Join(labels, "."), true
}

type failingReader struct {
	r     io.Reader
	left  int
	fired bool
}

func (f *failingReader) Read(p []byte) (int, error) {
	if f.left <= 0 {
		f.fired = true
		return 0, errors.New("simdoh: connection reset while reading the body (injected)")
	}
	if len(p) > f.left {
		p = p[:f.left]
	}
	n, err := f.r.Read(p)
	f.left -= n
	return n, err
}

// RoundTrip implements http.RoundTripper.
func (s *Server) RoundTrip(req *http.Request) (*http.Response, error) {
	var body []byte
	if req.Body != nil {
		body, _ = io.ReadAll(req.Body)
		req.Body.Close()
	}
	q, problems := checkQuery(req, body)

	s.mu.Lock()
	s.seq++
	e := Entry{Seq: s.seq, Tick: s.Tick(), At: time.Since(s.start), Len: len(body), Problems: problems, Fault: -1}
	if q != nil {
		e.QName, e.QType = q.Question[0].Name, q.Question[0].Type
	}
	seq := s.seq
	s.mu.Unlock()

	if s.Yield != nil {
		s.Yield(seq)
	}
	if s.Latency != nil {
		if d := s.Latency(seq); d > 0 {
			time.Sleep(d)
		}
	}
	if err := req.Context().Err(); err != nil {
		return nil, err
	}

	var rep *Reply
	s.mu.Lock()
	if q == nil {
		e.Outcome = "bad-query"
		rep = &Reply{Status: 400}
	} else {
		rep = s.answer(q, &e)
	}
	s.mu.Unlock()
	if s.Override != nil {
		if r := s.Override(&e); r != nil {
			rep = r
		}
	}
	var extra http.Header
	if s.Headers != nil && rep.Err == nil {
		extra = s.Headers(seq)
		var parts []string
		for _, k := range []string{"Age", "Cache-Control"} {
			if v := extra.Get(k); v != "" {
				parts = append(parts, k+": "+v)
			}
		}
		e.HTTPCache = strings.Join(parts, "; ")
	}
	s.mu.Lock()
	e.Done = time.Since(s.start)
	e.TickDone = s.Tick()
	s.log = append(s.log, e)
	s.mu.Unlock()

	if rep.Err != nil {
		return nil, rep.Err
	}
	h := http.Header{}
	for k, v := range extra {
		h[k] = v
	}
	h.Set("Content-Type", "application/dns-message")
	cl := int64(len(rep.Body))
	if rep.CL == nil {
		h.Set("Content-Length", strconv.Itoa(len(rep.Body)))
	} else if *rep.CL != "" {
		h.Set("Content-Length", *rep.CL)
		cl = -1
	} else {
		cl = -1
	}
	var rd io.Reader = bytes.NewReader(rep.Body)
	if rep.Stream > 0 {
		rd = io.LimitReader(zeroStream{}, rep.Stream)
		h.Del("Content-Length")
		cl = -1
	}
	if rep.ReadErrAfter > 0 {
		rd = &failingReader{r: rd, left: rep.ReadErrAfter}
	}
	s.mu.Lock()
	fr := s.zone.FirstRead
	s.mu.Unlock()
	if fr > 0 {
		rd = &piecewise{r: rd, first: fr}
	}
	if rep.Stall {
		rd = stalledBody{req.Context().Done()}
		h.Del("Content-Length")
		cl = -1
	}
	return &http.Response{
		Status: strconv.Itoa(rep.Status) + " " + http.StatusText(rep.Status), StatusCode: rep.Status,
		Proto: "HTTP/1.1", ProtoMajor: 1, ProtoMinor: 1,
		Header: h, Body: io.NopCloser(rd), ContentLength: cl, Request: req,
	}, nil
}

// BuildAnswer builds the reply message for a question from the zone alone
// (no faults).
func (s *Server) BuildAnswer(z *Zone, id uint16, qu Question) *Msg {
	ans, rc := z.Lookup(qu.Name, qu.Type)
	m := &Msg{ID: id, Flags: 0x8180 | uint16(rc), Question: []Question{qu}, Answer: ans}
	if z.Bulk > 0 && len(ans) > 0 {
		var txt []string
		for n := 0; n < z.Bulk; n += 200 {
			txt = append(txt, strings.Repeat("b", min(200, z.Bulk-n)))
		}
		m.Answer = append([]RR{{Name: "bulk.evil.test", Type: TypeTXT, TTL: 3600, TXT: txt}}, ans...)
	}
	for i := range z.Poison {
		// poisoned CNAMEs (owned by unrelated names) ride along with every answer
		if z.Poison[i].Type == qu.Type || z.Poison[i].Type == TypeCNAME {
			m.Answer = append(m.Answer, z.Poison[i])
		}
	}
	if z.Glue > 0 && qu.Type == TypeHTTPS {
		seen := map[string]bool{}
		for _, a := range ans {
			if a.Type != TypeHTTPS || a.Svc == nil || a.Svc.Priority == 0 {
				continue
			}
			tgt := a.Target
			if tgt == "" || tgt == "." {
				tgt = a.Name
			}
			if seen[tgt] {
				continue
			}
			seen[tgt] = true
			for _, t := range []uint16{TypeA, TypeAAAA} {
				recs, _ := z.Lookup(tgt, t)
				for _, g := range Final(recs, tgt, t) {
					g.TTL = z.Glue
					m.Additional = append(m.Additional, g)
				}
			}
		}
	}
	if z.NegSOA && len(ans) == 0 {
		labels := strings.Split(strings.TrimSuffix(qu.Name, "."), ".")
		apex := strings.Join(labels[max(0, len(labels)-1):], ".")
		m.Authority = append(m.Authority, RR{Name: apex, Type: TypeSOA, TTL: z.NegSOATTL,
			SOA: &SOA{MName: "ns1." + apex, RName: "hostmaster." + apex, Serial: 2024010101, Refresh: 7200, Retry: 900, Expire: 86400, Minimum: z.NegSOAMin}})
	}
	m.Authority = append(m.Authority, s.ExtraAuthority...)
	m.Additional = append(m.Additional, s.ExtraAdditional...)
	return m
}

// EncodeReply serialises m, adding the OPT record / padding the server is
// configured with.
func (s *Server) EncodeReply(m *Msg) ([]byte, *Layout) {
	return s.EncodeReplyExt(m, 0)
}

// EncodeReplyExt is EncodeReply with the upper eight bits of an extended RCODE
// (RFC 6891, 6.1.3) in the OPT record; a non-zero ext forces the OPT record.
func (s *Server) EncodeReplyExt(m *Msg, ext uint8) ([]byte, *Layout) {
	if s.PadTo < 0 && ext == 0 {
		return m.Encode(s.Enc)
	}
	mm := *m
	mm.Additional = append(append([]RR(nil), m.Additional...), RR{Type: TypeOPT, Class: 1232, TTL: uint32(ext) << 24})
	if s.PadTo < 0 {
		return mm.Encode(s.Enc)
	}
	b, lay := mm.Encode(s.Enc)
	if s.PadTo > 0 {
		pad := (s.PadTo - (len(b)+4)%s.PadTo) % s.PadTo
		mm.Additional[len(mm.Additional)-1].Opts = []Opt{{Code: 12, Data: make([]byte, pad)}}
		b, lay = mm.Encode(s.Enc)
	}
	return b, lay
}

// answer decides the reply to a decodable query. Called with s.mu held.
func (s *Server) answer(q *Msg, e *Entry) *Reply {
	qu := q.Question[0]
	z := s.zone
	fi := -1
	for i := range z.Faults {
		f := &z.Faults[i]
		if !f.matches(qu.Name, qu.Type) {
			continue
		}
		if f.Count > 0 && s.hits[i] >= f.Count {
			continue
		}
		s.hits[i]++
		fi = i
		break
	}
	e.Fault = fi
	var f *Fault
	if fi >= 0 {
		f = &z.Faults[fi]
		switch f.Kind {
		case FaultTransport:
			e.Outcome = "transport"
			return &Reply{Err: errTransport}
		case FaultStatus:
			e.Outcome = "status:" + strconv.Itoa(f.Status)
			return &Reply{Status: f.Status}
		case FaultRCode:
			m := &Msg{ID: q.ID, Flags: 0x8180 | uint16(f.RCode&0xf), Question: []Question{qu}}
			e.Outcome, e.Reply = "rcode:"+strconv.Itoa(f.RCode), m
			b, _ := s.EncodeReplyExt(m, uint8(f.RCode>>4))
			return &Reply{Status: 200, Body: b}
		}
	}
	if f != nil && f.Kind == FaultOtherQ {
		// question section and answer are those of another name
		m := s.BuildAnswer(z, q.ID, Question{Name: f.Text, Type: qu.Type, Class: qu.Class})
		e.Reply, e.Outcome = m, FaultOtherQ
		b, _ := s.EncodeReply(m)
		return &Reply{Status: 200, Body: b}
	}
	m := s.BuildAnswer(z, q.ID, qu)
	e.Reply = m
	e.Outcome = "answer"
	if rc := m.RCode(); rc != 0 {
		e.Outcome = "rcode:" + strconv.Itoa(rc)
	}
	b, _ := s.EncodeReply(m)
	rep := &Reply{Status: 200, Body: b}
	if f != nil {
		e.Outcome = f.Kind
		full := strconv.Itoa(len(b))
		switch f.Kind {
		case FaultTruncate:
			rep.Body = b[:min(max(f.Arg, 0), len(b))]
		case FaultCutLie:
			rep.Body = b[:min(max(f.Arg, 0), len(b))]
			rep.CL = &full
		case FaultNoCL:
			empty := ""
			rep.CL = &empty
		case FaultBadCL:
			t := f.Text
			rep.CL = &t
		case FaultCorrupt:
			if len(b) > 0 {
				c := append([]byte(nil), b...)
				c[((f.Arg%len(b))+len(b))%len(b)] ^= f.Mask
				rep.Body = c
			}
		case FaultBody:
			rep.Body = f.Body
		case FaultReadErr:
			rep.ReadErrAfter = max(f.Arg, 1)
		}
	}
	return rep
}
