//go:build verif

package e2res

import (
	"fmt"
	"runtime"
	"runtime/debug"
	"runtime/metrics"
	"sync"
	"sync/atomic"
	"syscall"
	"time"

	"verifsim/core"
)

// decodeGuard runs pure functions of a byte string (dns.DecodeMessage) under
// a real-time and allocation bound without needing to kill a goroutine: the
// input lives in an anonymous mapping of its own; a monitor goroutine that
// sees the call exceed a bound revokes read access to the mapping, the next
// load of an input byte faults, and - debug.SetPanicOnFault being set on the
// calling goroutine - the fault becomes an ordinary panic that is recovered
// here. An endless walk over the input therefore ends as a recorded outcome,
// in process, and the plan can be minimised like any other.
type decodeGuard struct {
	mem      []byte // the mapping (guardMax bytes)
	mu       sync.Mutex
	inflight atomic.Int64 // start time (unix nanos) of the call in flight, 0 if none
	epoch    atomic.Int64
	reason   atomic.Int32 // 0 none, 1 time, 2 memory
	limitNs  int64
	limitMem uint64
	sawEpoch int64
	base     uint64
	stop     chan struct{}
}

const guardMax = 1 << 17

const (
	abortNone = iota
	abortTime
	abortMem
)

func newDecodeGuard(limit time.Duration, limitMem uint64) (*decodeGuard, error) {
	mem, err := syscall.Mmap(-1, 0, guardMax, syscall.PROT_READ|syscall.PROT_WRITE, syscall.MAP_ANON|syscall.MAP_PRIVATE)
	if err != nil {
		return nil, err
	}
	g := &decodeGuard{mem: mem, limitNs: int64(limit), limitMem: limitMem, stop: make(chan struct{})}
	go g.monitor()
	return g, nil
}

func (g *decodeGuard) close() {
	close(g.stop)
	g.mu.Lock()
	syscall.Munmap(g.mem)
	g.mem = nil
	g.mu.Unlock()
}

func heapAllocs() uint64 {
	s := []metrics.Sample{{Name: "/gc/heap/allocs:bytes"}}
	metrics.Read(s)
	if s[0].Value.Kind() == metrics.KindUint64 {
		return s[0].Value.Uint64()
	}
	return 0
}

func (g *decodeGuard) monitor() {
	tk := time.NewTicker(2 * time.Millisecond)
	defer tk.Stop()
	for {
		select {
		case <-g.stop:
			return
		case <-tk.C:
		}
		t0 := g.inflight.Load()
		if t0 == 0 {
			continue
		}
		ep := g.epoch.Load()
		if ep != g.sawEpoch {
			g.sawEpoch, g.base = ep, heapAllocs()
			continue
		}
		why := abortNone
		if time.Now().UnixNano()-t0 > g.limitNs {
			why = abortTime
		} else if heapAllocs()-g.base > g.limitMem {
			why = abortMem
		}
		if why != abortNone {
			g.mu.Lock()
			if g.inflight.Load() == t0 && g.epoch.Load() == ep && g.mem != nil && g.reason.Load() == abortNone {
				g.reason.Store(int32(why))
				syscall.Mprotect(g.mem, syscall.PROT_NONE)
			}
			g.mu.Unlock()
		}
	}
}

type guardOutcome struct {
	Aborted  int // abortNone / abortTime / abortMem
	Panicked bool
	Msg      string
	Site     string
	Elapsed  time.Duration
}

// run copies in into the guarded mapping and calls f on it.
func (g *decodeGuard) run(in []byte, f func(b []byte)) (o guardOutcome) {
	if len(in) > guardMax {
		panic("decodeGuard: input too large")
	}
	// place the input at the END of the mapping: reads past it fault as well
	buf := g.mem[guardMax-len(in) : guardMax : guardMax]
	copy(buf, in)
	g.reason.Store(abortNone)
	g.epoch.Add(1)
	start := time.Now()
	g.inflight.Store(start.UnixNano())
	func() {
		old := debug.SetPanicOnFault(true)
		defer func() {
			debug.SetPanicOnFault(old)
			if r := recover(); r != nil {
				st := string(debug.Stack())
				o.Panicked = true
				o.Msg = fmt.Sprint(r)
				o.Site = core.LibFrame(st)
			}
		}()
		f(buf)
	}()
	g.inflight.Store(0)
	o.Elapsed = time.Since(start)
	g.mu.Lock()
	why := int(g.reason.Load())
	if why != abortNone {
		syscall.Mprotect(g.mem, syscall.PROT_READ|syscall.PROT_WRITE)
		g.reason.Store(abortNone)
	}
	g.mu.Unlock()
	if why != abortNone {
		o.Aborted = why
		o.Panicked = false
		runtime.GC()
		debug.FreeOSMemory()
	}
	return o
}
