package e2res

import (
	"fmt"
	"os"
	"strconv"
	"testing"
	"time"
)

func TestTiming(t *testing.T) {
	prop := os.Getenv("TPROP")
	if prop == "" {
		t.Skip()
	}
	n, _ := strconv.Atoi(os.Getenv("TN"))
	e := Engine{}
	for i := 0; i < n; i++ {
		p := e.Generate(prop, "quick", 1, i)
		t0 := time.Now()
		r := e.Execute(t, prop, p)
		d := time.Since(t0)
		desc := p.Kind
		if p.Mutate != nil {
			desc += ":" + p.Mutate.Family
		}
		if p.Adv != nil {
			desc += ":" + p.Adv.Layout
		}
		fmt.Printf("%3d %-18s %8.1fms evals=%d viol=%d harness=%q probes=%v\n", i, desc, float64(d.Microseconds())/1000, r.Evals, len(r.Violations), r.Harness, r.Probes)
	}
}
