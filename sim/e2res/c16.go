//go:build verif

package e2res

import (
	"context"
	"errors"
	"fmt"
	"iter"
	"math"
	"math/rand/v2"
	"net/http"
	"runtime"
	"slices"
	"sort"
	"strconv"
	"strings"
	"sync"
	"sync/atomic"
	"testing"
	"testing/synctest"
	"time"

	"github.com/c2FmZQ/ech"
	"github.com/c2FmZQ/ech/dns"

	"verifsim/core"
	"verifsim/simdoh"
)

// ---------------------------------------------------------------------------
// the versioned zone of C16

// SeqName is one host of the small name set. Every record value encodes the
// host's index and the version of its data, so that an answer handed out by
// the resolver can be attributed to the upstream response it came from.
type SeqName struct {
	Host string `json:"host"`
	// Shape: "plain" (A/AAAA), "cname" (host CNAME c, c A/AAAA), "cnameonly"
	// (host CNAME c, c owns nothing: answers hold only the CNAME), "https"
	// (ServiceMode record with three ALPN ids + A/AAAA), "target" (as https,
	// TargetName = Names[Other]), "alias" (AliasMode to Names[Other], no
	// addresses of its own), "nodata" (HTTPS only: address lookups are empty).
	Shape    string   `json:"shape"`
	Other    int      `json:"other,omitempty"`
	NA       int      `json:"na"`
	NAAAA    int      `json:"naaaa"`
	TTLs     []uint32 `json:"ttls"` // per record, cyclically; may mix 0 and positive
	CnameTTL uint32   `json:"cname_ttl,omitempty"`
	// NSvc: additional ServiceMode records of the "https"/"target" shapes,
	// listed before the priority-1 record in DEscending priority order (the
	// resolver has to order them; the cached RRset must not be reordered in place).
	NSvc int `json:"nsvc,omitempty"`
	// OddSvc: one more ServiceMode record, with no-default-alpn and without alpn
	// (RFC 9460 7.1.1 calls that malformed; a zone may hold it all the same)
	OddSvc bool `json:"odd_svc,omitempty"`
	// Hinted ("target" shape, concurrent plans): the records name a target that
	// owns no address and carry address hints.
	Hinted bool `json:"hinted,omitempty"`
	// Port (shape "https", sequential histories): the name is resolved as
	// host:port, so its HTTPS records live at _port._https.host - a name that
	// vanishes altogether (NXDOMAIN) when the records are withdrawn.
	Port int `json:"port,omitempty"`
	// Upper (sequential histories): the caller spells the name with an
	// upper-case letter (names compare without regard to case).
	Upper bool `json:"upper,omitempty"`
}

func (n *SeqName) input() string {
	h := n.Host
	if n.Upper {
		h = strings.ToUpper(h[:1]) + h[1:]
	}
	if n.Port != 0 {
		return fmt.Sprintf("%s:%d", h, n.Port)
	}
	return h
}

func (n *SeqName) httpsOwner() string {
	if n.Port != 0 {
		return fmt.Sprintf("_%d._https.%s", n.Port, n.Host)
	}
	return n.Host
}

type nameState struct {
	version   int
	ttls      []uint32
	withdrawn bool // the HTTPS records are gone for now
}

func valA(idx, ver, slot int) string {
	return fmt.Sprintf("10.%d.%d.%d", ver>>8&255, ver&255, idx*16+slot+1)
}

func valAAAA(idx, ver, slot int) string {
	return normIP(fmt.Sprintf("fd00::%x:%x", ver, idx*16+slot+1))
}

func cnameTarget(host string) string { return "c." + host }

// buildZone renders the current state.
func buildZone(names []SeqName, st []nameState, fault string) *simdoh.Zone {
	z := &simdoh.Zone{}
	for i, n := range names {
		ver := st[i].version
		ttls := st[i].ttls
		if len(ttls) == 0 {
			ttls = []uint32{60}
		}
		k := 0
		ttl := func() uint32 { k++; return ttls[(k-1)%len(ttls)] }
		owner := n.Host
		switch n.Shape {
		case "cname", "cnameonly":
			z.RRs = append(z.RRs, simdoh.RR{Name: n.Host, Type: simdoh.TypeCNAME, TTL: n.CnameTTL, Target: cnameTarget(n.Host)})
			owner = cnameTarget(n.Host)
			if n.Shape == "cnameonly" {
				// the target exists but owns no address: NOERROR answers that hold only the CNAME
				z.RRs = append(z.RRs, simdoh.RR{Name: owner, Type: simdoh.TypeTXT, TTL: 60, TXT: []string{"no addresses here"}})
			}
		}
		switch n.Shape {
		case "https", "target", "nodata":
			tgt := ""
			if n.Shape == "target" {
				tgt = names[n.Other].Host
			}
			if st[i].withdrawn {
				break
			}
			var h4, h6 []string
			if n.Hinted && n.Shape == "target" {
				tgt = "void." + names[n.Other].Host
				h4, h6 = []string{valA(i, ver, 7)}, []string{valAAAA(i, ver, 7)}
			}
			if n.Shape != "nodata" {
				for x := n.NSvc; x >= 1; x-- {
					z.RRs = append(z.RRs, simdoh.RR{Name: n.httpsOwner(), Type: simdoh.TypeHTTPS, TTL: ttl(), Target: tgt,
						Svc: &simdoh.Svc{Priority: uint16(1 + x), ALPN: []string{"h2", "p" + fmt.Sprint(x), "v" + fmt.Sprint(ver)}, ECH: []byte{0xEC, byte(ver >> 8), byte(ver), byte(i), byte(x)}}})
				}
			}
			z.RRs = append(z.RRs, simdoh.RR{Name: n.httpsOwner(), Type: simdoh.TypeHTTPS, TTL: ttl(), Target: tgt,
				Svc: &simdoh.Svc{Priority: 1, ALPN: []string{"h3", "h2", "v" + fmt.Sprint(ver)}, ECH: []byte{0xEC, byte(ver >> 8), byte(ver), byte(i)}, V4Hint: h4, V6Hint: h6}})
			if n.OddSvc && n.Shape != "nodata" {
				z.RRs = append(z.RRs, simdoh.RR{Name: n.httpsOwner(), Type: simdoh.TypeHTTPS, TTL: ttl(), Target: tgt,
					Svc: &simdoh.Svc{Priority: 9, NoDefaultALPN: true, Port: uint16(9000 + ver%100)}})
			}
		case "alias":
			z.RRs = append(z.RRs, simdoh.RR{Name: n.Host, Type: simdoh.TypeHTTPS, TTL: ttl(), Target: names[n.Other].Host, Svc: &simdoh.Svc{}})
		}
		switch n.Shape {
		case "cnameonly", "alias", "nodata":
		default:
			for s := 0; s < n.NA; s++ {
				z.RRs = append(z.RRs, simdoh.RR{Name: owner, Type: simdoh.TypeA, TTL: ttl(), IP: valA(i, ver, s)})
			}
			for s := 0; s < n.NAAAA; s++ {
				z.RRs = append(z.RRs, simdoh.RR{Name: owner, Type: simdoh.TypeAAAA, TTL: ttl(), IP: valAAAA(i, ver, s)})
			}
		}
	}
	switch fault {
	case "5xx":
		z.Faults = []simdoh.Fault{{Kind: simdoh.FaultStatus, Status: 503}}
	case "transport":
		z.Faults = []simdoh.Fault{{Kind: simdoh.FaultTransport}}
	case "servfail":
		z.Faults = []simdoh.Fault{{Kind: simdoh.FaultRCode, RCode: 2}}
	case "burst":
		z.Faults = []simdoh.Fault{{Kind: simdoh.FaultStatus, Status: 502, Count: 2}}
	case "refused":
		z.Faults = []simdoh.Fault{{Kind: simdoh.FaultRCode, RCode: 5}}
	case "rcode9":
		// a response code without a name of its own in the library (NOTAUTH): a failure all the same
		z.Faults = []simdoh.Fault{{Kind: simdoh.FaultRCode, RCode: 9}}
	case "rcode6":
		z.Faults = []simdoh.Fault{{Kind: simdoh.FaultRCode, RCode: 6}}
	case "rcode16": // extended RCODE whose header nibble is zero
		z.Faults = []simdoh.Fault{{Kind: simdoh.FaultRCode, RCode: 16}}
	}
	return z
}

// ---------------------------------------------------------------------------
// the history and its rule (DESIGN appendix A.2)

type respRec struct {
	key    string // "name/type"
	values []string
	minTTL float64 // seconds; +Inf if the answer section is empty
	maxTTL float64
	nAns   int
	done   time.Duration
	tick   int64
	failed bool // the exchange did not deliver an answer (transport, status, rcode)
	nx     bool // ... because the name does not exist
	// the reply carried Age / Cache-Control headers
	httpCache bool
	// glue: not an answer to a question of its own: address records that rode
	// along in the additional section of another answer. A resolver may use
	// them (for as long as the smallest TTL of that response allows) or not.
	glue bool
}

func keyOf(name string, typ uint16) string {
	return strings.ToLower(strings.TrimSuffix(name, ".")) + "/" + simdoh.TypeName(typ)
}

func valuesOf(recs []simdoh.RR) []string {
	var out []string
	for i := range recs {
		switch recs[i].Type {
		case simdoh.TypeA, simdoh.TypeAAAA:
			out = append(out, normIP(recs[i].IP))
		case simdoh.TypeHTTPS:
			out = append(out, zoneSvcText(&recs[i]))
		}
	}
	sort.Strings(out)
	return out
}

func responsesOf(log []simdoh.Entry) []respRec {
	var out []respRec
	for _, e := range log {
		r := respRec{key: keyOf(e.QName, e.QType), done: e.Done, tick: e.TickDone, httpCache: e.HTTPCache != ""}
		if e.Outcome != "answer" || e.Reply == nil {
			// NXDOMAIN and other rcodes, HTTP errors, transport errors
			r.failed = true
			r.nx = e.Outcome == "rcode:3"
			out = append(out, r)
			continue
		}
		r.minTTL, r.maxTTL = math.Inf(1), 0
		for _, a := range e.Reply.Answer {
			r.minTTL = math.Min(r.minTTL, float64(a.TTL))
			r.maxTTL = math.Max(r.maxTTL, float64(a.TTL))
		}
		r.nAns = len(e.Reply.Answer)
		r.values = valuesOf(simdoh.Final(e.Reply.Answer, e.QName, e.QType))
		out = append(out, r)
		// glue
		whole := r.minTTL
		byOwner := map[string][]simdoh.RR{}
		var owners []string
		for _, a := range e.Reply.Additional {
			if a.Type != simdoh.TypeA && a.Type != simdoh.TypeAAAA {
				continue
			}
			whole = math.Min(whole, float64(a.TTL))
			k := keyOf(a.Name, a.Type)
			if _, ok := byOwner[k]; !ok {
				owners = append(owners, k)
			}
			byOwner[k] = append(byOwner[k], a)
		}
		for _, k := range owners {
			g := respRec{key: k, done: e.Done, tick: e.TickDone, glue: true, nAns: len(byOwner[k]), values: valuesOf(byOwner[k])}
			g.minTTL, g.maxTTL = whole, whole
			out = append(out, g)
		}
	}
	return out
}

// observation: what one Resolve call returned for one cache key.
type observation struct {
	key    string
	values []string
	// derived: addresses of a service target - a name the call can only have
	// learnt from the HTTPS answer, so they were looked up after it
	derived bool
}

type callRec struct {
	g        int
	name     int
	t0, t1   time.Duration
	c0, c1   int64 // harness ticks around the call
	err      error
	obs      []observation
	panicMsg string
	panicAt  string
	afterOp  int // index of the op (mode S)
	// cancelled: the caller's context was (being) cancelled during the call
	cancelled bool
}

// observe splits a result into per-key observations.
func observe(names []SeqName, i int, r ech.ResolveResult) []observation {
	owner := i
	if names[i].Shape == "alias" {
		owner = names[i].Other
	}
	var v4, v6, hs []string
	for _, a := range r.Address {
		if len(a) == 4 {
			v4 = append(v4, ipStr(a))
		} else {
			v6 = append(v6, ipStr(a))
		}
	}
	for _, h := range r.HTTPS {
		hs = append(hs, libSvcText(h))
	}
	sort.Strings(v4)
	sort.Strings(v6)
	sort.Strings(hs)
	host := names[owner].Host
	obs := []observation{{keyOf(names[owner].httpsOwner(), simdoh.TypeHTTPS), hs, false}, {keyOf(host, simdoh.TypeA), v4, false}, {keyOf(host, simdoh.TypeAAAA), v6, false}}
	if names[i].Shape == "alias" {
		// the alias record itself is not visible in the result
	}
	var ts []string
	for t := range r.Additional {
		ts = append(ts, t)
	}
	sort.Strings(ts)
	for _, t := range ts {
		var a4, a6 []string
		for _, a := range r.Additional[t] {
			if len(a) == 4 {
				a4 = append(a4, ipStr(a))
			} else {
				a6 = append(a6, ipStr(a))
			}
		}
		sort.Strings(a4)
		sort.Strings(a6)
		// an empty half is not told apart from a failed lookup: only what
		// is there is attributed
		if len(a4) > 0 {
			obs = append(obs, observation{keyOf(t, simdoh.TypeA), a4, true})
		}
		if len(a6) > 0 {
			obs = append(obs, observation{keyOf(t, simdoh.TypeAAAA), a6, true})
		}
	}
	return obs
}

func sameValues(a, b []string) bool {
	if len(a) != len(b) {
		return false
	}
	for i := range a {
		if a[i] != b[i] {
			return false
		}
	}
	return true
}

const emptyAnswerKeep = 300.0 // seconds: documented life of an answer without records

type cacheOpRec struct {
	tick int64
	size int
}

// judgeHistory applies the freshness rule to every call; sequential adds the
// "must be served from the cache" rule.
func judgeHistory(res *core.Result, prop string, calls []callRec, resps []respRec, cacheOps []cacheOpRec, sequential bool, keysTouched func(upTo int64) int) {
	byKey := map[string][]int{}
	for i := range resps {
		byKey[resps[i].key] = append(byKey[resps[i].key], i)
	}
	mustHit := mustHitRule(res, prop, resps, byKey, cacheOps, keysTouched)
	failedIn := func(c0, c1 int64) bool {
		for i := range resps {
			if resps[i].failed && resps[i].tick > c0 && resps[i].tick < c1 {
				return true
			}
		}
		return false
	}
	for ci := range calls {
		c := &calls[ci]
		if c.panicMsg != "" {
			res.Fail(prop, "panic", c.panicAt+": "+normMsg(c.panicMsg), "call %d: %s", ci, c.panicMsg)
			continue
		}
		if c.err != nil && c.cancelled && (errors.Is(c.err, context.Canceled) || errors.Is(c.err, context.DeadlineExceeded)) {
			res.Probe("caller_gave_up")
			continue
		}
		if c.err != nil {
			if !failedIn(c.c0, c.c1) {
				res.Fail(prop, "error-without-failure", "Resolve failed although no upstream exchange failed during the call", "call %d at %v: %v", ci, c.t1, c.err)
			} else {
				res.Probe("error_surfaced")
			}
			if sequential {
				// a failed call, too, only asks for what its cache does not hold
				var keys []string
				for i := range resps {
					if resps[i].tick > c.c0 && resps[i].tick < c.c1 && !slices.Contains(keys, resps[i].key) {
						keys = append(keys, resps[i].key)
					}
				}
				mustHit(ci, c, keys)
			}
			continue
		}
		for _, o := range c.obs {
			var cands []int
			nxNow := false
			for _, ri := range byKey[o.key] {
				r := &resps[ri]
				if !r.failed && r.tick < c.c1 && sameValues(r.values, o.values) {
					cands = append(cands, ri)
				}
				if r.nx && len(o.values) == 0 && r.tick > c.c0 && r.tick < c.c1 && strings.HasSuffix(o.key, "/HTTPS") {
					// NXDOMAIN on the HTTPS lookup of this very call: absence
					nxNow = true
				}
			}
			if nxNow {
				res.Probe("https_nxdomain_as_absence")
				continue
			}
			if len(cands) == 0 {
				if len(o.values) == 0 && len(byKey[o.key]) == 0 {
					continue // nothing was ever asked for this key (an empty half of a result)
				}
				res.Fail(prop, "unattributable", "answer that no single upstream response for the key carried", "call %d at %v, key %s: %v", ci, c.t1, o.key, o.values)
				continue
			}
			fresh := false
			// The lookup happened somewhere between the start and the end of the
			// call: the start is the reference (never flags an answer that was
			// fresh when it was looked up). For the addresses of a service target
			// the reference is later: the target's name comes out of the HTTPS
			// answer, so when that answer arrived from upstream during this call
			// the target was looked up after it.
			ref := c.t0
			if sequential && o.derived {
				for i := range resps {
					if h := &resps[i]; h.tick > c.c0 && h.tick < c.c1 && !h.failed && strings.HasSuffix(h.key, "/HTTPS") && h.done > ref {
						ref = h.done
						res.Probe("target_lookup_after_slow_https")
					}
				}
			}
			for _, ri := range cands {
				r := &resps[ri]
				if r.tick > c.c0 { // received during this very call
					fresh = true
					break
				}
				// the lookup happened somewhere between the start and the
				// end of the call: the start is used (never flags an answer
				// that was fresh when it was looked up)
				age := (ref - r.done).Seconds()
				limit := r.minTTL
				if math.IsInf(limit, 1) {
					limit = emptyAnswerKeep
				}
				if limit > 0 && age <= limit {
					fresh = true
					if age > 0 {
						res.Probe("served_from_cache")
					}
					break
				}
			}
			if fresh {
				continue
			}
			r := &resps[cands[len(cands)-1]]
			age := ref - r.done
			site := "answer served beyond the smallest TTL of its response"
			switch {
			case len(r.values) == 0 && r.nAns > 0:
				site = "answer without records of the asked type (CNAME only) kept beyond the TTL of its records"
			case r.minTTL == 0 && r.maxTTL > 0:
				site = "response with a zero-TTL record and positive-TTL siblings served from the cache"
			case r.minTTL == 0:
				site = "zero-TTL response served from the cache"
			case age.Seconds() > r.maxTTL:
				site = "answer served beyond every TTL of its response"
			}
			res.Fail(prop, "stale", site, "call %d at %v, key %s: %v came with the response received at %v (min TTL %v s, max %v s): age %v", ci, c.t1, o.key, o.values, r.done, r.minTTL, r.maxTTL, age)
		}
		if !sequential {
			continue
		}
		// must-hit: within the TTL, with few keys, nothing goes upstream
		var keys []string
		for _, o := range c.obs {
			keys = append(keys, o.key)
		}
		mustHit(ci, c, keys)
	}
}

// (the closure below is set up by judgeHistory before its loop)
func mustHitRule(res *core.Result, prop string, resps []respRec, byKey map[string][]int, cacheOps []cacheOpRec, keysTouched func(upTo int64) int) func(ci int, c *callRec, keys []string) {
	return func(ci int, c *callRec, keys []string) {
		for _, key := range keys {
			o := struct{ key string }{key}
			var last *respRec
			for _, ri := range byKey[o.key] {
				if resps[ri].tick < c.c0 && !resps[ri].glue {
					last = &resps[ri]
				}
			}
			if last != nil && last.httpCache {
				// the reply said how long it had sat in an HTTP cache: a resolver
				// that takes that off the TTLs (RFC 8484, 5.1) may ask again earlier
				res.Probe("must_hit_waived_http_age")
				continue
			}
			if last == nil || last.failed || last.minTTL <= 0 || math.IsInf(last.minTTL, 1) || last.nAns == 0 {
				continue // answers without records may be dropped early (documented: kept 300 s)
			}
			if (c.t1 - last.done).Seconds() >= last.minTTL {
				continue
			}
			size, since := 32, int64(0)
			for _, op := range cacheOps {
				if op.tick < c.c0 {
					size, since = op.size, op.tick
				}
			}
			if size <= 0 || last.tick < since || keysTouched(c.c1)*4 > size {
				continue
			}
			for _, ri := range byKey[o.key] {
				if resps[ri].tick > c.c0 && resps[ri].tick < c.c1 && !resps[ri].glue {
					res.Fail(prop, "cache-miss", "repeated lookup within the TTL went upstream", "call %d at %v, key %s: response of %v (min TTL %v s) still fresh, %d keys in use, cache size %d", ci, c.t1, o.key, last.done, last.minTTL, keysTouched(c.c1), size)
					break
				}
			}
			res.Probe("must_hit_asserted")
		}
	}
}

// ---------------------------------------------------------------------------
// mode S: sequential histories

type SeqOp struct {
	Op    string   `json:"op"` // resolve, sleep, change, fail, heal, cache
	Name  int      `json:"name,omitempty"`
	DurNs int64    `json:"dur_ns,omitempty"`
	Fail  string   `json:"fail,omitempty"`
	Size  int      `json:"size,omitempty"`
	TTLs  []uint32 `json:"ttls,omitempty"` // change: new TTLs (nil: keep)
	// Toggle (change): the HTTPS records of the name are withdrawn / published again.
	Toggle bool `json:"toggle,omitempty"`
}

type SeqPlan struct {
	Names     []SeqName `json:"names"`
	Ops       []SeqOp   `json:"ops"`
	LatencyUs int       `json:"latency_us"`
	CacheSize int       `json:"cache_size"`
	// HTTPCache > 0: the upstream (a DoH server behind an HTTP cache) adds Age /
	// Cache-Control headers to its replies, drawn per request from the value.
	HTTPCache uint64 `json:"http_cache,omitempty"`
	// NegSOA: answers without records carry the zone's SOA in the authority
	// section (TTL 7200, MINIMUM 86400).
	NegSOA bool `json:"neg_soa,omitempty"`
	// Glue > 0: HTTPS answers carry the address records of their targets in the
	// additional section, with this TTL.
	Glue uint32 `json:"glue,omitempty"`
}

var seqHosts = []string{"a.test", "b.test", "c.d.test", "e.test"}

func genTTLs(r *rand.Rand) []uint32 {
	switch r.IntN(8) {
	case 0:
		return []uint32{0}
	case 1:
		return []uint32{0, uint32(core.Pick(r, []int{1, 5, 60}))}
	case 2:
		return []uint32{uint32(core.Pick(r, []int{1, 5, 60})), 0}
	case 3:
		return []uint32{uint32(core.Pick(r, []int{5, 60})), uint32(core.Pick(r, []int{1, 2})), 3600}
	case 4:
		return []uint32{0, 0, 30}
	default:
		return []uint32{uint32(core.Pick(r, []int{1, 2, 5, 60, 3600}))}
	}
}

func genNames(r *rand.Rand, n int, conc bool) []SeqName {
	var names []SeqName
	for i := 0; i < n; i++ {
		s := SeqName{Host: seqHosts[i], NA: core.Between(r, 1, 3), NAAAA: r.IntN(3), TTLs: genTTLs(r), CnameTTL: uint32(core.Pick(r, []int{0, 1, 5, 60, 600}))}
		shapes := []string{"plain", "plain", "cname", "cnameonly", "https", "https", "nodata"}
		if conc {
			shapes = []string{"https", "https", "https", "plain", "cname"}
		}
		if n > 1 {
			shapes = append(shapes, "target", "alias")
		}
		s.Shape = core.Pick(r, shapes)
		if (s.Shape == "https" || s.Shape == "target") && core.Chance(r, 1, 2) {
			s.NSvc = core.Between(r, 1, 4)
		}
		if s.Shape == "target" || s.Shape == "alias" {
			s.Other = (i + 1 + r.IntN(n-1)) % n
		}
		names = append(names, s)
	}
	// an alias must end at a name that is not itself an alias (keeps the
	// attribution of observations simple)
	for i := range names {
		if names[i].Shape == "alias" && names[names[i].Other].Shape == "alias" {
			names[i].Shape = "https"
		}
	}
	return names
}

func genC16(seed uint64, idx int) *Plan {
	r := core.NewRand(seed, "plan")
	if idx%2 == 1 {
		return genConc(seed, r)
	}
	p := &SeqPlan{}
	p.Names = genNames(r, core.Between(r, 1, 4), false)
	for i := range p.Names {
		referenced := false
		for j := range p.Names {
			if j != i && (p.Names[j].Shape == "target" || p.Names[j].Shape == "alias") && p.Names[j].Other == i {
				referenced = true
			}
		}
		if p.Names[i].Shape == "https" && !referenced && idx%4 == 0 {
			p.Names[i].Port = 8443
		}
		if !referenced && (p.Names[i].Shape == "plain" || p.Names[i].Shape == "https") && idx%6 == 2 {
			p.Names[i].Upper = true
		}
	}
	p.LatencyUs = core.Pick(r, []int{1, 500, 20000, 20000, 1500000, 4000000})
	p.CacheSize = core.Pick(r, []int{-1, -1, -1, 128, 128, 8, 2, 0})
	if idx%8 == 6 {
		p.HTTPCache = 1 + r.Uint64()>>1
	}
	p.NegSOA = idx%8 == 4
	if idx%16 == 14 || idx%16 == 8 {
		for i := range p.Names {
			p.Names[i].OddSvc = true
		}
	}
	if idx%16 == 2 || idx%16 == 10 {
		p.Glue = core.Pick(r, []uint32{1, 1, 5, 30})
	}
	lat := time.Duration(p.LatencyUs) * time.Microsecond
	var ttls []int64
	for _, n := range p.Names {
		for _, t := range n.TTLs {
			if t > 0 {
				ttls = append(ttls, int64(t))
			}
		}
		if n.CnameTTL > 0 {
			ttls = append(ttls, int64(n.CnameTTL))
		}
	}
	ttls = append(ttls, 300)
	nops := core.Between(r, 4, 40)
	failing := false
	for len(p.Ops) < nops {
		switch x := r.IntN(20); {
		case x < 9:
			p.Ops = append(p.Ops, SeqOp{Op: "resolve", Name: r.IntN(len(p.Names))})
		case x < 14:
			T := core.Pick(r, ttls) * int64(time.Second)
			d := core.Pick(r, []int64{0, int64(time.Millisecond), T - 1, T, T + 1, T - int64(lat), T - 2*int64(lat), T - 3*int64(lat), T + int64(lat), T / 2, 5 * 3600 * int64(time.Second), 301 * int64(time.Second)})
			if d < 0 {
				d = 0
			}
			p.Ops = append(p.Ops, SeqOp{Op: "sleep", DurNs: d})
		case x < 17:
			op := SeqOp{Op: "change", Name: r.IntN(len(p.Names))}
			if core.Chance(r, 1, 3) {
				op.TTLs = genTTLs(r)
			}
			op.Toggle = core.Chance(r, 1, 3)
			p.Ops = append(p.Ops, op)
		case x < 19:
			if failing {
				p.Ops = append(p.Ops, SeqOp{Op: "heal"})
			} else {
				p.Ops = append(p.Ops, SeqOp{Op: "fail", Fail: core.Pick(r, []string{"5xx", "transport", "servfail", "burst", "refused", "rcode9", "rcode6", "rcode16"})})
			}
			failing = !failing
		default:
			p.Ops = append(p.Ops, SeqOp{Op: "cache", Size: core.Pick(r, []int{0, 1, 2, 8, 32, 128})})
		}
	}
	return &Plan{Kind: "seq", Seed: seed, Seq: p}
}

func executeSeq(t *testing.T, prop string, pl *Plan) *core.Result {
	p := pl.Seq
	res := &core.Result{Evals: 1}
	var calls []callRec
	var cacheOps []cacheOpRec
	var log []string
	var entries []simdoh.Entry
	var leakedLib []string
	msg := core.Bubble(t, func(t *testing.T) {
		st := make([]nameState, len(p.Names))
		version := 0
		for i := range st {
			version++
			st[i] = nameState{version: version, ttls: p.Names[i].TTLs}
		}
		fault := ""
		buildZone := func(names []SeqName, st []nameState, fault string) *simdoh.Zone {
			z := buildZone(names, st, fault)
			if p.NegSOA {
				z.NegSOA, z.NegSOATTL, z.NegSOAMin = true, 7200, 86400
			}
			z.Glue = p.Glue
			return z
		}
		srv := simdoh.NewServer(buildZone(p.Names, st, fault))
		srv.PadTo = 128
		lat := time.Duration(p.LatencyUs) * time.Microsecond
		srv.Latency = func(int) time.Duration { return lat }
		if p.HTTPCache > 0 {
			srv.Headers = func(seq int) http.Header {
				h := http.Header{}
				x := core.Mix(p.HTTPCache, "hdr", seq)
				if x%3 != 0 {
					h.Set("Age", strconv.Itoa(core.Pick(core.NewRand(x, "age"), []int{0, 1, 2, 3, 5, 10, 59, 60, 61, 299, 300, 301, 4000, 90000})))
				}
				if x%3 != 1 {
					h.Set("Cache-Control", "max-age="+strconv.Itoa(core.Pick(core.NewRand(x, "max-age"), []int{0, 1, 5, 60, 300, 3600, 86400})))
				}
				return h
			}
		}
		dns.VerifRoundTripper = srv
		defer func() { dns.VerifRoundTripper = nil }()
		rs, err := newResolver(p.CacheSize)
		if err != nil {
			res.Harness = err.Error()
			return
		}
		if p.CacheSize >= 0 {
			cacheOps = append(cacheOps, cacheOpRec{tick: srv.Tick(), size: p.CacheSize})
		}
		for oi, op := range p.Ops {
			switch op.Op {
			case "resolve":
				if op.Name >= len(p.Names) {
					continue
				}
				c := callRec{name: op.Name, afterOp: oi, t0: srv.Now(), c0: srv.Tick()}
				var rr ech.ResolveResult
				var panicked bool
				panicked, c.panicMsg, c.panicAt = core.Guard(func() { rr, c.err = rs.Resolve(context.Background(), p.Names[op.Name].input()) })
				c.t1, c.c1 = srv.Now(), srv.Tick()
				if !panicked && c.err == nil {
					c.obs = observe(p.Names, op.Name, rr)
				}
				calls = append(calls, c)
				log = append(log, fmt.Sprintf("%d resolve %d t=%d..%d err=%v obs=%v", oi, op.Name, c.t0, c.t1, c.err != nil, c.obs))
			case "sleep":
				time.Sleep(time.Duration(op.DurNs))
				log = append(log, fmt.Sprintf("%d sleep %d", oi, op.DurNs))
			case "change":
				if op.Name >= len(p.Names) {
					continue
				}
				version++
				st[op.Name].version = version
				if op.TTLs != nil {
					st[op.Name].ttls = op.TTLs
				}
				if op.Toggle {
					st[op.Name].withdrawn = !st[op.Name].withdrawn
					res.Fault("https_records_toggled")
				}
				srv.SetZone(buildZone(p.Names, st, fault))
				log = append(log, fmt.Sprintf("%d change %d v%d", oi, op.Name, version))
			case "fail", "heal":
				fault = op.Fail
				if op.Op == "heal" {
					fault = ""
				}
				srv.SetZone(buildZone(p.Names, st, fault))
				log = append(log, fmt.Sprintf("%d fault %q", oi, fault))
			case "cache":
				panicked, pm, ps := core.Guard(func() { rs.SetCacheSize(op.Size) })
				if panicked {
					res.Fail(prop, "panic", ps+": "+normMsg(pm), "SetCacheSize(%d): %s", op.Size, pm)
				}
				cacheOps = append(cacheOps, cacheOpRec{tick: srv.Tick(), size: op.Size})
				log = append(log, fmt.Sprintf("%d cache %d", oi, op.Size))
			}
		}
		entries = srv.Log()
		res.SimNs = int64(srv.Now())
		synctest.Wait()
		leakedLib, _ = core.Leaked()
	})
	if res.Harness != "" {
		return res
	}
	if msg != "" {
		if strings.Contains(msg, "deadlock") {
			res.Fail(prop, "hang", "Resolve never returns (every goroutine blocked)", "%s", firstLine(msg))
		} else {
			res.Harness = "bubble: " + firstLine(msg)
		}
		return res
	}
	if len(leakedLib) > 0 {
		res.Fail(prop, "goroutine-leak", "library goroutine alive after the history: "+leakedLib[0], "%v", leakedLib)
	}
	for _, e := range entries {
		for _, pr := range e.Problems {
			res.Fail(prop, "invalid-query", normMsg(pr), "query %d (%q type %d, %d octets): %s", e.Seq, e.QName, e.QType, e.Len, pr)
		}
		log = append(log, fmt.Sprintf("q %d %s/%d at %d..%d %s", e.Seq, e.QName, e.QType, e.At, e.Done, e.Outcome))
	}
	resps := responsesOf(entries)
	keysTouched := func(upTo int64) int {
		seen := map[string]bool{}
		for i := range resps {
			if resps[i].tick < upTo {
				seen[resps[i].key] = true
			}
		}
		return len(seen)
	}
	judgeHistory(res, prop, calls, resps, cacheOps, true, keysTouched)
	seqProbes(res, p, calls, resps)
	var sig []string
	for _, c := range calls {
		n := 0
		for i := range resps {
			if resps[i].tick > c.c0 && resps[i].tick < c.c1 {
				n++
			}
		}
		sig = append(sig, fmt.Sprintf("%s:%d:%v", p.Names[c.name].Shape, n, c.err != nil))
	}
	res.NonTrivial = len(calls) > 0
	res.Sig = core.SigOf(sig...)
	res.LogHash = core.HashLog(log)
	res.Sample = map[string]any{"kind": "seq", "names": len(p.Names), "ops": len(p.Ops), "calls": len(calls), "upstream_requests": len(entries), "virtual_s": float64(res.SimNs) / 1e9}
	return res
}

func seqProbes(res *core.Result, p *SeqPlan, calls []callRec, resps []respRec) {
	for i := range resps {
		r := &resps[i]
		if r.failed {
			res.Fault("upstream_failure")
			continue
		}
		if r.minTTL == 0 && r.maxTTL > 0 {
			res.Probe("ttl0_mixed")
		}
		if len(r.values) == 0 && r.nAns > 0 {
			res.Probe("cname_only_answer")
		}
		// a response for a key that had an earlier, expired response: refetch
		for j := 0; j < i; j++ {
			q := &resps[j]
			if q.key == r.key && !q.failed && q.minTTL > 0 && !math.IsInf(q.minTTL, 1) && (r.done-q.done).Seconds() >= q.minTTL {
				res.Probe("cache_expiry_refetch")
				break
			}
		}
	}
	for _, c := range calls {
		if c.t1-c.t0 >= time.Second {
			res.Probe("retry_backoff_used")
		}
	}
}

func shrinkSeq(p *Plan) []*Plan {
	var out []*Plan
	s := p.Seq
	add := func(f func(q *SeqPlan)) {
		q := p.clone()
		f(q.Seq)
		out = append(out, q)
	}
	n := len(s.Ops)
	for c := n / 2; c >= 1; c /= 2 {
		for at := 0; at+c <= n; at += c {
			add(func(q *SeqPlan) { q.Ops = append(q.Ops[:at:at], q.Ops[at+c:]...) })
		}
		if len(out) > 120 {
			break
		}
	}
	// drop the last name if nothing refers to it
	if k := len(s.Names) - 1; k > 0 {
		used := false
		for _, op := range s.Ops {
			if (op.Op == "resolve" || op.Op == "change") && op.Name == k {
				used = true
			}
		}
		for _, nm := range s.Names[:k] {
			if (nm.Shape == "target" || nm.Shape == "alias") && nm.Other == k {
				used = true
			}
		}
		if !used {
			add(func(q *SeqPlan) { q.Names = q.Names[:k] })
		}
	}
	for i, nm := range s.Names {
		if nm.Shape != "plain" {
			add(func(q *SeqPlan) { q.Names[i].Shape = "plain" })
		}
		if nm.NAAAA > 0 {
			add(func(q *SeqPlan) { q.Names[i].NAAAA = 0 })
		}
		if nm.NA > 2 {
			add(func(q *SeqPlan) { q.Names[i].NA = 2 })
		}
		if len(nm.TTLs) > 2 {
			add(func(q *SeqPlan) { q.Names[i].TTLs = q.Names[i].TTLs[:2] })
		}
	}
	if s.CacheSize != -1 {
		add(func(q *SeqPlan) { q.CacheSize = -1 })
	}
	if s.LatencyUs != 1 {
		add(func(q *SeqPlan) { q.LatencyUs = 1 })
	}
	for i, op := range s.Ops {
		if op.Op == "sleep" && op.DurNs > int64(time.Second) && op.DurNs%int64(time.Second) != 0 {
			add(func(q *SeqPlan) { q.Ops[i].DurNs = (op.DurNs/int64(time.Second) + 1) * int64(time.Second) })
		}
	}
	return out
}

// ---------------------------------------------------------------------------
// mode R: concurrent workload (the Go scheduler owns the interleaving; the
// race detector and the history rule judge it)

type ConcPlan struct {
	Names      []SeqName `json:"names"`
	Goroutines int       `json:"goroutines"`
	Iter       int       `json:"iter"`
	Changes    int       `json:"changes"`  // zone changes made by goroutine 0, spread over its iterations
	FailAt     int       `json:"fail_at"`  // iteration of goroutine 0 at which the upstream starts failing (-1: never)
	HealAt     int       `json:"heal_at"`  // ... and recovers
	SleepMs    []int     `json:"sleep_ms"` // virtual sleeps between operations are drawn from these
	YieldPct   int       `json:"yield_pct"`
	CacheSize  int       `json:"cache_size"`
	Networks   []string  `json:"networks"`
	// MovingClock: the cache's clock (hook H3) is a counter that a ticker
	// goroutine advances in PRNG steps while the lookups are in flight, so that
	// entries expire in the middle of concurrent calls (the bubble's own clock
	// only moves when every goroutine sleeps). Judged by the race detector and
	// the panic / leak monitors only: ages are not comparable across the two clocks.
	MovingClock bool `json:"moving_clock,omitempty"`
	// CancelPct: that share of the calls has its context cancelled by another
	// goroutine a PRNG number of scheduler yields after the call began.
	CancelPct int `json:"cancel_pct,omitempty"`
}

func genConc(seed uint64, r *rand.Rand) *Plan {
	p := &ConcPlan{}
	p.Names = genNames(r, core.Between(r, 1, 3), true)
	for i := range p.Names {
		if core.Chance(r, 2, 3) {
			p.Names[i].TTLs = []uint32{uint32(core.Pick(r, []int{0, 1, 2, 60}))}
		}
	}
	for i := range p.Names {
		p.Names[i].Hinted = p.Names[i].Shape == "target" && core.Chance(r, 1, 2)
	}
	p.Goroutines = core.Pick(r, []int{2, 2, 3, 4, 8, 16})
	p.Iter = core.Between(r, 3, 24)
	p.Changes = r.IntN(4)
	p.FailAt, p.HealAt = -1, -1
	if core.Chance(r, 1, 5) {
		p.FailAt = r.IntN(p.Iter)
		p.HealAt = p.FailAt + 1 + r.IntN(3)
	}
	p.SleepMs = core.Pick(r, [][]int{{0}, {0, 0, 1}, {0, 500, 1000}, {0, 0, 0, 2500}})
	p.YieldPct = core.Pick(r, []int{0, 10, 50, 90})
	p.CacheSize = core.Pick(r, []int{-1, -1, -1, 2, 64})
	p.Networks = core.Pick(r, [][]string{{"tcp"}, {"tcp", "tcp4"}, {"tcp6", "udp"}, {"tcp", "tcp", "tcp4", "tcp6"}})
	if core.Chance(r, 1, 3) {
		p.CancelPct = core.Pick(r, []int{10, 30, 60})
		if p.YieldPct == 0 {
			p.YieldPct = 50
		}
	}
	if core.Chance(r, 1, 3) {
		p.MovingClock = true
		p.SleepMs = []int{0}
		p.Goroutines = max(p.Goroutines, 3)
		p.Iter = max(p.Iter, 12)
		for i := range p.Names {
			p.Names[i].TTLs = []uint32{uint32(core.Pick(r, []int{1, 1, 2, 5}))}
		}
	}
	return &Plan{Kind: "conc", Seed: seed, Conc: p}
}

func executeConc(t *testing.T, prop string, pl *Plan) *core.Result {
	p := pl.Conc
	res := &core.Result{Evals: 1, Arbitrated: true}
	var calls []callRec
	var entries []simdoh.Entry
	var leakedLib []string
	targets := 0
	// The bubble is entered from a goroutine of its own: when the race
	// detector reports a race inside it, synctest.Test ends the calling
	// goroutine with t.FailNow, which must not be the worker's.
	msg := bubbleDetached(t, func(t *testing.T) {
		st := make([]nameState, len(p.Names))
		version := 0
		for i := range st {
			version++
			st[i] = nameState{version: version, ttls: p.Names[i].TTLs}
		}
		srv := simdoh.NewServer(buildZone(p.Names, st, ""))
		srv.PadTo = 128
		var ymu sync.Mutex
		yrand := core.NewRand(pl.Seed, "yield")
		if p.YieldPct > 0 {
			srv.Yield = func(int) {
				ymu.Lock()
				n := 0
				if yrand.IntN(100) < p.YieldPct {
					n = 1 + yrand.IntN(3)
				}
				ymu.Unlock()
				for i := 0; i < n; i++ {
					runtime.Gosched()
				}
			}
		}
		dns.VerifRoundTripper = srv
		defer func() { dns.VerifRoundTripper = nil }()
		rs, err := newResolver(p.CacheSize)
		if err != nil {
			res.Harness = err.Error()
			return
		}
		var clk atomic.Int64
		var stopTicker atomic.Bool
		tickerDone := make(chan struct{})
		if p.MovingClock {
			base := time.Now()
			ech.VerifSetClock(func() time.Time { return base.Add(time.Duration(clk.Load())) })
			defer ech.VerifSetClock(nil)
			go func() {
				defer close(tickerDone)
				tr := core.NewRand(pl.Seed, "ticker")
				for !stopTicker.Load() {
					for i := tr.IntN(4); i >= 0; i-- {
						runtime.Gosched()
					}
					clk.Add(int64(tr.IntN(1500)) * int64(time.Millisecond))
				}
			}()
		} else {
			close(tickerDone)
		}
		per := make([][]callRec, p.Goroutines)
		ntargets := make([]int, p.Goroutines)
		var wg sync.WaitGroup
		for g := 0; g < p.Goroutines; g++ {
			wg.Add(1)
			go func() {
				defer wg.Done()
				r := core.NewRand(pl.Seed, "g", g)
				for it := 0; it < p.Iter; it++ {
					if g == 0 {
						// goroutine 0 also plays the operator of the zone
						changed := false
						if p.Changes > 0 && it > 0 && it%max(1, p.Iter/(p.Changes+1)) == 0 {
							i := r.IntN(len(p.Names))
							version++
							st[i].version = version
							changed = true
						}
						fault := ""
						if p.FailAt >= 0 && it >= p.FailAt && it < p.HealAt {
							fault = "servfail"
						}
						if changed || it == p.FailAt || it == p.HealAt {
							srv.SetZone(buildZone(p.Names, st, fault))
						}
					}
					ni := r.IntN(len(p.Names))
					if r.IntN(100) < p.YieldPct {
						runtime.Gosched()
					}
					c := callRec{g: g, name: ni, t0: srv.Now(), c0: srv.Tick()}
					var rr ech.ResolveResult
					var panicked bool
					ctx, cancel := context.WithCancel(context.Background())
					if p.CancelPct > 0 && r.IntN(100) < p.CancelPct {
						c.cancelled = true
						n := r.IntN(12)
						go func() {
							for i := 0; i < n; i++ {
								runtime.Gosched()
							}
							cancel()
						}()
					}
					panicked, c.panicMsg, c.panicAt = core.Guard(func() { rr, c.err = rs.Resolve(ctx, p.Names[ni].Host) })
					cancel()
					c.t1, c.c1 = srv.Now(), srv.Tick()
					if !panicked && c.err == nil {
						c.obs = observe(p.Names, ni, rr)
						// use the result the way a dialer does
						pk, pm, ps := core.Guard(func() {
							// the result itself is a value that may be handed to another
							// goroutine before anybody has looked at its targets: whoever
							// made the previous result and this goroutine may walk it at
							// the same time
							prevRes, _ := sharedRes.Swap(resBox{rr, true}).(resBox)
							defer func() {
								if prevRes.ok {
									for _, nw := range p.Networks {
										for tg := range targetsOf(prevRes.r, nw) {
											_ = tg.Address
										}
									}
								}
							}()
							for _, nw := range p.Networks {
								// one sequence, walked twice here and once more by
								// whichever goroutine picks it up next: a sequence
								// handed out by a result is a value like any other
								seq := targetsOf(rr, nw)
								var first, second []string
								for tg := range seq {
									ntargets[g]++
									_ = append([]string(nil), tg.ALPN...)
									_ = len(tg.ECH)
									first = append(first, tg.Address.String())
								}
								for tg := range seq {
									second = append(second, tg.Address.String())
								}
								if !slices.Equal(first, second) {
									seqMismatch.Store(fmt.Sprintf("Targets(%q) of Resolve(%q): first pass %v, second pass %v", nw, p.Names[ni].Host, first, second))
								}
								if prev, ok := sharedSeq.Swap(seqBox{seq}).(seqBox); ok && prev.s != nil {
									for tg := range prev.s {
										_ = tg.Address
									}
								}
							}
						})
						if pk {
							c.panicMsg, c.panicAt = pm, ps
						}
					}
					per[g] = append(per[g], c)
					if d := core.Pick(r, p.SleepMs); d > 0 {
						time.Sleep(time.Duration(d) * time.Millisecond)
					}
				}
			}()
		}
		wg.Wait()
		stopTicker.Store(true)
		<-tickerDone
		sharedSeq.Store(seqBox{})
		sharedRes.Store(resBox{})
		if m, ok := seqMismatch.Swap("").(string); ok && m != "" {
			res.Fail(prop, "result-changes", "a target sequence handed out by a result yields different targets when it is walked again", "%s", m)
		}
		for g := range per {
			calls = append(calls, per[g]...)
			targets += ntargets[g]
		}
		entries = srv.Log()
		res.SimNs = int64(srv.Now())
		synctest.Wait()
		leakedLib, _ = core.Leaked()
	})
	if res.Harness != "" {
		return res
	}
	if msg != "" {
		if strings.Contains(msg, "deadlock") {
			res.Fail(prop, "hang", "concurrent Resolve calls never return (every goroutine blocked)", "%s", firstLine(msg))
		} else {
			res.Harness = "bubble: " + firstLine(msg)
		}
		return res
	}
	if len(leakedLib) > 0 {
		res.Fail(prop, "goroutine-leak", "library goroutine alive after the workload: "+leakedLib[0], "%v", leakedLib)
	}
	resps := responsesOf(entries)
	if p.MovingClock {
		res.Probe("moving_clock_workload")
		for _, c := range calls {
			if c.panicMsg != "" {
				res.Fail(prop, "panic", c.panicAt+": "+normMsg(c.panicMsg), "goroutine %d, Resolve(%q)", c.g, p.Names[c.name].Host)
			}
		}
	} else {
		judgeHistory(res, prop, calls, resps, nil, false, nil)
	}
	for i := range resps {
		if resps[i].failed {
			res.Fault("upstream_failure")
		}
	}
	res.ProbeN("targets_iterated", targets)
	res.ProbeN("concurrent_calls", len(calls))
	shared := 0
	for _, c := range calls {
		own := false
		for i := range resps {
			if resps[i].tick > c.c0 && resps[i].tick < c.c1 {
				own = true
			}
		}
		if !own && c.err == nil {
			shared++
		}
	}
	res.ProbeN("calls_served_from_shared_cache", shared)
	res.NonTrivial = len(calls) > 0
	res.Sig = core.SigOf("conc", fmt.Sprint(p.Goroutines), fmt.Sprint(len(p.Names)), fmt.Sprint(len(entries)*8/max(1, len(calls))), fmt.Sprint(shared*8/max(1, len(calls))), fmt.Sprint(pl.Seed%4096))
	res.LogHash = ""
	res.Sample = map[string]any{"kind": "conc", "goroutines": p.Goroutines, "iterations": p.Iter, "calls": len(calls), "upstream_requests": len(entries), "targets_iterated": targets, "schedule_control": "runtime"}
	return res
}

// seqBox lets sequences of one concrete type travel through an atomic.Value.
type seqBox struct{ s iter.Seq[ech.Target] }
type resBox struct {
	r  ech.ResolveResult
	ok bool
}

var (
	sharedSeq   atomic.Value // the sequence most recently obtained by any goroutine
	sharedRes   atomic.Value // the result most recently obtained by any goroutine
	seqMismatch atomic.Value // string: a sequence that changed between two passes
)

// targetsOf is ResolveResult.Targets reached through a variable: the method
// (and the iterator it returns) is then not inlined into the harness, so that
// a race report about it names frames of the library.
var targetsOf = ech.ResolveResult.Targets

// bubbleDetached is core.Bubble run on a goroutine of its own.
func bubbleDetached(t *testing.T, f func(t *testing.T)) (msg string) {
	done := make(chan struct{})
	ended := false
	go func() {
		defer close(done)
		msg = core.Bubble(t, f)
		ended = true
	}()
	<-done
	if !ended && msg == "" {
		msg = "" // ended by t.FailNow after a race report: the run itself completed
	}
	return msg
}

func shrinkConc(p *Plan) []*Plan {
	var out []*Plan
	c := p.Conc
	add := func(f func(q *ConcPlan)) {
		q := p.clone()
		f(q.Conc)
		out = append(out, q)
	}
	if c.Goroutines > 2 {
		add(func(q *ConcPlan) { q.Goroutines = 2 })
		add(func(q *ConcPlan) { q.Goroutines = q.Goroutines / 2 })
	}
	if c.Iter > 2 {
		add(func(q *ConcPlan) { q.Iter = q.Iter / 2 })
	}
	if c.Changes > 0 {
		add(func(q *ConcPlan) { q.Changes = 0 })
	}
	if c.FailAt >= 0 {
		add(func(q *ConcPlan) { q.FailAt, q.HealAt = -1, -1 })
	}
	if len(c.Names) > 1 {
		last := len(c.Names) - 1
		used := false
		for _, nm := range c.Names[:last] {
			if (nm.Shape == "target" || nm.Shape == "alias") && nm.Other == last {
				used = true
			}
		}
		if !used {
			add(func(q *ConcPlan) { q.Names = q.Names[:last] })
		}
	}
	if len(c.SleepMs) > 1 {
		add(func(q *ConcPlan) { q.SleepMs = []int{0} })
	}
	if c.YieldPct != 0 {
		add(func(q *ConcPlan) { q.YieldPct = 0 })
	}
	if len(c.Networks) > 1 {
		add(func(q *ConcPlan) { q.Networks = q.Networks[:1] })
	}
	return out
}
