//go:build verif

package e2res

import (
	"context"
	"fmt"
	"math/rand/v2"
	"net"
	"runtime"
	"sort"
	"strconv"
	"strings"
	"sync"
	"testing"
	"time"

	"github.com/c2FmZQ/ech"
	"github.com/c2FmZQ/ech/dns"

	"verifsim/core"
	"verifsim/simdoh"
)

// ---------------------------------------------------------------------------
// C12 plans

// MutatePlan: a valid response produced by simdoh for (QName, QType) out of
// Zone, and one fault family enumerated exhaustively over it.
type MutatePlan struct {
	Zone       simdoh.Zone `json:"zone"`
	Host       string      `json:"host"`  // what Resolve is called with
	QName      string      `json:"qname"` // the lookup whose response is attacked
	QType      uint16      `json:"qtype"`
	Extra      bool        `json:"extra"` // records of other types in the authority/additional sections
	NoCompr    bool        `json:"no_compression,omitempty"`
	ComprRData bool        `json:"compress_rdata,omitempty"`
	PadTo      int         `json:"pad_to"`
	Family     string      `json:"family"`
	Masks      []byte      `json:"masks,omitempty"`
	Stride     int         `json:"stride"` // every Stride-th case also goes through Resolver.Resolve
	CacheOff   bool        `json:"cache_off"`
	// Hint is written by Execute: the first violating body (for the shrinker).
	Hint *BytesPlan `json:"hint,omitempty"`
}

// AdvPlan: byte strings over a small alphabet of pointer octets, small
// offsets, small label lengths and zero, placed where a decoder expects a
// name; a window of the full enumeration plus sampled longer strings.
type AdvPlan struct {
	Layout   string     `json:"layout"`
	Alphabet []byte     `json:"alphabet"`
	Len      int        `json:"len"`
	From     uint64     `json:"from"`
	Count    int        `json:"count"`
	Long     [][]byte   `json:"long,omitempty"`
	Stride   int        `json:"stride"`
	CacheOff bool       `json:"cache_off"`
	Hint     *BytesPlan `json:"hint,omitempty"`
}

// BytesPlan: one explicit response body.
type BytesPlan struct {
	Body         []byte `json:"body"`
	CL           string `json:"cl,omitempty"` // "": len(Body); "none": no header; otherwise literal
	ReadErrAfter int    `json:"read_err_after,omitempty"`
	Stream       int64  `json:"stream,omitempty"` // > 0: that many zero octets without content-length instead of Body
	Status       int    `json:"status,omitempty"` // HTTP status (0: 200)
	Stall        bool   `json:"stall,omitempty"`  // headers, then a body that never comes
	QType        uint16 `json:"qtype,omitempty"`  // queries that get the body (0: all)
	Host         string `json:"host"`
	CacheOff     bool   `json:"cache_off"`
	Note         string `json:"note,omitempty"`
}

const (
	decodeTimeLimit = 5 * time.Second
	decodeMemLimit  = 64 << 20
)

var confirmedBalloon = map[string]bool{}

var (
	guardOnce sync.Once
	theGuard  *decodeGuard
	guardErr  error
)

func guard() (*decodeGuard, error) {
	guardOnce.Do(func() { theGuard, guardErr = newDecodeGuard(decodeTimeLimit, decodeMemLimit) })
	return theGuard, guardErr
}

var mutateFamilies = []string{"truncate", "corrupt", "pointer", "ptrlabel", "counts", "rdlen", "http"}

func genC12(seed uint64, idx int, tier string) *Plan {
	r := core.NewRand(seed, "plan")
	if idx%4 == 3 {
		return genAdv(seed, idx, tier)
	}
	if idx%16 == 9 {
		// the last octets of the message are an address-hint parameter whose
		// length is not a whole number of addresses (nothing follows it: the
		// decoder reads from a buffer that ends with the message)
		key := uint16(4 + 2*((idx/16)%2))
		n := core.Pick(r, []int{1, 2, 3, 5, 6, 7, 8, 12, 20, 24, 28, 36, 40})
		if key == 4 && n%4 == 0 {
			n++
		}
		svc := &simdoh.Svc{Priority: 1, ALPN: []string{"h2"}, Extra: []simdoh.SvcParam{{Key: key, Value: core.Bytes(r, n)}}}
		if core.Chance(r, 1, 2) {
			svc.ALPN = nil
		}
		m := &simdoh.Msg{Flags: 0x8180, Question: []simdoh.Question{{Name: "a.test", Type: simdoh.TypeHTTPS, Class: 1}},
			Answer: []simdoh.RR{{Name: "a.test", Type: simdoh.TypeHTTPS, TTL: 60, Target: ".", Svc: svc}}}
		body, _ := m.Encode(simdoh.EncodeOpts{})
		return &Plan{Kind: "bytes", Seed: seed, Bytes: &BytesPlan{Body: body, Host: "a.test", QType: simdoh.TypeHTTPS, CacheOff: core.Chance(r, 1, 2), Note: fmt.Sprintf("address hint (key %d) of %d octets at the end of the message", key, n)}}
	}
	if idx%4 == 1 {
		// a well-formed response with an OPT record full of options of every
		// small size (EDNS options a client may look at: extended errors,
		// cookies, padding ...), under a success or failure response code
		rc := core.Pick(r, []int{0, 1, 2, 3, 5, 16, 23})
		opt := simdoh.RR{Type: simdoh.TypeOPT, Class: 1232, TTL: uint32(rc>>4) << 24}
		for k := core.Between(r, 1, 4); k > 0; k-- {
			opt.Opts = append(opt.Opts, simdoh.Opt{Code: uint16(core.Pick(r, []int{15, 15, 15, 12, 10, 8, 3, 11, 65001})), Data: core.Bytes(r, core.Pick(r, []int{0, 1, 1, 2, 3, 4, 5, 40}))})
		}
		qt := uint16(core.Pick(r, []int{simdoh.TypeHTTPS, simdoh.TypeA, simdoh.TypeAAAA}))
		m := &simdoh.Msg{Flags: 0x8180 | uint16(rc&0xf), Question: []simdoh.Question{{Name: "a.test", Type: qt, Class: 1}}, Additional: []simdoh.RR{opt}}
		body, _ := m.Encode(simdoh.EncodeOpts{})
		return &Plan{Kind: "bytes", Seed: seed, Bytes: &BytesPlan{Body: body, Host: "a.test", QType: qt, CacheOff: core.Chance(r, 1, 2), Note: "OPT options"}}
	}
	if idx%16 == 10 {
		// fan-out: a long backwards chain of "label, pointer" segments parked in
		// the RDATA of a record of an opaque type, and as many records as fit
		// whose owner is a pointer to the end of that chain. A decoder that lets
		// names grow beyond 255 octets pays chain length x record count.
		return &Plan{Kind: "bytes", Seed: seed, Bytes: &BytesPlan{Body: fanoutMessage(r), Host: "a.test", QType: simdoh.TypeA, CacheOff: true, Note: "pointer-chain fan-out"}}
	}
	z, inputs := genUniverse(r, 1)
	p := &MutatePlan{Zone: z}
	p.Zone.Faults = nil
	p.Zone.Poison = nil
	p.Zone.OneHop, p.Zone.Bulk = false, 0

	if core.Chance(r, 1, 3) {
		g := &zoneGen{r: r, ttls: []uint32{60}}
		g.poison()
		p.Zone.Poison = g.z.Poison
	}
	in := inputs[0]
	in.Form, in.Port, in.Scheme = "host", -1, ""
	if net.ParseIP(in.Host) != nil || in.Host == "localhost" || len(simdoh.NameProblems(in.Host)) > 0 {
		in.Host = "a.test"
	}
	in.Host = strings.ToLower(strings.TrimSuffix(in.Host, "."))
	p.Host = in.Host
	p.QName = in.Host
	// make sure the host has something to say for every type
	g := &zoneGen{r: r, ttls: []uint32{0, 60, 3600}, z: p.Zone, pool: []string{in.Host, "t1.test", "t2.test"}, nextA: 4000}
	if !g.hasHTTPS(in.Host) {
		g.serviceSet(in.Host)
	}
	if !g.owned(in.Host) {
		g.z.RRs = append(g.z.RRs, simdoh.RR{Name: in.Host, Type: simdoh.TypeA, TTL: 60, IP: g.v4()}, simdoh.RR{Name: in.Host, Type: simdoh.TypeAAAA, TTL: 60, IP: g.v6()})
	}
	g.finish()
	big := idx%12 == 4 // (mutation plans have even indices)
	if big {
		// a response of 1.5 .. 4 KiB: many address records, large ECH
		// configurations, long target names
		for i := 0; i < 12+r.IntN(12); i++ {
			g.z.RRs = append(g.z.RRs, simdoh.RR{Name: in.Host, Type: simdoh.TypeA, TTL: 60, IP: g.v4()}, simdoh.RR{Name: in.Host, Type: simdoh.TypeAAAA, TTL: 60, IP: g.v6()})
		}
		for i := 0; i < 3; i++ {
			g.z.RRs = append(g.z.RRs, simdoh.RR{Name: in.Host, Type: simdoh.TypeHTTPS, TTL: 60, Target: strings.Repeat("t", 40+i) + "." + strings.Repeat("u", 63) + ".test",
				Svc: &simdoh.Svc{Priority: uint16(10 + i), ALPN: []string{"h2", "h3"}, ECH: core.Bytes(r, 300+r.IntN(500)), V4Hint: []string{g.v4(), g.v4()}, V6Hint: []string{g.v6()}}})
		}
	}
	if big || idx%12 == 8 {
		// a target name close to the 253 octets a name may have (the follow-up
		// queries for its addresses are padded like any other)
		L := []int{224, 231, 240, 247, 253}[(idx/12)%5]
		name := ".test"
		for ch := byte('p'); len(name) < L; ch++ {
			lab := min(63, L-len(name)-1)
			if lab <= 0 {
				break
			}
			name = "." + strings.Repeat(string(ch), lab) + name
		}
		name = strings.TrimPrefix(name, ".")
		g.z.RRs = append(g.z.RRs, simdoh.RR{Name: in.Host, Type: simdoh.TypeHTTPS, TTL: 60, Target: name, Svc: &simdoh.Svc{Priority: 3, ALPN: []string{"h2"}}},
			simdoh.RR{Name: name, Type: simdoh.TypeA, TTL: 60, IP: g.v4()})
	}
	p.Zone = g.z
	// (the base response of a mutation plan must be a valid message: names that
	// no message can carry are C14's business)
	var keep []simdoh.RR
	for _, rr := range p.Zone.RRs {
		if len(simdoh.NameProblems(rr.Name)) > 0 {
			continue
		}
		if rr.Target != "" && len(simdoh.NameProblems(rr.Target)) > 0 {
			rr.Target = "t1.test"
		}
		keep = append(keep, rr)
	}
	p.Zone.RRs = keep
	p.QType = uint16(core.Pick(r, []int{simdoh.TypeHTTPS, simdoh.TypeHTTPS, simdoh.TypeA, simdoh.TypeAAAA}))
	p.Extra = core.Chance(r, 2, 3)
	p.NoCompr = core.Chance(r, 1, 8)
	p.ComprRData = core.Chance(r, 1, 3)
	p.PadTo = core.Pick(r, []int{-1, 0, 0, 128, 468})
	p.Family = mutateFamilies[(idx/4*3+idx%4)%len(mutateFamilies)]
	p.Masks = []byte{0x01, 0x80, 0xC0, 0xFF, byte(1 + r.IntN(254))}
	p.Stride = 1
	if tier != "thorough" {
		p.Masks = p.Masks[:3]
	}
	if big {
		p.Stride = 8
		p.Extra = p.Extra && p.QType != simdoh.TypeHTTPS
	}
	p.CacheOff = core.Chance(r, 1, 2)
	return &Plan{Kind: "mutate", Seed: seed, Mutate: p}
}

var advLayouts = []string{"q2", "owner", "cname", "https", "svcb", "mx", "soa", "soa2", "soa3", "srv", "nsec", "rrsig", "ns"}

func genAdv(seed uint64, idx int, tier string) *Plan {
	r := core.NewRand(seed, "plan")
	p := &AdvPlan{Layout: advLayouts[(idx/4)%len(advLayouts)]}
	s := advRegionStart(p.Layout)
	p.Alphabet = []byte{0xC0, 0x00, 0x01, 0x02, 0x0C, 0x0D, byte(s), byte(s + 1), byte(s + 2), byte(s + 3)}
	if core.Chance(r, 1, 2) {
		p.Alphabet = append(p.Alphabet, byte(s+4), byte(s+5))
	}
	if core.Chance(r, 1, 3) {
		p.Alphabet = append(p.Alphabet, 0x03, 0x40, 0xC1, 0xFF)
	}
	p.Len = core.Between(r, 3, 7)
	total := uint64(1)
	for i := 0; i < p.Len; i++ {
		total *= uint64(len(p.Alphabet))
	}
	p.Count = 40000
	if tier == "thorough" {
		p.Count = 250000
	}
	if uint64(p.Count) >= total {
		p.Count, p.From = int(total), 0
	} else {
		p.From = r.Uint64N(total - uint64(p.Count))
	}
	// longer, structured strings: labels whose content looks like pointers,
	// pointers that land inside those labels
	nl := 300
	for i := 0; i < nl; i++ {
		p.Long = append(p.Long, genAdvLong(r, s))
	}
	// labels that hold the octet the text form uses as separator (a name that
	// comes out of the decoder is put into the next query)
	for _, l := range [][]byte{{1, '.'}, {2, '.', 'a'}, {2, 'a', '.'}, {3, 'a', '.', '.'}, {3, '.', '.', 'b'}, {2, '.', '.'}, {5, 'a', '.', '.', 'b', '.'}} {
		nm := append(append([]byte(nil), l...), 4, 't', 'e', 's', 't', 0)
		p.Long = append(p.Long, nm, append([]byte{1, 'x'}, nm...))
	}
	p.Stride = 16
	if tier == "thorough" {
		p.Stride = 4
	}
	p.CacheOff = core.Chance(r, 1, 2)
	return &Plan{Kind: "adv", Seed: seed, Adv: p}
}

func genAdvLong(r interface {
	IntN(int) int
}, s int) []byte {
	var b []byte
	if r.IntN(4) == 1 {
		// two names: the first is one label whose content is a row of pointer
		// pairs; the second name enters that row from behind. Inside the row a
		// pair may point forwards (still before the second name) or backwards:
		// only "strictly below the previous jump" terminates for all of them.
		k := 2 + r.IntN(5)
		b = append(b, byte(2*k))
		for i := 0; i < k; i++ {
			j := r.IntN(k) // any pair of the row, forwards or backwards
			if r.IntN(3) == 0 {
				b = append(b, 0xC0, 0x0C)
			} else {
				b = append(b, 0xC0, byte(s+1+2*j))
			}
		}
		b = append(b, 0)                           // end of the first name
		b = append(b, 0xC0, byte(s+1+2*r.IntN(k))) // the second name
		return b
	}
	if r.IntN(4) == 0 {
		// a ladder of pointers hidden in the content of a label, entered
		// from behind: ... each hop points backwards, into the label
		k := 2 + r.IntN(5)
		b = append(b, byte(2*k))
		b = append(b, 0xC0, 0x0C+byte(r.IntN(2)))
		for i := 1; i < k; i++ {
			b = append(b, 0xC0, byte(s+1+2*(i-1)))
		}
		b = append(b, 0xC0, byte(s+1+2*(k-1)))
		if r.IntN(3) == 0 {
			b[2] = byte(s + 1 + 2*(k-1)) // close the ladder into a cycle
		}
		return b
	}
	n := 2 + r.IntN(5)
	small := func() byte {
		if r.IntN(3) == 0 {
			return 0x0C + byte(r.IntN(4))
		}
		return byte(s + r.IntN(30))
	}
	for i := 0; i < n && len(b) < 60; i++ {
		switch r.IntN(5) {
		case 0, 1: // a label whose content is made of pointer-like octets
			l := 1 + r.IntN(20)
			b = append(b, byte(l))
			for j := 0; j < l; j++ {
				switch r.IntN(4) {
				case 0:
					b = append(b, 0xC0)
				case 1:
					b = append(b, small())
				case 2:
					b = append(b, byte(1+r.IntN(3)))
				default:
					b = append(b, 'a')
				}
			}
		case 2, 3:
			b = append(b, 0xC0, small())
		default:
			b = append(b, 0)
		}
	}
	if r.IntN(2) == 0 {
		b = append(b, 0xC0, small())
	} else {
		b = append(b, 0)
	}
	return b
}

// ---------------------------------------------------------------------------
// adversarial message layouts

var advQuestion = []byte{1, 'a', 4, 't', 'e', 's', 't', 0} // a.test at offset 12

func advHeader(qd, an int) []byte {
	return []byte{0, 0, 0x81, 0x80, 0, byte(qd), 0, byte(an), 0, 0, 0, 0}
}

type advLayout struct {
	qtype  uint16
	rrtype uint16
	pre    []byte // RDATA before the name
	post   []byte // RDATA after the name
}

var advLayoutTab = map[string]advLayout{
	"cname": {1, 5, nil, nil},
	"ns":    {1, 2, nil, nil},
	"https": {65, 65, []byte{0, 1}, nil},
	"svcb":  {65, 64, []byte{0, 1}, []byte{0, 1, 0, 3, 2, 'h', '2'}},
	"mx":    {1, 15, []byte{0, 10}, nil},
	"soa":   {1, 6, nil, append([]byte{0xC0, 0x0C}, make([]byte, 20)...)},
	"soa2":  {1, 6, []byte{0xC0, 0x0C}, make([]byte, 20)},
	"soa3":  {1, 6, nil, make([]byte, 20)}, // both names (mname, rname) come from the adversarial octets
	"srv":   {1, 33, []byte{0, 1, 0, 2, 0, 80}, nil},
	"nsec":  {1, 47, nil, []byte{0, 1, 0x40}},
	"rrsig": {1, 46, make([]byte, 18), []byte{1, 2, 3, 4}},
}

// advRegionStart is the message offset at which the adversarial octets begin.
func advRegionStart(layout string) int {
	base := 12 + len(advQuestion) + 4
	switch layout {
	case "q2", "owner":
		return base
	}
	return base + 12 + len(advLayoutTab[layout].pre)
}

func advMessage(layout string, s []byte) (msg []byte, qtype uint16) {
	switch layout {
	case "q2":
		m := advHeader(2, 0)
		m = append(m, advQuestion...)
		m = append(m, 0, 1, 0, 1)
		m = append(m, s...)
		m = append(m, 0, 1, 0, 1)
		return m, 1
	case "owner":
		m := advHeader(1, 1)
		m = append(m, advQuestion...)
		m = append(m, 0, 1, 0, 1)
		m = append(m, s...)
		m = append(m, 0, 1, 0, 1, 0, 0, 0, 60, 0, 4, 10, 0, 0, 1)
		return m, 1
	}
	l := advLayoutTab[layout]
	m := advHeader(1, 1)
	m = append(m, advQuestion...)
	m = append(m, byte(l.qtype>>8), byte(l.qtype), 0, 1)
	m = append(m, 0xC0, 0x0C, byte(l.rrtype>>8), byte(l.rrtype), 0, 1, 0, 0, 0, 60)
	n := len(l.pre) + len(s) + len(l.post)
	m = append(m, byte(n>>8), byte(n))
	m = append(m, l.pre...)
	m = append(m, s...)
	m = append(m, l.post...)
	return m, l.qtype
}

// fanoutMessage: see genC12.
func fanoutMessage(r *rand.Rand) []byte {
	segLabel := core.Pick(r, []int{0, 1, 7, 30, 63})
	chainLen := core.Pick(r, []int{300, 2000, 8000, 16000, 32000})
	maxRecords := 65535
	if segLabel == 0 {
		// pointer-to-pointer hops only (one real label at the far end): the name
		// stays short, the walk is long. Sized so that a decoder that walks each
		// name once needs well under a second.
		chainLen = core.Pick(r, []int{2000, 8000})
		maxRecords = 250
	}
	m := advHeader(1, 0)
	m = append(m, advQuestion...)
	m = append(m, 0, 1, 0, 1)
	// record 1: owner = the question name, opaque type, RDATA = the chain
	m = append(m, 0xC0, 0x0C, 0xFF, 0x01, 0, 1, 0, 0, 0, 60, 0, 0)
	rdlenAt := len(m) - 2
	start := len(m)
	prev := -1
	last := 0
	for len(m)-start+segLabel+3 <= chainLen && len(m) < 0x3F00 {
		last = len(m)
		if segLabel > 0 || prev < 0 {
			n := max(segLabel, 1)
			m = append(m, byte(n))
			for i := 0; i < n; i++ {
				m = append(m, byte('a'+i%26))
			}
		}
		if prev < 0 {
			m = append(m, 0)
		} else {
			m = append(m, 0xC0|byte(prev>>8), byte(prev))
		}
		prev = last
	}
	rdlen := len(m) - start
	m[rdlenAt], m[rdlenAt+1] = byte(rdlen>>8), byte(rdlen)
	n := 1
	for len(m)+16 <= 65535 && n < maxRecords {
		m = append(m, 0xC0|byte(last>>8), byte(last), 0, 1, 0, 1, 0, 0, 0, 60, 0, 4, 10, 0, byte(n>>8), byte(n))
		n++
	}
	m[6], m[7] = byte(n>>8), byte(n)
	return m
}

// ---------------------------------------------------------------------------
// the oracle on dns.DecodeMessage

// typeProblem: every record must carry the Go type its RR type implies.
func typeProblem(m *dns.Message) string {
	for si, sec := range [][]dns.RR{m.Answer, m.Authority, m.Additional} {
		for i, rr := range sec {
			ok := false
			want := ""
			switch rr.Type {
			case 1:
				v, is := rr.Data.(net.IP)
				ok, want = is && len(v) == 4, "net.IP of 4 octets"
			case 28:
				v, is := rr.Data.(net.IP)
				ok, want = is && len(v) == 16, "net.IP of 16 octets"
			case 2, 5, 12:
				_, ok = rr.Data.(string)
				want = "string"
			case 6:
				_, ok = rr.Data.(dns.SOA)
				want = "dns.SOA"
			case 15:
				_, ok = rr.Data.(dns.MX)
				want = "dns.MX"
			case 16:
				_, ok = rr.Data.(dns.TXT)
				want = "dns.TXT"
			case 29:
				_, ok = rr.Data.(dns.LOC)
				want = "dns.LOC"
			case 33:
				_, ok = rr.Data.(dns.SRV)
				want = "dns.SRV"
			case 37:
				_, ok = rr.Data.(dns.CERT)
				want = "dns.CERT"
			case 41:
				_, ok = rr.Data.([]dns.Option)
				want = "[]dns.Option"
			case 43:
				_, ok = rr.Data.(dns.DS)
				want = "dns.DS"
			case 46:
				_, ok = rr.Data.(dns.RRSIG)
				want = "dns.RRSIG"
			case 47:
				_, ok = rr.Data.(dns.NSEC)
				want = "dns.NSEC"
			case 48:
				_, ok = rr.Data.(dns.DNSKEY)
				want = "dns.DNSKEY"
			case 64:
				_, ok = rr.Data.(dns.SVCB)
				want = "dns.SVCB"
			case 65:
				v, is := rr.Data.(dns.HTTPS)
				ok, want = is, "dns.HTTPS"
				if is {
					for _, ip := range v.IPv4Hint {
						if len(ip) != 4 {
							ok, want = false, "dns.HTTPS with 4-octet ipv4hint entries"
						}
					}
					for _, ip := range v.IPv6Hint {
						if len(ip) != 16 {
							ok, want = false, "dns.HTTPS with 16-octet ipv6hint entries"
						}
					}
				}
			case 256:
				_, ok = rr.Data.(dns.URI)
				want = "dns.URI"
			case 257:
				_, ok = rr.Data.(dns.CAA)
				want = "dns.CAA"
			default:
				_, ok = rr.Data.([]byte)
				want = "[]byte"
			}
			if !ok {
				return fmt.Sprintf("record %d of section %d: RR type %d carries %T, want %s", i, si, rr.Type, rr.Data, want)
			}
		}
	}
	return ""
}

type decodeVerdict struct {
	status string // "ok", "err", "panic", "hang", "balloon", "wrong-type"
	site   string
	detail string
	nrec   int
}

// judgeDecode runs dns.DecodeMessage on body under the guard. A run that
// exceeds a bound is only believed after it did so three times.
// allocOutOfProportion measures what one decode allocates (on this goroutine)
// and compares it with a bound that is linear in the message length with very
// generous constants: memory must follow the bytes actually present, not the
// numbers a peer writes into count or length fields. Confirmed three times.
func allocOutOfProportion(body []byte) (bool, uint64, uint64) {
	bound := uint64(64<<10) + 1024*uint64(len(body))
	worst := uint64(0)
	for i := 0; i < 3; i++ {
		var a, b runtime.MemStats
		runtime.ReadMemStats(&a)
		core.Guard(func() { dns.DecodeMessage(body) })
		runtime.ReadMemStats(&b)
		d := b.TotalAlloc - a.TotalAlloc
		if d <= bound {
			return false, d, bound
		}
		worst = max(worst, d)
	}
	return true, worst, bound
}

func judgeDecode(g *decodeGuard, body []byte, quickAbort bool) decodeVerdict {
	var m *dns.Message
	var err error
	run := func() guardOutcome {
		m, err = nil, nil
		return g.run(body, func(b []byte) { m, err = dns.DecodeMessage(b) })
	}
	o := run()
	if o.Aborted != abortNone {
		n := 1
		site := o.Site
		// An allocation overrun at a site where this process has already
		// confirmed one three times is not measured again (a time overrun
		// always is: it could be the machine).
		if o.Aborted == abortMem && confirmedBalloon[site] {
			quickAbort = true
		}
		if !quickAbort {
			for i := 0; i < 2; i++ {
				o2 := run()
				if o2.Aborted != abortNone {
					n++
				}
			}
		} else {
			n = 3
		}
		if n == 3 {
			st := "hang"
			what := fmt.Sprintf("still running after %v", decodeTimeLimit)
			if o.Aborted == abortMem {
				st = "balloon"
				confirmedBalloon[site] = true
				what = fmt.Sprintf("allocated more than %d MiB (after %v)", decodeMemLimit>>20, o.Elapsed.Round(time.Millisecond))
			}
			times := "in 3 of 3 measurements"
			if quickAbort {
				times = "measured once (same site confirmed in 3 of 3 measurements earlier in this process)"
			}
			return decodeVerdict{status: st, site: site, detail: fmt.Sprintf("dns.DecodeMessage of a %d-octet message %s, %s", len(body), what, times)}
		}
		o = run()
		if o.Aborted != abortNone {
			return decodeVerdict{status: "err", detail: "unstable measurement"}
		}
	}
	if o.Panicked {
		return decodeVerdict{status: "panic", site: o.Site + ": " + normMsg(o.Msg), detail: o.Msg}
	}
	if err != nil {
		return decodeVerdict{status: "err"}
	}
	if m == nil {
		return decodeVerdict{status: "wrong-type", site: "nil message without error", detail: "DecodeMessage returned (nil, nil)"}
	}
	if tp := typeProblem(m); tp != "" {
		return decodeVerdict{status: "wrong-type", site: normMsg(tp[strings.Index(tp, "RR type"):]), detail: tp}
	}
	return decodeVerdict{status: "ok", nrec: len(m.Answer) + len(m.Authority) + len(m.Additional)}
}

// ---------------------------------------------------------------------------
// the oracle on Resolver.Resolve

type bodyCase struct {
	body    []byte
	cl      *string
	readErr int
	skip    bool
	stream  int64 // > 0: an unbounded-looking body without content-length
	status  int   // HTTP status, 0 = 200
	stall   bool  // the body never comes
}

type resolveVerdict struct {
	status string // "ok", "err", "panic", "slow"
	site   string
	detail string
	reqs   int
}

// resolveBodies runs, inside one bubble, Resolve(host) once per case against
// an upstream that answers the queries of type qtype (0: all) with the case's
// body. report is called outside library code.
func resolveBodies(t *testing.T, zone *simdoh.Zone, host string, qtype uint16, cacheOff bool, n int, get func(i int) bodyCase, report func(i int, v resolveVerdict)) (harness string, simNs int64) {
	cur := -1
	msg := core.Bubble(t, func(t *testing.T) {
		srv := simdoh.NewServer(zone)
		srv.PadTo = 0
		dns.VerifRoundTripper = srv
		defer func() { dns.VerifRoundTripper = nil }()
		var c bodyCase
		srv.Override = func(e *simdoh.Entry) *simdoh.Reply {
			if e.QName == "" || (qtype != 0 && e.QType != qtype) {
				return nil
			}
			st := 200
			if c.status != 0 {
				st = c.status
			}
			return &simdoh.Reply{Status: st, Body: c.body, CL: c.cl, ReadErrAfter: c.readErr, Stream: c.stream, Stall: c.stall}
		}
		for i := 0; i < n; i++ {
			c = get(i)
			if c.skip {
				continue
			}
			cur = i
			core.Beat()
			cs := -1
			if cacheOff {
				cs = 0
			}
			rs, err := newResolver(cs)
			if err != nil {
				harness = err.Error()
				return
			}
			before := srv.LogLen()
			t0 := time.Now()
			var rerr error
			var rr ech.ResolveResult
			var ms0, ms1 runtime.MemStats
			if c.stream > 0 {
				runtime.ReadMemStats(&ms0)
			}
			panicked, pmsg, psite := core.Guard(func() { rr, rerr = rs.Resolve(context.Background(), host) })
			el := time.Since(t0)
			v := resolveVerdict{status: "ok", reqs: srv.LogLen() - before}
			if c.stream > 0 {
				runtime.ReadMemStats(&ms1)
			}
			switch {
			case c.stream > 0 && !panicked && ms1.TotalAlloc-ms0.TotalAlloc > 8<<20:
				v = resolveVerdict{status: "balloon", site: "Resolve reads a DoH body of undeclared length into memory", detail: fmt.Sprintf("%d MiB allocated for a %d MiB body without content-length", (ms1.TotalAlloc-ms0.TotalAlloc)>>20, c.stream>>20)}
			case panicked:
				v = resolveVerdict{status: "panic", site: psite + ": " + normMsg(pmsg), detail: pmsg}
			case el > 3*16*time.Second+time.Second:
				v = resolveVerdict{status: "slow", site: "Resolve exceeds the back-off budget of its lookups in virtual time", detail: el.String()}
			case rerr != nil:
				v.status = "err"
			default:
				// whatever survived must be usable
				for _, a := range rr.Address {
					if len(a) != 4 && len(a) != 16 {
						v = resolveVerdict{status: "wrong-type", site: "ResolveResult.Address entry is not an IP address", detail: fmt.Sprintf("%d octets", len(a))}
					}
				}
			}
			report(i, v)
		}
		simNs = int64(srv.Now())
	})
	if msg != "" && harness == "" {
		if strings.Contains(msg, "deadlock") {
			report(cur, resolveVerdict{status: "hang", site: "Resolve never returns (every goroutine blocked)", detail: firstLine(msg)})
		} else {
			harness = "bubble (case " + strconv.Itoa(cur) + "): " + firstLine(msg)
		}
	}
	return
}

// ---------------------------------------------------------------------------
// mutation families

type mutator struct {
	base []byte
	lay  *simdoh.Layout
	fam  string
	mask []byte
	n    int
	sub  []int // family specific
}

var countValues = []int{0, 1, 2, 255, 256, 0x7fff, 0xffff}
var lenDeltas = []int{-2, -1, 1, 2, 255}

func newMutator(base []byte, lay *simdoh.Layout, fam string, masks []byte) *mutator {
	m := &mutator{base: base, lay: lay, fam: fam, mask: masks}
	L := len(base)
	switch fam {
	case "truncate":
		m.n = 3 * L
	case "corrupt":
		m.n = L * len(masks)
	case "pointer":
		m.n = len(lay.Pointers) * (L + 2)
	case "ptrlabel":
		m.n = len(lay.Labels) * (L + 2)
	case "counts":
		m.n = 4*(len(countValues)+2) + 3
	case "rdlen":
		m.sub = append(append([]int(nil), lay.RDLens...), lay.ParamLens...)
		sort.Ints(m.sub)
		m.n = len(m.sub) * (len(lenDeltas) + 3)
	case "http":
		m.n = len(httpCLs) + 9
	}
	return m
}

var httpCLs = []string{"none", "-1", "0", "1", "65535", "65536", "99999999999999999999", "abc", " 12", "0x10", "1e3", "+5"}

func put16(b []byte, off, v int) {
	if off+1 < len(b) {
		b[off], b[off+1] = byte(v>>8), byte(v)
	}
}

func get16(b []byte, off int) int { return int(b[off])<<8 | int(b[off+1]) }

// get builds case i into buf (which must have capacity for the base).
func (m *mutator) get(i int, buf []byte) (c bodyCase, desc string) {
	L := len(m.base)
	b := append(buf[:0], m.base...)
	switch m.fam {
	case "truncate":
		n, mode := i/3, i%3
		b = b[:n]
		switch mode {
		case 0:
			desc = fmt.Sprintf("body cut to %d of %d octets, matching content-length", n, L)
		case 1:
			full := strconv.Itoa(L)
			c.cl = &full
			desc = fmt.Sprintf("body cut to %d of %d octets, content-length of the whole", n, L)
		default:
			full := strconv.Itoa(L)
			c.cl = &full
			c.readErr = max(n, 1)
			b = append(buf[:0], m.base...)
			desc = fmt.Sprintf("connection reset after %d of %d octets", max(n, 1), L)
		}
	case "corrupt":
		off, k := i/len(m.mask), i%len(m.mask)
		b[off] ^= m.mask[k]
		desc = fmt.Sprintf("octet %d ^= 0x%02x", off, m.mask[k])
	case "pointer", "ptrlabel":
		list := m.lay.Pointers
		if m.fam == "ptrlabel" {
			list = m.lay.Labels
		}
		at, tgt := list[i/(L+2)], i%(L+2)
		if tgt == L+1 {
			tgt = 0x3fff
		}
		put16(b, at, 0xC000|tgt)
		desc = fmt.Sprintf("compression pointer at %d rewritten to offset %d", at, tgt)
		if m.fam == "ptrlabel" {
			desc = fmt.Sprintf("label at %d replaced by a pointer to offset %d", at, tgt)
		}
	case "counts":
		per := len(countValues) + 2
		if i >= 4*per {
			// more questions than the resolver asked: k well-formed extra ones
			// (each a pointer to the first name, with a type and class) behind the
			// first, every later name pointer moved along
			k := []int{1, 2, 7}[i-4*per]
			b, desc = extraQuestions(b, m.lay, k), fmt.Sprintf("%d further well-formed questions after the one asked", k)
			break
		}
		f, k := i/per, i%per
		off := 4 + 2*f
		old := get16(b, off)
		v := 0
		switch {
		case k < len(countValues):
			v = countValues[k]
		case k == len(countValues):
			v = old + 1
		default:
			v = old * 2
		}
		put16(b, off, v&0xffff)
		desc = fmt.Sprintf("count field %d: %d -> %d", f, old, v&0xffff)
	case "rdlen":
		per := len(lenDeltas) + 3
		at, k := m.sub[i/per], i%per
		old := get16(b, at)
		v := 0
		switch {
		case k < len(lenDeltas):
			v = old + lenDeltas[k]
		case k == len(lenDeltas):
			v = 0
		case k == len(lenDeltas)+1:
			v = 0xffff
		default:
			v = L - at - 2 // up to the end of the message
		}
		if v < 0 {
			v = 0
		}
		put16(b, at, v&0xffff)
		desc = fmt.Sprintf("length field at %d: %d -> %d", at, old, v&0xffff)
	case "http":
		if i < len(httpCLs) {
			s := httpCLs[i]
			if s == "none" {
				s = ""
			}
			c.cl = &s
			desc = fmt.Sprintf("content-length %q", httpCLs[i])
		} else {
			switch i - len(httpCLs) {
			case 0:
				b = b[:0]
				desc = "empty body"
			case 1:
				s := strconv.Itoa(L + 1)
				c.cl = &s
				desc = "content-length one more than the body"
			case 2:
				s := strconv.Itoa(L - 1)
				c.cl = &s
				desc = "content-length one less than the body"
			case 3:
				c.stream = 24 << 20
				desc = "24 MiB body without content-length"
			case 5, 6, 7:
				// a refusal that is not retried, with a bulky page behind it
				c.status = []int{403, 404, 400}[i-len(httpCLs)-5]
				c.stream = 24 << 20
				desc = fmt.Sprintf("status %d with a 24 MiB body without content-length", c.status)
			case 8:
				c.status, c.stall = 403, true
				desc = "status 403, then a body that never comes"
			default:
				b = append(b, b...)
				desc = "body sent twice"
			}
		}
	}
	c.body = b
	return c, desc
}

// extraQuestions inserts k questions (pointer to offset 12, type A, class IN)
// behind the first question of a well-formed message and sets QDCOUNT.
func extraQuestions(b []byte, lay *simdoh.Layout, k int) []byte {
	if len(b) < 17 || get16(b, 4) != 1 {
		return b
	}
	end := 12
	for end < len(b) && b[end] != 0 {
		if b[end]&0xc0 != 0 {
			return b
		}
		end += 1 + int(b[end])
	}
	end += 5 // root label, type, class
	if end > len(b) {
		return b
	}
	shift := 6 * k
	out := append([]byte(nil), b[:end]...)
	for i := 0; i < k; i++ {
		out = append(out, 0xc0, 12, 0, 1, 0, 1)
	}
	out = append(out, b[end:]...)
	put16(out, 4, 1+k)
	for _, p := range lay.Pointers {
		if p < end || p+1 >= len(b) {
			continue
		}
		if t := get16(b, p) & 0x3fff; t >= end {
			put16(out, p+shift, 0xc000|(t+shift))
		}
	}
	return out
}

func extraRecords() (auth, add []simdoh.RR) {
	name := func(s string) *string { return &s }
	auth = []simdoh.RR{
		{Name: "test", Type: simdoh.TypeSOA, TTL: 900, SOA: &simdoh.SOA{MName: "ns1.test", RName: "hostmaster.test", Serial: 2024010101, Refresh: 7200, Retry: 900, Expire: 86400, Minimum: 300}},
		{Name: "test", Type: simdoh.TypeNS, TTL: 900, Target: "ns1.test"},
		{Name: "test", Type: simdoh.TypeRRSIG, TTL: 900, Raw: []byte{0, 6, 13, 1, 0, 0, 3, 132, 0x66, 0, 0, 0, 0x65, 0, 0, 0, 0x12, 0x34}, RawName: name("test"), RawTail: []byte{1, 2, 3, 4, 5, 6, 7, 8}},
		{Name: "a.test", Type: simdoh.TypeNSEC, TTL: 300, RawName: name("b.test"), RawTail: []byte{0, 6, 0x40, 0, 0, 0, 0, 3}},
	}
	add = []simdoh.RR{
		{Name: "test", Type: simdoh.TypeMX, TTL: 300, Pref: 10, Target: "mail.test"},
		{Name: "_svc._tcp.test", Type: simdoh.TypeSRV, TTL: 300, Pref: 1, Weight: 2, Port: 443, Target: "a.test"},
		{Name: "test", Type: simdoh.TypeTXT, TTL: 300, TXT: []string{"v=spf1 -all", ""}},
		{Name: "test", Type: simdoh.TypeSVCB, TTL: 300, Target: "svc.test", Svc: &simdoh.Svc{Priority: 1, ALPN: []string{"h2"}, Port: 8443}},
		{Name: "test", Type: simdoh.TypeCAA, TTL: 300, Raw: append([]byte{0, 5}, "issueca.test"...)},
		{Name: "test", Type: simdoh.TypeDS, TTL: 300, Raw: []byte{0x12, 0x34, 13, 2, 1, 2, 3, 4, 5, 6, 7, 8}},
		{Name: "test", Type: simdoh.TypeDNSKEY, TTL: 300, Raw: []byte{1, 1, 3, 13, 9, 9, 9, 9}},
		{Name: "test", Type: simdoh.TypeCERT, TTL: 300, Raw: []byte{0, 1, 0, 2, 13, 7, 7, 7}},
		{Name: "test", Type: simdoh.TypeLOC, TTL: 300, Raw: []byte{0, 0x12, 0x16, 0x13, 0x80, 0, 0, 1, 0x80, 0, 0, 2, 0, 0x98, 0x96, 0x80}},
		{Name: "test", Type: simdoh.TypeURI, TTL: 300, Raw: append([]byte{0, 1, 0, 2}, "https://a.test/"...)},
		{Name: "test", Type: 99, TTL: 300, Raw: []byte("whatever")},
	}
	return
}

// violationTally keeps the first violation of each kind of a plan.
type violationTally struct {
	res   *core.Result
	prop  string
	seen  map[string]bool
	first *BytesPlan
}

func (v *violationTally) fail(class, site string, hint *BytesPlan, format string, a ...any) {
	k := class + "/" + site
	if v.seen == nil {
		v.seen = map[string]bool{}
	}
	if v.seen[k] {
		return
	}
	v.seen[k] = true
	v.res.Fail(v.prop, class, site, format, a...)
	if v.first == nil {
		v.first = hint
	}
}

func clText(c *string) string {
	if c == nil {
		return ""
	}
	if *c == "" {
		return "none"
	}
	return *c
}

func executeMutate(t *testing.T, prop string, pl *Plan) *core.Result {
	p := pl.Mutate
	res := &core.Result{}
	g, err := guard()
	if err != nil {
		res.Harness = "decode guard: " + err.Error()
		return res
	}
	srv := simdoh.NewServer(&p.Zone)
	srv.PadTo = p.PadTo
	srv.Enc = simdoh.EncodeOpts{Compress: !p.NoCompr, CompressRData: p.ComprRData}
	if p.Extra {
		srv.ExtraAuthority, srv.ExtraAdditional = extraRecords()
	}
	msg := srv.BuildAnswer(&p.Zone, 0, simdoh.Question{Name: p.QName, Type: p.QType, Class: 1})
	base, lay := srv.EncodeReply(msg)
	if len(base) > 8192 {
		res.Harness = fmt.Sprintf("base response of %d octets", len(base))
		return res
	}
	if len(base) > 4096 {
		// (the enumeration over every offset is sized for 4 KiB; the few "big"
		// universes that come out larger are not enumerated)
		res.Probe("scenario_skipped")
		res.LogHash = core.HashLog([]string{"skipped: base response too large"})
		return res
	}
	tally := &violationTally{res: res, prop: prop}
	// positive control: the unmodified response is decoded and typed
	if v := judgeDecode(g, base, false); v.status != "ok" {
		tally.fail(ctlClass(v.status), "unmodified response: "+v.site, &BytesPlan{Body: base, Host: p.Host, QType: p.QType, CacheOff: p.CacheOff}, "%s %s", v.status, v.detail)
		p.Hint = tally.first
		return res
	}
	if _, err := simdoh.Decode(base); err != nil {
		res.Harness = "own codec rejects its own encoding: " + err.Error()
		return res
	}
	mu := newMutator(base, lay, p.Family, p.Masks)
	status := make([]byte, mu.n) // 0 not run, 'o' ok, 'e' error, 'x' aborted / panicked (not passed on to Resolve)
	buf := make([]byte, 0, 2*len(base)+16)
	sigs := map[uint64]bool{}
	counts := map[string]int{}
	established := false // a balloon/hang is already on record for this plan
	for i := 0; i < mu.n; i++ {
		c, desc := mu.get(i, buf)
		if established && simdoh.NaiveCycle(c.body) {
			status[i] = 'x'
			counts["skipped_cycle_after_report"]++
			continue
		}
		core.Beat()
		v := judgeDecode(g, c.body, false)
		if (v.status == "ok" || v.status == "err") && (p.Family == "counts" || i%97 == 0) {
			if bad, got, bound := allocOutOfProportion(c.body); bad {
				v = decodeVerdict{status: "balloon", site: "dns.DecodeMessage allocates out of proportion to the message length", detail: fmt.Sprintf("%d octets allocated for a %d-octet message (bound %d)", got, len(c.body), bound)}
			}
			counts["alloc_measured"]++
		}
		res.Evals++
		counts["decode_"+v.status]++
		switch v.status {
		case "ok":
			status[i] = 'o'
		case "err":
			status[i] = 'e'
		default:
			status[i] = 'x'
			if v.status == "hang" || v.status == "balloon" {
				established = true
			}
			hint := &BytesPlan{Body: append([]byte(nil), c.body...), Host: p.Host, QType: p.QType, CacheOff: p.CacheOff, Note: desc}
			tally.fail(v.status, v.site, hint, "%s: %s", desc, v.detail)
		}
		sigs[core.SigOf("mutate", p.Family, v.status, core.SizeClass(len(c.body)), fmt.Sprint(v.nrec), fmt.Sprint(i*8/max(mu.n, 1)))] = true
	}
	// through the resolver
	stride := max(p.Stride, 1)
	var last string
	harness, simNs := resolveBodies(t, &p.Zone, p.Host, p.QType, p.CacheOff, mu.n, func(i int) bodyCase {
		if i%stride != 0 || status[i] == 'x' {
			return bodyCase{skip: true}
		}
		c, desc := mu.get(i, buf)
		last = desc
		return c
	}, func(i int, v resolveVerdict) {
		res.Evals++
		counts["resolve_"+v.status]++
		if v.status != "ok" && v.status != "err" {
			c, _ := mu.get(i, buf)
			hint := &BytesPlan{Body: append([]byte(nil), c.body...), CL: clText(c.cl), ReadErrAfter: c.readErr, Stream: c.stream, Status: c.status, Stall: c.stall, Host: p.Host, QType: p.QType, CacheOff: p.CacheOff, Note: last}
			tally.fail(v.status, v.site, hint, "Resolve(%q) with %s: %s", p.Host, last, v.detail)
		}
		if status[i] == 'o' && v.status == "ok" {
			counts["survived"]++
		}
		sigs[core.SigOf("mutate-resolve", p.Family, v.status, string(status[i]), fmt.Sprint(v.reqs), fmt.Sprint(i*8/max(mu.n, 1)))] = true
	})
	if harness != "" {
		res.Harness = harness
	}
	res.SimNs = simNs
	p.Hint = tally.first
	finishC12(res, "mutate:"+p.Family, counts, sigs, map[string]any{"kind": "mutate", "family": p.Family, "body_octets": len(base), "cases": mu.n, "pointers": len(lay.Pointers), "qtype": p.QType, "outcomes": counts})
	switch p.Family {
	case "truncate":
		res.FaultN("truncated_body", mu.n)
	case "corrupt":
		res.FaultN("corrupted_octet", mu.n)
	case "pointer", "ptrlabel":
		res.FaultN("pointer_rewritten", mu.n)
	case "counts":
		res.FaultN("count_field_lie", mu.n)
	case "rdlen":
		res.FaultN("length_field_lie", mu.n)
	case "http":
		res.FaultN("content_length_lie", mu.n)
	}
	return res
}

func ctlClass(status string) string {
	if status == "err" {
		return "rejected-valid"
	}
	return status
}

func finishC12(res *core.Result, kind string, counts map[string]int, sigs map[uint64]bool, sample any) {
	var ks []string
	for k := range counts {
		ks = append(ks, k)
	}
	sort.Strings(ks)
	var log []string
	for _, k := range ks {
		log = append(log, fmt.Sprintf("%s=%d", k, counts[k]))
		switch k {
		case "decode_ok", "decode_err", "resolve_ok", "resolve_err", "survived", "skipped_cycle_after_report", "pointer_into_label", "pointer_chain_ge3", "pointer_cycle", "alloc_measured":
			res.ProbeN(k, counts[k])
		}
	}
	var ss []uint64
	for s := range sigs {
		ss = append(ss, s)
	}
	sort.Slice(ss, func(i, j int) bool { return ss[i] < ss[j] })
	res.Sigs = ss
	res.LogHash = core.HashLog(append([]string{kind}, log...))
	res.Sample = sample
}

// ---------------------------------------------------------------------------
// adversarial strings

func advString(p *AdvPlan, i int, buf []byte) []byte {
	if i >= p.Count {
		return p.Long[i-p.Count]
	}
	n := p.From + uint64(i)
	b := buf[:0]
	k := uint64(len(p.Alphabet))
	for j := 0; j < p.Len; j++ {
		b = append(b, p.Alphabet[n%k])
		n /= k
	}
	return b
}

func executeAdv(t *testing.T, prop string, pl *Plan) *core.Result {
	p := pl.Adv
	res := &core.Result{}
	g, err := guard()
	if err != nil {
		res.Harness = "decode guard: " + err.Error()
		return res
	}
	if _, ok := advLayoutTab[p.Layout]; !ok && p.Layout != "q2" && p.Layout != "owner" {
		res.Harness = "unknown layout " + p.Layout
		return res
	}
	n := p.Count + len(p.Long)
	tally := &violationTally{res: res, prop: prop}
	status := make([]byte, n)
	sigs := map[uint64]bool{}
	counts := map[string]int{}
	established := false
	sbuf := make([]byte, 0, 64)
	var qtype uint16
	zone := &simdoh.Zone{RRs: []simdoh.RR{{Name: "a.test", Type: simdoh.TypeA, TTL: 60, IP: "10.1.1.1"}}}
	for i := 0; i < n; i++ {
		s := advString(p, i, sbuf)
		var m []byte
		m, qtype = advMessage(p.Layout, s)
		if established && simdoh.NaiveCycle(m) {
			status[i] = 'x'
			counts["skipped_cycle_after_report"]++
			continue
		}
		// what the input is made of (probes and signatures only)
		_, _, werr := simdoh.DecodeTraced(m)
		ws := simdoh.TraceNaive(m)
		if ws.IntoLabel > 0 {
			counts["pointer_into_label"]++
		}
		if ws.MaxHops >= 3 {
			counts["pointer_chain_ge3"]++
		}
		if ws.Cycle {
			counts["pointer_cycle"]++
		}
		core.Beat()
		v := judgeDecode(g, m, false)
		res.Evals++
		counts["decode_"+v.status]++
		switch v.status {
		case "ok":
			status[i] = 'o'
		case "err":
			status[i] = 'e'
		default:
			status[i] = 'x'
			if v.status == "hang" || v.status == "balloon" {
				established = true
			}
			hint := &BytesPlan{Body: m, Host: "a.test", CacheOff: p.CacheOff, Note: fmt.Sprintf("layout %s, name octets %x", p.Layout, s)}
			tally.fail(v.status, v.site, hint, "layout %s, name octets %x at offset %d: %s", p.Layout, s, advRegionStart(p.Layout), v.detail)
		}
		sigs[core.SigOf("adv", p.Layout, v.status, fmt.Sprint(min(ws.MaxHops, 6)), fmt.Sprint(ws.IntoLabel > 0), fmt.Sprint(ws.Cycle), fmt.Sprint(werr == nil), fmt.Sprint(v.nrec))] = true
	}
	stride := max(p.Stride, 1)
	harness, simNs := resolveBodies(t, zone, "a.test", 0, p.CacheOff, n, func(i int) bodyCase {
		if (i%stride != 0 && i < p.Count) || status[i] == 'x' {
			return bodyCase{skip: true}
		}
		m, _ := advMessage(p.Layout, advString(p, i, sbuf))
		return bodyCase{body: m}
	}, func(i int, v resolveVerdict) {
		res.Evals++
		counts["resolve_"+v.status]++
		if v.status != "ok" && v.status != "err" {
			s := advString(p, i, sbuf)
			m, _ := advMessage(p.Layout, s)
			hint := &BytesPlan{Body: m, Host: "a.test", CacheOff: p.CacheOff, Note: fmt.Sprintf("layout %s, name octets %x", p.Layout, s)}
			tally.fail(v.status, v.site, hint, "Resolve(\"a.test\"), every response being layout %s with name octets %x: %s", p.Layout, s, v.detail)
		}
		sigs[core.SigOf("adv-resolve", p.Layout, v.status, string(status[i]), fmt.Sprint(v.reqs))] = true
	})
	_ = qtype
	if harness != "" {
		res.Harness = harness
	}
	res.SimNs = simNs
	p.Hint = tally.first
	res.FaultN("adversarial_name", n)
	finishC12(res, "adv:"+p.Layout, counts, sigs, map[string]any{"kind": "adv", "layout": p.Layout, "alphabet": fmt.Sprintf("%x", p.Alphabet), "len": p.Len, "window": p.Count, "long": len(p.Long), "outcomes": counts})
	return res
}

// ---------------------------------------------------------------------------
// one explicit body

func executeBytes(t *testing.T, prop string, pl *Plan) *core.Result {
	p := pl.Bytes
	res := &core.Result{Evals: 1}
	g, err := guard()
	if err != nil {
		res.Harness = "decode guard: " + err.Error()
		return res
	}
	if len(p.Body) > 65535 {
		res.Harness = "body too large"
		return res
	}
	counts := map[string]int{}
	sigs := map[uint64]bool{}
	v := judgeDecode(g, p.Body, false)
	counts["decode_"+v.status]++
	direct := v.status
	if v.status != "ok" && v.status != "err" {
		res.Fail(prop, v.status, v.site, "%d-octet body %x...: %s", len(p.Body), p.Body[:min(len(p.Body), 48)], v.detail)
	}
	if ws := simdoh.TraceNaive(p.Body); ws.IntoLabel > 0 {
		counts["pointer_into_label"]++
	}
	if direct == "ok" || direct == "err" {
		host := p.Host
		if host == "" {
			host = "a.test"
		}
		zone := &simdoh.Zone{RRs: []simdoh.RR{{Name: host, Type: simdoh.TypeA, TTL: 60, IP: "10.1.1.1"}}}
		harness, simNs := resolveBodies(t, zone, host, p.QType, p.CacheOff, 1, func(int) bodyCase {
			c := bodyCase{body: p.Body, readErr: p.ReadErrAfter, stream: p.Stream, status: p.Status, stall: p.Stall}
			switch p.CL {
			case "":
			case "none":
				e := ""
				c.cl = &e
			default:
				s := p.CL
				c.cl = &s
			}
			return c
		}, func(_ int, rv resolveVerdict) {
			counts["resolve_"+rv.status]++
			if rv.status != "ok" && rv.status != "err" {
				res.Fail(prop, rv.status, rv.site, "Resolve(%q) with body %x: %s", host, p.Body, rv.detail)
			}
		})
		if harness != "" {
			res.Harness = harness
		}
		res.SimNs = simNs
	}
	sigs[core.SigOf("bytes", direct, core.SizeClass(len(p.Body)))] = true
	finishC12(res, "bytes", counts, sigs, map[string]any{"kind": "bytes", "octets": len(p.Body), "decode": direct})
	return res
}

// ---------------------------------------------------------------------------
// shrinking

// shrinkToBytes turns an enumerating plan into the explicit body that failed.
func shrinkToBytes(p *Plan) []*Plan {
	var h *BytesPlan
	if p.Mutate != nil {
		h = p.Mutate.Hint
	}
	if p.Adv != nil {
		h = p.Adv.Hint
	}
	if h == nil {
		return nil
	}
	hh := *h
	return []*Plan{{Kind: "bytes", Seed: p.Seed, Bytes: &hh}}
}

// shrinkBytes: remove chunks of the body (halves ... single octets), keeping
// the 12-octet header; then simplify what is left.
func shrinkBytes(p *Plan) []*Plan {
	b := p.Bytes.Body
	var out []*Plan
	with := func(nb []byte, f func(q *BytesPlan)) {
		q := p.clone()
		q.Bytes.Body = nb
		if f != nil {
			f(q.Bytes)
		}
		out = append(out, q)
	}
	if p.Bytes.CL != "" || p.Bytes.ReadErrAfter != 0 {
		with(b, func(q *BytesPlan) { q.CL, q.ReadErrAfter = "", 0 })
	}
	if p.Bytes.QType != 0 {
		with(b, func(q *BytesPlan) { q.QType = 0 })
	}
	// drop trailing sections by lowering the counts together with the tail
	for c := len(b) / 2; c >= 1; c /= 2 {
		for s := len(b) - c; s >= 12; s -= c {
			nb := append(append([]byte(nil), b[:s]...), b[s+c:]...)
			with(nb, nil)
			if len(out) > 400 {
				return out
			}
		}
	}
	// fix up counts: fewer records announced
	for f := 0; f < 4 && len(b) >= 12; f++ {
		off := 4 + 2*f
		if v := get16(b, off); v > 0 {
			nb := append([]byte(nil), b...)
			put16(nb, off, v-1)
			with(nb, nil)
			nb2 := append([]byte(nil), b...)
			put16(nb2, off, 0)
			with(nb2, nil)
		}
	}
	return out
}
