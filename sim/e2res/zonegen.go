//go:build verif

package e2res

import (
	"fmt"
	"math/rand/v2"
	"net"
	"strconv"
	"strings"

	"verifsim/core"
	"verifsim/simdoh"
)

// Input is one argument of Resolver.Resolve in structured form: the model
// never has to parse the string the library parses.
type Input struct {
	Form   string `json:"form"`             // "host", "hostport", "url"
	Scheme string `json:"scheme,omitempty"` // url form only, as written (any case)
	Host   string `json:"host"`             // name or IP literal (IPv6 without brackets)
	Port   int    `json:"port"`             // -1: none written
	Path   string `json:"path,omitempty"`
}

func (in Input) String() string {
	hp := in.Host
	if in.Port >= 0 {
		hp = net.JoinHostPort(in.Host, strconv.Itoa(in.Port))
	} else if in.Form == "url" && strings.Contains(in.Host, ":") {
		hp = "[" + in.Host + "]"
	}
	switch in.Form {
	case "url":
		return in.Scheme + "://" + hp + in.Path
	}
	return hp
}

// effScheme is the scheme the RFC 9460 lookup uses: https unless another one
// is written; http maps to https (RFC 9460 section 9.5).
func (in Input) effScheme() string {
	if in.Form != "url" {
		return "https"
	}
	s := strings.ToLower(in.Scheme)
	if s == "http" {
		return "https"
	}
	return s
}

type zoneGen struct {
	r        *rand.Rand
	z        simdoh.Zone
	pool     []string
	nextA    int
	ttls     []uint32
	noOtherQ bool // see genUniverse
}

var labelAlphabet = []string{"a", "b", "c", "d", "e", "w"}

func (g *zoneGen) label() string {
	if core.Chance(g.r, 1, 40) {
		return strings.Repeat(core.Pick(g.r, labelAlphabet), core.Pick(g.r, []int{2, 30, 62, 63}))
	}
	return core.Pick(g.r, labelAlphabet)
}

func (g *zoneGen) freshName() string {
	for try := 0; ; try++ {
		n := core.Between(g.r, 1, 3)
		var ls []string
		for i := 0; i < n; i++ {
			ls = append(ls, g.label())
		}
		if try > 20 {
			ls = append(ls, "n"+strconv.Itoa(len(g.pool)))
		}
		name := strings.Join(ls, ".") + ".test"
		if len(name) > 200 {
			continue
		}
		dup := false
		for _, p := range g.pool {
			if p == name {
				dup = true
			}
		}
		if !dup {
			g.pool = append(g.pool, name)
			return name
		}
	}
}

func (g *zoneGen) ttl() uint32 { return core.Pick(g.r, g.ttls) }

func (g *zoneGen) v4() string {
	g.nextA++
	return fmt.Sprintf("10.%d.%d.%d", g.nextA>>8&255, g.nextA&255, 1+g.r.IntN(250))
}

func (g *zoneGen) v6() string {
	g.nextA++
	return fmt.Sprintf("fd00::%x:%x", g.nextA, 1+g.r.IntN(0xfffe))
}

func (g *zoneGen) owned(name string) bool {
	for i := range g.z.RRs {
		if g.z.RRs[i].Name == name && g.z.RRs[i].Type != simdoh.TypeHTTPS {
			return true
		}
	}
	return false
}

// addresses gives name its address records: A/AAAA, a CNAME to another pool
// name (chains and loops arise), or nothing.
func (g *zoneGen) addresses(name string) {
	if g.owned(name) {
		return
	}
	switch x := g.r.IntN(20); {
	case x < 13:
		na, n6 := g.r.IntN(4), g.r.IntN(3)
		if na+n6 == 0 {
			na = 1
		}
		for i := 0; i < na; i++ {
			g.z.RRs = append(g.z.RRs, simdoh.RR{Name: name, Type: simdoh.TypeA, TTL: g.ttl(), IP: g.v4()})
		}
		for i := 0; i < n6; i++ {
			g.z.RRs = append(g.z.RRs, simdoh.RR{Name: name, Type: simdoh.TypeAAAA, TTL: g.ttl(), IP: g.v6()})
		}
	case x < 17:
		tgt := core.Pick(g.r, g.pool)
		if core.Chance(g.r, 1, 3) {
			tgt = g.freshName()
		}
		g.z.RRs = append(g.z.RRs, simdoh.RR{Name: name, Type: simdoh.TypeCNAME, TTL: g.ttl(), Target: tgt})
	default:
		// no address records
	}
}

var alpnIDs = []string{"h2", "h3", "http/1.1", "foo"}

func (g *zoneGen) service(owner string, prio uint16) simdoh.RR {
	s := &simdoh.Svc{Priority: prio}
	na := g.r.IntN(4)
	for i := 0; i < na; i++ {
		s.ALPN = append(s.ALPN, alpnIDs[(i+g.r.IntN(2))%len(alpnIDs)])
	}
	if na > 0 && core.Chance(g.r, 1, 8) {
		s.NoDefaultALPN = true
	}
	if core.Chance(g.r, 1, 4) {
		s.Port = uint16(core.Pick(g.r, []int{443, 8443, 80, 1, 65535}))
	}
	if core.Chance(g.r, 1, 4) {
		for i := 0; i <= g.r.IntN(2); i++ {
			s.V4Hint = append(s.V4Hint, g.v4())
		}
	}
	if core.Chance(g.r, 1, 8) {
		s.V6Hint = append(s.V6Hint, g.v6())
	}
	if core.Chance(g.r, 1, 2) {
		g.nextA++
		s.ECH = append([]byte{0xEC, byte(g.nextA >> 8), byte(g.nextA)}, core.Bytes(g.r, core.Between(g.r, 5, 40))...)
	}
	switch g.r.IntN(40) {
	case 0:
		if len(s.ALPN) > 0 {
			s.Mandatory = []uint16{1}
		}
	case 1:
		// (A record listing a mandatory key the client can not know must be
		// ignored, RFC 9460 section 8. The library uses such records - it
		// drops the mandatory list while decoding - but C14's statement does
		// not speak about mandatory keys, so this is not generated and not
		// judged here; see DESIGN.md, observations.)
		if s.Port != 0 {
			s.Mandatory = []uint16{3}
		}
	case 2: // an unknown, non-mandatory key: harmless
		s.Extra = []simdoh.SvcParam{{Key: 7, Value: []byte("/dns-query{?dns}")}}
	}
	target := ""
	if core.Chance(g.r, 2, 5) {
		target = core.Pick(g.r, g.pool)
		if core.Chance(g.r, 1, 4) {
			target = g.freshName()
		}
		if core.Chance(g.r, 1, 12) {
			// a name no DNS message may carry: many short labels, more than
			// 255 octets on the wire (each label and its length octet count)
			target = strings.Repeat(core.Pick(g.r, []string{"a.", "b.c.", "x."}), core.Between(g.r, 126, 140)) + "test"
		}
	}
	return simdoh.RR{Name: owner, Type: simdoh.TypeHTTPS, TTL: g.ttl(), Target: target, Svc: s}
}

func (g *zoneGen) serviceSet(owner string) {
	k := core.Pick(g.r, []int{1, 1, 2, 2, 3, 4})
	prios := g.r.Perm(6)
	for i := 0; i < k; i++ {
		p := uint16(prios[i] + 1)
		if i > 0 && core.Chance(g.r, 1, 10) {
			p = uint16(prios[0] + 1) // a tie
		}
		g.z.RRs = append(g.z.RRs, g.service(owner, p))
	}
	if core.Chance(g.r, 1, 30) {
		// mixed RRset: an AliasMode record among ServiceMode ones (RFC 9460
		// 2.4.1: the ServiceMode records must then be ignored)
		al := simdoh.RR{Name: owner, Type: simdoh.TypeHTTPS, TTL: g.ttl(), Target: core.Pick(g.r, g.pool), Svc: &simdoh.Svc{}}
		at := len(g.z.RRs) - g.r.IntN(k+1)
		g.z.RRs = append(g.z.RRs[:at], append([]simdoh.RR{al}, g.z.RRs[at:]...)...)
	}
}

func (g *zoneGen) hasHTTPS(owner string) bool {
	for i := range g.z.RRs {
		if g.z.RRs[i].Name == owner && g.z.RRs[i].Type == simdoh.TypeHTTPS {
			return true
		}
	}
	return false
}

// https decides what the HTTPS RRset at owner looks like.
func (g *zoneGen) https(owner string, depth int) {
	if g.hasHTTPS(owner) {
		return
	}
	switch x := g.r.IntN(20); {
	case x < 5: // none
	case x < 12:
		g.serviceSet(owner)
	default:
		// alias chain
		length := core.Pick(g.r, []int{1, 1, 2, 2, 2, 3, 3, 4, 5, 6, 8})
		cur := owner
		var chain []string
		for i := 0; i < length; i++ {
			chain = append(chain, cur)
			var next string
			switch {
			case core.Chance(g.r, 1, 12): // loop
				next = core.Pick(g.r, chain)
			case core.Chance(g.r, 1, 2):
				next = g.freshName()
			default:
				next = core.Pick(g.r, g.pool)
			}
			if core.Chance(g.r, 1, 40) {
				next = "" // "." : the service does not exist
			}
			if g.hasHTTPS(cur) {
				return
			}
			g.z.RRs = append(g.z.RRs, simdoh.RR{Name: cur, Type: simdoh.TypeHTTPS, TTL: g.ttl(), Target: next, Svc: &simdoh.Svc{}})
			if next == "" {
				return
			}
			cur = next
		}
		if !g.hasHTTPS(cur) && core.Chance(g.r, 3, 5) {
			g.serviceSet(cur)
		}
	}
}

func svcbName(in Input, withPort80 bool) string {
	host := strings.TrimSuffix(in.Host, ".")
	port := in.Port
	if port <= 0 {
		port = 443
	}
	sch := in.effScheme()
	if sch == "https" {
		if port == 443 || (port == 80 && !withPort80) {
			return host
		}
		return fmt.Sprintf("_%d._https.%s", port, host)
	}
	return fmt.Sprintf("_%d._%s.%s", port, sch, host)
}

// finish gives address records to every name mentioned and HTTPS sets to
// alias / service targets where they are missing.
func (g *zoneGen) finish() {
	for round := 0; round < 3; round++ {
		n := len(g.z.RRs)
		for i := 0; i < n; i++ {
			rr := g.z.RRs[i]
			if rr.Target != "" && (rr.Type == simdoh.TypeHTTPS || rr.Type == simdoh.TypeCNAME) {
				g.addresses(rr.Target)
			}
		}
	}
	for _, p := range g.pool {
		if core.Chance(g.r, 2, 3) {
			g.addresses(p)
		}
	}
}

var poisonOwners = []string{"evil.test", "p.evil.test", "a.test.evil.test"}

func (g *zoneGen) poison() {
	if core.Chance(g.r, 1, 3) {
		// an unrelated owner's CNAME followed by records at its target: a
		// resolver that follows any CNAME in the answer ends up at the attacker's data
		sink := "sink.evil.test"
		g.z.Poison = append(g.z.Poison, simdoh.RR{Name: core.Pick(g.r, poisonOwners), Type: simdoh.TypeCNAME, TTL: g.ttl(), Target: sink})
		g.z.Poison = append(g.z.Poison, simdoh.RR{Name: sink, Type: simdoh.TypeA, TTL: g.ttl(), IP: "6.6.6.200"})
		g.z.Poison = append(g.z.Poison, simdoh.RR{Name: sink, Type: simdoh.TypeAAAA, TTL: g.ttl(), IP: "2001:db8:bad::200"})
		g.z.Poison = append(g.z.Poison, simdoh.RR{Name: sink, Type: simdoh.TypeHTTPS, TTL: g.ttl(), Target: "", Svc: &simdoh.Svc{Priority: 1, ALPN: []string{"evil"}, ECH: []byte("EVIL-ECH-VIA-CNAME")}})
	}
	if core.Chance(g.r, 1, 4) && len(g.pool) > 0 {
		// a CNAME cycle through one of the zone's own names, appended to every
		// answer: following it must end (the records are in the answer only once)
		h := core.Pick(g.r, g.pool)
		g.z.Poison = append(g.z.Poison, simdoh.RR{Name: h, Type: simdoh.TypeCNAME, TTL: g.ttl(), Target: "loop.evil.test"})
		g.z.Poison = append(g.z.Poison, simdoh.RR{Name: "loop.evil.test", Type: simdoh.TypeCNAME, TTL: g.ttl(), Target: h})
	}
	n := core.Between(g.r, 1, 3)
	for i := 0; i < n; i++ {
		owner := core.Pick(g.r, poisonOwners)
		switch g.r.IntN(4) {
		case 0:
			g.z.Poison = append(g.z.Poison, simdoh.RR{Name: owner, Type: simdoh.TypeA, TTL: g.ttl(), IP: fmt.Sprintf("6.6.6.%d", i+1)})
		case 1:
			g.z.Poison = append(g.z.Poison, simdoh.RR{Name: owner, Type: simdoh.TypeAAAA, TTL: g.ttl(), IP: fmt.Sprintf("2001:db8:bad::%d", i+1)})
		case 2:
			g.z.Poison = append(g.z.Poison, simdoh.RR{Name: owner, Type: simdoh.TypeHTTPS, TTL: g.ttl(), Target: "", Svc: &simdoh.Svc{Priority: 1, ALPN: []string{"evil"}, ECH: []byte("EVIL-ECH-CONFIG"), V4Hint: []string{"6.6.6.66"}}})
		default:
			g.z.Poison = append(g.z.Poison, simdoh.RR{Name: owner, Type: simdoh.TypeHTTPS, TTL: g.ttl(), Target: "sink.evil.test", Svc: &simdoh.Svc{}})
		}
	}
}

func (g *zoneGen) faults(names []string) {
	n := core.Between(g.r, 1, 2)
	used := map[string]bool{}
	for i := 0; i < n; i++ {
		f := simdoh.Fault{Name: core.Pick(g.r, names)}
		if used[f.Name] {
			continue // one fault per name: a burst is then absorbed by the retries of one lookup
		}
		used[f.Name] = true
		if core.Chance(g.r, 1, 2) {
			f.Type = uint16(core.Pick(g.r, []int{simdoh.TypeA, simdoh.TypeAAAA, simdoh.TypeHTTPS}))
		}
		k := g.r.IntN(9)
		if k == 8 && g.noOtherQ {
			k = 3
		}
		switch k {
		case 8:
			// the upstream answers another question than the one asked
			f.Kind = simdoh.FaultOtherQ
			f.Text = core.Pick(g.r, names)
			if strings.EqualFold(strings.TrimSuffix(f.Text, "."), strings.TrimSuffix(f.Name, ".")) || len(simdoh.NameProblems(f.Text)) > 0 {
				// (the same name in another spelling would be an answer to the
				// question asked: names compare without regard to case)
				f.Text = "a.evil.test"
			}
		case 0, 1, 2:
			f.Kind, f.RCode = simdoh.FaultRCode, core.Pick(g.r, []int{1, 2, 2, 3, 4, 5, 5, 9, 6, 10, 16, 32, 17, 23})
		case 3:
			f.Kind = simdoh.FaultTransport
		case 4:
			f.Kind, f.Count = simdoh.FaultTransport, core.Between(g.r, 1, 4)
		case 5:
			f.Kind, f.Status = simdoh.FaultStatus, core.Pick(g.r, []int{500, 502, 503, 404, 403})
		case 6:
			f.Kind, f.Status, f.Count = simdoh.FaultStatus, core.Pick(g.r, []int{500, 502, 503, 429}), core.Between(g.r, 1, 4)
		default:
			f.Kind = simdoh.FaultNoCL
		}
		g.z.Faults = append(g.z.Faults, f)
	}
}

var wellKnownSchemes = []string{"https", "http", "HTTPS", "Http", "foo", "wss", "dns", "a", "x-y+z"}

func genPort(r *rand.Rand) int {
	return core.Pick(r, []int{-1, -1, -1, 443, 443, 80, 80, 0, 8443, 8443, 1, 123, 65535})
}

func longScheme(r *rand.Rand) string {
	n := core.Pick(r, []int{62, 63, 64, 70, 100, 200, 254, 255, 256, 300, 400})
	return strings.Repeat(core.Pick(r, []string{"s", "a", "z"}), n)
}

func longHost(r *rand.Rand) string {
	switch r.IntN(4) {
	case 0: // one long label
		return strings.Repeat("l", core.Pick(r, []int{63, 64, 65, 80})) + ".a.test"
	case 1: // many short labels
		n := core.Pick(r, []int{120, 124, 125, 126, 127, 128, 140, 200})
		return strings.Repeat("a.", n) + "test"
	default: // 63-octet labels up to a total
		total := core.Pick(r, []int{240, 248, 249, 250, 251, 252, 253, 254, 255, 256, 260, 300, 400})
		var ls []string
		left := total - 5
		for left > 0 {
			l := min(left, core.Pick(r, []int{63, 63, 50, 20}))
			ls = append(ls, strings.Repeat("m", l))
			left -= l + 1
		}
		return strings.Join(ls, ".") + ".test"
	}
}

// genUniverse builds a zone and inputs around it.
func genUniverse(r *rand.Rand, nInputs int) (simdoh.Zone, []Input) {
	g := &zoneGen{r: r}
	g.ttls = core.Pick(r, [][]uint32{{300}, {0, 1, 30, 300, 3600}, {3600}, {0}})
	np := core.Between(r, 2, 6)
	for i := 0; i < np; i++ {
		g.freshName()
	}
	var inputs []Input
	host := g.pool[0]
	for i := 0; i < nInputs; i++ {
		in := Input{Form: core.Pick(r, []string{"host", "hostport", "url", "url"}), Host: host, Port: -1}
		if i > 0 && core.Chance(r, 1, 4) {
			in.Host = core.Pick(r, g.pool)
		}
		switch x := r.IntN(40); {
		case x == 0:
			in.Host = "localhost"
		case x == 1:
			in.Host = core.Pick(r, []string{"192.0.2.7", "2001:db8::7", "::1", "127.0.0.1", "::ffff:192.0.2.9"})
		case x == 2:
			in.Host = longHost(r)
		case x == 3:
			in.Host += "." // fully qualified
		case x == 4:
			in.Host = strings.ToUpper(in.Host[:1]) + in.Host[1:]
		}
		if in.Form != "host" {
			in.Port = genPort(r)
			if in.Form == "hostport" && in.Port < 0 {
				in.Port = 443
			}
		}
		if in.Form == "url" {
			in.Scheme = core.Pick(r, wellKnownSchemes)
			if core.Chance(r, 1, 25) {
				in.Scheme = longScheme(r)
			}
			in.Path = core.Pick(r, []string{"", "/", "/p/a/t/h?q=1#f"})
		}
		inputs = append(inputs, in)
	}
	var named []string
	for _, in := range inputs {
		if net.ParseIP(in.Host) != nil || in.Host == "localhost" {
			continue
		}
		h := strings.ToLower(strings.TrimSuffix(in.Host, "."))
		if len(simdoh.NameProblems(h)) > 0 {
			continue
		}
		q := strings.ToLower(svcbName(in, core.Chance(r, 1, 2)))
		if in.effScheme() != "https" && core.Chance(r, 1, 2) {
			q = "_" + in.effScheme() + "." + h
		}
		if len(simdoh.NameProblems(q)) == 0 {
			g.https(q, 0)
			named = append(named, q)
		}
		g.addresses(h)
		named = append(named, h)
	}
	g.finish()
	for i := range g.z.RRs {
		if t := g.z.RRs[i].Target; t != "" && core.Chance(r, 1, 3) {
			named = append(named, t)
		}
	}
	for _, in := range inputs {
		if in.Host != strings.ToLower(in.Host) {
			// A foreign answer may hold records of the queried name in the zone's
			// (lower-case) spelling; whether a resolver that asked in another
			// spelling picks them up is not something the statement settles
			// (it says which records may be used, not that all must be).
			g.noOtherQ = true
		}
	}
	if len(named) > 0 && core.Chance(r, 1, 4) {
		g.faults(named)
	}
	if core.Chance(r, 2, 5) {
		g.poison()
	}
	if core.Chance(r, 1, 6) {
		g.z.Bulk = core.Pick(r, []int{900, 1100, 3000})
	}
	if core.Chance(r, 1, 8) {
		// an upstream that does not chase CNAMEs (every answer is the one CNAME
		// record) - and, half of the time, a CNAME cycle that only shows when
		// somebody follows such answers by hand
		g.z.OneHop = true
		if h := strings.ToLower(strings.TrimSuffix(host, ".")); core.Chance(r, 1, 2) && len(simdoh.NameProblems(h)) == 0 && net.ParseIP(h) == nil && h != "localhost" {
			g.z.RRs = append([]simdoh.RR{
				{Name: h, Type: simdoh.TypeCNAME, TTL: 60, Target: "ring1.cycle.test"},
				{Name: "ring1.cycle.test", Type: simdoh.TypeCNAME, TTL: 60, Target: "ring2.cycle.test"},
				{Name: "ring2.cycle.test", Type: simdoh.TypeCNAME, TTL: 60, Target: h},
			}, g.z.RRs...)
		}
	}
	if core.Chance(r, 1, 5) {
		// replies that arrive in two pieces
		g.z.FirstRead = core.Pick(r, []int{1, 12, 13, 20, 31, 64, 200})
	}
	return g.z, inputs
}
