//go:build verif

// Package e2res is engine E2 "ressim": ech.Resolver -> dns.DoH (real
// go-retryablehttp client, hook H1) -> simdoh zone universe, on the virtual
// clock. It decides C12 (decoding terminates within bounds; the resolver
// survives any body), C14 (Resolve follows RFC 9460 and uses only answers for
// the name asked) and C16 (the cache never serves stale answers and is safe
// under concurrency).
package e2res

import (
	"encoding/json"
	"fmt"
	"regexp"
	"strings"
	"testing"

	"verifsim/core"
)

// Plan is the plain-data description of one E2 run; exactly one sub-plan is
// set.
type Plan struct {
	Kind string `json:"kind"`
	Seed uint64 `json:"seed"`

	Mutate *MutatePlan `json:"mutate,omitempty"` // C12: a fault family enumerated over a valid response
	Adv    *AdvPlan    `json:"adv,omitempty"`    // C12: small-alphabet adversarial name structures
	Bytes  *BytesPlan  `json:"bytes,omitempty"`  // C12: one explicit body (minimised form of the two above)
	Res    *ResPlan    `json:"res,omitempty"`    // C14: zone + inputs
	Seq    *SeqPlan    `json:"seq,omitempty"`    // C16 mode S: sequential history
	Conc   *ConcPlan   `json:"conc,omitempty"`   // C16 mode R: concurrent workload
}

func (p *Plan) clone() *Plan {
	b, _ := json.Marshal(p)
	var q Plan
	if err := json.Unmarshal(b, &q); err != nil {
		panic(err)
	}
	return &q
}

type Engine struct{}

func (Engine) Name() string { return "e2res" }

var runs = map[string][2]int{ // quick, thorough
	"C12": {208, 6400}, // plans; a plan is 10^3 .. 3*10^5 evaluations (measured: quick 1.8 M, thorough ~250 M evaluations)
	"C14": {6000, 800000},
	"C16": {2400, 250000},
}

func (Engine) Runs(prop, tier string) int {
	r, ok := runs[prop]
	if !ok {
		return 0
	}
	if tier == "thorough" {
		return r[1]
	}
	return r[0]
}

func (Engine) Generate(prop, tier string, seed uint64, idx int) *Plan {
	s := core.Mix(seed, prop, idx)
	switch prop {
	case "C12":
		return genC12(s, idx, tier)
	case "C14":
		return genC14(s, idx)
	case "C16":
		return genC16(s, idx)
	}
	panic("e2res: unknown property " + prop)
}

func (Engine) Execute(t *testing.T, prop string, p *Plan) *core.Result {
	switch p.Kind {
	case "mutate":
		return executeMutate(t, prop, p)
	case "adv":
		return executeAdv(t, prop, p)
	case "bytes":
		return executeBytes(t, prop, p)
	case "res":
		return executeRes(t, prop, p)
	case "seq":
		return executeSeq(t, prop, p)
	case "conc":
		return executeConc(t, prop, p)
	}
	return &core.Result{Harness: fmt.Sprintf("unknown plan kind %q", p.Kind)}
}

func (Engine) Shrink(prop string, p *Plan) []*Plan {
	switch p.Kind {
	case "mutate", "adv":
		return shrinkToBytes(p)
	case "bytes":
		return shrinkBytes(p)
	case "res":
		return shrinkRes(p)
	case "seq":
		return shrinkSeq(p)
	case "conc":
		return shrinkConc(p)
	}
	return nil
}

var reNum = regexp.MustCompile(`[0-9]+`)
var reHex = regexp.MustCompile(`0x[0-9a-fA-F]+`)

// normMsg removes run-specific numbers from a message so that it can be part
// of a violation site.
func normMsg(s string) string {
	s = reHex.ReplaceAllString(s, "HEXNUM")
	s = reNum.ReplaceAllString(s, "N")
	s = strings.ReplaceAll(s, "HEXNUM", "0xN")
	if len(s) > 160 {
		s = s[:160]
	}
	return s
}
