//go:build verif

package e2res

import (
	"encoding/hex"
	"fmt"
	"net"
	"net/netip"
	"sort"
	"strings"

	"github.com/c2FmZQ/ech"
	"github.com/c2FmZQ/ech/dns"

	"verifsim/simdoh"
)

// The RFC 9460 client model (DESIGN appendix A.3). It is written from the
// RFC and the package documentation, works on the zone data directly and
// yields the SET of acceptable outcomes of Resolve for one input.

// canonical result: what is compared.
type cResult struct {
	Port  int
	Addr  []string // sorted
	HTTPS []string // sorted by (priority, text)
	Add   []string // "target=[a b c]" sorted
	// provenance, for messages only
	Note string
}

func (c cResult) key() string {
	return fmt.Sprintf("port=%d addr=%v https=%v add=%v", c.Port, c.Addr, c.HTTPS, c.Add)
}

func ipStr(ip net.IP) string {
	a, ok := netip.AddrFromSlice(ip)
	if !ok {
		return "invalid-ip:" + hex.EncodeToString(ip)
	}
	if len(ip) == 16 && a.Is4In6() {
		return "v6:" + a.String()
	}
	return a.String()
}

func normIP(s string) string {
	a, err := netip.ParseAddr(s)
	if err != nil {
		return "unparsable:" + s
	}
	return a.String()
}

func svcText(prio uint16, target string, alpn []string, nda bool, port uint16, v4, v6 []string, echCfg []byte) string {
	t := strings.ToLower(strings.TrimSuffix(target, "."))
	return fmt.Sprintf("%05d target=%q alpn=%q nda=%v port=%d v4=%v v6=%v ech=%x", prio, t, alpn, nda, port, v4, v6, echCfg)
}

func canonLib(r ech.ResolveResult) cResult {
	c := cResult{Port: int(r.Port)}
	for _, a := range r.Address {
		c.Addr = append(c.Addr, ipStr(a))
	}
	sort.Strings(c.Addr)
	for _, h := range r.HTTPS {
		c.HTTPS = append(c.HTTPS, libSvcText(h))
	}
	sort.Strings(c.HTTPS)
	for k, v := range r.Additional {
		if len(v) == 0 {
			continue
		}
		var as []string
		for _, a := range v {
			as = append(as, ipStr(a))
		}
		sort.Strings(as)
		c.Add = append(c.Add, fmt.Sprintf("%s=%v", strings.ToLower(strings.TrimSuffix(k, ".")), as))
	}
	sort.Strings(c.Add)
	return c
}

func libSvcText(h dns.HTTPS) string {
	var v4, v6 []string
	for _, a := range h.IPv4Hint {
		v4 = append(v4, ipStr(a))
	}
	for _, a := range h.IPv6Hint {
		v6 = append(v6, ipStr(a))
	}
	return svcText(h.Priority, h.Target, h.ALPN, h.NoDefaultALPN, h.Port, v4, v6, h.ECH)
}

func zoneSvcText(rr *simdoh.RR) string {
	s := rr.Svc
	var v4, v6 []string
	for _, a := range s.V4Hint {
		v4 = append(v4, normIP(a))
	}
	for _, a := range s.V6Hint {
		v6 = append(v6, normIP(a))
	}
	return svcText(s.Priority, rr.Target, s.ALPN, s.NoDefaultALPN, s.Port, v4, v6, s.ECH)
}

// lookup status of the model
const (
	stOK   = "ok"
	stNX   = "nx"
	stFail = "fail" // transport / HTTP failure: some error, no particular class
)

type model struct {
	z *simdoh.Zone
	// names the resolver may legitimately ask about, by query type class
	notes []string
}

// look is what a lookup of (name, type) yields given the zone and its
// permanent faults; transient bursts (Count 1..4 of a retryable failure) are
// absorbed by the retries of the real HTTP client and do not change it.
func (m *model) look(name string, typ uint16) (recs []simdoh.RR, st string) {
	for i := range m.z.Faults {
		f := &m.z.Faults[i]
		if (f.Type != 0 && f.Type != typ) || (f.Name != "" && strings.ToLower(strings.TrimSuffix(f.Name, ".")) != strings.ToLower(strings.TrimSuffix(name, "."))) {
			continue
		}
		if f.Count > 0 {
			continue // transient
		}
		switch f.Kind {
		case simdoh.FaultOtherQ:
			// a response to another question: whatever in it is owned by the
			// queried name (or reached from it through CNAMEs of that answer)
			// counts, the rest does not; its response code is what it is
			ans, rc := m.z.Lookup(f.Text, typ)
			switch rc {
			case 0:
				return simdoh.Final(ans, name, typ), stOK
			case 3:
				return nil, stNX
			}
			return nil, fmt.Sprintf("rcode:%d", rc)
		case simdoh.FaultRCode:
			switch f.RCode {
			case 0:
				return nil, stOK
			case 3:
				return nil, stNX
			case 1, 2, 4, 5:
				return nil, fmt.Sprintf("rcode:%d", f.RCode)
			}
			return nil, stFail // no documented error for other codes: any error will do
		default:
			return nil, stFail
		}
	}
	ans, rc := m.z.Lookup(name, typ)
	switch rc {
	case 0:
		return simdoh.Final(ans, name, typ), stOK
	case 3:
		return nil, stNX
	}
	return nil, fmt.Sprintf("rcode:%d", rc)
}

// expectation for one input
type expect struct {
	results  []cResult
	errs     map[string]bool // acceptable error classes: "nx", "rcode:N", "fail" (any error), "invalid"
	noQuery  bool            // no upstream query may be issued
	qnames   map[string]bool // acceptable QNAMEs of the first HTTPS lookup (lower case); nil: not checked
	invalid  string          // why the input must be refused, "" if it need not
	chainLen int             // longest alias chain the model followed
	shape    string
	skip     bool            // input outside the documented domain (empty label): nothing is asserted
	mixed    bool            // an RRset with both AliasMode and ServiceMode records was met
	unusable map[string]bool // ServiceMode records that must be ignored (unsupported mandatory key)
}

func (e *expect) addResult(c cResult) {
	for _, x := range e.results {
		if x.key() == c.key() {
			return
		}
	}
	e.results = append(e.results, c)
}

func (e *expect) addErr(st string) {
	if e.errs == nil {
		e.errs = map[string]bool{}
	}
	e.errs[st] = true
}

func knownKey(k uint16) bool { return k <= 6 }

// usable: RFC 9460 section 8 - a record listing a mandatory key the client
// does not implement must be ignored.
func usable(rr *simdoh.RR) bool {
	for _, k := range rr.Svc.Mandatory {
		if !knownKey(k) {
			return false
		}
	}
	return true
}

func addrsOf(recs []simdoh.RR) []string {
	var out []string
	for i := range recs {
		out = append(out, normIP(recs[i].IP))
	}
	return out
}

// finish computes the acceptable outcomes once the HTTPS records (possibly
// none) and the name whose addresses are the origin's are known.
func (m *model) finish(e *expect, port []int, services []simdoh.RR, addrName, note string) {
	a, sa := m.look(addrName, simdoh.TypeA)
	b, sb := m.look(addrName, simdoh.TypeAAAA)
	type alt struct{ addr []string }
	var alts []alt
	switch {
	case sa == stOK && sb == stOK:
		alts = append(alts, alt{append(addrsOf(a), addrsOf(b)...)})
	case sa != stOK && sb != stOK:
		e.addErr(sa)
		e.addErr(sb)
	case sa != stOK:
		// a failed address lookup of the origin is an error of the call, whatever
		// the other family says (the statement maps error codes to errors; a
		// result that silently lacks a family would hide the failure)
		e.addErr(sa)
	default:
		e.addErr(sb)
	}
	// service targets
	type tgtAlt struct{ lines []string }
	targetAlts := []tgtAlt{{}}
	seen := map[string]bool{}
	var https []string
	for i := range services {
		rr := &services[i]
		https = append(https, zoneSvcText(rr))
		t := strings.ToLower(strings.TrimSuffix(rr.Target, "."))
		if t == "" || seen[t] {
			continue
		}
		seen[t] = true
		ta, s1 := m.look(t, simdoh.TypeA)
		tb, s2 := m.look(t, simdoh.TypeAAAA)
		var options [][]string
		if s1 == stOK && s2 == stOK {
			options = [][]string{append(addrsOf(ta), addrsOf(tb)...)}
		} else {
			// failure of a target lookup is tolerated: whole RRsets may be missing
			options = [][]string{nil}
			if s1 == stOK && len(ta) > 0 {
				options = append(options, addrsOf(ta))
			}
			if s2 == stOK && len(tb) > 0 {
				options = append(options, addrsOf(tb))
			}
		}
		var next []tgtAlt
		for _, base := range targetAlts {
			for _, o := range options {
				l := append([]string(nil), base.lines...)
				if len(o) > 0 {
					s := append([]string(nil), o...)
					sort.Strings(s)
					l = append(l, fmt.Sprintf("%s=%v", t, s))
				}
				next = append(next, tgtAlt{l})
			}
		}
		if len(next) > 64 {
			next = next[:64]
		}
		targetAlts = next
	}
	sort.Strings(https)
	for _, p := range port {
		for _, al := range alts {
			for _, ta := range targetAlts {
				c := cResult{Port: p, Note: note}
				c.Addr = append(c.Addr, al.addr...)
				sort.Strings(c.Addr)
				c.HTTPS = https
				c.Add = append(c.Add, ta.lines...)
				sort.Strings(c.Add)
				e.addResult(c)
			}
		}
	}
}

// follow walks the HTTPS records from the query name start.
func (m *model) follow(e *expect, port []int, host, start string) {
	cur := start
	chain := 0
	visited := map[string]bool{cur: true}
	addrName := func() string {
		if cur == start {
			return host
		}
		return cur
	}
	for {
		recs, st := m.look(cur, simdoh.TypeHTTPS)
		if st != stOK && st != stNX {
			e.addErr(st)
			return
		}
		var aliases, services []simdoh.RR
		for i := range recs {
			if recs[i].Svc == nil {
				continue
			}
			if recs[i].Svc.Priority == 0 {
				aliases = append(aliases, recs[i])
			} else if usable(&recs[i]) {
				services = append(services, recs[i])
			} else {
				if e.unusable == nil {
					e.unusable = map[string]bool{}
				}
				e.unusable[zoneSvcText(&recs[i])] = true
			}
		}
		if len(aliases) > 0 && len(aliases) < len(recs) {
			e.mixed = true
		}
		if len(aliases) == 0 {
			shape := "none"
			if len(services) > 0 {
				shape = "service"
			}
			if chain > 0 {
				shape = fmt.Sprintf("alias-%s", shape)
			}
			e.shape = shape
			m.finish(e, port, services, addrName(), fmt.Sprintf("alias chain of %d followed, %s", chain, shape))
			return
		}
		// AliasMode: ServiceMode records of the same set are ignored (2.4.1)
		next := strings.ToLower(strings.TrimSuffix(aliases[0].Target, "."))
		if next == "" {
			// "." in AliasMode: the service does not exist; a client may
			// still connect without HTTPS records (2.5.1)
			e.shape = "alias-dot"
			m.finish(e, port, nil, addrName(), "AliasMode target \".\"")
			return
		}
		chain++
		if chain > e.chainLen {
			e.chainLen = chain
		}
		if visited[next] {
			e.shape = "alias-loop"
			m.finish(e, port, nil, host, "alias loop: fall back to the origin")
			return
		}
		visited[next] = true
		if chain > 2 {
			// a client may give up on chains longer than it is willing to
			// follow; shorter ones must be followed
			m.finish(e, port, nil, host, "long alias chain: fall back to the origin")
		}
		if chain > 64 {
			return
		}
		cur = next
	}
}

// expectForStart computes the acceptable outcomes for one input; observed is
// the QNAME of the first HTTPS lookup seen by the upstream (used for schemes
// other than https only).
func expectForStart(z *simdoh.Zone, in Input, observed string) *expect {
	m := &model{z: z}
	e := &expect{}
	// port
	var ports []int
	switch {
	case in.Port > 0:
		ports = []int{in.Port}
	case in.Port == 0:
		ports = []int{443, 0} // "host:0": documented as unspecified; 0 itself is not wrong either
	case in.Form == "url" && strings.ToLower(in.Scheme) == "http":
		ports = []int{443, 80} // documented default is 443; the scheme's own default is 80
	default:
		ports = []int{443}
	}
	if in.Host == "localhost" {
		e.noQuery = true
		for _, p := range ports {
			e.addResult(cResult{Port: p, Addr: []string{"127.0.0.1", "::1"}})
		}
		return e
	}
	if a, err := netip.ParseAddr(in.Host); err == nil {
		e.noQuery = true
		s := a.String()
		if a.Is4In6() {
			s = a.Unmap().String()
		}
		for _, p := range ports {
			e.addResult(cResult{Port: p, Addr: []string{s}})
		}
		return e
	}
	host := strings.ToLower(strings.TrimSuffix(in.Host, "."))
	if strings.Contains(host, "..") || strings.HasPrefix(host, ".") || host == "" {
		e.skip = true
		return e
	}
	if pr := simdoh.NameProblems(host); len(pr) > 0 {
		e.invalid = "host: " + pr[0]
		e.noQuery = true
		e.addErr("fail")
		return e
	}
	for _, rrs := range [][]simdoh.RR{z.RRs, z.Poison} {
		for i := range rrs {
			if (rrs[i].Target != "" && len(simdoh.NameProblems(rrs[i].Target)) > 0) || len(simdoh.NameProblems(rrs[i].Name)) > 0 {
				// The universe holds a name that no message can carry: a response
				// that includes it cannot be decoded, and which responses do is
				// the upstream's business. What the resolver returns is not
				// asserted here - only what it asks (the query monitor: it must
				// never ask for such a name).
				e.skip = true
				return e
			}
		}
	}
	var starts []string
	if in.effScheme() == "https" {
		starts = []string{strings.ToLower(svcbName(in, false))}
		if in.Port == 80 {
			starts = append(starts, strings.ToLower(svcbName(in, true)))
		}
		e.qnames = map[string]bool{}
		for _, s := range starts {
			e.qnames[s] = true
		}
	} else if observed != "" && len(simdoh.NameProblems(observed)) == 0 {
		// other schemes: which prefix labels are used is the scheme's
		// business; the name actually asked (already checked to be of the
		// form (_label.)+host) is taken as the start
		starts = []string{observed}
	}
	if len(starts) == 0 {
		// no usable query name was seen
		if pr := simdoh.NameProblems("_" + in.effScheme() + "." + host); len(pr) > 0 {
			e.invalid = "query name: " + pr[0]
			e.addErr("fail")
		} else if len(simdoh.NameProblems("_65535._"+in.effScheme()+"."+host)) > 0 {
			// with a port label the query name may be too long: refusing is fine too
			e.addErr("invalid")
		}
		m.finish(e, ports, nil, host, "no HTTPS lookup")
		return e
	}
	var valid []string
	why := ""
	for _, s := range starts {
		if pr := simdoh.NameProblems(s); len(pr) > 0 {
			why = pr[0]
			if e.qnames != nil {
				delete(e.qnames, s)
			}
			continue
		}
		valid = append(valid, s)
	}
	if len(valid) == 0 {
		// the host is fine but the RFC 9460 query name is not a DNS name:
		// refuse, or do without HTTPS records - but never send it
		e.invalid = "query name: " + why
		e.addErr("fail")
		e.qnames = nil
		m.finish(e, ports, nil, host, "no HTTPS lookup possible")
		return e
	}
	starts = valid
	for _, s := range starts {
		m.follow(e, ports, host, s)
	}
	return e
}

// errClass maps an error of Resolve to the model's classes.
func errClass(err error) string {
	switch {
	case err == nil:
		return ""
	case isErr(err, ech.ErrNonExistentDomain):
		return stNX
	case isErr(err, ech.ErrFormatError):
		return "rcode:1"
	case isErr(err, ech.ErrServerFailure):
		return "rcode:2"
	case isErr(err, ech.ErrNotImplemented):
		return "rcode:4"
	case isErr(err, ech.ErrQueryRefused):
		return "rcode:5"
	case isErr(err, ech.ErrInvalidName):
		return "invalid"
	}
	return "other"
}
