//go:build verif

package e2res

import (
	"io"
	"log"
	"os"
	"strings"
	"syscall"
	"testing"

	"verifsim/core"
)

func TestWorker(t *testing.T) { core.RunWorker[Plan](t, Engine{}) }

func TestRuns(t *testing.T) { core.PrintRuns[Plan](t, Engine{}) }

// TestMain: the library logs through the standard logger (alias loops);
// that is noise here. On the race-detector binary the testing package marks
// the worker test as failed as soon as a race was reported ("race detected
// during execution of test"); the reports themselves are collected by the
// driver from the GORACE log files, so a worker that wrote its complete
// report (VERIF_OUT present, no ".cur" plan left over) still exits 0.
func TestMain(m *testing.M) {
	// The race runtime replaces the exit status by its "exitcode" setting
	// (default 66) once a race was reported; the driver's GORACE does not set
	// it, so the worker re-executes itself once with exitcode=0 added.
	if os.Getenv("VERIF_RACE") == "1" && !strings.Contains(os.Getenv("GORACE"), "exitcode=") {
		if exe, err := os.Executable(); err == nil {
			os.Setenv("GORACE", strings.TrimSpace(os.Getenv("GORACE")+" exitcode=0"))
			syscall.Exec(exe, os.Args, os.Environ())
		}
	}
	log.SetOutput(io.Discard)
	code := m.Run()
	if code != 0 && os.Getenv("VERIF_RACE") == "1" {
		out := os.Getenv("VERIF_OUT")
		if out != "" {
			_, err1 := os.Stat(out)
			_, err2 := os.Stat(out + ".cur")
			if err1 == nil && os.IsNotExist(err2) {
				code = 0
			}
		}
	}
	os.Exit(code)
}
