package e2res

import (
	"testing"
	"time"

	"github.com/c2FmZQ/ech/dns"
)

func TestScratchGuard(t *testing.T) {
	g, err := newDecodeGuard(5*time.Second, 64<<20)
	if err != nil {
		t.Fatal(err)
	}
	defer g.close()
	hdr := []byte{0, 0, 0x81, 0x80, 0, 1, 0, 0, 0, 0, 0, 0}
	for _, tc := range [][]byte{
		append(append([]byte{}, hdr...), 1, 'a', 0xC0, 0x0C, 0, 1, 0, 1),
		append(append([]byte{}, hdr...), 1, 'a', 0, 0, 1, 0, 1),
		// label of length 17 at 12 whose bytes at 20,21 are C0 0C ; at 30: C0 14
		append(append(append([]byte{}, hdr...), 17, 'a', 'a', 'a', 'a', 'a', 'a', 'a', 0xC0, 0x0C, 'a', 'a', 'a', 'a', 'a', 'a', 'a', 'a', 0xC0, 0x14), 0, 1, 0, 1),
	} {
		var m *dns.Message
		var derr error
		o := g.run(tc, func(b []byte) { m, derr = dns.DecodeMessage(b) })
		t.Logf("%x -> %+v m=%v err=%v", tc, o, m, derr)
	}
}
