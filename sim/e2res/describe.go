//go:build verif

package e2res

import "verifsim/core"

func (Engine) Describe(prop string) core.Description {
	d := core.Description{Components: map[string]string{
		"ech.Resolver (Resolve, cache, SetCacheSize, ResolveResult.Targets)": "real code under test",
		"dns.DoH":                               "real code under test (hook H1 only swaps the transport of its HTTP client)",
		"dns.DecodeMessage / dns.Message.Bytes": "real code under test",
		"go-retryablehttp client (retries, back-off, status handling)": "real third-party code, timers on the virtual clock",
		"golang-lru 2Q cache":            "real third-party code",
		"DoH upstream":                   "simulated (simdoh: http.RoundTripper + zone database; per-name rcodes, transport errors, HTTP status bursts, body and content-length faults, poisoned answers, virtual latency)",
		"DNS wire codec of the upstream": "harness's own RFC 1035 / RFC 9460 encoder and strict decoder (simdoh), independent of the library's dns package",
		"clock":                          "virtual (testing/synctest); real time only for the decode bounds of C12",
	}}
	switch prop {
	case "C12":
		d.Rule = "one evaluation = one response body handed to dns.DecodeMessage (directly, under a real-time/allocation guard) or to Resolver.Resolve through dns.DoH; a plan enumerates one fault family over one valid response (or a window of small-alphabet name structures); distinct_nontrivial counts distinct (family or layout, position bucket, decoder outcome, resolver outcome, records decoded / pointer hops) signatures of executed cases"
		d.Exhaustive = "per plan, over the response at hand (<= 4 KiB): truncation at every length x {matching content-length, content-length of the whole, connection reset}; every octet x mask set; every compression pointer -> every offset (and 0x3fff); every label start replaced by a pointer to every offset; each count field x value set; each RDLENGTH / SvcParam length x delta set; content-length header value set. Adversarial names: a contiguous window of the full enumeration of strings over the plan's alphabet (whole space when it has <= 40 000 / 250 000 strings) in 12 name positions, plus 300 sampled longer strings"
		d.Assumptions = []string{
			"bounds are 5 s and 64 MiB of allocation per decode of a body of at most 4 KiB, believed only when exceeded in 3 of 3 measurements; the call is interrupted by revoking read access to the input mapping (debug.SetPanicOnFault), so a decoder loop that stops reading its input would instead be caught by the driver's 60 s watchdog",
			"mutation of valid traffic plus small-alphabet pointer structures, without coverage feedback; bodies above 4 KiB are not generated",
			"once a hang/balloon is on record in a plan, further inputs whose names contain a pointer cycle under the naive 'points before itself' rule are not executed again in that plan (probe skipped_cycle_after_report)",
			"type oracle: A/AAAA net.IP of 4/16 octets, NS/CNAME/PTR string, SOA, MX, TXT, LOC, SRV, CERT, OPT []dns.Option, DS, RRSIG, NSEC, DNSKEY, SVCB, HTTPS (hints of 4/16 octets), URI, CAA, anything else []byte",
		}
		d.RequiredProbes = []string{"decode_ok", "decode_err", "resolve_ok", "resolve_err", "survived", "pointer_into_label", "pointer_chain_ge3"}
	case "C14":
		d.Rule = "one evaluation = one plan: a generated zone universe and 1..4 inputs resolved by one Resolver; non-trivial if at least one upstream query was issued; signature = per input (form, scheme class, port class, HTTPS shape, alias chain length, outcome class, number of upstream requests)"
		d.Assumptions = []string{
			"oracle = executable RFC 9460 client model producing the set of acceptable outcomes: alias chains of length <= 2 must be followed, longer chains and loops may be followed or fall back to the origin without HTTPS records; explicit port 80 may use either QNAME form; for schemes other than http/https only the shape (_label.)+host and validity of the QNAME are asserted and the observed name is taken as start; failures of ServiceMode target lookups are tolerated; RRset order is not compared, ties in priority may come in any order",
			"host names with empty labels are outside the documented input domain and not judged; a trailing dot and upper case are accepted input",
			"transient 5xx/transport bursts are at most 4 requests long and one per name, so that the retry budget of one lookup absorbs them (the model then expects success)",
			"the upstream echoes the spelling of the question in the owner name of the first answer record, as real servers do through name compression",
		}
		d.RequiredProbes = []string{"alias_chain_ge2", "alias_chain_gt2", "alias_loop", "retry_backoff_used", "poisoned_answer_ignored", "overlong_input"}
	case "C16":
		d.Rule = "one evaluation = one plan: even indices a sequential history (<= 40 operations) on the virtual clock, odd indices a concurrent workload of 2..16 goroutines (schedule_control: runtime); non-trivial if at least one Resolve call was made; signature (sequential) = per call (name shape, upstream requests issued, error), (concurrent) = workload shape buckets"
		d.Assumptions = []string{
			"freshness rule (DESIGN A.2): every per-key part of a result must equal the answer of ONE logged upstream response for that key which was either received during the call or is not older than its smallest answer TTL (300 s for an empty answer section) at the START of the call; a smallest TTL of 0 is only acceptable for a response received during the call",
			"must-hit is asserted only when the response is still fresh at the end of the call, carried records, no failure or SetCacheSize happened since, and the number of distinct keys in use is at most a quarter of the cache size",
			"concurrent mode uses zero upstream latency (mutex waits are not durable under synctest) and PRNG-placed Gosched; the interleaving is the Go scheduler's: results are marked runtime_arbitrated; race reports come from the race-detector binary and are collected by the driver",
			"SetCacheSize is not called concurrently with Resolve",
		}
		d.RequiredProbes = []string{"cache_expiry_refetch", "retry_backoff_used", "ttl0_mixed", "served_from_cache", "must_hit_asserted", "cname_only_answer", "calls_served_from_shared_cache", "targets_iterated", "error_surfaced"}
	}
	return d
}
