//go:build verif

package e2res

import (
	"context"
	"errors"
	"fmt"
	"sort"
	"strings"
	"testing"
	"testing/synctest"
	"time"

	"github.com/c2FmZQ/ech"
	"github.com/c2FmZQ/ech/dns"

	"verifsim/core"
	"verifsim/simdoh"
)

func isErr(err, target error) bool { return errors.Is(err, target) }

// ResPlan (C14): a zone universe, a resolver configuration and inputs that
// are resolved one after the other by the same Resolver.
type ResPlan struct {
	Zone      simdoh.Zone `json:"zone"`
	Inputs    []Input     `json:"inputs"`
	CacheSize int         `json:"cache_size"` // -1: default, 0: disabled, n: SetCacheSize(n)
	LatencyMs int         `json:"latency_ms"`
	NoCompr   bool        `json:"no_compression,omitempty"`
}

func genC14(seed uint64, idx int) *Plan {
	r := core.NewRand(seed, "plan")
	z, inputs := genUniverse(r, core.Between(r, 1, 4))
	p := &ResPlan{Zone: z, Inputs: inputs}
	p.CacheSize = core.Pick(r, []int{-1, -1, 0, 0, 1, 4, 64})
	p.LatencyMs = core.Pick(r, []int{0, 1, 7, 40})
	p.NoCompr = core.Chance(r, 1, 6)
	return &Plan{Kind: "res", Seed: seed, Res: p}
}

const doHURL = "https://doh.sim/dns-query"

func newResolver(cacheSize int) (*ech.Resolver, error) {
	r, err := ech.NewResolver(doHURL)
	if err != nil {
		return nil, err
	}
	if cacheSize >= 0 {
		r.SetCacheSize(cacheSize)
	}
	return r, nil
}

// zoneNames: every name the zone proper mentions (owners and targets), and
// the names only its poison mentions.
func zoneNames(z *simdoh.Zone) (legit, poison map[string]bool) {
	legit, poison = map[string]bool{}, map[string]bool{}
	c := func(s string) string { return strings.ToLower(strings.TrimSuffix(s, ".")) }
	for i := range z.RRs {
		legit[c(z.RRs[i].Name)] = true
		if z.RRs[i].Target != "" {
			legit[c(z.RRs[i].Target)] = true
		}
	}
	for i := range z.Poison {
		for _, n := range []string{z.Poison[i].Name, z.Poison[i].Target} {
			if n != "" && !legit[c(n)] {
				poison[c(n)] = true
			}
		}
	}
	return
}

func poisonValues(z *simdoh.Zone) map[string]bool {
	out := map[string]bool{}
	for i := range z.Poison {
		p := &z.Poison[i]
		switch p.Type {
		case simdoh.TypeA, simdoh.TypeAAAA:
			out[normIP(p.IP)] = true
		case simdoh.TypeHTTPS:
			out[zoneSvcText(p)] = true
		}
	}
	return out
}

// underscoreForm: name == (_label.)+host
func underscoreForm(qname, host string) bool {
	if !strings.HasSuffix(qname, "."+host) {
		return false
	}
	pre := strings.TrimSuffix(qname, "."+host)
	for _, l := range strings.Split(pre, ".") {
		if len(l) < 2 || l[0] != '_' {
			return false
		}
	}
	return true
}

type resObs struct {
	in       Input
	res      ech.ResolveResult
	err      error
	panicked bool
	pmsg     string
	psite    string
	entries  []simdoh.Entry
	elapsed  time.Duration
}

func executeRes(t *testing.T, prop string, pl *Plan) *core.Result {
	p := pl.Res
	res := &core.Result{Evals: 1}
	var obs []resObs
	var leakedLib []string
	var log []string
	msg := core.Bubble(t, func(t *testing.T) {
		srv := simdoh.NewServer(&p.Zone)
		srv.PadTo = 128
		if p.NoCompr {
			srv.Enc.Compress = false
		}
		if p.LatencyMs > 0 {
			lat := time.Duration(p.LatencyMs) * time.Millisecond
			srv.Latency = func(int) time.Duration { return lat }
		}
		dns.VerifRoundTripper = srv
		defer func() { dns.VerifRoundTripper = nil }()
		rs, err := newResolver(p.CacheSize)
		if err != nil {
			res.Harness = "NewResolver: " + err.Error()
			return
		}
		for _, in := range p.Inputs {
			o := resObs{in: in}
			before := srv.LogLen()
			t0 := time.Now()
			o.panicked, o.pmsg, o.psite = core.Guard(func() {
				o.res, o.err = rs.Resolve(context.Background(), in.String())
			})
			o.elapsed = time.Since(t0)
			all := srv.Log()
			o.entries = all[before:]
			obs = append(obs, o)
		}
		res.SimNs = int64(srv.Now())
		synctest.Wait()
		leakedLib, _ = core.Leaked()
	})
	if res.Harness != "" {
		return res
	}
	if msg != "" {
		if strings.Contains(msg, "deadlock") {
			res.Fail(prop, "hang", "Resolve never returns (every goroutine blocked)", "%s", firstLine(msg))
		} else if strings.Contains(msg, "blocked goroutines remain") {
			res.Fail(prop, "goroutine-leak", "goroutines left behind after Resolve", "%s", firstLine(msg))
		} else {
			res.Harness = "bubble: " + firstLine(msg)
		}
		return res
	}
	if len(leakedLib) > 0 {
		res.Fail(prop, "goroutine-leak", "library goroutine alive after Resolve returned: "+leakedLib[0], "%v", leakedLib)
	}

	legit, poisonNames := zoneNames(&p.Zone)
	pvals := poisonValues(&p.Zone)
	bound := 15 * (len(legit) + 3)
	var sigParts []string
	var httpsAsked []string // QNAMEs of the HTTPS lookups the upstream has seen so far
	for i := range obs {
		o := &obs[i]
		in := o.in
		inText := in.String()
		if len(inText) > 120 {
			inText = fmt.Sprintf("%s...(%d bytes)", inText[:60], len(inText))
		}
		line := fmt.Sprintf("in=%s q=%d", inText, len(o.entries))
		if o.panicked {
			res.Fail(prop, "panic", o.psite+": "+normMsg(o.pmsg), "Resolve(%q) panicked: %s", inText, o.pmsg)
			log = append(log, line+" panic")
			sigParts = append(sigParts, "panic")
			continue
		}
		// the upstream's view
		firstHTTPS := ""
		for _, e := range o.entries {
			if e.QType == simdoh.TypeHTTPS && firstHTTPS == "" {
				firstHTTPS = strings.ToLower(e.QName)
			}
			for _, pr := range e.Problems {
				cls := "invalid-query"
				res.Fail(prop, cls, normMsg(pr), "Resolve(%q) sent a query (%d octets, qname %q type %d) that the independent codec rejects: %s", inText, e.Len, e.QName, e.QType, pr)
			}
			switch e.Outcome {
			case "transport", "nocl", simdoh.FaultOtherQ:
				res.Fault(e.Outcome)
			default:
				if strings.HasPrefix(e.Outcome, "status:") {
					res.Fault("http_status")
				} else if strings.HasPrefix(e.Outcome, "rcode:") {
					res.Fault("rcode")
				}
			}
		}
		if o.elapsed >= time.Second {
			res.Probe("retry_backoff_used")
		}
		host := strings.ToLower(strings.TrimSuffix(in.Host, "."))
		cacheOn := p.CacheSize != 0
		start, ambiguous := "", false
		if in.effScheme() != "https" {
			switch {
			case firstHTTPS != "" && underscoreForm(firstHTTPS, host):
				start = firstHTTPS
			case cacheOn:
				// the lookup may have been answered from the cache: the
				// name is the one an earlier Resolve of the run asked
				seen := map[string]bool{}
				for _, q := range httpsAsked {
					if underscoreForm(q, host) && strings.Contains("."+q, "._"+in.effScheme()+".") && !seen[q] {
						seen[q] = true
						start = q
					}
				}
				if len(seen) > 1 {
					ambiguous = true
				}
			}
		}
		e := expectForStart(&p.Zone, in, start)
		if e.chainLen >= 2 {
			res.Probe("alias_chain_ge2")
		}
		if e.chainLen > 2 {
			res.Probe("alias_chain_gt2")
		}
		if e.shape == "alias-loop" {
			res.Probe("alias_loop")
		}
		if e.invalid != "" {
			res.Probe("overlong_input")
		}
		rejected := false // the upstream refused a query as malformed (already reported)
		for _, en := range o.entries {
			if len(en.Problems) > 0 {
				rejected = true
			}
		}
		if e.noQuery && len(o.entries) > 0 && !rejected {
			what := "an IP literal or localhost"
			if e.invalid != "" {
				what = "a name that is not a DNS name"
			}
			res.Fail(prop, "unexpected-query", "upstream queried for "+what, "Resolve(%q) sent %d queries, first for %q; %s", inText, len(o.entries), o.entries[0].QName, e.invalid)
		}
		if len(o.entries) > bound {
			res.Fail(prop, "query-count", "more upstream requests than the zone can justify", "Resolve(%q): %d requests, bound %d", inText, len(o.entries), bound)
		}
		for _, en := range o.entries {
			if en.QType == simdoh.TypeHTTPS && en.QName != "" {
				httpsAsked = append(httpsAsked, strings.ToLower(en.QName))
			}
		}
		if (e.noQuery && len(o.entries) > 0) || rejected || ambiguous || e.skip {
			log = append(log, line+" (outcome not judged)")
			sigParts = append(sigParts, "unjudged")
			continue
		}
		if firstHTTPS != "" {
			askedBefore := false
			for _, q := range httpsAsked[:len(httpsAsked)-countHTTPS(o.entries)] {
				if e.qnames[q] {
					askedBefore = true
				}
			}
			if e.qnames != nil && !e.qnames[firstHTTPS] && !(cacheOn && askedBefore) {
				res.Fail(prop, "qname", "HTTPS lookup QNAME is not the RFC 9460 2.3 name for the input", "Resolve(%q) asked HTTPS %q, acceptable %v", inText, firstHTTPS, keys(e.qnames))
			}
			if in.effScheme() != "https" && start == "" && !cacheOn {
				res.Fail(prop, "qname", "HTTPS lookup QNAME for a non-https scheme is not of the form (_label.)+host", "Resolve(%q) asked HTTPS %q", inText, firstHTTPS)
			}
		}
		for _, en := range o.entries {
			q := strings.ToLower(en.QName)
			if q == "" || legit[q] || q == host || (e.qnames != nil && e.qnames[q]) || q == start || q == firstHTTPS {
				continue
			}
			if poisonNames[q] {
				res.Fail(prop, "poisoned-answer-used", "query for a name that only appears in records of unrelated owners", "Resolve(%q) queried %q (type %d)", inText, q, en.QType)
			} else {
				res.Fail(prop, "unexpected-query", "query for a name not derivable from the input or the zone", "Resolve(%q) queried %q (type %d)", inText, q, en.QType)
			}
		}
		// the outcome
		ec := errClass(o.err)
		line += " err=" + ec
		switch {
		case o.err != nil:
			ok := e.errs[ec] || e.errs[stFail]
			if !ok {
				var want []string
				for k := range e.errs {
					want = append(want, k)
				}
				sort.Strings(want)
				if e.mixed {
					res.Fail(prop, "wrong-result", mixedSite, "Resolve(%q) = %v", inText, o.err)
				} else if len(want) == 0 {
					res.Fail(prop, "unexpected-error", "Resolve failed ("+ec+") although every lookup it needs succeeds", "Resolve(%q) = %v; acceptable results: %s", inText, o.err, describeResults(e.results))
				} else {
					res.Fail(prop, "wrong-error", fmt.Sprintf("error class %s, upstream condition maps to %v", ec, want), "Resolve(%q) = %v", inText, o.err)
				}
			}
			if e.invalid != "" {
				res.Probe("overlong_refused")
			}
		default:
			got := canonLib(o.res)
			line += " " + got.key()
			matched := false
			for _, w := range e.results {
				if w.key() == got.key() {
					matched = true
					break
				}
			}
			// priorities must be non-decreasing as returned
			for j := 1; j < len(o.res.HTTPS); j++ {
				if o.res.HTTPS[j-1].Priority > o.res.HTTPS[j].Priority {
					res.Fail(prop, "order", "ServiceMode records not sorted by priority", "Resolve(%q): priorities %d before %d", inText, o.res.HTTPS[j-1].Priority, o.res.HTTPS[j].Priority)
					break
				}
			}
			if !matched {
				cls, site, detail := explainMismatch(e, got, pvals)
				res.Fail(prop, cls, site, "Resolve(%q): %s", inText, detail)
			} else if len(p.Zone.Poison) > 0 && len(o.entries) > 0 {
				res.Probe("poisoned_answer_ignored")
			}
		}
		log = append(log, line)
		sigParts = append(sigParts, in.Form, schemeClass(in), portClass(in.Port), e.shape, fmt.Sprint(min(e.chainLen, 5)), ec, fmt.Sprint(len(o.entries)))
	}
	res.NonTrivial = false
	for i := range obs {
		if len(obs[i].entries) > 0 {
			res.NonTrivial = true
		}
	}
	res.Sig = core.SigOf(sigParts...)
	res.LogHash = core.HashLog(log)
	if len(obs) > 0 {
		res.Sample = map[string]any{"kind": "res", "inputs": len(obs), "zone_records": len(p.Zone.RRs), "faults": len(p.Zone.Faults), "poison": len(p.Zone.Poison), "first_input": truncate(obs[0].in.String(), 80), "queries_first": len(obs[0].entries)}
	}
	return res
}

const mixedSite = "AliasMode record in an RRset that also holds ServiceMode records is not followed (RFC 9460 2.4.1)"

func countHTTPS(es []simdoh.Entry) int {
	n := 0
	for _, e := range es {
		if e.QType == simdoh.TypeHTTPS && e.QName != "" {
			n++
		}
	}
	return n
}

func truncate(s string, n int) string {
	if len(s) > n {
		return s[:n] + "..."
	}
	return s
}

func firstLine(s string) string {
	if i := strings.IndexByte(s, '\n'); i >= 0 {
		return s[:i]
	}
	return s
}

func keys(m map[string]bool) []string {
	var out []string
	for k := range m {
		out = append(out, k)
	}
	sort.Strings(out)
	return out
}

func schemeClass(in Input) string {
	if in.Form != "url" {
		return "-"
	}
	s := strings.ToLower(in.Scheme)
	switch {
	case s == "http" || s == "https":
		return s
	case len(s) > 63:
		return "long"
	}
	return "other"
}

func portClass(p int) string {
	switch p {
	case -1, 0, 80, 443:
		return fmt.Sprint(p)
	}
	return "other"
}

func describeResults(rs []cResult) string {
	var out []string
	for _, r := range rs {
		out = append(out, "{"+r.key()+" ("+r.Note+")}")
		if len(out) == 3 {
			out = append(out, "...")
			break
		}
	}
	return strings.Join(out, " | ")
}

func diffSet(got, want []string) (extra, missing []string) {
	w := map[string]int{}
	for _, x := range want {
		w[x]++
	}
	for _, x := range got {
		if w[x] > 0 {
			w[x]--
		} else {
			extra = append(extra, x)
		}
	}
	for _, x := range want {
		if w[x] > 0 {
			w[x]--
			missing = append(missing, x)
		}
	}
	return
}

// explainMismatch names the kind of difference between the result and the
// closest acceptable one.
func explainMismatch(e *expect, got cResult, pvals map[string]bool) (class, site, detail string) {
	if len(e.results) == 0 {
		var want []string
		for k := range e.errs {
			want = append(want, k)
		}
		sort.Strings(want)
		return "missing-error", fmt.Sprintf("Resolve succeeded although the upstream condition maps to %v", want), "got " + got.key()
	}
	for _, a := range got.Addr {
		if pvals[a] {
			return "poisoned-answer-used", "address from a record of an unrelated owner name in the result", "got " + got.key()
		}
	}
	for _, h := range got.HTTPS {
		if pvals[h] {
			return "poisoned-answer-used", "HTTPS record of an unrelated owner name in the result", "got " + got.key()
		}
	}
	for _, h := range got.HTTPS {
		if e.unusable[h] {
			return "wrong-result", "ServiceMode record that lists an unsupported mandatory key is used (RFC 9460 section 8: must be ignored)", "got " + got.key()
		}
	}
	if e.mixed {
		for _, h := range got.HTTPS {
			if strings.HasPrefix(h, "00000 ") {
				return "wrong-result", mixedSite, "got " + got.key()
			}
		}
	}
	best, bestScore := e.results[0], 1<<30
	for _, w := range e.results {
		score := 0
		if w.Port != got.Port {
			score++
		}
		x, m := diffSet(got.Addr, w.Addr)
		score += len(x) + len(m)
		x, m = diffSet(got.HTTPS, w.HTTPS)
		score += 2 * (len(x) + len(m))
		x, m = diffSet(got.Add, w.Add)
		score += len(x) + len(m)
		if score < bestScore {
			best, bestScore = w, score
		}
	}
	var parts []string
	if best.Port != got.Port {
		parts = append(parts, "port")
	}
	if x, m := diffSet(got.HTTPS, best.HTTPS); len(x)+len(m) > 0 {
		switch {
		case len(x) > 0 && len(m) == 0:
			parts = append(parts, "extra HTTPS records")
		case len(m) > 0 && len(x) == 0:
			parts = append(parts, "missing HTTPS records")
		default:
			parts = append(parts, "different HTTPS records")
		}
	}
	if x, m := diffSet(got.Addr, best.Addr); len(x)+len(m) > 0 {
		switch {
		case len(x) > 0 && len(m) == 0:
			parts = append(parts, "extra addresses")
		case len(m) > 0 && len(x) == 0:
			parts = append(parts, "missing addresses")
		default:
			parts = append(parts, "addresses of another name")
		}
	}
	if x, m := diffSet(got.Add, best.Add); len(x)+len(m) > 0 {
		parts = append(parts, "target addresses")
	}
	shape := e.shape
	if e.chainLen > 0 {
		shape += fmt.Sprintf(" chain=%d", min(e.chainLen, 3))
		if e.chainLen > 3 {
			shape += "+"
		}
	}
	return "wrong-result", strings.Join(parts, ", ") + " [" + shape + "]", fmt.Sprintf("got %s; closest acceptable %s (%s); %d acceptable results", got.key(), best.key(), best.Note, len(e.results))
}

// ---------------------------------------------------------------------------
// shrinking

func shrinkRes(p *Plan) []*Plan {
	var out []*Plan
	r := p.Res
	add := func(f func(q *ResPlan)) {
		q := p.clone()
		f(q.Res)
		out = append(out, q)
	}
	if len(r.Inputs) > 1 {
		for i := range r.Inputs {
			add(func(q *ResPlan) { q.Inputs = []Input{q.Inputs[i]} })
		}
	}
	if len(r.Zone.Faults) > 0 {
		add(func(q *ResPlan) { q.Zone.Faults = nil })
		for i := range r.Zone.Faults {
			add(func(q *ResPlan) { q.Zone.Faults = append(q.Zone.Faults[:i:i], q.Zone.Faults[i+1:]...) })
		}
	}
	if len(r.Zone.Poison) > 1 {
		for i := range r.Zone.Poison {
			add(func(q *ResPlan) { q.Zone.Poison = append(q.Zone.Poison[:i:i], q.Zone.Poison[i+1:]...) })
		}
	}
	if len(r.Zone.Poison) == 1 {
		add(func(q *ResPlan) { q.Zone.Poison = nil })
	}
	// halves, then single records
	if n := len(r.Zone.RRs); n > 3 {
		add(func(q *ResPlan) { q.Zone.RRs = q.Zone.RRs[:n/2] })
		add(func(q *ResPlan) { q.Zone.RRs = q.Zone.RRs[n/2:] })
	}
	for i := range r.Zone.RRs {
		add(func(q *ResPlan) { q.Zone.RRs = append(q.Zone.RRs[:i:i], q.Zone.RRs[i+1:]...) })
	}
	if r.LatencyMs != 0 {
		add(func(q *ResPlan) { q.LatencyMs = 0 })
	}
	if r.CacheSize != -1 {
		add(func(q *ResPlan) { q.CacheSize = -1 })
	}
	if r.NoCompr {
		add(func(q *ResPlan) { q.NoCompr = false })
	}
	for i := range r.Inputs {
		in := r.Inputs[i]
		if in.Path != "" {
			add(func(q *ResPlan) { q.Inputs[i].Path = "" })
		}
		if n := len(in.Scheme); n > 8 {
			for _, k := range []int{n / 2, n * 3 / 4, n - 16, n - 4, n - 1} {
				if k > 0 && k < n {
					add(func(q *ResPlan) { q.Inputs[i].Scheme = q.Inputs[i].Scheme[:k] })
				}
			}
		}
		if len(in.Host) > 80 {
			// drop the first label, or halve / shorten it
			dot := strings.IndexByte(in.Host, '.')
			if dot > 0 && strings.Count(in.Host, ".") > 1 {
				add(func(q *ResPlan) { q.Inputs[i].Host = q.Inputs[i].Host[dot+1:] })
			}
			if dot > 1 {
				add(func(q *ResPlan) { q.Inputs[i].Host = q.Inputs[i].Host[dot/2:] })
				if dot > 8 {
					add(func(q *ResPlan) { q.Inputs[i].Host = q.Inputs[i].Host[4:] })
				}
				add(func(q *ResPlan) { q.Inputs[i].Host = q.Inputs[i].Host[1:] })
			}
		}
	}
	for i := range r.Zone.RRs {
		rr := r.Zone.RRs[i]
		if rr.Svc != nil && (len(rr.Svc.ALPN) > 0 || rr.Svc.Port != 0 || len(rr.Svc.V4Hint)+len(rr.Svc.V6Hint) > 0 || len(rr.Svc.ECH) > 0) && rr.Svc.Priority != 0 {
			add(func(q *ResPlan) {
				s := q.Zone.RRs[i].Svc
				q.Zone.RRs[i].Svc = &simdoh.Svc{Priority: s.Priority, Mandatory: s.Mandatory, Extra: s.Extra}
			})
		}
	}
	return out
}
