package simcf

import (
	"encoding/json"
	"fmt"
	"io"
	"net/http"
	"strings"
	"testing"
)

func get(t *testing.T, s *Server, method, url, body string) (int, map[string]any) {
	t.Helper()
	req, _ := http.NewRequest(method, url, strings.NewReader(body))
	req.Header.Set("Authorization", "Bearer tok")
	resp, err := s.RoundTrip(req)
	if err != nil {
		t.Fatal(err)
	}
	b, _ := io.ReadAll(resp.Body)
	var m map[string]any
	if err := json.Unmarshal(b, &m); err != nil {
		t.Fatalf("%s: %v", b, err)
	}
	return resp.StatusCode, m
}

// TestPagination pins the result_info semantics of the real API.
func TestPagination(t *testing.T) {
	z := &Zone{ID: "z1", Name: "example.com"}
	for i := 0; i < 45; i++ {
		z.Records = append(z.Records, &Record{ID: fmt.Sprintf("r%d", i), Name: fmt.Sprintf("h%d.example.com", i), Type: "HTTPS", Data: &HTTPSData{Priority: 1, Target: ".", Value: `alpn="h2"`}})
		z.Records = append(z.Records, &Record{ID: fmt.Sprintf("a%d", i), Name: fmt.Sprintf("h%d.example.com", i), Type: "A", Content: "192.0.2.1"})
	}
	s := New("/client/v4/zones", "tok", []*Zone{z})
	for page, want := range map[int][2]int{1: {20, 3}, 2: {20, 3}, 3: {5, 3}, 4: {0, 3}} {
		_, m := get(t, s, "GET", fmt.Sprintf("https://x/client/v4/zones/z1/dns_records?type=HTTPS&per_page=20&page=%d", page), "")
		ri := m["result_info"].(map[string]any)
		if int(ri["count"].(float64)) != want[0] || int(ri["total_count"].(float64)) != 45 || int(ri["total_pages"].(float64)) != want[1] || int(ri["page"].(float64)) != page || len(m["result"].([]any)) != want[0] {
			t.Errorf("page %d: %v", page, ri)
		}
	}
	if st, m := get(t, s, "GET", "https://x/client/v4/zones?name=nope.example", ""); st != 200 || len(m["result"].([]any)) != 0 {
		t.Errorf("unknown zone: %d %v", st, m)
	}
	st, _ := get(t, s, "PATCH", "https://x/client/v4/zones/z1/dns_records/r3", `{"data":{"value":"alpn=\"h3\""}}`)
	if st != 200 || z.Records[6].Data.Value != `alpn="h3"` || z.Records[6].Data.Priority != 1 {
		t.Errorf("patch: %d %v", st, z.Records[6])
	}
	if st, _ := get(t, s, "PATCH", "https://x/client/v4/zones/z1/dns_records/nope", `{}`); st != 404 {
		t.Errorf("patch of unknown record: %d", st)
	}
}
