// Package simcf is a simulated Cloudflare v4 API: an http.RoundTripper over
// in-memory zones and DNS records, with the pagination semantics of the real
// service (result_info.count is the number of items on THIS page,
// total_count the number of matching items, total_pages the page count), a
// complete request log stamped with virtual time, and fault injection at
// chosen request (attempt) indices.
//
// It shares no code with github.com/c2FmZQ/ech/publish. All state changes and
// log entries happen in the caller's goroutine (RoundTrip is synchronous);
// the only blocking operation is time.Sleep for the plan-chosen latency,
// which is durably blocking inside a synctest bubble.
package simcf

import (
	"bytes"
	"encoding/json"
	"errors"
	"fmt"
	"io"
	"net/http"
	"net/url"
	"sort"
	"strconv"
	"strings"
	"sync"
	"time"
)

// HTTPSData is the structured form of an HTTPS record.
type HTTPSData struct {
	Priority int    `json:"priority"`
	Target   string `json:"target"`
	Value    string `json:"value"`
}

// Record is one DNS record of a zone. HTTPS (and SVCB) records carry Data,
// every other type carries Content.
type Record struct {
	ID      string     `json:"id"`
	Name    string     `json:"name"`
	Type    string     `json:"type"`
	TTL     int        `json:"ttl"`
	Proxied bool       `json:"proxied"`
	Comment string     `json:"comment,omitempty"`
	Content string     `json:"content,omitempty"`
	Data    *HTTPSData `json:"data,omitempty"`
}

// Clone returns a deep copy.
func (r *Record) Clone() *Record {
	c := *r
	if r.Data != nil {
		d := *r.Data
		c.Data = &d
	}
	return &c
}

// Equal reports whether two records are identical in every field.
func (r *Record) Equal(o *Record) bool {
	if r.ID != o.ID || r.Name != o.Name || r.Type != o.Type || r.TTL != o.TTL || r.Proxied != o.Proxied || r.Comment != o.Comment || r.Content != o.Content {
		return false
	}
	if (r.Data == nil) != (o.Data == nil) {
		return false
	}
	return r.Data == nil || *r.Data == *o.Data
}

// String is a canonical one-line rendering (used in logs and store dumps).
func (r *Record) String() string {
	b, _ := json.Marshal(r)
	return string(b)
}

// Zone is a zone with its records in listing order.
type Zone struct {
	ID      string
	Name    string
	Records []*Record
}

// Fault kinds.
const (
	KindStatus       = "status"        // HTTP status Status with a Cloudflare error envelope
	KindSuccessFalse = "success_false" // HTTP 200, {"success":false,"errors":[NErr entries]}
	KindBadJSON      = "bad_json"      // HTTP 200 with a body that is not the JSON envelope (Variant)
	KindTransport    = "transport"     // RoundTrip returns an error
)

// Fault is one injected API failure. It fires on the attempts Epoch/At ..
// At+Burst-1 (attempt indices count every RoundTrip call of the epoch,
// retries included).
type Fault struct {
	Epoch      int    `json:"epoch"`
	At         int    `json:"at"`
	Burst      int    `json:"burst"` // number of consecutive attempts that fail (>=1)
	Kind       string `json:"kind"`
	Status     int    `json:"status,omitempty"`      // KindStatus
	RetryAfter int    `json:"retry_after,omitempty"` // seconds, sent with 429/503 when >0
	NErr       int    `json:"nerr,omitempty"`        // KindSuccessFalse: number of entries in "errors"
	Variant    int    `json:"variant,omitempty"`     // KindBadJSON: 0 truncated real body, 1 HTML, 2 empty, 3 JSON array, 4 real body without "success", 5 {}
	// Apply: a PATCH that meets the fault is applied to the store before the
	// failure is returned (the response was lost, not the request).
	Apply bool `json:"apply,omitempty"`
}

// Name is the counter name of the fault.
func (f *Fault) Name() string {
	switch f.Kind {
	case KindStatus:
		return "http_" + strconv.Itoa(f.Status)
	case KindSuccessFalse:
		if f.NErr == 0 {
			return "success_false_no_errors"
		}
		return "success_false"
	case KindBadJSON:
		return "malformed_json"
	}
	return f.Kind
}

// Entry is one logged request (one RoundTrip call).
type Entry struct {
	Seq    int           // over the whole life of the server
	Epoch  int           // set by SetEpoch
	Index  int           // attempt index within the epoch
	T      time.Duration // virtual time since New, at arrival
	Method string
	Path   string
	Query  string // canonical (sorted) encoding
	Body   string
	Auth   string

	// Classification of the request.
	Op       string // "zones" | "list" | "patch" | "other"
	ZoneName string // zones: the name asked for; list/patch: the name of the zone addressed ("" when unknown id)
	ZoneID   string
	RecordID string // patch
	Page     int    // list
	PerPage  int    // list

	Fault   string // name of the fault that fired, "" when none
	FaultK  string // kind of the fault that fired
	Status  int    // HTTP status returned, 0 for a transport error
	Applied bool   // patch: the store was modified
	Before  *Record
	After   *Record
	Items   int // list: items returned
}

// Line is the canonical log line of the entry.
func (e *Entry) Line() string {
	s := fmt.Sprintf("%d e%d.%d t=%d %s %s?%s body=%s op=%s page=%d fault=%s status=%d applied=%t items=%d", e.Seq, e.Epoch, e.Index, int64(e.T), e.Method, e.Path, e.Query, e.Body, e.Op, e.Page, e.Fault, e.Status, e.Applied, e.Items)
	if e.After != nil {
		s += " after=" + e.After.String()
	}
	return s
}

// Server is the simulated API. It implements http.RoundTripper.
type Server struct {
	// BasePath is the path prefix of the zones collection (e.g. /client/v4/zones).
	BasePath string
	// Token is the API token requests must present (Authorization: Bearer).
	Token string
	// LatencyMs, when not empty, is cycled through: attempt i sleeps
	// LatencyMs[i mod len] virtual milliseconds before it is served.
	LatencyMs []int

	mu     sync.Mutex
	zones  []*Zone
	faults []Fault
	log    []*Entry
	epoch  int
	index  int
	start  time.Time
	fired  map[string]int
	// OnRequest, when set, runs when a request arrives, before anything else
	// (the harness uses it to end the caller's context at a chosen request).
	OnRequest func()
}

// New creates a server over the given zones (not copied).
func New(basePath, token string, zones []*Zone) *Server {
	return &Server{BasePath: strings.TrimSuffix(basePath, "/"), Token: token, zones: zones, start: time.Now(), fired: map[string]int{}}
}

// SetFaults installs the fault list.
func (s *Server) SetFaults(f []Fault) { s.faults = append([]Fault(nil), f...) }

// SetEpoch starts a new epoch: attempt indices restart at 0.
func (s *Server) SetEpoch(e int) {
	s.mu.Lock()
	s.epoch, s.index = e, 0
	s.mu.Unlock()
}

// Log returns the entries logged so far.
func (s *Server) Log() []*Entry {
	s.mu.Lock()
	defer s.mu.Unlock()
	return append([]*Entry(nil), s.log...)
}

// Fired returns how often each fault kind fired.
func (s *Server) Fired() map[string]int {
	s.mu.Lock()
	defer s.mu.Unlock()
	m := map[string]int{}
	for k, v := range s.fired {
		m[k] = v
	}
	return m
}

// Zones returns the live zones.
func (s *Server) Zones() []*Zone { return s.zones }

// Snapshot returns a deep copy of all records, keyed by record id.
func (s *Server) Snapshot() map[string]*Record {
	s.mu.Lock()
	defer s.mu.Unlock()
	m := map[string]*Record{}
	for _, z := range s.zones {
		for _, r := range z.Records {
			m[r.ID] = r.Clone()
		}
	}
	return m
}

// Dump renders the whole store canonically (zones and records in order).
func (s *Server) Dump() []string {
	s.mu.Lock()
	defer s.mu.Unlock()
	var out []string
	for _, z := range s.zones {
		out = append(out, "zone "+z.ID+" "+z.Name)
		for _, r := range z.Records {
			out = append(out, " "+r.String())
		}
	}
	return out
}

// ZoneByName / ZoneByID look a zone up.
func (s *Server) ZoneByName(name string) *Zone {
	for _, z := range s.zones {
		if z.Name == name {
			return z
		}
	}
	return nil
}

func (s *Server) ZoneByID(id string) *Zone {
	for _, z := range s.zones {
		if z.ID == id {
			return z
		}
	}
	return nil
}

type cfErr struct {
	Code    int    `json:"code"`
	Message string `json:"message"`
}

type resultInfo struct {
	Page       int `json:"page"`
	PerPage    int `json:"per_page"`
	Count      int `json:"count"`
	TotalCount int `json:"total_count"`
	TotalPages int `json:"total_pages"`
}

type envelope struct {
	Result     any         `json:"result"`
	Success    bool        `json:"success"`
	Errors     []cfErr     `json:"errors"`
	Messages   []cfErr     `json:"messages"`
	ResultInfo *resultInfo `json:"result_info,omitempty"`
}

func marshal(v any) []byte {
	b, err := json.Marshal(v)
	if err != nil {
		panic("simcf: " + err.Error())
	}
	return b
}

func okBody(result any, ri *resultInfo) []byte {
	return marshal(envelope{Result: result, Success: true, Errors: []cfErr{}, Messages: []cfErr{}, ResultInfo: ri})
}

func errBody(errs ...cfErr) []byte {
	if errs == nil {
		errs = []cfErr{}
	}
	return marshal(envelope{Result: nil, Success: false, Errors: errs, Messages: []cfErr{}})
}

func canonQuery(q url.Values) string {
	keys := make([]string, 0, len(q))
	for k := range q {
		keys = append(keys, k)
	}
	sort.Strings(keys)
	var sb strings.Builder
	for _, k := range keys {
		vs := append([]string(nil), q[k]...)
		for _, v := range vs {
			if sb.Len() > 0 {
				sb.WriteByte('&')
			}
			sb.WriteString(url.QueryEscape(k) + "=" + url.QueryEscape(v))
		}
	}
	return sb.String()
}

func response(req *http.Request, status int, body []byte, hdr map[string]string) *http.Response {
	h := http.Header{}
	h.Set("Content-Type", "application/json")
	for k, v := range hdr {
		h.Set(k, v)
	}
	return &http.Response{
		Status:        strconv.Itoa(status) + " " + http.StatusText(status),
		StatusCode:    status,
		Proto:         "HTTP/1.1",
		ProtoMajor:    1,
		ProtoMinor:    1,
		Header:        h,
		Body:          io.NopCloser(bytes.NewReader(body)),
		ContentLength: int64(len(body)),
		Request:       req,
	}
}

// ErrTransport is the error a transport fault returns.
var ErrTransport = errors.New("simcf: connection reset by peer (injected)")

// RoundTrip serves one request.
func (s *Server) RoundTrip(req *http.Request) (*http.Response, error) {
	var body []byte
	if req.Body != nil {
		body, _ = io.ReadAll(req.Body)
		req.Body.Close()
	}

	if h := s.OnRequest; h != nil {
		h()
	}
	s.mu.Lock()
	e := &Entry{Seq: len(s.log), Epoch: s.epoch, Index: s.index, Method: req.Method, Path: req.URL.Path, Query: canonQuery(req.URL.Query()), Body: string(body), Auth: req.Header.Get("Authorization")}
	s.index++
	s.log = append(s.log, e)
	lat := 0
	if len(s.LatencyMs) > 0 {
		lat = s.LatencyMs[e.Index%len(s.LatencyMs)]
	}
	s.mu.Unlock()

	if lat > 0 {
		time.Sleep(time.Duration(lat) * time.Millisecond)
	}
	if err := req.Context().Err(); err != nil {
		e.T = time.Since(s.start)
		e.Op = "cancelled"
		return nil, err
	}

	s.mu.Lock()
	defer s.mu.Unlock()
	e.T = time.Since(s.start)
	s.classify(e, req)

	var fault *Fault
	for i := range s.faults {
		f := &s.faults[i]
		if f.Epoch == e.Epoch && e.Index >= f.At && e.Index < f.At+max(1, f.Burst) {
			fault = f
			break
		}
	}
	if fault == nil {
		status, b := s.serve(e, body, true)
		e.Status = status
		return response(req, status, b, nil), nil
	}

	e.Fault, e.FaultK = fault.Name(), fault.Kind
	s.fired[e.Fault]++
	var real []byte
	if fault.Apply && e.Op == "patch" {
		_, real = s.serve(e, body, true)
		if e.Applied {
			s.fired["patch_applied_response_lost"]++
		}
	} else {
		_, real = s.serve(e, body, false)
	}
	switch fault.Kind {
	case KindTransport:
		e.Status = 0
		return nil, ErrTransport
	case KindStatus:
		e.Status = fault.Status
		hdr := map[string]string{}
		if fault.RetryAfter > 0 && (fault.Status == 429 || fault.Status == 503) {
			hdr["Retry-After"] = strconv.Itoa(fault.RetryAfter)
		}
		msg := http.StatusText(fault.Status)
		code := 10000 + fault.Status
		return response(req, fault.Status, errBody(cfErr{code, msg + " (injected)"}), hdr), nil
	case KindSuccessFalse:
		e.Status = 200
		var errs []cfErr
		for i := 0; i < fault.NErr; i++ {
			errs = append(errs, cfErr{1000 + i, fmt.Sprintf("injected failure %d", i)})
		}
		return response(req, 200, errBody(errs...), nil), nil
	case KindBadJSON:
		e.Status = 200
		var b []byte
		switch fault.Variant {
		case 0:
			b = real[:len(real)/2]
		case 1:
			b = []byte("<html><body><h1>502 Bad Gateway</h1></body></html>")
		case 2:
			b = nil
		case 4:
			// well-formed JSON, the real answer without its "success" member
			var m map[string]json.RawMessage
			if json.Unmarshal(real, &m) == nil {
				delete(m, "success")
				b, _ = json.Marshal(m)
			}
		case 5:
			b = []byte(`{}`)
		default:
			b = []byte(`["success", true]`)
		}
		return response(req, 200, b, nil), nil
	}
	panic("simcf: unknown fault kind " + fault.Kind)
}

// classify fills the request-classification fields of e.
func (s *Server) classify(e *Entry, req *http.Request) {
	e.Op = "other"
	rest, ok := strings.CutPrefix(req.URL.Path, s.BasePath)
	if !ok {
		return
	}
	rest = strings.Trim(rest, "/")
	var parts []string
	if rest != "" {
		parts = strings.Split(rest, "/")
	}
	q := req.URL.Query()
	switch {
	case len(parts) == 0 && req.Method == http.MethodGet:
		e.Op = "zones"
		e.ZoneName = q.Get("name")
	case len(parts) == 2 && parts[1] == "dns_records" && req.Method == http.MethodGet:
		e.Op = "list"
		e.ZoneID = parts[0]
		e.Page, e.PerPage = 1, 100
		if v, err := strconv.Atoi(q.Get("page")); err == nil {
			e.Page = v
		}
		if v, err := strconv.Atoi(q.Get("per_page")); err == nil {
			e.PerPage = v
		}
	case len(parts) == 3 && parts[1] == "dns_records" && req.Method == http.MethodPatch:
		e.Op = "patch"
		e.ZoneID = parts[0]
		e.RecordID = parts[2]
	}
	if e.ZoneID != "" {
		if z := s.ZoneByID(e.ZoneID); z != nil {
			e.ZoneName = z.Name
		}
	}
}

// serve computes the genuine response; the store is modified only when
// mutate is true.
func (s *Server) serve(e *Entry, body []byte, mutate bool) (int, []byte) {
	if e.Auth != "Bearer "+s.Token {
		return 403, errBody(cfErr{10000, "Authentication error"})
	}
	switch e.Op {
	case "zones":
		q, _ := url.ParseQuery(e.Query)
		var res []map[string]any
		for _, z := range s.zones {
			if n := q.Get("name"); n != "" && n != z.Name {
				continue
			}
			res = append(res, map[string]any{"id": z.ID, "name": z.Name, "status": "active", "paused": false, "type": "full"})
		}
		if res == nil {
			res = []map[string]any{}
		}
		tp := 0
		if len(res) > 0 {
			tp = 1
		}
		e.Items = len(res)
		return 200, okBody(res, &resultInfo{Page: 1, PerPage: 20, Count: len(res), TotalCount: len(res), TotalPages: tp})
	case "list":
		z := s.ZoneByID(e.ZoneID)
		if z == nil {
			return 404, errBody(cfErr{7003, "Could not route to /zones/" + e.ZoneID + "/dns_records, perhaps your object identifier is invalid?"})
		}
		if e.Page < 1 || e.PerPage < 1 || e.PerPage > 50000 {
			return 400, errBody(cfErr{1004, "Invalid page or per_page"})
		}
		q, _ := url.ParseQuery(e.Query)
		var match []*Record
		for _, r := range z.Records {
			if t := q.Get("type"); t != "" && t != r.Type {
				continue
			}
			if n := q.Get("name"); n != "" && n != r.Name {
				continue
			}
			match = append(match, r)
		}
		total := len(match)
		lo := min((e.Page-1)*e.PerPage, total)
		hi := min(lo+e.PerPage, total)
		page := make([]*Record, 0, hi-lo)
		for _, r := range match[lo:hi] {
			page = append(page, r.Clone())
		}
		e.Items = len(page)
		return 200, okBody(page, &resultInfo{Page: e.Page, PerPage: e.PerPage, Count: len(page), TotalCount: total, TotalPages: (total + e.PerPage - 1) / e.PerPage})
	case "patch":
		z := s.ZoneByID(e.ZoneID)
		if z == nil {
			return 404, errBody(cfErr{7003, "Could not route to /zones/" + e.ZoneID + "/dns_records/" + e.RecordID + ", perhaps your object identifier is invalid?"})
		}
		var rec *Record
		for _, r := range z.Records {
			if r.ID == e.RecordID {
				rec = r
			}
		}
		if rec == nil {
			return 404, errBody(cfErr{81044, "Record does not exist."})
		}
		var in struct {
			Name    *string `json:"name"`
			Type    *string `json:"type"`
			TTL     *int    `json:"ttl"`
			Proxied *bool   `json:"proxied"`
			Comment *string `json:"comment"`
			Content *string `json:"content"`
			Data    *struct {
				Priority *int    `json:"priority"`
				Target   *string `json:"target"`
				Value    *string `json:"value"`
			} `json:"data"`
		}
		if err := json.Unmarshal(body, &in); err != nil {
			return 400, errBody(cfErr{9207, "Request body is invalid."})
		}
		next := rec.Clone()
		if in.Name != nil {
			next.Name = *in.Name
		}
		if in.Type != nil {
			next.Type = *in.Type
		}
		if in.TTL != nil {
			next.TTL = *in.TTL
		}
		if in.Proxied != nil {
			next.Proxied = *in.Proxied
		}
		if in.Comment != nil {
			next.Comment = *in.Comment
		}
		if in.Content != nil {
			next.Content = *in.Content
		}
		if in.Data != nil {
			if next.Data == nil {
				next.Data = &HTTPSData{}
			}
			if in.Data.Priority != nil {
				next.Data.Priority = *in.Data.Priority
			}
			if in.Data.Target != nil {
				next.Data.Target = *in.Data.Target
			}
			if in.Data.Value != nil {
				next.Data.Value = *in.Data.Value
			}
		}
		if next.Data != nil && !BalancedQuotes(next.Data.Value) {
			return 400, errBody(cfErr{9101, "Invalid SvcParams: unbalanced quotes."})
		}
		if mutate {
			e.Before = rec.Clone()
			*rec = *next
			e.After = rec.Clone()
			e.Applied = true
		}
		return 200, okBody(next, nil)
	}
	return 404, errBody(cfErr{7000, "No route for that URI"})
}

// BalancedQuotes reports whether every double quote of a SvcParams string is
// closed (backslash escapes honoured).
func BalancedQuotes(v string) bool {
	in := false
	for i := 0; i < len(v); i++ {
		switch v[i] {
		case '\\':
			i++
		case '"':
			in = !in
		}
	}
	return !in
}
