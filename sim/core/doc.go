// Package core holds the simulator plumbing shared by all engines.
package core
