package core

import (
	"hash/fnv"
	"math/rand/v2"
)

// SplitMix64 is the finaliser used to derive independent seeds.
func SplitMix64(x uint64) uint64 {
	x += 0x9e3779b97f4a7c15
	x = (x ^ (x >> 30)) * 0xbf58476d1ce4e5b9
	x = (x ^ (x >> 27)) * 0x94d049bb133111eb
	return x ^ (x >> 31)
}

// Mix derives a seed from a parent seed and a list of names / numbers. It is
// the only way seeds are derived, so that who draws what never depends on
// goroutine timing.
func Mix(seed uint64, parts ...any) uint64 {
	h := fnv.New64a()
	var b [8]byte
	put := func(v uint64) {
		for i := range 8 {
			b[i] = byte(v >> (8 * i))
		}
		h.Write(b[:])
	}
	put(seed)
	for _, p := range parts {
		switch v := p.(type) {
		case string:
			h.Write([]byte(v))
			h.Write([]byte{0})
		case int:
			put(uint64(v))
		case int64:
			put(uint64(v))
		case uint64:
			put(v)
		case uint32:
			put(uint64(v))
		default:
			panic("core.Mix: unsupported part type")
		}
	}
	return SplitMix64(h.Sum64())
}

// NewRand returns the PRNG stream named by (seed, parts...).
func NewRand(seed uint64, parts ...any) *rand.Rand {
	s := Mix(seed, parts...)
	return rand.New(rand.NewPCG(s, SplitMix64(s)))
}

// Pick returns a uniformly chosen element.
func Pick[T any](r *rand.Rand, xs []T) T { return xs[r.IntN(len(xs))] }

// Chance returns true with probability num/den.
func Chance(r *rand.Rand, num, den int) bool { return r.IntN(den) < num }

// Between returns an int in [lo, hi].
func Between(r *rand.Rand, lo, hi int) int {
	if hi <= lo {
		return lo
	}
	return lo + r.IntN(hi-lo+1)
}

// Bytes returns n pseudo-random bytes.
func Bytes(r *rand.Rand, n int) []byte {
	b := make([]byte, n)
	for i := range b {
		b[i] = byte(r.Uint32())
	}
	return b
}
