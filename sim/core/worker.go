package core

import (
	"crypto/sha256"
	"encoding/hex"
	"encoding/json"
	"fmt"
	"os"
	"regexp"
	"runtime"
	"runtime/debug"
	"sort"
	"strconv"
	"strings"
	"sync"
	"sync/atomic"
	"testing"
	"testing/synctest"
	"time"
)

// Violation identifies a property violation. Identity is (Property, Class,
// Site): sites are function names / message text, never line numbers.
type Violation struct {
	Property string `json:"property"`
	Class    string `json:"class"`
	Site     string `json:"site"`
	Detail   string `json:"detail,omitempty"`
}

func (v Violation) Key() string { return v.Property + "/" + v.Class + "/" + v.Site }

// Result is what executing one plan yields.
type Result struct {
	Violations []Violation
	// Sig is the schedule signature of the run: a hash of the canonical
	// sequence of (event kind, node, size class, fault kind).
	Sig uint64
	// NonTrivial: the run made progress by the property's own rule.
	NonTrivial bool
	// Sigs: additional signatures when one plan covers several cases (an
	// enumerated dimension); each counted as non-trivial.
	Sigs   []uint64
	Faults map[string]int
	Probes map[string]int
	SimNs  int64
	// Evals is the number of executions the plan performed (1 unless the plan
	// enumerates a dimension).
	Evals int
	// LogHash is the hash of the canonical event log (determinism check).
	LogHash string
	// Arbitrated marks runs whose outcome may depend on runtime select
	// arbitration (excluded from the log-hash determinism check).
	Arbitrated bool
	// Sample is a compact description of the case for the evidence file.
	Sample any
	// Harness is set when the run failed for a reason that is the simulator's
	// own fault (never reported as a violation; the check exits 2).
	Harness string
}

// Bubble runs f inside a synctest bubble and converts the bubble's own panics
// (deadlock: everything blocked; goroutines left behind at exit) into a string.
func Bubble(t *testing.T, f func(t *testing.T)) (msg string) {
	defer func() {
		if r := recover(); r != nil {
			msg = fmt.Sprint(r)
			if msg == "" {
				msg = "panic"
			}
		}
	}()
	var inner string
	synctest.Test(t, func(t *testing.T) {
		// a panic in the bubble's root goroutine would take the process down
		defer func() {
			if r := recover(); r != nil {
				inner = fmt.Sprintf("panic in bubble root: %v\n%s", r, debug.Stack())
			}
		}()
		f(t)
	})
	return inner
}

func (r *Result) Fail(prop, class, site, format string, a ...any) {
	if class == "panic" && strings.HasPrefix(site, "harness:") {
		r.Harness = "panic in simulator code (" + site + "): " + fmt.Sprintf(format, a...)
		return
	}
	r.Violations = append(r.Violations, Violation{Property: prop, Class: class, Site: site, Detail: fmt.Sprintf(format, a...)})
}

func (r *Result) Fault(name string) {
	if r.Faults == nil {
		r.Faults = map[string]int{}
	}
	r.Faults[name]++
}

func (r *Result) FaultN(name string, n int) {
	if n == 0 {
		return
	}
	if r.Faults == nil {
		r.Faults = map[string]int{}
	}
	r.Faults[name] += n
}

func (r *Result) Probe(name string) {
	if r.Probes == nil {
		r.Probes = map[string]int{}
	}
	r.Probes[name]++
}

func (r *Result) ProbeN(name string, n int) {
	if n == 0 {
		return
	}
	if r.Probes == nil {
		r.Probes = map[string]int{}
	}
	r.Probes[name] += n
}

// Engine is implemented by every simulation engine. P is the plan type: plain
// data, JSON round-trippable; Execute must be a pure function of it.
type Engine[P any] interface {
	Name() string
	// Runs is the number of plans for (property, tier).
	Runs(prop, tier string) int
	// Generate builds plan idx of the batch from the seed alone.
	Generate(prop, tier string, seed uint64, idx int) *P
	// Execute runs the plan (creating its own synctest bubble when it needs
	// one) and judges it.
	Execute(t *testing.T, prop string, p *P) *Result
	// Shrink proposes simpler plans (deep copies), simplest first.
	Shrink(prop string, p *P) []*P
	// Components / Rule / Assumptions describe the check for the evidence.
	Describe(prop string) Description
}

type Description struct {
	Rule        string            `json:"rule"`
	Components  map[string]string `json:"components"`
	Assumptions []string          `json:"assumptions"`
	Exhaustive  string            `json:"exhaustive_dimensions,omitempty"`
	// RequiredProbes must be non-zero in a thorough run (else exit 2).
	RequiredProbes []string `json:"required_probes,omitempty"`
}

// KnownFinding is one entry of /verif/known_findings.json.
type KnownFinding struct {
	Property string `json:"property"`
	Class    string `json:"class"`
	Site     string `json:"site"` // regular expression matched against the violation site
	Status   string `json:"status"`
	Commit   string `json:"commit,omitempty"`
	What     string `json:"what"`
}

func LoadKnown(path string) []KnownFinding {
	if path == "" {
		return nil
	}
	b, err := os.ReadFile(path)
	if err != nil {
		return nil
	}
	var f struct {
		Findings []KnownFinding `json:"findings"`
	}
	if err := json.Unmarshal(b, &f); err != nil {
		fmt.Fprintf(os.Stderr, "known findings: %v\n", err)
		os.Exit(2)
	}
	return f.Findings
}

func matchKnown(k []KnownFinding, v Violation) *KnownFinding {
	for i := range k {
		if k[i].Status != "known" || k[i].Property != v.Property || k[i].Class != v.Class {
			continue
		}
		if ok, _ := regexp.MatchString("^(?:"+k[i].Site+")$", v.Site); ok {
			return &k[i]
		}
	}
	return nil
}

// ViolationRecord is a violation together with where its replay file is.
type ViolationRecord struct {
	Violation
	Replay    string `json:"replay,omitempty"`
	Known     string `json:"known,omitempty"` // "what" of the matching known finding
	RunIndex  int    `json:"run_index"`
	Minimised bool   `json:"minimised"`
	Count     int    `json:"count"` // how many runs hit the same key
}

// Report is what a worker process hands back to the driver.
type Report struct {
	Property    string             `json:"property"`
	Engine      string             `json:"engine"`
	Tier        string             `json:"tier"`
	Seed        uint64             `json:"seed"`
	From        int                `json:"from"`
	To          int                `json:"to"`
	Done        int                `json:"done"` // next run index not yet executed
	Evaluations int                `json:"evaluations"`
	NonTrivial  int                `json:"nontrivial"`
	Sigs        []string           `json:"sigs"` // distinct non-trivial signatures (hex)
	SigOverflow int                `json:"sig_overflow"`
	Faults      map[string]int     `json:"faults"`
	Probes      map[string]int     `json:"probes"`
	SimNs       int64              `json:"sim_ns"`
	Samples     []any              `json:"samples"`
	Violations  []*ViolationRecord `json:"violations"`
	LogDigest   string             `json:"log_digest"`            // hash over the canonical event-log hashes of all runs, in order
	Determinism string             `json:"determinism,omitempty"` // "" ok, otherwise mismatch text
	DetChecked  int                `json:"det_checked"`
	Truncated   bool               `json:"truncated"`
	Harness     []string           `json:"harness,omitempty"`
	WallS       float64            `json:"wall_s"`
	Description Description        `json:"description"`
	GoVersion   string             `json:"go_version"`
	Procs       int                `json:"gomaxprocs"`
	ReplayOK    *bool              `json:"replay_ok,omitempty"`
	ReplayNote  string             `json:"replay_note,omitempty"`
}

// ReplayFile is the on-disk format of a failing (minimised) plan.
type ReplayFile struct {
	Property    string          `json:"property"`
	Engine      string          `json:"engine"`
	Seed        uint64          `json:"seed"`
	RunIndex    int             `json:"run_index"`
	Tier        string          `json:"tier"`
	Violation   Violation       `json:"violation"`
	LogHash     string          `json:"log_hash"`
	Arbitrated  bool            `json:"runtime_arbitrated"`
	Minimised   bool            `json:"minimised"`
	ShrinkExecs int             `json:"shrink_executions"`
	GoVersion   string          `json:"go_version"`
	RepoState   string          `json:"repo_state"`
	Plan        json.RawMessage `json:"plan"`
}

const maxSigs = 300000

// lastBeat is the wall-clock time of the last sign of progress of the run in
// flight (unix nanoseconds). Plans that enumerate a dimension call Beat once
// per element so that a long but progressing run is never taken for a hang.
var lastBeat atomic.Int64

// Beat tells the watchdog that the current run is making progress.
func Beat() { lastBeat.Store(time.Now().UnixNano()) }

type workerState struct {
	mu      sync.Mutex
	rep     *Report
	sigs    map[uint64]struct{}
	out     string
	curPlan []byte
	curIdx  int
	curT0   time.Time
	running bool
}

func (w *workerState) flush() {
	w.rep.Sigs = w.rep.Sigs[:0]
	for s := range w.sigs {
		w.rep.Sigs = append(w.rep.Sigs, strconv.FormatUint(s, 16))
	}
	sort.Strings(w.rep.Sigs)
	b, _ := json.Marshal(w.rep)
	tmp := w.out + ".tmp"
	if err := os.WriteFile(tmp, b, 0o644); err == nil {
		os.Rename(tmp, w.out)
	}
}

func envInt(name string, def int) int {
	if v := os.Getenv(name); v != "" {
		if n, err := strconv.Atoi(v); err == nil {
			return n
		}
	}
	return def
}

// RunWorker is the body of every engine's TestWorker.
func RunWorker[P any](t *testing.T, e Engine[P]) {
	prop := os.Getenv("VERIF_PROP")
	if prop == "" {
		t.Skip("VERIF_PROP not set: not running as a simulation worker")
	}
	tier := os.Getenv("VERIF_TIER")
	if tier == "" {
		tier = "quick"
	}
	seed, _ := strconv.ParseUint(os.Getenv("VERIF_SEED"), 10, 64)
	out := os.Getenv("VERIF_OUT")
	if out == "" {
		t.Fatal("VERIF_OUT not set")
	}
	if p := envInt("VERIF_PROCS", 0); p > 0 {
		runtime.GOMAXPROCS(p)
	}
	known := LoadKnown(os.Getenv("VERIF_KNOWN"))
	replayDir := os.Getenv("VERIF_REPLAY_DIR")
	total := e.Runs(prop, tier)
	if v := envInt("VERIF_RUNS", 0); v > 0 {
		total = v // the driver's --runs override
	}
	from := envInt("VERIF_FROM", 0)
	to := envInt("VERIF_TO", total)
	if to > total {
		to = total
	}
	wallBudget := time.Duration(envInt("VERIF_WALL_S", 0)) * time.Second
	runLimit := time.Duration(envInt("VERIF_RUN_LIMIT_S", 60)) * time.Second
	memLimit := uint64(envInt("VERIF_MEM_LIMIT_MB", 3072)) << 20

	ws := &workerState{out: out, sigs: map[uint64]struct{}{}}
	ws.rep = &Report{Property: prop, Engine: e.Name(), Tier: tier, Seed: seed, From: from, To: to, Done: from,
		Faults: map[string]int{}, Probes: map[string]int{}, Description: e.Describe(prop), GoVersion: runtime.Version(), Procs: runtime.GOMAXPROCS(0)}
	start := time.Now()

	// Real-time watchdog: a run that does not finish, or balloons the heap, is
	// reported with its plan and the process exits with status 3.
	go func() {
		var ms runtime.MemStats
		for {
			time.Sleep(250 * time.Millisecond)
			ws.mu.Lock()
			running, t0, plan, idx := ws.running, ws.curT0, ws.curPlan, ws.curIdx
			ws.mu.Unlock()
			if !running {
				continue
			}
			runtime.ReadMemStats(&ms)
			if b := time.Unix(0, lastBeat.Load()); b.After(t0) {
				t0 = b
			}
			over := time.Since(t0) > runLimit
			fat := ms.HeapAlloc > memLimit
			if over || fat {
				kind := "hang"
				if fat {
					kind = "balloon"
				}
				buf := make([]byte, 1<<20)
				buf = buf[:runtime.Stack(buf, true)]
				os.WriteFile(out+".stuck", buf, 0o644)
				ws.mu.Lock()
				ws.rep.WallS = time.Since(start).Seconds()
				ws.flush()
				ws.mu.Unlock()
				os.WriteFile(out+".cur", mustJSON(map[string]any{"run_index": idx, "plan": json.RawMessage(plan), "kind": kind, "heap": ms.HeapAlloc}), 0o644)
				os.Exit(3)
			}
		}
	}()

	execute := func(idx int, p *P) (res *Result) {
		pj, _ := json.Marshal(p)
		ws.mu.Lock()
		ws.curPlan, ws.curIdx, ws.curT0, ws.running = pj, idx, time.Now(), true
		Beat()
		ws.mu.Unlock()
		os.WriteFile(out+".cur", mustJSON(map[string]any{"run_index": idx, "plan": json.RawMessage(pj), "kind": "crash"}), 0o644)
		defer func() {
			ws.mu.Lock()
			ws.running = false
			ws.mu.Unlock()
		}()
		return e.Execute(t, prop, p)
	}

	if rf := os.Getenv("VERIF_REPLAY"); rf != "" {
		b, err := os.ReadFile(rf)
		if err != nil {
			t.Fatalf("replay: %v", err)
		}
		var f ReplayFile
		if err := json.Unmarshal(b, &f); err != nil {
			t.Fatalf("replay: %v", err)
		}
		var p P
		if err := json.Unmarshal(f.Plan, &p); err != nil {
			t.Fatalf("replay plan: %v", err)
		}
		res := execute(f.RunIndex, &p)
		ok := false
		note := ""
		for _, v := range res.Violations {
			if v.Key() == f.Violation.Key() {
				ok = true
			}
			ws.rep.Violations = append(ws.rep.Violations, &ViolationRecord{Violation: v, Replay: rf, RunIndex: f.RunIndex, Count: 1})
		}
		if ok && !f.Arbitrated && f.LogHash != "" && res.LogHash != f.LogHash {
			note = fmt.Sprintf("same violation, but event-log hash differs (%s vs recorded %s)", res.LogHash, f.LogHash)
		}
		ws.rep.ReplayOK = &ok
		ws.rep.ReplayNote = note
		ws.rep.Evaluations = 1
		ws.rep.WallS = time.Since(start).Seconds()
		ws.flush()
		return
	}

	digest := sha256.New()
	seenKeys := map[string]*ViolationRecord{}
	detEvery := 0
	if n := to - from; n > 0 {
		detEvery = max(1, n/3) // re-execute ~3 runs per worker as a light determinism self-check
	}
	for idx := from; idx < to; idx++ {
		if wallBudget > 0 && time.Since(start) > wallBudget {
			ws.rep.Truncated = true
			break
		}
		p := e.Generate(prop, tier, seed, idx)
		res := execute(idx, p)
		ws.mu.Lock()
		rep := ws.rep
		ev := res.Evals
		if ev <= 0 {
			ev = 1
		}
		rep.Evaluations += ev
		rep.SimNs += res.SimNs
		for k, v := range res.Faults {
			rep.Faults[k] += v
		}
		for k, v := range res.Probes {
			rep.Probes[k] += v
		}
		add := func(s uint64) {
			rep.NonTrivial++
			if _, ok := ws.sigs[s]; !ok {
				if len(ws.sigs) < maxSigs {
					ws.sigs[s] = struct{}{}
				} else {
					rep.SigOverflow++
				}
			}
		}
		if res.NonTrivial {
			add(res.Sig)
		}
		for _, s := range res.Sigs {
			add(s)
		}
		if res.Harness != "" && len(rep.Harness) < 20 {
			rep.Harness = append(rep.Harness, fmt.Sprintf("run %d: %s", idx, res.Harness))
		}
		if res.Sample != nil && len(rep.Samples) < 3 {
			rep.Samples = append(rep.Samples, res.Sample)
		}
		rep.Done = idx + 1
		if !res.Arbitrated {
			fmt.Fprintf(digest, "%d:%s\n", idx, res.LogHash)
		}
		rep.LogDigest = hex.EncodeToString(digest.Sum(nil)[:8])
		ws.mu.Unlock()

		// determinism self-check: same plan, same process, must give the same canonical log
		if detEvery > 0 && (idx-from)%detEvery == 0 && len(res.Violations) == 0 && !res.Arbitrated && res.LogHash != "" {
			res2 := execute(idx, p)
			ws.rep.DetChecked++
			if res2.LogHash != res.LogHash {
				ws.rep.Determinism = fmt.Sprintf("run %d: log hash %s then %s", idx, res.LogHash, res2.LogHash)
			}
		}

		for _, v := range res.Violations {
			if rec, ok := seenKeys[v.Key()]; ok {
				rec.Count++
				continue
			}
			rec := &ViolationRecord{Violation: v, RunIndex: idx, Count: 1}
			seenKeys[v.Key()] = rec
			if k := matchKnown(known, v); k != nil {
				rec.Known = k.What
				ws.rep.Violations = append(ws.rep.Violations, rec)
				continue
			}
			// minimise, then write the replay file
			best, bestRes, execs := p, res, 0
			t0 := time.Now()
			improved := true
			for improved && execs < 300 && time.Since(t0) < 60*time.Second {
				improved = false
				for _, c := range e.Shrink(prop, best) {
					if execs >= 300 || time.Since(t0) > 60*time.Second {
						break
					}
					execs++
					r2 := execute(idx, c)
					hit := false
					for _, v2 := range r2.Violations {
						if v2.Key() == v.Key() {
							hit = true
						}
					}
					if hit {
						best, bestRes, improved = c, r2, true
						break
					}
				}
			}
			pj, _ := json.Marshal(best)
			var bv Violation = v
			for _, v2 := range bestRes.Violations {
				if v2.Key() == v.Key() {
					bv = v2
				}
			}
			rf := ReplayFile{Property: prop, Engine: e.Name(), Seed: seed, RunIndex: idx, Tier: tier, Violation: bv, LogHash: bestRes.LogHash,
				Arbitrated: bestRes.Arbitrated, Minimised: execs > 0, ShrinkExecs: execs, GoVersion: runtime.Version(), RepoState: os.Getenv("VERIF_REPO_STATE"), Plan: pj}
			name := fmt.Sprintf("%s/%s-%d-%d-%s.json", replayDir, prop, seed, idx, shortHash(v.Key()))
			if replayDir != "" {
				os.MkdirAll(replayDir, 0o755)
				b, _ := json.MarshalIndent(rf, "", " ")
				os.WriteFile(name, b, 0o644)
				rec.Replay = name
			}
			rec.Minimised = execs > 0
			rec.Detail = bv.Detail
			ws.rep.Violations = append(ws.rep.Violations, rec)
		}
		if idx%64 == 0 {
			ws.mu.Lock()
			ws.rep.WallS = time.Since(start).Seconds()
			ws.flush()
			ws.mu.Unlock()
		}
	}
	ws.mu.Lock()
	ws.rep.WallS = time.Since(start).Seconds()
	ws.flush()
	ws.mu.Unlock()
	os.Remove(out + ".cur")
	debug.FreeOSMemory()
}

func mustJSON(v any) []byte {
	b, err := json.Marshal(v)
	if err != nil {
		panic(err)
	}
	return b
}

func shortHash(s string) string {
	h := sha256.Sum256([]byte(s))
	return hex.EncodeToString(h[:4])
}

// HashLog hashes a canonical event log.
func HashLog(lines []string) string {
	h := sha256.New()
	for _, l := range lines {
		h.Write([]byte(l))
		h.Write([]byte{'\n'})
	}
	return hex.EncodeToString(h.Sum(nil)[:8])
}

// SigOf folds strings into a 64-bit signature.
func SigOf(parts ...string) uint64 {
	h := sha256.New()
	for _, p := range parts {
		h.Write([]byte(p))
		h.Write([]byte{0})
	}
	s := h.Sum(nil)
	var x uint64
	for i := range 8 {
		x = x<<8 | uint64(s[i])
	}
	return x
}

// SizeClass buckets a length for schedule signatures.
func SizeClass(n int) string {
	switch {
	case n == 0:
		return "0"
	case n == 1:
		return "1"
	case n < 5:
		return "<5"
	case n == 5:
		return "5"
	case n < 64:
		return "<64"
	case n < 512:
		return "<512"
	case n < 4096:
		return "<4k"
	case n < 16384:
		return "<16k"
	default:
		return ">=16k"
	}
}

// LibFrame extracts the innermost frame of the library under test from a
// stack trace (function name only), for use as a violation site.
func LibFrame(stack string) string {
	for _, l := range strings.Split(stack, "\n") {
		l = strings.TrimSpace(l)
		if strings.HasPrefix(l, "github.com/c2FmZQ/ech") {
			if i := strings.LastIndex(l, "("); i > 0 {
				l = l[:i]
			}
			return strings.TrimPrefix(l, "github.com/c2FmZQ/")
		}
	}
	return "unknown"
}

// harnessPanicFrame returns the function that raised the panic when that
// function belongs to the simulator (module verifsim), "" otherwise.
func harnessPanicFrame(stack string) string {
	lines := strings.Split(stack, "\n")
	for i, l := range lines {
		if !strings.HasPrefix(l, "panic(") {
			continue
		}
		for _, m := range lines[i+1:] {
			if strings.HasPrefix(m, "\t") || strings.HasPrefix(m, "runtime.") || strings.HasPrefix(m, "panic(") || m == "" {
				continue
			}
			if strings.HasPrefix(m, "verifsim/") {
				if j := strings.LastIndex(m, "("); j > 0 {
					m = m[:j]
				}
				return m
			}
			return ""
		}
	}
	return ""
}

// Guard runs f and converts a panic into (panicked, message, site).
func Guard(f func()) (panicked bool, msg, site string) {
	defer func() {
		if r := recover(); r != nil {
			panicked = true
			msg = fmt.Sprint(r)
			site = LibFrame(string(debug.Stack()))
			if hf := harnessPanicFrame(string(debug.Stack())); hf != "" {
				// the panic was raised by code of the simulator itself (the first
				// frame below the runtime's): never the library's doing
				site = "harness:" + hf
			}
			if os.Getenv("VERIF_DEBUG_PANIC") != "" {
				fmt.Fprintf(os.Stderr, "Guard: panic %v\n%s\n", r, debug.Stack())
			}
		}
	}()
	f()
	return
}

// Leaked inspects all goroutines of the current synctest bubble (call it from
// the bubble's root after synctest.Wait()) and returns those that are still
// alive, split into goroutines with a frame of the library under test and
// others. Each entry is the innermost interesting function name.
var leakBuf = make([]byte, 256<<10)

func Leaked() (lib, other []string) {
	// (one buffer per process, grown on demand: a fresh multi-megabyte
	// allocation per run costs more than the run itself)
	n := runtime.Stack(leakBuf, true)
	for n == len(leakBuf) && len(leakBuf) < 64<<20 {
		leakBuf = make([]byte, 2*len(leakBuf))
		n = runtime.Stack(leakBuf, true)
	}
	buf := leakBuf[:n]
	self := true
	bubble := ""
	for _, g := range strings.Split(string(buf), "\n\n") {
		if self { // the first stanza is the calling goroutine; it names our bubble
			self = false
			if i := strings.Index(firstLineOf(g), "synctest bubble "); i >= 0 {
				bubble = strings.TrimRight(firstLineOf(g)[i:], "]:")
			}
			continue
		}
		// only goroutines of THIS bubble (an earlier run that ended in a
		// deadlock leaves its goroutines parked forever)
		if bubble == "" || !strings.Contains(firstLineOf(g), bubble+"]") {
			continue
		}
		if strings.Contains(g, "internal/synctest.Run") || strings.Contains(g, "testing/synctest.testingSynctestTest(") {
			continue
		}
		if os.Getenv("VERIF_DEBUG") != "" {
			fmt.Fprintf(os.Stderr, "LEAKED:\n%s\n\n", g)
		}
		if f := LibFrame(g); f != "unknown" {
			lib = append(lib, f)
			continue
		}
		lines := strings.Split(g, "\n")
		name := "?"
		if len(lines) > 1 {
			name = strings.TrimSpace(lines[1])
			if i := strings.LastIndex(name, "("); i > 0 {
				name = name[:i]
			}
		}
		other = append(other, name)
	}
	sort.Strings(lib)
	sort.Strings(other)
	return
}

func firstLineOf(s string) string {
	if i := strings.IndexByte(s, '\n'); i >= 0 {
		return s[:i]
	}
	return s
}

// PrintRuns prints the number of plans of the batch (used by the driver).
func PrintRuns[P any](t *testing.T, e Engine[P]) {
	prop := os.Getenv("VERIF_PROP")
	if prop == "" {
		t.Skip("VERIF_PROP not set")
	}
	tier := os.Getenv("VERIF_TIER")
	if tier == "" {
		tier = "quick"
	}
	fmt.Printf("RUNS=%d\n", e.Runs(prop, tier))
}
